package main

import (
	"fmt"
	"os"

	"gvh/fedlab"
)

// Hand-written cases for corpus/C01 (c01 handmade -name N -replaydir D writes the self-contained replay):
// one subgraph, no federation feature at all, the shape in which the finding was first seen.
//
//	interface Node { id: ID! profile: Profile }
//	type User implements Node { id: ID! profile: UserProfile }      <- covariant
//	type Product implements Node { id: ID! profile: Profile }   type Shop implements Node { id: ID! profile: Profile }
//	interface Profile { bio: String psecret: String link: Link }
//	type UserProfile implements Profile {..}  type BasicProfile implements Profile {..}  type Link { url note }
func handmadeConfig() (*fedlab.Config, *fedlab.Universe) {
	str := func() *fedlab.TypeRef { return fedlab.Named("String") }
	idf := func() *fedlab.FieldDef { return &fedlab.FieldDef{Name: "id", Type: fedlab.NonNull(fedlab.Named("ID"))} }
	prof := func() []*fedlab.FieldDef {
		return []*fedlab.FieldDef{{Name: "bio", Type: str()}, {Name: "psecret", Type: str()}, {Name: "link", Type: fedlab.Named("Link")}}
	}
	super := &fedlab.Schema{Query: "Query", Types: []*fedlab.TypeDef{
		{Kind: fedlab.KObject, Name: "Query", Fields: []*fedlab.FieldDef{{Name: "nodes", Type: fedlab.ListOf(fedlab.Named("Node"))}}},
		{Kind: fedlab.KInterface, Name: "Node", Fields: []*fedlab.FieldDef{idf(), {Name: "profile", Type: fedlab.Named("Profile")}}},
		{Kind: fedlab.KObject, Name: "User", Implements: []string{"Node"}, Fields: []*fedlab.FieldDef{idf(), {Name: "profile", Type: fedlab.Named("UserProfile")}}},
		{Kind: fedlab.KObject, Name: "Product", Implements: []string{"Node"}, Fields: []*fedlab.FieldDef{idf(), {Name: "profile", Type: fedlab.Named("Profile")}}},
		{Kind: fedlab.KObject, Name: "Shop", Implements: []string{"Node"}, Fields: []*fedlab.FieldDef{idf(), {Name: "profile", Type: fedlab.Named("Profile")}}},
		{Kind: fedlab.KInterface, Name: "Profile", Fields: prof()},
		{Kind: fedlab.KObject, Name: "UserProfile", Implements: []string{"Profile"}, Fields: prof()},
		{Kind: fedlab.KObject, Name: "BasicProfile", Implements: []string{"Profile"}, Fields: prof()},
		{Kind: fedlab.KObject, Name: "Link", Fields: []*fedlab.FieldDef{{Name: "url", Type: str()}, {Name: "note", Type: str()}}},
	}}
	home := &fedlab.Subgraph{Name: "home"}
	for _, td := range super.Types {
		st := &fedlab.SubType{Name: td.Name}
		for _, fd := range td.Fields {
			st.Fields = append(st.Fields, &fedlab.SubField{Name: fd.Name})
		}
		home.Types = append(home.Types, st)
	}
	cfg := &fedlab.Config{Super: super, Subgraphs: []*fedlab.Subgraph{home}, Lookups: map[string]fedlab.Lookup{}}
	sc := func(s string) *fedlab.FVal { return &fedlab.FVal{Kind: fedlab.FSc, JSON: fedlab.JS(s)} }
	ref := func(t, k string) *fedlab.FVal { return &fedlab.FVal{Kind: fedlab.FRef, Type: t, Key: k} }
	node := func(t, k, pt, pk string) *fedlab.Entity {
		return &fedlab.Entity{Type: t, Key: k, Fields: []fedlab.FV{{Name: "id", Val: sc(k)}, {Name: "profile", Val: ref(pt, pk)}}}
	}
	profile := func(t, k, l string) *fedlab.Entity {
		return &fedlab.Entity{Type: t, Key: k, Fields: []fedlab.FV{{Name: "bio", Val: sc(k + ".bio")}, {Name: "psecret", Val: sc(k + ".psecret")}, {Name: "link", Val: ref("Link", l)}}}
	}
	link := func(k string) *fedlab.Entity {
		return &fedlab.Entity{Type: "Link", Key: k, Fields: []fedlab.FV{{Name: "url", Val: sc(k + ".url")}, {Name: "note", Val: sc(k + ".note")}}}
	}
	uni := &fedlab.Universe{Ents: []*fedlab.Entity{
		{Type: "Query", Key: "", Fields: []fedlab.FV{{Name: "nodes", Val: &fedlab.FVal{Kind: fedlab.FLst, Items: []*fedlab.FVal{
			ref("User", "u1"), ref("Product", "p1"), ref("Product", "p2"), ref("Shop", "s1"), ref("Shop", "s2")}}}}},
		node("User", "u1", "UserProfile", "up1"), node("Product", "p1", "BasicProfile", "bp1"), node("Product", "p2", "UserProfile", "up2"),
		node("Shop", "s1", "UserProfile", "up3"), node("Shop", "s2", "BasicProfile", "bp2"),
		profile("UserProfile", "up1", "l1"), profile("UserProfile", "up2", "l2"), profile("UserProfile", "up3", "l4"),
		profile("BasicProfile", "bp1", "l3"), profile("BasicProfile", "bp2", "l5"),
		link("l1"), link("l2"), link("l3"), link("l4"), link("l5"),
	}}
	return cfg, uni
}

// handmadeFedConfig: the smallest federation with an entity hop on an interface (seeded regression C01-m4):
//
//	catalog: type Query { nodes: [Node!]! }  interface Node { id: ID! owner: User }
//	         type A implements Node { id extra owner }  type B implements Node { id owner }  type User @key(fields: "id") { id }
//	users:   type User @key(fields: "id") { id name: String! }
func handmadeFedConfig() (*fedlab.Config, *fedlab.Universe) {
	str := func() *fedlab.TypeRef { return fedlab.Named("String") }
	idf := func() *fedlab.FieldDef { return &fedlab.FieldDef{Name: "id", Type: fedlab.NonNull(fedlab.Named("ID"))} }
	owner := func() *fedlab.FieldDef { return &fedlab.FieldDef{Name: "owner", Type: fedlab.Named("User")} }
	super := &fedlab.Schema{Query: "Query", Types: []*fedlab.TypeDef{
		{Kind: fedlab.KObject, Name: "Query", Fields: []*fedlab.FieldDef{{Name: "nodes", Type: fedlab.NonNull(fedlab.ListOf(fedlab.NonNull(fedlab.Named("Node"))))}}},
		{Kind: fedlab.KInterface, Name: "Node", Fields: []*fedlab.FieldDef{idf(), owner()}},
		{Kind: fedlab.KObject, Name: "A", Implements: []string{"Node"}, Fields: []*fedlab.FieldDef{idf(), {Name: "extra", Type: str()}, owner()}},
		{Kind: fedlab.KObject, Name: "B", Implements: []string{"Node"}, Fields: []*fedlab.FieldDef{idf(), owner()}},
		{Kind: fedlab.KObject, Name: "User", Fields: []*fedlab.FieldDef{idf(), {Name: "name", Type: fedlab.NonNull(str())}}},
	}}
	sf := func(names ...string) []*fedlab.SubField {
		var out []*fedlab.SubField
		for _, n := range names {
			out = append(out, &fedlab.SubField{Name: n})
		}
		return out
	}
	cfg := &fedlab.Config{Super: super, Lookups: map[string]fedlab.Lookup{}, Subgraphs: []*fedlab.Subgraph{
		{Name: "catalog", Types: []*fedlab.SubType{
			{Name: "Query", Fields: sf("nodes")}, {Name: "Node", Fields: sf("id", "owner")},
			{Name: "A", Fields: sf("id", "extra", "owner")}, {Name: "B", Fields: sf("id", "owner")},
			{Name: "User", Keys: []string{"id"}, Fields: sf("id")}}},
		{Name: "users", Types: []*fedlab.SubType{
			{Name: "Query"}, {Name: "User", Keys: []string{"id"}, Fields: sf("id", "name")}}},
	}}
	sc := func(s string) *fedlab.FVal { return &fedlab.FVal{Kind: fedlab.FSc, JSON: fedlab.JS(s)} }
	ref := func(t, k string) *fedlab.FVal { return &fedlab.FVal{Kind: fedlab.FRef, Type: t, Key: k} }
	uni := &fedlab.Universe{Ents: []*fedlab.Entity{
		{Type: "Query", Key: "", Fields: []fedlab.FV{{Name: "nodes", Val: &fedlab.FVal{Kind: fedlab.FLst, Items: []*fedlab.FVal{ref("A", "a1"), ref("B", "b1")}}}}},
		{Type: "A", Key: "a1", Fields: []fedlab.FV{{Name: "id", Val: sc("a1")}, {Name: "extra", Val: sc("extra-a1")}, {Name: "owner", Val: ref("User", "u1")}}},
		{Type: "B", Key: "b1", Fields: []fedlab.FV{{Name: "id", Val: sc("b1")}, {Name: "owner", Val: ref("User", "u2")}}},
		{Type: "User", Key: "u1", Fields: []fedlab.FV{{Name: "id", Val: sc("u1")}, {Name: "name", Val: sc("name-u1")}}},
		{Type: "User", Key: "u2", Fields: []fedlab.FV{{Name: "id", Val: sc("u2")}, {Name: "name", Val: sc("name-u2")}}},
	}}
	return cfg, uni
}

// handmadeFedOps run on handmadeFedConfig; they pass on a correct engine (regression guards).
var handmadeFedOps = map[string][]*fedlab.Sel{
	// the entity hop on the interface and once more below `... on A`: two identical entity fetches for nodes.@.owner,
	// one unscoped, one scoped to [A], are de-duplicated -- the merged fetch must be unscoped, or B's owner is never fetched
	"entity-hop-on-interface-and-under-one-implementer": {fld("nodes",
		fld("owner", fld("name")),
		on("A", fld("extra"), fld("owner", fld("name"))))},
}

// handmadeNestedConfig: lists of lists (knob nestedlists) -- the shape of the loader defect repaired by /repo 3202cc0
// ("select the entities below a list of lists for entity fetches") and an interface over it:
//
//	grid:   type Query { board: [[Cell]]  shapes: [Shape] }  type Cell @key(fields: "id") { id: ID! }
//	        interface Shape { cells: [[Cell]] }  type Sq implements Shape { cells side: Int }  type Tri implements Shape { cells }
//	extras: type Cell @key(fields: "id") { id: ID! extra: String }
//
// board = [[c1, null, c2], null, [], [c1]]: a null and an empty inner list, a null item, c1 in two inner lists.
func handmadeNestedConfig() (*fedlab.Config, *fedlab.Universe) {
	idf := func() *fedlab.FieldDef { return &fedlab.FieldDef{Name: "id", Type: fedlab.NonNull(fedlab.Named("ID"))} }
	ll := func(n string) *fedlab.TypeRef { return fedlab.ListOf(fedlab.ListOf(fedlab.Named(n))) }
	cells := func() *fedlab.FieldDef { return &fedlab.FieldDef{Name: "cells", Type: ll("Cell")} }
	super := &fedlab.Schema{Query: "Query", Types: []*fedlab.TypeDef{
		{Kind: fedlab.KObject, Name: "Query", Fields: []*fedlab.FieldDef{{Name: "board", Type: ll("Cell")}, {Name: "shapes", Type: fedlab.ListOf(fedlab.Named("Shape"))}}},
		{Kind: fedlab.KObject, Name: "Cell", Fields: []*fedlab.FieldDef{idf(), {Name: "extra", Type: fedlab.Named("String")}}},
		{Kind: fedlab.KInterface, Name: "Shape", Fields: []*fedlab.FieldDef{cells()}},
		{Kind: fedlab.KObject, Name: "Sq", Implements: []string{"Shape"}, Fields: []*fedlab.FieldDef{cells(), {Name: "side", Type: fedlab.Named("Int")}}},
		{Kind: fedlab.KObject, Name: "Tri", Implements: []string{"Shape"}, Fields: []*fedlab.FieldDef{cells()}},
	}}
	sf := func(names ...string) []*fedlab.SubField {
		var out []*fedlab.SubField
		for _, n := range names {
			out = append(out, &fedlab.SubField{Name: n})
		}
		return out
	}
	cfg := &fedlab.Config{Super: super, Lookups: map[string]fedlab.Lookup{}, Subgraphs: []*fedlab.Subgraph{
		{Name: "grid", Types: []*fedlab.SubType{
			{Name: "Query", Fields: sf("board", "shapes")}, {Name: "Cell", Keys: []string{"id"}, Fields: sf("id")},
			{Name: "Shape", Fields: sf("cells")}, {Name: "Sq", Fields: sf("cells", "side")}, {Name: "Tri", Fields: sf("cells")}}},
		{Name: "extras", Types: []*fedlab.SubType{
			{Name: "Query"}, {Name: "Cell", Keys: []string{"id"}, Fields: sf("id", "extra")}}},
	}}
	sc := func(s string) *fedlab.FVal { return &fedlab.FVal{Kind: fedlab.FSc, JSON: fedlab.JS(s)} }
	ref := func(t, k string) *fedlab.FVal { return &fedlab.FVal{Kind: fedlab.FRef, Type: t, Key: k} }
	lst := func(items ...*fedlab.FVal) *fedlab.FVal { return &fedlab.FVal{Kind: fedlab.FLst, Items: items} }
	null := func() *fedlab.FVal { return &fedlab.FVal{Kind: fedlab.FNullRef} }
	nullList := func() *fedlab.FVal { return &fedlab.FVal{Kind: fedlab.FSc, JSON: fedlab.JN()} }
	c1, c2 := ref("Cell", "c1"), ref("Cell", "c2")
	uni := &fedlab.Universe{Ents: []*fedlab.Entity{
		{Type: "Query", Key: "", Fields: []fedlab.FV{
			{Name: "board", Val: lst(lst(c1, null(), c2), nullList(), lst(), lst(c1))},
			{Name: "shapes", Val: lst(ref("Sq", "sq1"), ref("Tri", "tri1"))}}},
		{Type: "Cell", Key: "c1", Fields: []fedlab.FV{{Name: "id", Val: sc("c1")}, {Name: "extra", Val: sc("extra-c1")}}},
		{Type: "Cell", Key: "c2", Fields: []fedlab.FV{{Name: "id", Val: sc("c2")}, {Name: "extra", Val: sc("extra-c2")}}},
		{Type: "Sq", Key: "sq1", Fields: []fedlab.FV{{Name: "cells", Val: lst(lst(c1), lst(c2, c1))}, {Name: "side", Val: &fedlab.FVal{Kind: fedlab.FSc, JSON: fedlab.JNumRaw("2")}}}},
		{Type: "Tri", Key: "tri1", Fields: []fedlab.FV{{Name: "cells", Val: lst(lst(c2), lst())}}},
	}}
	return cfg, uni
}

var handmadeNestedOps = map[string][]*fedlab.Sel{
	// passes on a correct engine (regression guard for /repo 3202cc0): Cell.extra lives in the other subgraph, the
	// parent objects of the _entities fetch sit below a list of lists
	"entity-fetch-below-list-of-lists": {fld("board", fld("id"), fld("extra"))},
	// the same below an interface, the hop selected bare and once more under one implementer
	"entity-fetch-below-list-of-lists-on-interface": {fld("shapes", fld("cells", fld("extra")), on("Sq", fld("side")))},
	// one subgraph would do: `cells` selected on the interface and once more under `... on Sq`; postprocess merges the two
	// `cells` fields, but mergeValues only looks through ONE resolve.Array level, so the second field's sub-selection
	// (id) is dropped from the response plan: the data is fetched and never rendered
	"merge-fields-drops-selection-below-list-of-lists": {fld("shapes", fld("cells", fld("__typename")), on("Sq", fld("cells", fld("id"))))},
}

// handmadeListReqConfig: a list-valued @requires input (knob listrequires) -- the shape of seeded regression C01-m9:
//
//	catalog: type Query { products: [Product] }  type Product @key(fields: "id") { id: ID! tags: [String]! }
//	search:  type Product @key(fields: "id") { id: ID! tags: [String]! @external
//	                                          tagLine: String @requires(fields: "tags")  tagCount: String! @requires(fields: "tags") }
//
// p1.tags = ["red", null, "blue"] (a null item is legal in [String]!), p2.tags = [], p3.tags = ["red", "red"].
func handmadeListReqConfig() (*fedlab.Config, *fedlab.Universe) {
	str := func() *fedlab.TypeRef { return fedlab.Named("String") }
	super := &fedlab.Schema{Query: "Query", Types: []*fedlab.TypeDef{
		{Kind: fedlab.KObject, Name: "Query", Fields: []*fedlab.FieldDef{{Name: "products", Type: fedlab.ListOf(fedlab.Named("Product"))}}},
		{Kind: fedlab.KObject, Name: "Product", Fields: []*fedlab.FieldDef{
			{Name: "id", Type: fedlab.NonNull(fedlab.Named("ID"))},
			{Name: "tags", Type: fedlab.NonNull(fedlab.ListOf(str()))},
			{Name: "tagLine", Type: str()},
			{Name: "tagCount", Type: fedlab.NonNull(str())}}},
	}}
	cfg := &fedlab.Config{Super: super, Lookups: map[string]fedlab.Lookup{}, Subgraphs: []*fedlab.Subgraph{
		{Name: "catalog", Types: []*fedlab.SubType{
			{Name: "Query", Fields: []*fedlab.SubField{{Name: "products"}}},
			{Name: "Product", Keys: []string{"id"}, Fields: []*fedlab.SubField{{Name: "id"}, {Name: "tags"}}}}},
		{Name: "search", Types: []*fedlab.SubType{
			{Name: "Query"},
			{Name: "Product", Keys: []string{"id"}, Fields: []*fedlab.SubField{{Name: "id"}, {Name: "tags", External: true},
				{Name: "tagLine", Requires: "tags"}, {Name: "tagCount", Requires: "tags"}}}}},
	}}
	sc := func(j *fedlab.J) *fedlab.FVal { return &fedlab.FVal{Kind: fedlab.FSc, JSON: j} }
	ref := func(t, k string) *fedlab.FVal { return &fedlab.FVal{Kind: fedlab.FRef, Type: t, Key: k} }
	req := func() *fedlab.FVal { return &fedlab.FVal{Kind: fedlab.FReq, Req: []string{"tags"}} }
	product := func(k string, tags *fedlab.J) *fedlab.Entity {
		return &fedlab.Entity{Type: "Product", Key: k, Fields: []fedlab.FV{{Name: "id", Val: sc(fedlab.JS(k))}, {Name: "tags", Val: sc(tags)},
			{Name: "tagLine", Val: req()}, {Name: "tagCount", Val: req()}}}
	}
	uni := &fedlab.Universe{Ents: []*fedlab.Entity{
		{Type: "Query", Key: "", Fields: []fedlab.FV{{Name: "products", Val: &fedlab.FVal{Kind: fedlab.FLst, Items: []*fedlab.FVal{
			ref("Product", "p1"), ref("Product", "p2"), ref("Product", "p3")}}}}},
		product("p1", fedlab.JA(fedlab.JS("red"), fedlab.JN(), fedlab.JS("blue"))),
		product("p2", fedlab.JA()),
		product("p3", fedlab.JA(fedlab.JS("red"), fedlab.JS("red"))),
	}}
	return cfg, uni
}

var handmadeListReqOps = map[string][]*fedlab.Sel{
	// passes on a correct engine (regression guard, seeded regression C01-m9): the representation of p1 carries
	// "tags":["red",null,"blue"]; were the items of [String]! rendered as non-nullable, p1 would be dropped from the batch
	"requires-input-list-with-null-item": {fld("products", fld("id"), fld("tagLine"))},
	// the same with a non-null dependent field and the input selected next to it
	"requires-input-list-with-null-item-non-null-dependent": {fld("products", fld("id"), fld("tags"), fld("tagCount"))},
}

func fld(name string, sels ...*fedlab.Sel) *fedlab.Sel {
	return &fedlab.Sel{Kind: fedlab.SField, Name: name, Sels: sels}
}
func on(typ string, sels ...*fedlab.Sel) *fedlab.Sel {
	return &fedlab.Sel{Kind: fedlab.SInline, On: typ, Sels: sels}
}

var handmadeOps = map[string][]*fedlab.Sel{
	// the same at object level (not repaired by work/c01_fix_merge-scalars.patch): link is selected under
	// (Product, any) and (any, UserProfile); the merged plan keeps one link object that only applies below a Product,
	// u1 and s1 lose it
	"merge-fields-object-keeps-parent-condition": {fld("nodes",
		on("Product", fld("profile", fld("link", fld("url")))),
		fld("profile", on("UserProfile", fld("link", fld("note")))))},
	// User.profile: UserProfile and Product.profile: Profile "differ only in nullability" for
	// abstract_selection_field_alias.go, both member selections are aliased upstream
	// (__internal_merge_User_profile: profile {..}), the aliased objects keep their own data path, postprocess merges
	// them into the bare `profile` by response name: psecret is read from the wrong object and comes back null
	"merge-alias-on-composite-field-lost-in-field-merge": {fld("nodes",
		fld("profile", fld("bio")),
		on("User", fld("profile", fld("psecret"))),
		on("Product", fld("profile", fld("psecret"))))},
	// psecret is selected under (any, UserProfile) and under (User, any): Product p2, whose profile is a UserProfile,
	// must have it -- the merged plan keeps one psecret field that only applies below a User
	"merge-scalars-conjoins-type-conditions": {fld("nodes",
		fld("profile", fld("bio"), on("UserProfile", fld("psecret"))),
		on("User", fld("profile", fld("psecret"))))},
	// no covariance involved: the same selection twice, the second one below `... on Product`; (any, UserProfile) covers
	// (Product, UserProfile), but the merged field keeps both conditions and u1 / s1 lose psecret
	"merge-scalars-keeps-the-narrower-condition": {fld("nodes",
		fld("profile", on("UserProfile", fld("psecret"))),
		on("Product", fld("profile", on("UserProfile", fld("psecret")))))},
	// url is selected under (Product, UserProfile) and (Shop, BasicProfile); merging the parent types per level also
	// admits (Product, BasicProfile) and (Shop, UserProfile): p1 and s1 get "url": null, a key never selected there
	"merge-scalars-admits-unselected-combination": {fld("nodes",
		fld("profile", fld("link", fld("note"))),
		on("Product", fld("profile", on("UserProfile", fld("link", fld("url"))))),
		on("Shop", fld("profile", on("BasicProfile", fld("link", fld("url"))))))},
}

func cmdHandmade(a map[string]string) {
	sels, ok := handmadeOps[a["name"]]
	cfg, uni := handmadeConfig()
	knobs := fedlab.Knobs{"interfaces": true, "lists": true, "inlinefragments": true, "covariant": true}
	if fsels, fok := handmadeFedOps[a["name"]]; fok {
		sels, ok = fsels, true
		cfg, uni = handmadeFedConfig()
		knobs = fedlab.Knobs{"interfaces": true, "lists": true, "nonnull": true, "inlinefragments": true, "scopedhops": true}
	}
	if nsels, nok := handmadeNestedOps[a["name"]]; nok {
		sels, ok = nsels, true
		cfg, uni = handmadeNestedConfig()
		knobs = fedlab.Knobs{"interfaces": true, "lists": true, "nulls": true, "inlinefragments": true, "nestedlists": true}
	}
	if lsels, lok := handmadeListReqOps[a["name"]]; lok {
		sels, ok = lsels, true
		cfg, uni = handmadeListReqConfig()
		knobs = fedlab.Knobs{"lists": true, "nonnull": true, "nulls": true, "requires": true, "listrequires": true}
	}
	if !ok {
		fmt.Println("unknown name; known:")
		for n := range handmadeListReqOps {
			fmt.Println("  " + n)
		}
		for n := range handmadeOps {
			fmt.Println("  " + n)
		}
		for n := range handmadeFedOps {
			fmt.Println("  " + n)
		}
		for n := range handmadeNestedOps {
			fmt.Println("  " + n)
		}
		os.Exit(2)
	}
	c := &fedlab.Case{Knobs: knobs, Cfg: cfg, Uni: uni, Op: &fedlab.Operation{Sels: sels, Variables: fedlab.JO()}}
	r := &runner{replays: a["replaydir"]}
	defer r.close()
	v, err := r.run(c, "handmade")
	if err != nil || v.LabError != "" {
		fmt.Println("lab error:", err, v)
		os.Exit(2)
	}
	rp := mkReplay(c, v, true, r.lab)
	rp.ShrunkFrom = "hand-written (harness/cmd/c01/handmade.go): " + a["name"]
	rp.Rerun = "harness/bin/c01 replay -in <this file> -v 1"
	fmt.Println("op:", c.Op.Text())
	fmt.Println("failed:", v.Failed(), v.FailDetail())
	if v.Gateway != nil {
		fmt.Println("gateway:  ", string(v.Gateway.Response))
	}
	if v.Ref != nil {
		fmt.Println("reference:", v.Ref.Data.String())
	}
	if r.replays != "" {
		p := r.writeReplay(rp, "-"+a["name"])
		fmt.Println("replay:", p)
	}
}
