// c01: federated execution equals monolithic execution.  Generates (configuration, universe,
// operation) cases with gvh/fedlab, runs each through the real ExecutionEngine over semantic
// subgraphs answered by the Coq-extracted reference executor, and compares with the monolithic
// execution of the same operation by that executor.
//
//	c01 gen    -seed S -n N [-from I] [-unis U] [-knobs K] -out cases [-replaydir D] [-shrink M] [-shrinkskip RE] [-seeded misroute]
//	c01 one    -seed S -index I [-uni J] [-knobs K] [-exact 1] [-v 1]
//	c01 replay -in FILE|DIR [-out cases] [-replaydir D] [-v 1]   (self-contained replay / corpus files)
//	c01 shrink -seed S -index I [-uni J] [-knobs K]
//	c01 probe  -in FILE [-op 'query text'] [-vars JSON] [-plan 1]   (hand-narrowing on a stored configuration)
package main

import (
	"bufio"
	"bytes"
	"encoding/json"
	"fmt"
	"math/rand/v2"
	"os"
	"os/exec"
	"path/filepath"
	"regexp"
	"strings"
	"time"

	"gvh/common"
	"gvh/fedlab"

	"github.com/wundergraph/graphql-go-tools/v2/pkg/engine/plan"
)

type runner struct {
	exec     *fedlab.ExecServer
	lab      *fedlab.Lab
	labKey   string
	labUni   string
	replays  string
	nReplays int
	seeded   string // self-test: a defect injected into the planner metadata ("misroute")
	// shrinkShape: while shrinking, the failureShape every accepted candidate must keep
	shrinkShape string
}

// seededMetadata injects a configuration defect the check must notice: every subgraph claims,
// for each entity it declares, one field that only another subgraph has.
func (r *runner) seededMetadata(cfg *fedlab.Config) func(g *fedlab.Subgraph, md *plan.DataSourceMetadata) {
	if r.seeded == "ownexternal" {
		// every @external field is claimed as owned: the planner may fetch it from a subgraph
		// that cannot resolve it (the upstream query stays valid, only request_owned notices)
		return func(g *fedlab.Subgraph, md *plan.DataSourceMetadata) {
			for i := range md.RootNodes {
				md.RootNodes[i].FieldNames = append(md.RootNodes[i].FieldNames, md.RootNodes[i].ExternalFieldNames...)
				md.RootNodes[i].ExternalFieldNames = nil
			}
		}
	}
	if r.seeded != "misroute" {
		return nil
	}
	return func(g *fedlab.Subgraph, md *plan.DataSourceMetadata) {
		for i := range md.RootNodes {
			tn := md.RootNodes[i].TypeName
			st, sup := g.Type(tn), cfg.Super.Type(tn)
			if tn == cfg.Super.Query || st == nil || sup == nil {
				continue
			}
			for _, fd := range sup.Fields {
				if st.Field(fd.Name) == nil {
					md.RootNodes[i].FieldNames = append(md.RootNodes[i].FieldNames, fd.Name)
					break
				}
			}
		}
	}
}

func (r *runner) close() {
	if r.lab != nil {
		r.lab.Close()
	}
	if r.exec != nil {
		r.exec.Close()
	}
}

// labFor returns a Lab for the case's configuration (one engine per configuration; the universe
// is swapped in the executor).
func (r *runner) labFor(c *fedlab.Case, key string) (*fedlab.Lab, error) {
	if r.exec == nil {
		e, err := fedlab.NewExecServer("")
		if err != nil {
			return nil, err
		}
		r.exec = e
	}
	uniKey := fmt.Sprintf("%s/u%d", key, c.UniIdx)
	if r.lab != nil && r.labKey == key {
		if r.labUni != uniKey {
			if err := r.lab.SetUniverse(c.Uni); err != nil {
				return nil, err
			}
			r.labUni = uniKey
		}
		return r.lab, nil
	}
	if r.lab != nil {
		r.lab.Close()
		r.lab = nil
	}
	lab, err := fedlab.NewLab(c.Cfg, c.Uni, r.exec, fedlab.EngineOptions{DataSourceMetadata: r.seededMetadata(c.Cfg)})
	if err != nil {
		return nil, err
	}
	r.lab, r.labKey, r.labUni = lab, key, uniKey
	return lab, nil
}

func (r *runner) run(c *fedlab.Case, key string) (*fedlab.Verdict, error) {
	lab, err := r.labFor(c, key)
	if err != nil {
		return nil, err
	}
	var ro *fedlab.RunOptions
	if ms := os.Getenv("C01_DELAY_MS"); ms != "" {
		// experiment: hold every subgraph response for a while so that concurrent fetches overlap
		var n int
		fmt.Sscan(ms, &n)
		ro = &fedlab.RunOptions{BeforeRespond: func(int, *fedlab.Request) fedlab.Action {
			return fedlab.Action{Delay: time.Duration(rand.IntN(n*1000+1)) * time.Microsecond}
		}}
	}
	v := fedlab.Check(lab, c.Op.Text(), c.Op.Name, []byte(c.Op.VariablesJSON()), ro)
	if os.Getenv("C01_VALIDATE") != "" && v.LabError == "" {
		// generator self-check: every generated operation must pass the repo's own normaliser + validator
		if err := lab.Validate(c.Op.Text()); err != nil {
			v.LabError = "generated operation rejected by the validator: " + fedlab.Trunc(err.Error(), 300)
		}
	}
	diagnose(c, lab, v)
	return v, nil
}

// diagnose extends the detail of a data_equal failure with what a narrow classification needs: the response
// position of the first difference, the type-condition combinations the operation selects that position under,
// and the fields (with their type conditions) the post-processed response plan holds for it.
func diagnose(c *fedlab.Case, lab *fedlab.Lab, v *fedlab.Verdict) {
	if v.Panicked && strings.HasPrefix(v.PlanError, "panic in Execute") && !strings.Contains(v.PlanError, "| frames: ") {
		// the innermost frames of the library, so that a panic can be classified by where it happened
		var frames []string
		for _, m := range repoFrameRE.FindAllStringSubmatch(v.PlanError, -1) {
			if frames = append(frames, m[1]); len(frames) == 4 {
				break
			}
		}
		if k := strings.Index(v.PlanError, " | "); k > 0 {
			v.PlanError = v.PlanError[:k] + " | frames: " + strings.Join(frames, " <- ") + v.PlanError[k:]
		}
		return
	}
	if v.LabError != "" || !v.PlanningOK || v.DataEqual || v.Gateway == nil || v.Ref == nil {
		return
	}
	// (an empty position: the whole data is null, a non-null violation went all the way up)
	pos := fedlab.DiffPosition(v.Gateway.Data, v.Ref.Data)
	var combos, fields []string
	var err error
	if len(pos) > 0 {
		combos = c.CondCombos()[strings.Join(pos, ".")]
		fields, err = lab.PlanFields(c.Op.Text(), c.Op.Name, []byte(c.Op.VariablesJSON()), pos)
	}
	nFields := len(fields)
	if nFields > 6 {
		fields = append(fields[:6:6], fmt.Sprintf("(+%d more)", nFields-6))
	}
	pf := strings.Join(fields, " | ")
	if err != nil {
		pf = "unavailable: " + fedlab.Trunc(err.Error(), 80)
	}
	// planner-made upstream aliases (abstract_selection_field_alias.go) of a response key on the way to the position
	var aliases []string
	seen := map[string]bool{}
	// a non-null violation below the position nulls the position itself: the keys of such error paths count too
	keys := append([]string(nil), pos...)
	if v.Gateway.Errors != nil {
		for _, e := range v.Gateway.Errors.Items {
			if p := e.Get("path"); p != nil && p.Kind == fedlab.JArr {
				var ks []string
				for _, x := range p.Items {
					if x.Kind == fedlab.JStr {
						ks = append(ks, x.Raw)
					}
				}
				if len(ks) > len(pos) && strings.Join(ks[:len(pos)], ".") == strings.Join(pos, ".") {
					keys = append(keys, ks[len(pos):]...)
				}
			}
		}
	}
	for _, q := range v.Gateway.Requests {
		for _, a := range mergeAliasRE.FindAllString(q.Query, -1) {
			for _, key := range keys {
				if strings.HasSuffix(a, "_"+key) && !seen[a] {
					seen[a] = true
					aliases = append(aliases, a)
				}
			}
		}
	}
	posText := "(root)"
	if len(pos) > 0 {
		posText = strings.Join(pos, ".")
	}
	v.Diff = fedlab.Trunc(v.Diff, 260) + fmt.Sprintf(" ;; position %s selected under %d condition combination(s) {%s}; plan fields {%s}; upstream merge aliases {%s}",
		posText, len(combos), strings.Join(combos, " , "), pf, strings.Join(aliases, ","))
	if lost := nullRequiresInputs(c, v); len(lost) > 0 {
		v.Diff += fmt.Sprintf("; requires inputs sent as null {%s}", strings.Join(lost, ","))
	}
}

// nullRequiresInputs: "T.f@subgraph(provided by s2)" for every @requires input f that an _entities representation sent
// to `subgraph` carries as null although the universe holds a non-null value for that entity and some subgraph s2
// @provides T.f (the entity is identified by the representation's id: the universe contract makes id the entity key).
func nullRequiresInputs(c *fedlab.Case, v *fedlab.Verdict) []string {
	var out []string
	seen := map[string]bool{}
	for _, q := range v.Gateway.Requests {
		g := c.Cfg.Subgraph(q.Subgraph)
		if g == nil || !q.IsEntityFetch {
			continue
		}
		for _, rep := range q.Representations {
			tn, id := rep.Get("__typename"), rep.Get("id")
			if tn == nil || id == nil || tn.Kind != fedlab.JStr || id.Kind != fedlab.JStr {
				continue
			}
			st, e := g.Type(tn.Raw), c.Uni.Find(tn.Raw, id.Raw)
			if st == nil || e == nil {
				continue
			}
			for _, sf := range st.Fields {
				for _, in := range strings.Fields(sf.Requires) {
					rv, uv := rep.Get(in), e.Field(in)
					if rv == nil || rv.Kind != fedlab.JNull || uv == nil || uv.Kind != fedlab.FSc || uv.JSON == nil || uv.JSON.Kind == fedlab.JNull {
						continue
					}
					for _, g2 := range c.Cfg.Subgraphs {
						for _, st2 := range g2.Types {
							for _, sf2 := range st2.Fields {
								td := c.Cfg.Super.Type(st2.Name)
								if td == nil || td.Field(sf2.Name) == nil || td.Field(sf2.Name).Type.Base() != tn.Raw {
									continue
								}
								for _, pn := range strings.Fields(sf2.Provides) {
									tag := fmt.Sprintf("%s.%s@%s(provided by %s)", tn.Raw, in, g.Name, g2.Name)
									if pn == in && !seen[tag] {
										seen[tag] = true
										out = append(out, tag)
									}
								}
							}
						}
					}
				}
			}
		}
	}
	return out
}

var repoFrameRE = regexp.MustCompile(`github\.com/wundergraph/graphql-go-tools/(?:v2|execution)/(pkg/[\w/]+\.[\w.()*\[\]]+)\(`)
var mergeAliasRE = regexp.MustCompile(`__internal_merge_\w+`)

// ---------------------------------------------------------------- replay files

type replayReq struct {
	Index     int             `json:"index"`
	Subgraph  string          `json:"subgraph"`
	Query     string          `json:"query"`
	Variables json.RawMessage `json:"variables,omitempty"`
	Response  json.RawMessage `json:"response,omitempty"`
	Invalid   string          `json:"invalid,omitempty"`
}

type replay struct {
	Seed        uint64            `json:"seed"`
	Index       int               `json:"index"`
	Uni         int               `json:"uni"`
	Knobs       string            `json:"knobs"`
	Exact       bool              `json:"exact_knobs"`
	Failed      []string          `json:"failed"`
	Detail      string            `json:"detail"`
	Rerun       string            `json:"rerun"`
	SuperSDL    string            `json:"supergraph_sdl"`
	SubSDL      map[string]string `json:"subgraph_sdl"`
	Operation   string            `json:"operation"`
	Variables   json.RawMessage   `json:"variables"`
	Universe    string            `json:"universe"`
	Gateway     string            `json:"gateway_response"`
	GatewayErr  string            `json:"gateway_error,omitempty"`
	Reference   string            `json:"reference_data"`
	RefErrors   int               `json:"reference_errors"`
	Requests    []replayReq       `json:"requests"`
	Violations  []string          `json:"violations,omitempty"`
	ShrunkFrom  string            `json:"shrunk_from,omitempty"`
	ShrinkSteps []string          `json:"shrink_steps,omitempty"`
	Case        *savedCase        `json:"case,omitempty"`
}

func raw(b []byte) json.RawMessage {
	if len(b) == 0 || !json.Valid(b) {
		q, _ := json.Marshal(string(b))
		return q
	}
	return json.RawMessage(b)
}

func mkReplay(c *fedlab.Case, v *fedlab.Verdict, exact bool, lab *fedlab.Lab) *replay {
	rp := &replay{Seed: c.Seed, Index: c.Index, Uni: c.UniIdx, Knobs: c.Knobs.String(), Exact: exact,
		Failed: v.Failed(), Detail: v.FailDetail(), Operation: c.Op.Text(), Variables: raw([]byte(c.Op.VariablesJSON())),
		Universe: c.Uni.Sexp(), SubSDL: map[string]string{}}
	rp.Rerun = fmt.Sprintf("harness/bin/c01 one -seed %d -index %d -uni %d -knobs %s -exact 1 -v 1", c.Seed, c.Index, c.UniIdx, c.Knobs.String())
	rp.SuperSDL = c.Cfg.Super.SDL()
	for _, g := range c.Cfg.Subgraphs {
		rp.SubSDL[g.Name] = c.Cfg.SubgraphSDL(g)
	}
	if v.Gateway != nil {
		rp.Gateway = string(v.Gateway.Response)
		if v.Gateway.Err != nil {
			rp.GatewayErr = v.Gateway.Err.Error()
		}
		for _, q := range v.Gateway.Requests {
			rr := replayReq{Index: q.Index, Subgraph: q.Subgraph, Query: q.Query, Response: raw(q.Response)}
			if q.Variables != nil {
				rr.Variables = raw([]byte(q.Variables.String()))
			}
			if q.Result != nil {
				rr.Invalid = q.Result.Invalid
			}
			rp.Requests = append(rp.Requests, rr)
		}
	}
	if v.Ref != nil {
		rp.Reference = v.Ref.Data.String()
		rp.RefErrors = v.Ref.NErrors
	}
	rp.Violations = append(rp.Violations, v.InvalidRequests...)
	rp.Violations = append(rp.Violations, v.NotOwned...)
	rp.Violations = append(rp.Violations, v.ReprIncomplete...)
	rp.Case = saveCase(c)
	return rp
}

func (r *runner) writeReplay(rp *replay, suffix string) string {
	if r.replays == "" {
		return ""
	}
	os.MkdirAll(r.replays, 0o755)
	p := filepath.Join(r.replays, fmt.Sprintf("c01-%d-%d-%d%s.json", rp.Seed, rp.Index, rp.Uni, suffix))
	b, _ := json.MarshalIndent(rp, "", " ")
	os.WriteFile(p, b, 0o644)
	r.nReplays++
	return p
}

// ---------------------------------------------------------------- case lines

func flag(b bool) string { return common.B(b) }

// caseLine: what the extracted checker reads.  gw / ref are the data trees; flags are the
// clause inputs computed by the harness.
func caseLine(c *fedlab.Case, v *fedlab.Verdict, replayPath string) string {
	id := fmt.Sprintf("(id %d %d %d %s)", c.Seed, c.Index, c.UniIdx, common.QS(c.Knobs.String()))
	if v.LabError != "" {
		return common.L("c01", id, "(laberror "+common.QS(v.LabError)+")")
	}
	gw, ref := "(absent)", "(n)"
	if v.Gateway != nil && v.Gateway.Data != nil {
		gw = v.Gateway.Data.Sexp()
	}
	if v.Ref != nil {
		ref = v.Ref.Data.Sexp()
	}
	return common.L("c01", id, c.Summary(v),
		common.L("flags", "(planning "+flag(v.PlanningOK)+")", "(gwerrors "+flag(v.GatewayErrors)+")", "(referrors "+flag(v.RefErrors)+")",
			"(reqvalid "+flag(len(v.InvalidRequests) == 0)+")", "(owned "+flag(len(v.NotOwned) == 0)+")",
			"(reprs "+flag(len(v.ReprIncomplete) == 0)+")", "(goequal "+flag(v.DataEqual)+")", "(orderonly "+flag(v.OrderOnly)+")", "(panic "+flag(v.Panicked)+")"),
		common.L("gw", gw), common.L("ref", ref),
		common.L("detail", common.QS(fedlab.Trunc(v.FailDetail(), 900))), common.L("replay", common.QS(replayPath)),
		common.L("op", common.QS(fedlab.Trunc(c.Op.Text(), 400))))
}

// ---------------------------------------------------------------- commands

// lineWriter appends case lines to the cases file and flushes each one, so that a worker
// killed by a panic in an engine goroutine loses nothing.
type lineWriter struct{ f *os.File }

func newLineWriter(path string, truncate bool) *lineWriter {
	if path == "" || path == "-" {
		return &lineWriter{os.Stdout}
	}
	flags := os.O_CREATE | os.O_WRONLY | os.O_APPEND
	if truncate {
		flags = os.O_CREATE | os.O_WRONLY | os.O_TRUNC
	}
	f, err := os.OpenFile(path, flags, 0o644)
	if err != nil {
		panic(err)
	}
	return &lineWriter{f}
}
func (w *lineWriter) Line(s string) { fmt.Fprintln(w.f, s) }
func (w *lineWriter) Close() {
	if w.f != os.Stdout {
		w.f.Close()
	}
}

// supervise re-runs this program as a worker (-worker 1) and restarts it after the case that
// killed it: a panic inside an engine goroutine cannot be recovered in-process, so the case being
// run is reported under clause no_panic (with a replay) and the remaining cases still run.
// The worker announces every case on stdout ("BEGIN <token>"); onCrash turns the last token into
// the case line and the arguments that resume after it.
func supervise(cmd string, a map[string]string, onCrash func(token, stderrTail string) (line string, resume map[string]string)) {
	out := newLineWriter(a["out"], true)
	out.Close()
	args := map[string]string{}
	for k, v := range a {
		args[k] = v
	}
	args["worker"] = "1"
	self, _ := os.Executable()
	for { // every restart resumes after the case that killed the worker, so this terminates
		argv := []string{cmd}
		for k, v := range args {
			argv = append(argv, "-"+k, v)
		}
		c := exec.Command(self, argv...)
		stdout, _ := c.StdoutPipe()
		var errBuf bytes.Buffer
		c.Stderr = &errBuf
		if err := c.Start(); err != nil {
			fmt.Fprintln(os.Stderr, "c01: cannot start worker:", err)
			os.Exit(2)
		}
		last := ""
		sc := bufio.NewScanner(stdout)
		sc.Buffer(make([]byte, 1<<20), 1<<26)
		for sc.Scan() {
			if t := sc.Text(); strings.HasPrefix(t, "BEGIN ") {
				last = t[6:]
			} else if a["out"] == "" || a["out"] == "-" {
				fmt.Println(t)
			}
		}
		err := c.Wait()
		tail := errBuf.String()
		if err == nil {
			os.Stderr.WriteString(tail)
			return
		}
		if last == "" {
			os.Stderr.WriteString(tail)
			fmt.Fprintln(os.Stderr, "c01: worker failed before the first case:", err)
			os.Exit(2)
		}
		msg := tail
		if k := strings.Index(msg, "panic:"); k >= 0 {
			msg = msg[k:]
		} else if k := strings.Index(msg, "fatal error:"); k >= 0 {
			msg = msg[k:]
		}
		line, resume := onCrash(last, fedlab.Trunc(msg, 1500))
		w := newLineWriter(a["out"], false)
		w.Line(line)
		w.Close()
		fmt.Fprintf(os.Stderr, "c01: worker died on case %s (%v); reported under no_panic, resuming\n", last, err)
		if resume == nil {
			return
		}
		for k, v := range resume {
			args[k] = v
		}
	}
}

// panicVerdict is the verdict of a case whose execution killed the worker process.
func panicVerdict(msg string) *fedlab.Verdict {
	first := msg
	if k := strings.Index(first, "\n"); k >= 0 {
		first = first[:k]
	}
	return &fedlab.Verdict{Panicked: true, PlanError: "engine panic (process died): " + first + " | " + firstFrames(msg)}
}

func firstFrames(msg string) string {
	var out []string
	for _, l := range strings.Split(msg, "\n") {
		l = strings.TrimSpace(l)
		if strings.Contains(l, "graphql-go-tools") && strings.Contains(l, "(") && !strings.HasPrefix(l, "/") {
			out = append(out, l)
			if len(out) == 3 {
				break
			}
		}
	}
	return strings.Join(out, " <- ")
}

func cmdGen(a map[string]string) {
	seed := common.ArgU64(a, "seed", 1)
	n := common.ArgInt(a, "n", 150)
	from := common.ArgInt(a, "from", 0)
	to := common.ArgInt(a, "to", from+n)
	ufrom := common.ArgInt(a, "ufrom", 0)
	unis := common.ArgInt(a, "unis", 1)
	maxShrink := common.ArgInt(a, "shrink", 2)
	knobs := fedlab.ParseKnobs(a["knobs"])
	if a["worker"] != "1" {
		t0 := time.Now()
		a["to"] = fmt.Sprint(to)
		supervise("gen", a, func(token, tail string) (string, map[string]string) {
			var i, u int
			fmt.Sscan(token, &i, &u)
			c := fedlab.BuildCase(seed, i, u, knobs, false)
			v := panicVerdict(tail)
			r := &runner{replays: a["replaydir"]}
			rp := mkReplay(c, v, true, nil)
			rp.GatewayErr = tail
			line := caseLine(c, v, r.writeReplay(rp, "-panic"))
			u++
			if u >= unis {
				i, u = i+1, 0
			}
			if i >= to {
				return line, nil
			}
			return line, map[string]string{"from": fmt.Sprint(i), "ufrom": fmt.Sprint(u), "shrink": "0"}
		})
		if a["out"] != "" && a["out"] != "-" {
			if b, err := os.ReadFile(a["out"]); err == nil {
				lines := bytes.Count(b, []byte("\n"))
				el := time.Since(t0).Seconds()
				fmt.Fprintf(os.Stderr, "c01 gen: %d case lines in %.1fs (%.1f cases/s)\n", lines, el, float64(lines)/el)
			}
		}
		return
	}
	var skipShrink *regexp.Regexp
	if a["shrinkskip"] != "" {
		skipShrink = regexp.MustCompile(a["shrinkskip"])
	}
	out := newLineWriter(a["out"], false)
	defer out.Close()
	r := &runner{replays: a["replaydir"], seeded: a["seeded"]}
	defer r.close()
	t0 := time.Now()
	evals, fails, shrunk := 0, 0, 0
	for i := from; i < to; i++ {
		u0 := 0
		if i == from {
			u0 = ufrom
		}
		for u := u0; u < unis; u++ {
			fmt.Printf("BEGIN %d %d\n", i, u)
			c := fedlab.BuildCase(seed, i, u, knobs, false)
			key := fmt.Sprintf("%d/%d", seed, c.CfgIdx())
			v, err := r.run(c, key)
			if err != nil {
				out.Line(common.L("c01", fmt.Sprintf("(id %d %d %d %s)", seed, i, u, common.QS(c.Knobs.String())), "(laberror "+common.QS(err.Error())+")"))
				continue
			}
			evals++
			path := ""
			if v.LabError == "" && len(v.Failed()) > 0 {
				fails++
				rp := mkReplay(c, v, true, r.lab)
				path = r.writeReplay(rp, "")
				if shrunk < maxShrink && !v.Panicked && (skipShrink == nil || !skipShrink.MatchString(v.FailDetail())) {
					shrunk++
					if sp := r.shrink(c, v); sp != "" {
						path = sp
					}
				}
			}
			out.Line(caseLine(c, v, path))
		}
	}
	el := time.Since(t0).Seconds()
	calls := 0
	if r.exec != nil {
		calls = r.exec.Calls
	}
	fmt.Fprintf(os.Stderr, "c01 gen worker: %d evaluations, %d failing, %.1fs (%.1f cases/s), executor calls %d\n", evals, fails, el, float64(evals)/el, calls)
}

func cmdOne(a map[string]string) {
	seed := common.ArgU64(a, "seed", 1)
	idx := common.ArgInt(a, "index", 0)
	uni := common.ArgInt(a, "uni", 0)
	exact := a["exact"] == "1"
	c := fedlab.BuildCase(seed, idx, uni, fedlab.ParseKnobs(a["knobs"]), exact)
	r := &runner{replays: a["replaydir"]}
	defer r.close()
	v, err := r.run(c, "one")
	if err != nil {
		fmt.Println("lab error:", err)
		os.Exit(2)
	}
	rp := mkReplay(c, v, true, r.lab)
	if a["v"] == "1" {
		b, _ := json.MarshalIndent(rp, "", " ")
		fmt.Println(string(b))
		fmt.Println("--- supergraph\n" + rp.SuperSDL)
		for _, g := range c.Cfg.Subgraphs {
			fmt.Println("--- subgraph " + g.Name + "\n" + rp.SubSDL[g.Name])
		}
	}
	fmt.Println(caseLine(c, v, ""))
	if v.LabError != "" {
		fmt.Println("LAB ERROR:", v.LabError)
		os.Exit(2)
	}
	if f := v.Failed(); len(f) > 0 {
		fmt.Println("FAILED:", strings.Join(f, ","), "--", v.FailDetail())
		if a["out"] != "" {
			o := common.NewOut(a["out"])
			o.Line(caseLine(c, v, r.writeReplay(rp, "")))
			o.Close()
		}
		os.Exit(1)
	}
	if a["out"] != "" {
		o := common.NewOut(a["out"])
		o.Line(caseLine(c, v, ""))
		o.Close()
	}
	fmt.Println("OK")
}

// cmdReplay re-runs self-contained replay files: -in is one file or a directory of *.json.
func replayFiles(in string) []string {
	if st, err := os.Stat(in); err == nil && st.IsDir() {
		files, _ := filepath.Glob(filepath.Join(in, "*.json"))
		return files
	} else if err == nil {
		return []string{in}
	}
	return nil
}

func cmdReplay(a map[string]string) {
	files := replayFiles(a["in"])
	skip := common.ArgInt(a, "skip", 0)
	if a["worker"] != "1" && a["v"] != "1" && a["plan"] != "1" {
		supervise("replay", a, func(token, tail string) (string, map[string]string) {
			var k int
			fmt.Sscan(token, &k)
			line := common.L("c01", "(id 0 0 0 \"\")", "(laberror "+common.QS("worker died on "+files[k])+")")
			if sc, err := loadSaved(files[k]); err == nil {
				c := sc.toCase()
				v := panicVerdict(tail)
				r := &runner{replays: a["replaydir"]}
				rp := mkReplay(c, v, true, nil)
				rp.GatewayErr = tail
				rp.ShrunkFrom = "replay of " + files[k]
				path := r.writeReplay(rp, "-panic")
				if path == "" {
					path = files[k]
				}
				line = caseLine(c, v, path)
			}
			if k+1 >= len(files) {
				return line, nil
			}
			return line, map[string]string{"skip": fmt.Sprint(k + 1)}
		})
		return
	}
	out := newLineWriter(a["out"], a["worker"] != "1")
	defer out.Close()
	r := &runner{replays: a["replaydir"]}
	defer r.close()
	bad := 0
	for i, f := range files {
		if i < skip {
			continue
		}
		if a["worker"] == "1" {
			fmt.Printf("BEGIN %d\n", i)
		}
		sc, err := loadSaved(f)
		if err != nil {
			out.Line(common.L("c01", "(id 0 0 0 \"\")", "(laberror "+common.QS(err.Error())+")"))
			continue
		}
		c := sc.toCase()
		v, err := r.run(c, fmt.Sprintf("replay/%d", i))
		if err != nil {
			out.Line(common.L("c01", fmt.Sprintf("(id %d %d %d %s)", c.Seed, c.Index, c.UniIdx, common.QS(sc.Knobs)), "(laberror "+common.QS(err.Error())+")"))
			continue
		}
		path := ""
		if v.LabError == "" && len(v.Failed()) > 0 {
			bad++
			rp := mkReplay(c, v, true, r.lab)
			rp.ShrunkFrom = "replay of " + f
			// (hand-made corpus cases all carry seed 0 / index 0: the file name keeps them apart)
			path = r.writeReplay(rp, "-replay-"+strings.TrimSuffix(filepath.Base(f), ".json"))
			if path == "" {
				path = f
			}
		}
		if a["plan"] == "1" && r.lab != nil {
			pl, perr := r.lab.Plan(c.Op.Text(), c.Op.Name)
			fmt.Fprintln(os.Stderr, "PLAN:\n"+pl, perr)
		}
		if a["v"] == "1" {
			b, _ := json.MarshalIndent(mkReplay(c, v, true, r.lab), "", " ")
			fmt.Fprintln(os.Stderr, string(b))
			fmt.Fprintln(os.Stderr, "FAILED:", v.Failed(), v.FailDetail(), v.LabError)
		}
		out.Line(caseLine(c, v, path))
	}
	if bad > 0 && a["out"] == "" {
		os.Exit(1)
	}
}

// cmdDump prints what (seed, index, uni, knobs) generates -- configuration, SDLs, universe, operation,
// variables -- without running anything: the generator's stability across fedlab changes is checked by
// diffing two dumps byte for byte (c01 dump -seed S -n N [-unis U] [-knobs K] [-exact 1]).
func cmdDump(a map[string]string) {
	seed := common.ArgU64(a, "seed", 1)
	n := common.ArgInt(a, "n", 100)
	from := common.ArgInt(a, "from", 0)
	unis := common.ArgInt(a, "unis", 1)
	knobs := fedlab.ParseKnobs(a["knobs"])
	w := bufio.NewWriter(os.Stdout)
	defer w.Flush()
	for i := from; i < from+n; i++ {
		for u := 0; u < unis; u++ {
			c := fedlab.BuildCase(seed, i, u, knobs, a["exact"] == "1")
			cj, _ := json.Marshal(c.Cfg)
			fmt.Fprintf(w, "=== %d %d %d knobs=%s\n", seed, i, u, c.Knobs.String())
			fmt.Fprintf(w, "config %s\n", cj)
			fmt.Fprintf(w, "super\n%s", c.Cfg.Super.SDL())
			for _, g := range c.Cfg.Subgraphs {
				fmt.Fprintf(w, "subgraph %s\n%s", g.Name, c.Cfg.SubgraphSDL(g))
			}
			fmt.Fprintf(w, "universe %s\n", c.Uni.Sexp())
			fmt.Fprintf(w, "operation %s\nvariables %s\n", c.Op.Text(), c.Op.VariablesJSON())
		}
	}
}

func main() {
	if len(os.Args) < 2 {
		fmt.Println("usage: c01 gen|one|corpus|shrink ...")
		os.Exit(2)
	}
	a := common.Args(os.Args[2:])
	switch os.Args[1] {
	case "gen":
		cmdGen(a)
	case "one":
		cmdOne(a)
	case "replay", "corpus":
		cmdReplay(a)
	case "shrink":
		cmdShrink(a)
	case "probe":
		cmdProbe(a)
	case "dump":
		cmdDump(a)
	case "handmade":
		cmdHandmade(a)
	default:
		fmt.Println("unknown command")
		os.Exit(2)
	}
}
