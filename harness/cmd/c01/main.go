package main

import (
	"fmt"
	"os"

	"gvh/fedlab"
)

func main() {
	cfg, u := fedlab.Example()
	lab, err := fedlab.NewLab(cfg, u, nil, fedlab.EngineOptions{})
	if err != nil {
		fmt.Println("newlab:", err)
		os.Exit(1)
	}
	defer lab.Close()
	fmt.Println(lab.SuperSDL)
	for n, s := range lab.SubSDL {
		fmt.Println("#", n)
		fmt.Println(s)
	}
	ops := []string{
		`{ me { id name reviews { body product { title price } author { name } } } }`,
		`query($i: ID!){ user(id: $i) { name greet(p: "yo") g2: greet reviews { id } } topProducts { upc title reviews { body author { id name } } } }`,
		`{ latestReview { body author { name greet } product { title } } }`,
	}
	for _, op := range ops {
		vars := []byte(`{"i":"u2"}`)
		r := lab.Run(op, vars, nil)
		fmt.Println("OP:", op)
		fmt.Println(" err:", r.Err)
		fmt.Println(" resp:", string(r.Response))
		for _, q := range r.Requests {
			fmt.Printf("  [%d] %s %s vars=%s -> %s\n", q.Index, q.Subgraph, q.Query, q.Variables.String(), string(q.Response))
		}
		m, err := lab.Mono(op, "", vars)
		if err != nil {
			fmt.Println(" mono err:", err)
			continue
		}
		fmt.Println(" mono:", m.Data.String(), m.NErrors, " equal:", m.Data.Equal(r.Data))
	}
}
