// c07e: C07, end-to-end half on the federation lab (real planner + real ExecutionEngine + semantic
// subgraphs).  For generated (configuration, universe, operation): the fault-free run records the
// subgraph requests; then fault sets F (request identified by Ident()+variables -> kind) are
// injected in the RoundTripper hook.  Clauses on the IMPLEMENTATION, per faulted run:
//
//	valid_response   the response bytes are valid JSON with a GraphQL envelope (data and/or errors)
//	returns          Execute returns within the time bound
//	errors_nonempty  a HARD fault hit a request => errors is a non-empty list
//	requests_subset  every request sent under F has the query of a fault-free request to the same subgraph, the same
//	                 other variables and a sub-multiset of its representations
//	independent_subgraphs_untouched  requests whose fetch does not transitively depend (DependsOnFetchIDs of the dumped
//	                 real plan) on the fetch of a hit request are sent byte-identically
//	unaffected_equal data_F is data_0 with parts nulled (nothing changes, nothing appears), and everything the reference
//	                 keeps is kept: ref <= data_F <= data_0
//	affected_null    (when the reference is exact) nothing that depended on a failed request survives: data_F <= ref
//
// Reference: Lab.Mono over the universe in which exactly the (entity, field) pairs the hit requests were to deliver
// (selection x representations; root fields for a root request; all representations of the request for a hard fault --
// a sibling entity of the same failed REQUEST depends on it --, the one entity for ent_null) resolve to (err), with
// ordinary null propagation.  The reference is EXACT when no healthy request of the faulted run selects one of the
// marked (type, field) pairs; otherwise the same field reaches the response through another request and only
// ref <= data_F <= data_0 is required.
//
//	c07e gen  -seed S -n N [-from I] [-knobs K] [-tier quick|thorough] -out results.jsonl
//	c07e one  -seed S -index I [-knobs K] [-exact 1] [-mf 0|1] [-sched 0|1] [-faults "i:kind,j:kind"] [-v 1]
//	c07e corpus -in corpus.tsv -out results.jsonl
package main

import (
	"encoding/json"
	"fmt"
	"os"
	"sort"
	"strconv"
	"strings"
	"time"

	"gvh/common"
	"gvh/e2e"
	"gvh/fedlab"
)

type optSet struct{ MF, Sched bool }

func (o optSet) String() string { return fmt.Sprintf("mf=%s,sched=%s", common.B(o.MF), common.B(o.Sched)) }

type fault struct {
	Target int // index into the sorted distinct request keys of the fault-free run
	Kind   string
}

type violation struct {
	Clause string `json:"clause"`
	Faults string `json:"faults"`
	Kinds  string `json:"kinds"` // kinds that HIT a request, sorted, comma separated
	Causes string `json:"causes"` // known root causes present in the run (see causes())
	Detail string `json:"detail"`
	Rerun  string `json:"rerun"`
}

type outcome struct {
	Seed       uint64         `json:"seed"`
	Index      int            `json:"index"`
	Knobs      string         `json:"knobs"`
	Opt        string         `json:"opt"`
	Status     string         `json:"status"` // checked | planerror | laberror | engineerror | c01mismatch | norequests
	Detail     string         `json:"detail,omitempty"`
	Op         string         `json:"op,omitempty"`
	Tree       string         `json:"tree,omitempty"`
	NReq       int            `json:"nreq"`
	Runs       int            `json:"runs"`
	Changed    int            `json:"changed"` // runs whose data differs from the fault-free data
	Exact      int            `json:"exact"`
	Stats      map[string]int `json:"stats"`
	Violations []violation    `json:"violations,omitempty"`
	WallMs     int64          `json:"wall_ms"`
}

type env struct {
	exec    *fedlab.ExecServer
	tier    string
	verbose bool
	refID   int
}

func b2i(b bool) int {
	if b {
		return 1
	}
	return 0
}

func short(s string) string { return fedlab.Trunc(s, 200) }

func faultsString(fs []fault) string {
	parts := make([]string, len(fs))
	for i, f := range fs {
		parts[i] = fmt.Sprintf("%d:%s", f.Target, f.Kind)
	}
	return strings.Join(parts, ",")
}

func parseFaults(s string) []fault {
	var out []fault
	for _, p := range strings.Split(s, ",") {
		kv := strings.SplitN(strings.TrimSpace(p), ":", 2)
		if len(kv) != 2 {
			continue
		}
		n, err := strconv.Atoi(kv[0])
		if err != nil {
			continue
		}
		out = append(out, fault{n, kv[1]})
	}
	return out
}

// repsOf: name -> multiset of representations, and the other variables as one string
func repsOf(r *fedlab.Request) (map[string]map[string]int, string) {
	reps := map[string]map[string]int{}
	var rest []string
	if r.Variables != nil {
		for _, m := range r.Variables.Members {
			if strings.HasPrefix(m.Key, "representations") && m.Val.Kind == fedlab.JArr {
				ms := map[string]int{}
				for _, it := range m.Val.Items {
					ms[it.String()]++
				}
				reps[m.Key] = ms
			} else if strings.HasPrefix(m.Key, "include") && (m.Val.Kind == fedlab.JTrue || m.Val.Kind == fedlab.JFalse) {
				// includeFn of a merged request follows from the representations being empty
			} else {
				rest = append(rest, m.Key+"="+m.Val.String())
			}
		}
	}
	sort.Strings(rest)
	return reps, strings.Join(rest, "&")
}

// subRequestModuloNull: as subRequest, but a representation may carry null where the fault-free
// representation of the same entity carries a value.
func subRequestModuloNull(r, r0 *fedlab.Request) bool {
	if r.Ident() != r0.Ident() || r.Variables == nil || r0.Variables == nil {
		return false
	}
	_, ar := repsOf(r)
	_, br := repsOf(r0)
	if ar != br {
		return false
	}
	for _, m := range r.Variables.Members {
		if !strings.HasPrefix(m.Key, "representations") || m.Val.Kind != fedlab.JArr {
			continue
		}
		rv0 := r0.Variables.Get(m.Key)
		if rv0 == nil {
			return false
		}
		for _, rep := range m.Val.Items {
			found := false
			for _, rep0 := range rv0.Items {
				if rep.Kind != fedlab.JObj || rep0.Kind != fedlab.JObj || len(rep.Members) != len(rep0.Members) {
					continue
				}
				same := true
				for _, f := range rep.Members {
					v0 := rep0.Get(f.Key)
					if v0 == nil || !(f.Val.Kind == fedlab.JNull || f.Val.Equal(v0)) {
						same = false
						break
					}
				}
				if same {
					found = true
					break
				}
			}
			if !found {
				return false
			}
		}
	}
	return true
}

func subRequest(r, r0 *fedlab.Request) bool {
	if r.Ident() != r0.Ident() {
		return false
	}
	a, ar := repsOf(r)
	b, br := repsOf(r0)
	if ar != br {
		return false
	}
	for name, ms := range a {
		for k, n := range ms {
			if b[name][k] < n {
				return false
			}
		}
	}
	return true
}

type caseCtx struct {
	c       *fedlab.Case
	lab     *fedlab.Lab
	opt     optSet
	base    *fedlab.Result
	mono    *fedlab.ExecResult
	keys    []string                   // sorted distinct request keys of the fault-free run
	byKey   map[string]*fedlab.Request // one representative request
	tree    *e2e.Tree
	byID    map[int]*e2e.Fetch
	byIdent map[string][]*e2e.Fetch
	rawByID  map[int]*e2e.Fetch
	selCache map[string]map[[2]string]bool
	refCache map[string]*fedlab.ExecResult
	opDump  string
}

func (e *env) reference(cc *caseCtx, pairs []e2e.Pair) (*fedlab.ExecResult, error) {
	k := e2e.PairsKey(pairs)
	if r, ok := cc.refCache[k]; ok {
		return r, nil
	}
	u := e2e.MarkUniverse(cc.c.Uni, pairs)
	e.refID++
	id := fmt.Sprintf("c07ref%d", e.refID)
	if err := e.exec.Def(id, cc.c.Cfg.Super, u); err != nil {
		return nil, err
	}
	defer e.exec.Undef(id)
	vars := fedlab.JO()
	if v := strings.TrimSpace(cc.c.Op.VariablesJSON()); v != "" {
		if j, err := fedlab.ParseJSON([]byte(v)); err == nil {
			vars = j
		}
	}
	r, err := e.exec.Exec(id, "mono", cc.opDump, cc.c.Op.Name, vars)
	if err != nil {
		return nil, err
	}
	cc.refCache[k] = r
	return r, nil
}

func (cc *caseCtx) selected(r *fedlab.Request) map[[2]string]bool {
	if m, ok := cc.selCache[r.Ident()]; ok {
		return m
	}
	g := cc.c.Cfg.Subgraph(r.Subgraph)
	var m map[[2]string]bool
	if g != nil {
		m, _ = e2e.SelectedPairs(cc.c.Cfg.SubSchema(g), r.Query)
	}
	cc.selCache[r.Ident()] = m
	return m
}

// leafOf: the tree leaf that carries raw fetch id (itself, or the merged fetch it went into).
func (cc *caseCtx) leafOf(id int) int {
	if cc.byID[id] != nil {
		return id
	}
	for _, f := range cc.byID {
		for _, m := range f.Merged {
			if m == id {
				return f.ID
			}
		}
	}
	return id
}

// rawOf: the planner's (raw, pre-merge) fetch ids a request group stands for; alias "" or
// "_entities" = the whole request of an unmerged fetch.
func (cc *caseCtx) rawOf(r *fedlab.Request, alias string) []int {
	var out []int
	for _, f := range cc.byIdent[r.Ident()] {
		if f.Kind != "multi" {
			out = append(out, f.ID)
			continue
		}
		found := false
		if len(f.Entries) == len(f.Merged) {
			for j, en := range f.Entries {
				if en.Alias == alias {
					out = append(out, f.Merged[j])
					found = true
				}
			}
		}
		if !found {
			out = append(out, f.Merged...)
		}
	}
	return out
}

// rawDependants: closure of failed under the planner's own (pre-merge) dependencies.
func (cc *caseCtx) rawDependants(failed map[int]bool) map[int]bool {
	out := map[int]bool{}
	for id := range failed {
		out[id] = true
	}
	for changed := true; changed; {
		changed = false
		for _, f := range cc.rawByID {
			if out[f.ID] {
				continue
			}
			for _, d := range f.Deps {
				if out[d] {
					out[f.ID] = true
					changed = true
					break
				}
			}
		}
	}
	return out
}

func (cc *caseCtx) dependants(failed map[int]bool) map[int]bool {
	out := map[int]bool{}
	for id := range failed {
		out[id] = true
	}
	for changed := true; changed; {
		changed = false
		for _, f := range cc.byID {
			if out[f.ID] {
				continue
			}
			for _, d := range f.Deps {
				if out[d] {
					out[f.ID] = true
					changed = true
					break
				}
			}
		}
	}
	return out
}

func envelopeOK(resp []byte) string {
	if !json.Valid(resp) {
		return "the response is not valid JSON: " + fedlab.Trunc(string(resp), 160)
	}
	j, err := fedlab.ParseJSON(resp)
	if err != nil {
		return "the response does not parse: " + err.Error()
	}
	if j.Kind != fedlab.JObj {
		return "the response is not an object"
	}
	d, es := j.Get("data"), j.Get("errors")
	if d == nil && es == nil {
		return "neither data nor errors"
	}
	if d != nil && d.Kind != fedlab.JObj && d.Kind != fedlab.JNull {
		return "data is neither an object nor null"
	}
	if es != nil {
		if es.Kind != fedlab.JArr || len(es.Items) == 0 {
			return "errors is not a non-empty list"
		}
		for _, x := range es.Items {
			if x.Kind != fedlab.JObj || x.Get("message") == nil || x.Get("message").Kind != fedlab.JStr {
				return "an error without a message string"
			}
		}
	}
	for _, m := range j.Members {
		if m.Key != "data" && m.Key != "errors" && m.Key != "extensions" {
			return "unexpected member " + m.Key
		}
	}
	return ""
}

func (e *env) runFaults(cc *caseCtx, o *outcome, fs []fault) {
	o.Runs++
	kindOf := map[string]string{}
	for _, f := range fs {
		if f.Target >= 0 && f.Target < len(cc.keys) {
			kindOf[cc.keys[f.Target]] = f.Kind
		}
	}
	type hit struct {
		req  *fedlab.Request
		kind string
	}
	var hits []hit
	hook := func(_ int, req *fedlab.Request) fedlab.Action {
		k, ok := kindOf[e2e.ReqKey(req)]
		if !ok {
			return fedlab.Action{}
		}
		act, err := e2e.ActionFor(k, req)
		if err != nil {
			return fedlab.Action{}
		}
		hits = append(hits, hit{req, k}) // Lab serialises nothing here: guarded below
		return act
	}
	// the hook runs on request goroutines: serialise the append
	lock := make(chan struct{}, 1)
	safeHook := func(i int, req *fedlab.Request) fedlab.Action {
		lock <- struct{}{}
		defer func() { <-lock }()
		return hook(i, req)
	}
	c := cc.c
	res := cc.lab.Run(c.Op.Text(), []byte(c.Op.VariablesJSON()), &fedlab.RunOptions{OperationName: c.Op.Name, BeforeRespond: safeHook, Timeout: 8 * time.Second})
	slowTwice, firstWall := false, res.Wall
	if res.Wall > 4*time.Second {
		// the semantic subgraphs answer inside the round trip, so a stall of the executor child or of the
		// machine counts against the gateway: the run is repeated once
		hits = nil
		res = cc.lab.Run(c.Op.Text(), []byte(c.Op.VariablesJSON()), &fedlab.RunOptions{OperationName: c.Op.Name, BeforeRespond: safeHook, Timeout: 8 * time.Second})
		if res.Wall > 4*time.Second {
			slowTwice = true
		} else {
			o.Stats["slow_run_not_reproduced"]++
		}
	}
	var hitKinds []string
	hard := 0
	for _, h := range hits {
		hitKinds = append(hitKinds, h.kind)
		if e2e.Hard(h.kind) {
			hard++
		}
	}
	sort.Strings(hitKinds)
	hk := strings.Join(uniq(hitKinds), ",")
	rerun := fmt.Sprintf("harness/bin/c07e one -seed %d -index %d -knobs %s -exact 1 -mf %d -sched %d -faults %s -v 1", c.Seed, c.Index, c.Knobs.String(), b2i(cc.opt.MF), b2i(cc.opt.Sched), faultsString(fs))
	// known root causes present in this run (tools/props/c07e.py matches KNOWN_FINDINGS keys on them)
	// damagedAlias: the _entities list the entity-count kinds damage (the first non-empty one)
	damagedAlias := func(r *fedlab.Request) string {
		if gs, err := e2e.ParseRequest(r.Query); err == nil {
			for _, g := range gs {
				if r.Variables != nil && r.Variables.Get(g.RepsVar) != nil && len(r.Variables.Get(g.RepsVar).Items) > 0 {
					return g.Alias
				}
			}
		}
		return ""
	}
	isMulti := func(r *fedlab.Request) bool {
		for _, f := range cc.byIdent[r.Ident()] {
			if f.Kind == "multi" {
				return true
			}
		}
		return false
	}
	singleOriginEntry := func(r *fedlab.Request) bool {
		alias := damagedAlias(r)
		for _, f := range cc.byIdent[r.Ident()] {
			if f.Kind == "multi" {
				for _, en := range f.Entries {
					if en.Alias == alias && en.Single {
						return true
					}
				}
			}
		}
		return false
	}
	isNumKind := func(k string) bool { return k == e2e.KNaN || k == e2e.KInf || k == e2e.KBadNum }
	isCountKind := func(k string) bool { return k == e2e.KEntMissing || k == e2e.KEntExtra }
	// fetchFails: the loader treats the hit as a failure of the fetch (and records it for its dependants);
	// the exceptions are the recorded findings below and ent_null (a valid "entity not found" answer)
	fetchFails := func(h hit) bool {
		switch {
		case h.kind == e2e.KEntNull, h.kind == e2e.K500Body:
			return false
		case isNumKind(h.kind):
			// since 66e6a85 also the shared body of a merged request is checked for RFC 8259 number tokens: invalid JSON
			return true
		case isCountKind(h.kind):
			// a single-origin entry of a merged request takes an empty list as "no entity" (one extra is noticed)
			return !(h.kind == e2e.KEntMissing && isMulti(h.req) && singleOriginEntry(h.req))
		}
		return true
	}
	// nullSent: a representation carries null where the fault-free request of the same entity carries a value
	nullSent := func() bool {
		for _, r := range res.Requests {
			if r.Variables == nil {
				continue
			}
			for _, m := range r.Variables.Members {
				if !strings.HasPrefix(m.Key, "representations") || m.Val.Kind != fedlab.JArr {
					continue
				}
				for _, rep := range m.Val.Items {
					if rep.Kind != fedlab.JObj {
						continue
					}
					for _, f := range rep.Members {
						if f.Val.Kind != fedlab.JNull {
							continue
						}
						for _, r0 := range cc.base.Requests {
							if r0.Ident() != r.Ident() || r0.Variables == nil {
								continue
							}
							if rv := r0.Variables.Get(m.Key); rv != nil {
								for _, rep0 := range rv.Items {
									if rep0.Kind == fedlab.JObj && rep0.Get("id").Equal(rep.Get("id")) && rep0.Get(f.Key) != nil && rep0.Get(f.Key).Kind != fedlab.JNull {
										return true
									}
								}
							}
						}
					}
				}
			}
		}
		return false
	}
	// known root causes present in this run (tools/props/c07e.py matches KNOWN_FINDINGS keys on them)
	causes := func() []string {
		var cs []string
		for _, h := range hits {
			switch {
			case h.kind == e2e.K500Body:
				cs = append(cs, "status-ignored-with-data")
			// (multifetch-nan-accepted is repaired, 66e6a85: a number kind on a merged request is an ordinary failure of it --
			// and, like its other non-transport failures, falls under multifetch-nullable-requires-null-sent below)
			case h.kind == e2e.KEntMissing && isMulti(h.req) && singleOriginEntry(h.req):
				cs = append(cs, "multifetch-single-origin-count-ignored")
			}
		}
		// a merged request that failed otherwise than by a transport error is not recorded in erroredFetchIDs (its
		// entries are merged one by one with items that carry no Fetch), so a dependant is still sent, with null for
		// a nullable @requires input the failed request was to deliver
		failedMulti := false
		for _, h := range hits {
			if fetchFails(h) && h.kind != e2e.KTransport && isMulti(h.req) {
				failedMulti = true
			}
		}
		if failedMulti && nullSent() {
			cs = append(cs, "multifetch-nullable-requires-null-sent")
		}
		// MultiFetch: dependencies and "errored" are kept per MERGED fetch: a merged fetch is skipped as a whole
		// when one of its union dependencies failed, and one failing entry marks the whole merged fetch as
		// failed for its dependants -- although members / dependants rest on healthy fetches of the planner's
		// own (pre-merge) plan only
		if cc.opt.MF {
			treeHit, rawHit := map[int]bool{}, map[int]bool{}
			for _, h := range hits {
				if !fetchFails(h) {
					continue
				}
				for _, f := range cc.byIdent[h.req.Ident()] {
					treeHit[f.ID] = true
					if f.Kind == "multi" && e2e.GroupLevel(h.kind) {
						for _, id := range cc.rawOf(h.req, damagedAlias(h.req)) {
							rawHit[id] = true
						}
					} else if f.Kind == "multi" {
						for _, id := range f.Merged {
							rawHit[id] = true
						}
					} else {
						rawHit[f.ID] = true
					}
				}
			}
			if len(treeHit) > 0 {
				treeErr, rawErr := cc.dependants(treeHit), cc.rawDependants(rawHit)
				for id := range treeErr {
					f := cc.byID[id]
					if f == nil {
						continue
					}
					ids := []int{f.ID}
					if f.Kind == "multi" {
						ids = f.Merged
					}
					for _, rid := range ids {
						if !rawErr[rid] {
							cs = append(cs, "multifetch-skip-drops-healthy-entries")
						}
					}
				}
			}
		}
		sort.Strings(cs)
		return uniq(cs)
	}
	viol := func(clause, format string, a ...any) {
		o.Stats["viol_"+clause]++
		if len(o.Violations) < 40 {
			o.Violations = append(o.Violations, violation{clause, faultsString(fs), hk, strings.Join(causes(), ","), fmt.Sprintf(format, a...), rerun})
		}
	}
	if len(hits) == 0 {
		o.Stats["runs_without_hit"]++
	}
	for _, k := range uniq(hitKinds) {
		o.Stats["hit_"+k]++
	}
	// returns
	if slowTwice {
		viol("returns", "Execute took %v, and %v when repeated", firstWall, res.Wall)
	}
	if res.Err != nil && len(res.Response) == 0 {
		if strings.Contains(res.Err.Error(), "panic") {
			viol("valid_response", "no response: %s", short(res.Err.Error()))
		} else {
			viol("valid_response", "no response, Execute returned: %s", short(res.Err.Error()))
		}
		return
	}
	// valid_response
	if msg := envelopeOK(res.Response); msg != "" {
		viol("valid_response", "%s", msg)
		if res.Data == nil && res.Errors == nil {
			return
		}
	}
	// errors_nonempty
	if hard > 0 && !res.HasErrors() {
		viol("errors_nonempty", "%d hard fault(s) hit a request but the response reports no error; data equals fault-free: %v", hard, res.Data.EqualUnordered(cc.base.Data))
	}
	// requests_subset
	hasEntNull := false
	for _, h := range hits {
		if h.kind == e2e.KEntNull {
			hasEntNull = true
		}
	}
	for _, r := range res.Requests {
		ok := false
		for _, r0 := range cc.base.Requests {
			if subRequest(r, r0) {
				ok = true
				break
			}
		}
		if !ok && hasEntNull {
			// _entities:[null] is a valid "entity not found" answer: a dependant legitimately renders null for a
			// nullable @requires input it would have read from that entity
			for _, r0 := range cc.base.Requests {
				if subRequestModuloNull(r, r0) {
					ok = true
					o.Stats["ent_null_null_input_sent"]++
					break
				}
			}
		}
		if !ok {
			viol("requests_subset", "request to %s not covered by a fault-free request: %s variables %s", r.Subgraph, fedlab.Trunc(r.Query, 100), fedlab.Trunc(e2e.RepsKey(r), 200))
		}
	}
	// independent_subgraphs_untouched
	failedFetches := map[int]bool{}
	for _, h := range hits {
		for _, f := range cc.byIdent[h.req.Ident()] {
			failedFetches[f.ID] = true
		}
	}
	dep := cc.dependants(failedFetches)
	got := e2e.KeyMultiset(res.Requests)
	for _, r0 := range cc.base.Requests {
		cands := cc.byIdent[r0.Ident()]
		if len(cands) == 0 {
			continue
		}
		indep := true
		for _, f := range cands {
			if dep[f.ID] {
				indep = false
			}
		}
		if !indep {
			continue
		}
		o.Stats["independent_checks"]++
		if got[e2e.ReqKey(r0)] == 0 {
			viol("independent_subgraphs_untouched", "the request of an independent fetch (%s, fetch %d) is missing or altered: %s", r0.Subgraph, cands[0].ID, fedlab.Trunc(r0.Query, 100))
		}
	}
	// data clauses
	if res.Data == nil && res.Errors != nil {
		res.Data = fedlab.JN()
	}
	if !res.Data.EqualUnordered(cc.base.Data) {
		o.Changed++
	}
	if d := e2e.LeqDiff(res.Data, cc.base.Data, "data"); d != "" {
		viol("unaffected_equal", "data under faults is not the fault-free data with parts nulled: %s", d)
		return
	}
	var pairs []e2e.Pair
	for _, h := range hits {
		only := -1
		if h.kind == e2e.KEntNull {
			only = 0
		}
		ps, err := e2e.Deliverables(c.Cfg, c.Uni, h.req, only, e2e.GroupLevel(h.kind))
		if err != nil {
			o.Stats["deliverables_error"]++
			return
		}
		pairs = append(pairs, ps...)
	}
	pairs = e2e.CloseOverRequires(c.Cfg, c.Uni, cc.base.Requests, pairs)
	ref, err := e.reference(cc, pairs)
	if err != nil {
		o.Stats["reference_error"]++
		return
	}
	// what MAY be nulled in addition: everything delivered by a fetch of the planner's own (pre-merge) plan that
	// transitively depends on the fetch of a hit request -- the loader skips dependants of an errored fetch
	failedRaw := map[int]bool{}
	for _, h := range hits {
		alias := ""
		if e2e.GroupLevel(h.kind) {
			if gs, err := e2e.ParseRequest(h.req.Query); err == nil {
				for _, g := range gs {
					if h.req.Variables != nil && h.req.Variables.Get(g.RepsVar) != nil && len(h.req.Variables.Get(g.RepsVar).Items) > 0 {
						alias = g.Alias
						break
					}
				}
			}
		}
		var ids []int
		if alias == "" {
			for _, f := range cc.byIdent[h.req.Ident()] {
				if f.Kind == "multi" {
					ids = append(ids, f.Merged...)
				} else {
					ids = append(ids, f.ID)
				}
			}
		} else {
			ids = cc.rawOf(h.req, alias)
		}
		for _, id := range ids {
			failedRaw[id] = true
		}
	}
	depRaw := cc.rawDependants(failedRaw)
	mayPairs := append([]e2e.Pair(nil), pairs...)
	for _, r0 := range cc.base.Requests {
		ps, err := e2e.DeliverablesWhere(c.Cfg, c.Uni, r0, func(_ int, alias string, _ int, _ *fedlab.J, _ *fedlab.Entity) bool {
			for _, id := range cc.rawOf(r0, alias) {
				if depRaw[id] && !failedRaw[id] {
					return true
				}
			}
			return false
		})
		if err == nil {
			mayPairs = append(mayPairs, ps...)
		}
	}
	mayPairs = e2e.CloseOverRequires(c.Cfg, c.Uni, cc.base.Requests, mayPairs)
	// response positions the planner fills from a failed (or skipped dependent) request although the field is a member of
	// its representation (`al2: id` re-selected from the subgraph that also resolves the @requires field): the value was known
	// before, so nothing flows on from it (added after the closure), but the position itself is null when the request fails
	nMay := len(mayPairs)
	for _, r0 := range cc.base.Requests {
		isHit, entNull := false, false
		for _, h := range hits {
			isHit = isHit || (h.req.Ident() == r0.Ident() && !e2e.GroupLevel(h.kind))
			entNull = entNull || (h.req.Ident() == r0.Ident() && h.kind == e2e.KEntNull)
		}
		ps, err := e2e.RepMemberSelections(c.Cfg, c.Uni, r0, func(group int, alias string, i int, _ *fedlab.J, _ *fedlab.Entity) bool {
			if isHit {
				return true
			}
			for _, id := range cc.rawOf(r0, alias) {
				if depRaw[id] && !failedRaw[id] {
					return true
				}
				if failedRaw[id] && (!entNull || (group == 0 && i == 0)) {
					return true
				}
			}
			return false
		})
		if err == nil {
			mayPairs = append(mayPairs, ps...)
		}
	}
	if len(mayPairs) > nMay {
		o.Stats["runs_with_selected_representation_members_of_failed_requests"]++
	}
	refMay, err := e.reference(cc, mayPairs)
	if err != nil {
		o.Stats["reference_error"]++
		return
	}
	if !refMay.Data.EqualUnordered(ref.Data) {
		o.Stats["runs_with_plan_dependants_beyond_data_dependants"]++
	}
	if e.verbose {
		fmt.Fprintf(os.Stderr, "--- faults %s (hit: %s)\n", faultsString(fs), hk)
		for _, r := range res.Requests {
			fmt.Fprintf(os.Stderr, "  req %d %s %s vars=%s status=%d\n      answer=%s\n", r.Index, r.Subgraph, r.Query, e2e.RepsKey(r), r.Status, fedlab.Trunc(string(r.Response), 400))
		}
		fmt.Fprintf(os.Stderr, "  marked: %v\n  gateway:   %s\n  reference: %s\n  faultfree: %s\n", pairs, string(res.Response), ref.Data.String(), cc.base.Data.String())
		fmt.Fprintf(os.Stderr, "  may-null reference (plan dependants): %s\n", refMay.Data.String())
	}
	if d := e2e.LeqDiff(refMay.Data, res.Data, "data"); d != "" {
		viol("unaffected_equal", "the gateway nulls more than what depended on the failed request(s): reference keeps %s", d)
	}
	// exactness of the reference
	exact := true
	hitReq := map[*fedlab.Request]bool{}
	for _, h := range hits {
		hitReq[h.req] = true
	}
	marked := map[[2]string]bool{}
	for _, p := range pairs {
		marked[[2]string{p.Type, p.Field}] = true
	}
	for _, h := range hits {
		if e2e.GroupLevel(h.kind) {
			lists := 0
			if h.req.Variables != nil {
				for _, m := range h.req.Variables.Members {
					if strings.HasPrefix(m.Key, "representations") && m.Val.Kind == fedlab.JArr && len(m.Val.Items) > 0 {
						lists++
					}
				}
			}
			if lists > 1 {
				for tf := range cc.selected(h.req) {
					if marked[tf] {
						exact = false
					}
				}
			}
			// ent_null: the other entities of the list are answered: a pair marked through another failed
			// request that they deliver, or a marked pair they bring along nested
			if h.kind == e2e.KEntNull {
				markedPairs := map[e2e.Pair]bool{}
				for _, p := range pairs {
					markedPairs[p] = true
				}
				others, _ := e2e.DeliverablesWhere(c.Cfg, c.Uni, h.req, func(group int, _ string, i int, _ *fedlab.J, _ *fedlab.Entity) bool {
					return !(group == 0 && i == 0)
				})
				for _, p := range others {
					if markedPairs[p] {
						exact = false
					}
				}
				if g := c.Cfg.Subgraph(h.req.Subgraph); g != nil {
					if _, nested, err := e2e.SelectedPairsNested(c.Cfg.SubSchema(g), h.req.Query); err == nil {
						for tf := range nested {
							if marked[tf] {
								exact = false
							}
						}
					}
				}
			}
		}
	}
	for _, r := range res.Requests {
		if hitReq[r] {
			continue
		}
		for tf := range cc.selected(r) {
			if marked[tf] {
				exact = false
			}
		}
	}
	if exact {
		o.Exact++
		if d := e2e.LeqDiff(res.Data, ref.Data, "data"); d != "" {
			viol("affected_null", "data that depended on a failed request survives: %s", d)
		}
	}
}

func uniq(xs []string) []string {
	var out []string
	for i, x := range xs {
		if i == 0 || x != xs[i-1] {
			out = append(out, x)
		}
	}
	return out
}

func (e *env) checkCase(c *fedlab.Case, lab *fedlab.Lab, pl *e2e.Planner, opt optSet, only []fault) *outcome {
	t0 := time.Now()
	o := &outcome{Seed: c.Seed, Index: c.Index, Knobs: c.Knobs.String(), Opt: opt.String(), Stats: map[string]int{}, Op: c.Op.Text()}
	defer func() { o.WallMs = time.Since(t0).Milliseconds() }()
	opText, opName, vars := c.Op.Text(), c.Op.Name, []byte(c.Op.VariablesJSON())
	tree, raw, err := pl.PlanWithRaw(opText, opName, vars)
	if err != nil {
		o.Status, o.Detail = "planerror", short(err.Error())
		return o
	}
	o.Tree = tree.Sexp()
	base := lab.Run(opText, vars, &fedlab.RunOptions{OperationName: opName})
	if base.Err != nil {
		o.Status, o.Detail = "engineerror", short(base.Err.Error())
		return o
	}
	for _, r := range base.Requests {
		if r.ExecError != "" || r.ParseError != "" {
			o.Status, o.Detail = "laberror", short(r.ExecError+r.ParseError)
			return o
		}
	}
	mono, err := lab.Mono(opText, opName, vars)
	if err != nil {
		o.Status, o.Detail = "laberror", short(err.Error())
		return o
	}
	if !base.Data.EqualUnordered(mono.Data) {
		o.Status, o.Detail = "c01mismatch", base.Data.FirstDiffUnordered(mono.Data, "data")
		return o
	}
	if len(base.Requests) == 0 {
		o.Status = "norequests"
		return o
	}
	dump, err := fedlab.DumpOperation(opText)
	if err != nil {
		o.Status, o.Detail = "laberror", short(err.Error())
		return o
	}
	cc := &caseCtx{c: c, lab: lab, opt: opt, base: base, mono: mono, tree: tree, byKey: map[string]*fedlab.Request{},
		byID: map[int]*e2e.Fetch{}, byIdent: map[string][]*e2e.Fetch{}, selCache: map[string]map[[2]string]bool{},
		refCache: map[string]*fedlab.ExecResult{}, opDump: dump, rawByID: map[int]*e2e.Fetch{}}
	for _, f := range raw {
		cc.rawByID[f.ID] = f
	}
	for _, f := range tree.Fetches() {
		cc.byID[f.ID] = f
		cc.byIdent[f.Subgraph+"|"+f.Query] = append(cc.byIdent[f.Subgraph+"|"+f.Query], f)
	}
	for _, r := range base.Requests {
		k := e2e.ReqKey(r)
		if cc.byKey[k] == nil {
			cc.byKey[k] = r
			cc.keys = append(cc.keys, k)
		}
	}
	sort.Strings(cc.keys)
	o.NReq = len(cc.keys)
	o.Status = "checked"

	if e.verbose {
		for _, f := range tree.Fetches() {
			fmt.Fprintf(os.Stderr, "fetch %d %s %s path=%q deps=%v merged=%v entries=%v q=%s\n", f.ID, f.Kind, f.Subgraph, f.Path, f.Deps, f.Merged, f.Entries, fedlab.Trunc(f.Query, 300))
		}
		for i, k := range cc.keys {
			fmt.Fprintf(os.Stderr, "target %d = %s\n", i, fedlab.Trunc(k, 200))
		}
	}
	if only != nil {
		e.runFaults(cc, o, only)
		return o
	}
	// all single faults
	for t, k := range cc.keys {
		for _, kind := range e2e.AllKinds {
			if e2e.Applicable(kind, cc.byKey[k]) {
				e.runFaults(cc, o, []fault{{t, kind}})
			}
		}
	}
	// subsets
	rnd := common.NewRand(c.Seed*7919 + uint64(c.Index)*31 + uint64(b2i(opt.MF))*2 + uint64(b2i(opt.Sched)))
	n := len(cc.keys)
	// clean: without the kinds behind recorded findings, so that those do not mask anything else in a subset
	cleanKinds := []string{e2e.KTransport, e2e.K500Empty, e2e.K200Empty, e2e.KNonJSON, e2e.KTruncated, e2e.KErrsNoData, e2e.KEntNull}
	clean := false
	pickKind := func(t int) string {
		kinds := e2e.AllKinds
		if clean {
			kinds = cleanKinds
		}
		for tries := 0; tries < 20; tries++ {
			k := kinds[rnd.Pick(len(kinds))]
			if e2e.Applicable(k, cc.byKey[cc.keys[t]]) {
				return k
			}
		}
		return e2e.KTransport
	}
	if n >= 2 {
		if e.tier == "thorough" && n <= 6 {
			for mask := 1; mask < 1<<n; mask++ {
				if mask&(mask-1) == 0 {
					continue // singles are done
				}
				for rep := 0; rep < 2; rep++ {
					clean = rep == 0
					var fs []fault
					for t := 0; t < n; t++ {
						if mask&(1<<t) != 0 {
							fs = append(fs, fault{t, pickKind(t)})
						}
					}
					e.runFaults(cc, o, fs)
				}
			}
		} else {
			count := 30
			if e.tier == "thorough" {
				count = 2000
			}
			for i := 0; i < count; i++ {
				clean = i%3 != 0
				size := 2 + rnd.Pick(min(n-1, 3))
				perm := rnd.Perm(n)[:size]
				sort.Ints(perm)
				var fs []fault
				for _, t := range perm {
					fs = append(fs, fault{t, pickKind(t)})
				}
				e.runFaults(cc, o, fs)
			}
		}
	}
	return o
}

func optSets(tier, which string) []optSet {
	all := []optSet{{false, false}, {true, true}, {false, true}, {true, false}}
	switch which {
	case "all":
		return all
	case "":
		if tier == "thorough" {
			return all
		}
		return all[:2]
	}
	var out []optSet
	for _, p := range strings.Split(which, ";") {
		var mf, sc int
		fmt.Sscanf(p, "%d,%d", &mf, &sc)
		out = append(out, optSet{mf == 1, sc == 1})
	}
	return out
}

func (e *env) runCases(cases []*fedlab.Case, opts []optSet, out *common.Out, only []fault) {
	enc := func(o *outcome) {
		b, _ := json.Marshal(o)
		out.Line(string(b))
	}
	var lab *fedlab.Lab
	var pl *e2e.Planner
	labKey := ""
	closeLab := func() {
		if pl != nil {
			pl.Close()
			pl = nil
		}
		if lab != nil {
			lab.Close()
			lab = nil
		}
	}
	defer closeLab()
	for _, opt := range opts {
		for _, c := range cases {
			k := fmt.Sprintf("%d/%d/%s/%s", c.Seed, c.CfgIdx(), c.Knobs.String(), opt)
			if k != labKey {
				closeLab()
				eo := fedlab.EngineOptions{MultiFetch: opt.MF, ScheduleFetches: opt.Sched}
				var err error
				lab, err = fedlab.NewLab(c.Cfg, c.Uni, e.exec, eo)
				if err == nil {
					pl, err = e2e.NewPlanner(lab, eo)
				}
				if err != nil {
					enc(&outcome{Seed: c.Seed, Index: c.Index, Knobs: c.Knobs.String(), Opt: opt.String(), Status: "laberror", Detail: short(err.Error())})
					closeLab()
					labKey = ""
					continue
				}
				labKey = k
			}
			enc(e.checkCase(c, lab, pl, opt, only))
		}
	}
}

func main() {
	if len(os.Args) < 2 {
		fmt.Println("usage: c07e gen|one|corpus ...")
		os.Exit(2)
	}
	a := common.Args(os.Args[2:])
	tier := a["tier"]
	if tier == "" {
		tier = "quick"
	}
	exec, err := fedlab.NewExecServer("")
	if err != nil {
		fmt.Fprintln(os.Stderr, "executor:", err)
		os.Exit(2)
	}
	defer exec.Close()
	e := &env{exec: exec, tier: tier, verbose: a["v"] == "1"}
	knobs := fedlab.ParseKnobs(a["knobs"])
	switch os.Args[1] {
	case "gen":
		seed := common.ArgU64(a, "seed", 1)
		n := common.ArgInt(a, "n", 50)
		from := common.ArgInt(a, "from", 0)
		out := common.NewOut(a["out"])
		defer out.Close()
		var cases []*fedlab.Case
		for i := from; i < from+n; i++ {
			cases = append(cases, fedlab.BuildCase(seed, i, 0, knobs, false))
		}
		t0 := time.Now()
		e.runCases(cases, optSets(tier, a["opts"]), out, nil)
		fmt.Fprintf(os.Stderr, "c07e gen: %d cases, %.1fs\n", len(cases), time.Since(t0).Seconds())
	case "one":
		seed := common.ArgU64(a, "seed", 1)
		idx := common.ArgInt(a, "index", 0)
		c := fedlab.BuildCase(seed, idx, 0, knobs, a["exact"] == "1")
		opts := []optSet{{a["mf"] == "1", a["sched"] == "1"}}
		var only []fault
		if a["faults"] != "" {
			only = parseFaults(a["faults"])
		}
		out := common.NewOut("")
		e.runCases([]*fedlab.Case{c}, opts, out, only)
		out.Close()
	case "corpus":
		// lines: seed TAB index TAB knobs TAB mf,sched TAB faults
		b, err := os.ReadFile(a["in"])
		if err != nil {
			fmt.Fprintln(os.Stderr, err)
			os.Exit(2)
		}
		out := common.NewOut(a["out"])
		defer out.Close()
		for _, line := range strings.Split(string(b), "\n") {
			line = strings.TrimSpace(line)
			if line == "" || strings.HasPrefix(line, "#") {
				continue
			}
			p := strings.Split(line, "\t")
			if len(p) < 5 {
				continue
			}
			var seed uint64
			var idx int
			fmt.Sscan(p[0], &seed)
			fmt.Sscan(p[1], &idx)
			c := fedlab.BuildCase(seed, idx, 0, fedlab.ParseKnobs(p[2]), true)
			var only []fault
			if p[4] != "*" {
				only = parseFaults(p[4])
			}
			e.runCases([]*fedlab.Case{c}, optSets(tier, p[3]), out, only)
		}
	default:
		fmt.Println("unknown command")
		os.Exit(2)
	}
}
