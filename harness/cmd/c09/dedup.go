package main

import (
	"bufio"
	"fmt"
	"os"
	"strconv"
	"strings"

	"github.com/wundergraph/graphql-go-tools/v2/pkg/engine/plan"
	"github.com/wundergraph/graphql-go-tools/v2/pkg/engine/postprocess"
	"github.com/wundergraph/graphql-go-tools/v2/pkg/engine/resolve"

	"gvh/common"
)

// corr:C09/dedup -- the real deduplicateSingleFetches stage (through postprocess.Processor with
// every other stage switched off or a no-op) on generated flat fetch lists.

type pathEl struct {
	kind  string // "o" | "a"
	path  []string
	types []string
}

type lfetch struct {
	id   int
	deps []int
	ds   int
	req  int
	path []pathEl
}

func (f lfetch) sexp() string {
	ds := make([]string, len(f.deps))
	for i, d := range f.deps {
		ds[i] = strconv.Itoa(d)
	}
	ps := []string{"path"}
	for _, e := range f.path {
		var names, tns []string
		for _, n := range e.path {
			names = append(names, common.QS(n))
		}
		for _, n := range e.types {
			tns = append(tns, common.QS(n))
		}
		ps = append(ps, common.L("pe", e.kind, common.L(names...), common.L(tns...)))
	}
	return common.L("lf", strconv.Itoa(f.id), common.L(ds...), strconv.Itoa(f.ds), strconv.Itoa(f.req), common.L(ps...))
}

func toItems(l []lfetch) []*resolve.FetchItem {
	out := make([]*resolve.FetchItem, len(l))
	for i, f := range l {
		var deps []int
		if f.deps != nil {
			deps = append([]int{}, f.deps...)
		}
		it := &resolve.FetchItem{
			Fetch: &resolve.SingleFetch{
				FetchDependencies: resolve.FetchDependencies{FetchID: f.id, DependsOnFetchIDs: deps},
				FetchConfiguration: resolve.FetchConfiguration{
					Input: fmt.Sprintf(`{"method":"POST","url":"http://ds%d/","body":{"query":"{r%d}"}}`, f.ds, f.req),
				},
				Info: &resolve.FetchInfo{DataSourceID: fmt.Sprintf("ds%d", f.ds), DataSourceName: fmt.Sprintf("ds%d", f.ds)},
			},
		}
		for _, e := range f.path {
			k := resolve.FetchItemPathElementKindObject
			if e.kind == "a" {
				k = resolve.FetchItemPathElementKindArray
			}
			var tn []string
			if e.types != nil {
				tn = append([]string{}, e.types...)
			}
			it.FetchPath = append(it.FetchPath, resolve.FetchItemPathElement{Kind: k, Path: append([]string{}, e.path...), TypeNames: tn})
		}
		out[i] = it
	}
	return out
}

func fromTree(n *resolve.FetchTreeNode) ([]lfetch, string) {
	if n == nil || n.Kind != resolve.FetchTreeNodeKindSequence {
		return nil, "root is not a sequence"
	}
	var out []lfetch
	for _, c := range n.ChildNodes {
		if c.Kind != resolve.FetchTreeNodeKindSingle || c.Item == nil {
			return nil, "child is not a single fetch"
		}
		sf, ok := c.Item.Fetch.(*resolve.SingleFetch)
		if !ok {
			return nil, "child is not a SingleFetch"
		}
		f := lfetch{id: sf.FetchID, deps: append([]int(nil), sf.DependsOnFetchIDs...)}
		fmt.Sscanf(sf.Info.DataSourceID, "ds%d", &f.ds)
		if i := strings.Index(sf.Input, `{r`); i >= 0 {
			fmt.Sscanf(sf.Input[i:], "{r%d}", &f.req)
		}
		for _, e := range c.Item.FetchPath {
			k := "o"
			if e.Kind == resolve.FetchItemPathElementKindArray {
				k = "a"
			}
			f.path = append(f.path, pathEl{kind: k, path: append([]string(nil), e.Path...), types: append([]string(nil), e.TypeNames...)})
		}
		out = append(out, f)
	}
	return out, ""
}

func runDedup(l []lfetch) (out []lfetch, panicMsg string) {
	defer func() {
		if p := recover(); p != nil {
			panicMsg = fmt.Sprint(p)
		}
	}()
	p := postprocess.NewProcessor(
		postprocess.DisableMergeFields(),
		postprocess.DisableAddMissingNestedDependencies(),
		postprocess.DisableCollectAuthorizationCoordinates(),
		postprocess.DisableCreateConcreteSingleFetchTypes(),
		postprocess.DisableResolveInputTemplates(),
		postprocess.DisableOrderSequenceByDependencies(),
		postprocess.DisableCreateParallelNodes(),
	)
	response := &resolve.GraphQLResponse{RawFetches: toItems(l)}
	p.Process(&plan.SynchronousResponsePlan{Response: response})
	out, msg := fromTree(response.Fetches)
	return out, msg
}

func observeDedup(kind string, l []lfetch) string {
	in := []string{"in"}
	for _, f := range l {
		in = append(in, f.sexp())
	}
	res, pm := runDedup(l)
	var outs string
	if pm != "" {
		outs = common.L("panic", common.QS(pm))
	} else {
		o := []string{"out"}
		for _, f := range res {
			o = append(o, f.sexp())
		}
		outs = common.L(o...)
	}
	return common.L("c09", "dedup", kind, common.L(in...), outs)
}

var typePool = []string{"A", "B", "C", "D"}
var segPool = []string{"me", "reviews", "product", "author", "@"}

func genPath(r *common.Rand) []pathEl {
	var p []pathEl
	for k := r.Pick(4); k > 0; k-- {
		e := pathEl{kind: "o"}
		if r.Chance(1, 3) {
			e.kind = "a"
		}
		for s := 1 + r.Pick(2); s > 0; s-- {
			e.path = append(e.path, segPool[r.Pick(len(segPool))])
		}
		p = append(p, e)
	}
	return p
}

func genTypes(r *common.Rand) []string {
	if r.Chance(1, 3) {
		return nil
	}
	var out []string
	for k := 1 + r.Pick(3); k > 0; k-- {
		out = append(out, typePool[r.Pick(len(typePool))])
	}
	return out
}

// genFetchList: kind "wf" = unique ids, acyclic (dependencies on earlier positions), duplicates
// likely (keys drawn from a small pool); "mal" = ids may repeat, self / forward dependencies.
func genFetchList(r *common.Rand, mal bool) []lfetch {
	n := 1 + r.Pick(10)
	type key struct {
		ds, req int
		path    []pathEl
	}
	nk := 1 + r.Pick(n/2+2)
	keys := make([]key, nk)
	for i := range keys {
		keys[i] = key{ds: r.Pick(3), req: r.Pick(4), path: genPath(r)}
	}
	ids := r.Perm(n + r.Pick(4))[:n]
	if r.Chance(1, 2) {
		for i := range ids {
			ids[i] = i
		}
	}
	l := make([]lfetch, n)
	for i := 0; i < n; i++ {
		k := keys[r.Pick(nk)]
		f := lfetch{id: ids[i], ds: k.ds, req: k.req}
		for _, e := range k.path {
			f.path = append(f.path, pathEl{kind: e.kind, path: e.path, types: genTypes(r)})
		}
		if i > 0 {
			for d := r.Pick(3); d > 0; d-- {
				f.deps = append(f.deps, ids[r.Pick(i)])
			}
		}
		if r.Chance(1, 8) {
			f.deps = append(f.deps, n+10+r.Pick(3)) // dependency satisfied outside the list
		}
		if mal {
			if r.Chance(1, 4) {
				f.deps = append(f.deps, ids[r.Pick(n)])
			}
			if r.Chance(1, 5) {
				f.id = ids[r.Pick(n)]
			}
		}
		l[i] = f
	}
	return l
}

func parseDedupCorpus(line string) (string, []lfetch, error) {
	// KIND<TAB>id:deps:ds:req:path ...   path = kind/seg.seg/T,T;kind/seg/   deps = d,d
	parts := strings.SplitN(line, "\t", 2)
	if len(parts) != 2 {
		return "", nil, fmt.Errorf("bad dedup corpus line")
	}
	var l []lfetch
	for _, tok := range strings.Fields(parts[1]) {
		fs := strings.Split(tok, ":")
		if len(fs) != 5 {
			return "", nil, fmt.Errorf("bad fetch %q", tok)
		}
		f := lfetch{}
		f.id, _ = strconv.Atoi(fs[0])
		if fs[1] != "" {
			for _, d := range strings.Split(fs[1], ",") {
				x, _ := strconv.Atoi(d)
				f.deps = append(f.deps, x)
			}
		}
		f.ds, _ = strconv.Atoi(fs[2])
		f.req, _ = strconv.Atoi(fs[3])
		if fs[4] != "" {
			for _, pe := range strings.Split(fs[4], ";") {
				es := strings.Split(pe, "/")
				if len(es) != 3 {
					return "", nil, fmt.Errorf("bad path element %q", pe)
				}
				e := pathEl{kind: es[0], path: strings.Split(es[1], ".")}
				if es[2] != "" {
					e.types = strings.Split(es[2], ",")
				}
				f.path = append(f.path, e)
			}
		}
		l = append(l, f)
	}
	return parts[0], l, nil
}

func dedupCmd(a map[string]string) {
	out := common.NewOut(a["out"])
	defer out.Close()
	if in := a["in"]; in != "" {
		f, err := os.Open(in)
		if err != nil {
			return
		}
		defer f.Close()
		sc := bufio.NewScanner(f)
		for sc.Scan() {
			line := sc.Text()
			if strings.HasPrefix(line, "#") || strings.TrimSpace(line) == "" {
				continue
			}
			kind, l, err := parseDedupCorpus(line)
			if err != nil {
				fmt.Fprintln(os.Stderr, err, ":", line)
				os.Exit(2)
			}
			out.Line(observeDedup(kind, l))
		}
		return
	}
	r := common.NewRand(common.ArgU64(a, "seed", 1))
	n := common.ArgInt(a, "n", 1000)
	for i := 0; i < n; i++ {
		if r.Chance(1, 10) {
			out.Line(observeDedup("mal", genFetchList(r, true)))
		} else {
			out.Line(observeDedup("wf", genFetchList(r, false)))
		}
	}
}

// dedupOnlyProcessor: every stage but de-duplication off (or a no-op on a flat tree).
func dedupOnlyProcessor() *postprocess.Processor {
	return postprocess.NewProcessor(
		postprocess.DisableMergeFields(),
		postprocess.DisableAddMissingNestedDependencies(),
		postprocess.DisableCollectAuthorizationCoordinates(),
		postprocess.DisableCreateConcreteSingleFetchTypes(),
		postprocess.DisableResolveInputTemplates(),
		postprocess.DisableOrderSequenceByDependencies(),
		postprocess.DisableCreateParallelNodes(),
	)
}

// realDedup builds the dedup case line of a raw (un-post-processed) synchronous plan.
func realDedup(pl plan.Plan) (string, bool) {
	sp, ok := pl.(*plan.SynchronousResponsePlan)
	if !ok || sp.Response == nil || len(sp.Response.RawFetches) == 0 {
		return "", false
	}
	raw := sp.Response.RawFetches
	label := make([]int, len(raw))
	for i := range raw {
		label[i] = i
		for j := 0; j < i; j++ {
			if raw[j].EqualSingleFetch(raw[i]) {
				label[i] = label[j]
				break
			}
		}
	}
	conv := func(it *resolve.FetchItem, lab int) lfetch {
		d := it.Fetch.Dependencies()
		f := lfetch{id: d.FetchID, deps: append([]int(nil), d.DependsOnFetchIDs...), req: lab}
		for _, e := range it.FetchPath {
			k := "o"
			if e.Kind == resolve.FetchItemPathElementKindArray {
				k = "a"
			}
			f.path = append(f.path, pathEl{kind: k, path: append([]string(nil), e.Path...), types: append([]string(nil), e.TypeNames...)})
		}
		return f
	}
	byID := map[int]int{}
	in := []string{"in"}
	for i, it := range raw {
		f := conv(it, label[i])
		if _, dup := byID[f.id]; !dup {
			byID[f.id] = label[i]
		}
		in = append(in, f.sexp())
	}
	outs := func() (res string) {
		defer func() {
			if p := recover(); p != nil {
				res = common.L("panic", common.QS(fmt.Sprint(p)))
			}
		}()
		dedupOnlyProcessor().Process(sp)
		o := []string{"out"}
		if sp.Response.Fetches == nil {
			return common.L("panic", common.QS("no fetch tree"))
		}
		for _, c := range sp.Response.Fetches.ChildNodes {
			if c.Kind != resolve.FetchTreeNodeKindSingle || c.Item == nil || c.Item.Fetch == nil {
				return common.L("panic", common.QS("tree is not flat after the stage"))
			}
			o = append(o, conv(c.Item, byID[c.Item.Fetch.Dependencies().FetchID]).sexp())
		}
		return common.L(o...)
	}()
	return common.L("c09", "dedup", "real", common.L(in...), outs), true
}
