package main

import (
	"bufio"
	"encoding/json"
	"fmt"
	"os"
	"os/exec"
	"sort"
	"strings"

	"github.com/wundergraph/graphql-go-tools/v2/pkg/engine/plan"

	"gvh/c09lab"
	"gvh/common"
	"gvh/fedlab"
)

// A det job: one (configuration, universe, request).
type job struct {
	Cfg   string `json:"cfg"`
	USeed uint64 `json:"useed"`
	Text  string `json:"text"`
	Vars  string `json:"vars"`
	Name  string `json:"name"`
	Style string `json:"style"`
}

// obsv: what one planning of one job under one option set shows.
type obsv struct {
	Plan string `json:"plan"` // digest of the full plan dump ("ERR:..." when planning failed)
	Reqs string `json:"reqs"` // digest of the sorted subgraph request list of a fresh engine
	XReq string `json:"xreq"` // the same with fragment-free queries (minification undone)
	NReq int    `json:"nreq"`
}

func detSets(spec string) []c09lab.OptionSet {
	if spec == "all" {
		return c09lab.AllOptionSets()
	}
	return []c09lab.OptionSet{
		c09lab.DefaultOptions,
		{Dedup: true, Minify: true},
		{Dedup: true, Multi: true, Sched: true},
		{Dedup: false, Multi: true, Sched: true, Minify: true},
	}
}

type detEnv struct {
	exec *fedlab.ExecServer
	labs map[string]*fedlab.Lab // cfg|useed|opts -> lab used only to read the planner configuration
}

func (e *detEnv) lab(j job, o c09lab.OptionSet) (*fedlab.Lab, error) {
	fx := c09lab.FixedByName(j.Cfg)
	if fx == nil {
		return nil, fmt.Errorf("no config %s", j.Cfg)
	}
	return c09lab.NewLab(fx.Config, fx.Universe(common.NewRand(j.USeed)), e.exec, o)
}

// planOnce: fresh planner (or the given one), full dump.
func planOnce(lab *fedlab.Lab, planner *plan.Planner, j job) (dump string) {
	sp := &c09lab.Spelled{Text: j.Text, Variables: j.Vars, OpName: j.Name}
	p, err := c09lab.Prepare(lab.Schema, sp)
	if err != nil {
		return "ERR:prepare"
	}
	if planner == nil {
		planner, err = plan.NewPlanner(c09lab.PlannerConfig(lab.Engine))
		if err != nil {
			return "ERR:newplanner"
		}
	}
	pl, err := c09lab.PlanWith(planner, lab.Schema, p, c09lab.ProcessorOptions(lab.Engine))
	if err != nil {
		if os.Getenv("C09_DEBUG") != "" {
			fmt.Fprintln(os.Stderr, "PLAN ERROR:", j.Text, "::", err)
		}
		return "ERR:plan"
	}
	return "NORMALIZED " + p.Normalized + "\n" + c09lab.Dump(pl)
}

func reqsOnce(e *detEnv, j job, o c09lab.OptionSet) (string, int, []string, string) {
	lab, err := e.lab(j, o)
	if err != nil {
		return "ERR:lab", 0, nil, "ERR:lab"
	}
	defer lab.Close()
	ob := c09lab.Run(lab, &c09lab.Spelled{Text: j.Text, Variables: j.Vars, OpName: j.Name})
	keys := ob.SortedReqKeys()
	resp := c09lab.RespTree(ob).String()
	return c09lab.Digest(strings.Join(keys, "\n") + "\n" + resp), len(keys), keys,
		c09lab.Digest(strings.Join(ob.SortedExpandedReqKeys(), "\n") + "\n" + resp)
}

// detchild: one fresh process; prints one JSON object per (job, option set).
func detchild(a map[string]string) {
	jobs := readJobs(a["jobs"])
	sets := detSets(a["opts"])
	exec, err := fedlab.NewExecServer("")
	if err != nil {
		fmt.Fprintln(os.Stderr, err)
		os.Exit(1)
	}
	defer exec.Close()
	e := &detEnv{exec: exec}
	w := bufio.NewWriter(os.Stdout)
	defer w.Flush()
	only := common.ArgInt(a, "only", -1)
	for ji, j := range jobs {
		if only >= 0 && ji != only {
			continue
		}
		for _, o := range sets {
			lab, err := e.lab(j, o)
			if err != nil {
				fmt.Fprintln(os.Stderr, err)
				os.Exit(1)
			}
			d := planOnce(lab, nil, j)
			lab.Close()
			rd, n, keys, xd := reqsOnce(e, j, o)
			ob := obsv{Plan: c09lab.Digest(d), Reqs: rd, NReq: n, XReq: xd}
			b, _ := json.Marshal(ob)
			w.Write(b)
			w.WriteByte('\n')
			if a["full"] == "1" {
				fmt.Fprintf(w, "FULL %s\n%s\nREQS\n%s\nEND\n", o, d, strings.Join(keys, "\n"))
			}
		}
	}
}

func readJobs(path string) []job {
	f, err := os.Open(path)
	if err != nil {
		fmt.Fprintln(os.Stderr, err)
		os.Exit(1)
	}
	defer f.Close()
	var out []job
	sc := bufio.NewScanner(f)
	sc.Buffer(make([]byte, 1<<20), 1<<26)
	for sc.Scan() {
		var j job
		if json.Unmarshal(sc.Bytes(), &j) == nil {
			out = append(out, j)
		}
	}
	return out
}

func firstDiff(a, b string) string {
	i := 0
	for i < len(a) && i < len(b) && a[i] == b[i] {
		i++
	}
	lo := i - 120
	if lo < 0 {
		lo = 0
	}
	cut := func(s string) string {
		hi := i + 200
		if hi > len(s) {
			hi = len(s)
		}
		if lo > len(s) {
			return ""
		}
		return s[lo:hi]
	}
	return fmt.Sprintf("at byte %d: <<%s>> vs <<%s>>", i, cut(a), cut(b))
}

// det: plan_deterministic.
func det(a map[string]string) {
	seed := common.ArgU64(a, "seed", 1)
	n := common.ArgInt(a, "n", 8)
	procs := common.ArgInt(a, "procs", 3)
	reps := common.ArgInt(a, "reps", 3)
	out := common.NewOut(a["out"])
	defer out.Close()
	sets := detSets(a["opts"])
	r := common.NewRand(seed)
	var jobs []job
	if a["jobs"] != "" {
		jobs = readJobs(a["jobs"])
	} else {
		for _, fx := range c09lab.AllFixed() {
			useed := r.Uint64() % 1000000
			u := fx.Universe(common.NewRand(useed))
			for i := 0; i < n; i++ {
				t := c09lab.GenTemplate(r, fx.Config, u)
				st := c09lab.Styles[r.Pick(len(c09lab.Styles))]
				sp := c09lab.Spell(r, fx.Config, t, st)
				jobs = append(jobs, job{Cfg: fx.Name, USeed: useed, Text: sp.Text, Vars: sp.Variables, Name: sp.OpName, Style: string(st)})
			}
		}
	}
	jobsPath := a["out"] + ".jobs"
	if a["out"] == "" || a["out"] == "-" {
		jobsPath = os.TempDir() + "/c09det.jobs"
	}
	jf, _ := os.Create(jobsPath)
	for _, j := range jobs {
		b, _ := json.Marshal(j)
		jf.Write(b)
		jf.Write([]byte("\n"))
	}
	jf.Close()

	// children first (they run concurrently with nothing else here; each its own map seeds)
	self, _ := os.Executable()
	type childRes struct {
		obs [][]obsv
		err error
	}
	ch := make(chan childRes, procs)
	for p := 0; p < procs; p++ {
		go func() {
			cmd := exec.Command(self, "detchild", "-jobs", jobsPath, "-opts", a["opts"]+"")
			cmd.Stderr = os.Stderr
			b, err := cmd.Output()
			if err != nil {
				ch <- childRes{err: err}
				return
			}
			var all []obsv
			for _, line := range strings.Split(string(b), "\n") {
				if strings.HasPrefix(line, "{") {
					var o obsv
					if json.Unmarshal([]byte(line), &o) == nil {
						all = append(all, o)
					}
				}
			}
			var per [][]obsv
			for i := 0; i+len(sets) <= len(all); i += len(sets) {
				per = append(per, all[i:i+len(sets)])
			}
			ch <- childRes{obs: per}
		}()
	}

	ex, err := fedlab.NewExecServer("")
	if err != nil {
		fmt.Fprintln(os.Stderr, err)
		os.Exit(1)
	}
	defer ex.Close()
	e := &detEnv{exec: ex}

	type cell struct {
		plans, reqs, xreqs [][2]string // (label, digest)
		dumps              map[string]string
		nreq               int
		freshErr           bool
	}
	cells := make([][]*cell, len(jobs))
	for ji := range jobs {
		cells[ji] = make([]*cell, len(sets))
		for si := range sets {
			cells[ji][si] = &cell{dumps: map[string]string{}}
		}
	}
	for si, o := range sets {
		// fresh planner instances, several times
		for ji, j := range jobs {
			c := cells[ji][si]
			lab, err := e.lab(j, o)
			if err != nil {
				fmt.Fprintln(os.Stderr, err)
				os.Exit(1)
			}
			for k := 0; k < reps; k++ {
				d := planOnce(lab, nil, j)
				dg := c09lab.Digest(d)
				c.plans = append(c.plans, [2]string{fmt.Sprintf("fresh%d", k), dg})
				c.dumps[dg] = d
				if strings.HasPrefix(d, "ERR:") {
					c.freshErr = true
				}
			}
			lab.Close()
			rd, nq, _, xd := reqsOnce(e, j, o)
			c.reqs = append(c.reqs, [2]string{"engine0", rd})
			c.xreqs = append(c.xreqs, [2]string{"engine0", xd})
			c.nreq = nq
			rd2, _, _, xd2 := reqsOnce(e, j, o)
			c.reqs = append(c.reqs, [2]string{"engine1", rd2})
			c.xreqs = append(c.xreqs, [2]string{"engine1", xd2})
		}
		// one planner per configuration, reused over all jobs of that configuration in order and
		// then in reverse order: every job is planned after OTHER operations were planned
		byCfg := map[string][]int{}
		for ji, j := range jobs {
			byCfg[j.Cfg+fmt.Sprint(j.USeed)] = append(byCfg[j.Cfg+fmt.Sprint(j.USeed)], ji)
		}
		var keys []string
		for k := range byCfg {
			keys = append(keys, k)
		}
		sort.Strings(keys)
		for _, k := range keys {
			idx := byCfg[k]
			lab, err := e.lab(jobs[idx[0]], o)
			if err != nil {
				fmt.Fprintln(os.Stderr, err)
				os.Exit(1)
			}
			planner, err := plan.NewPlanner(c09lab.PlannerConfig(lab.Engine))
			if err == nil {
				for _, ji := range idx {
					d := planOnce(lab, planner, jobs[ji])
					dg := c09lab.Digest(d)
					cells[ji][si].plans = append(cells[ji][si].plans, [2]string{"reused-fwd", dg})
					cells[ji][si].dumps[dg] = d
				}
				for x := len(idx) - 1; x >= 0; x-- {
					ji := idx[x]
					d := planOnce(lab, planner, jobs[ji])
					dg := c09lab.Digest(d)
					cells[ji][si].plans = append(cells[ji][si].plans, [2]string{"reused-bwd", dg})
					cells[ji][si].dumps[dg] = d
				}
			}
			lab.Close()
		}
	}
	for p := 0; p < procs; p++ {
		cr := <-ch
		if cr.err != nil || len(cr.obs) != len(jobs) {
			fmt.Fprintln(os.Stderr, "detchild failed:", cr.err, len(cr.obs), len(jobs))
			os.Exit(1)
		}
		for ji := range jobs {
			for si := range sets {
				cells[ji][si].plans = append(cells[ji][si].plans, [2]string{fmt.Sprintf("proc%d", p), cr.obs[ji][si].Plan})
				cells[ji][si].reqs = append(cells[ji][si].reqs, [2]string{fmt.Sprintf("proc%d", p), cr.obs[ji][si].Reqs})
				cells[ji][si].xreqs = append(cells[ji][si].xreqs, [2]string{fmt.Sprintf("proc%d", p), cr.obs[ji][si].XReq})
			}
		}
	}
	// the raw fetch list of every job's plan (default planner configuration), through the real
	// de-duplication stage alone: corr:C09/dedup and the plan hypotheses on real plans
	for _, j := range jobs {
		lab, err := e.lab(j, c09lab.DefaultOptions)
		if err != nil {
			continue
		}
		sp := &c09lab.Spelled{Text: j.Text, Variables: j.Vars, OpName: j.Name}
		if p, err := c09lab.Prepare(lab.Schema, sp); err == nil {
			if planner, err := plan.NewPlanner(c09lab.PlannerConfig(lab.Engine)); err == nil {
				if pl, err := c09lab.PlanRaw(planner, lab.Schema, p); err == nil {
					if line, ok := realDedup(pl); ok {
						out.Line(line)
					}
				}
			}
		}
		lab.Close()
	}
	for ji, j := range jobs {
		for si, o := range sets {
			c := cells[ji][si]
			var ps, rs, xs []string
			for _, x := range c.xreqs {
				xs = append(xs, common.L("r", common.QS(x[0]), common.QS(x[1])))
			}
			distinct := map[string]bool{}
			for _, x := range c.plans {
				ps = append(ps, common.L("p", common.QS(x[0]), common.QS(x[1])))
				distinct[x[1]] = true
			}
			for _, x := range c.reqs {
				rs = append(rs, common.L("r", common.QS(x[0]), common.QS(x[1])))
			}
			note := ""
			if len(c.dumps) > 1 {
				var ds []string
				for _, d := range c.dumps {
					ds = append(ds, d)
				}
				sort.Strings(ds)
				note = firstDiff(ds[0], ds[1])
			} else if len(distinct) > 1 {
				note = "differs across processes only; rerun: c09 detchild -full 1 -only " + fmt.Sprint(ji)
			}
			planErr := common.B(c.freshErr)
			out.Line(common.L("c09", "det", j.Cfg, common.I64(int64(j.USeed)), common.QS(o.String()), common.QS(j.Style), common.QS(j.Text), common.QS(j.Vars), common.QS(j.Name),
				common.L(append([]string{"plans"}, ps...)...), common.L(append([]string{"reqs"}, rs...)...), common.L(append([]string{"xreqs"}, xs...)...),
				common.L("nreq", common.I(c.nreq)), common.L("planerr", planErr), common.L("note", common.QS(note))))
		}
	}
}
