package main

import (
	"fmt"
	"os"

	"gvh/c09lab"
	"gvh/common"
	"gvh/fedlab"
)

// probe: exploratory run (not part of the check): every style of N templates on every fixed
// configuration against the default engine and the monolithic reference.
func probe(a map[string]string) {
	seed := common.ArgU64(a, "seed", 1)
	n := common.ArgInt(a, "n", 10)
	only := a["cfg"]
	verbose := a["v"] == "1"
	exec, err := fedlab.NewExecServer("")
	if err != nil {
		fmt.Println("exec:", err)
		os.Exit(1)
	}
	defer exec.Close()
	for _, fx := range c09lab.AllFixed() {
		if only != "" && fx.Name != only {
			continue
		}
		r := common.NewRand(seed)
		u := fx.Universe(r)
		lab, err := c09lab.NewLab(fx.Config, u, exec, c09lab.ParseOptionSet(a["opts"]+"d+"))
		if err != nil {
			fmt.Println("newlab", fx.Name, err)
			continue
		}
		agree, total, hits := 0, 0, 0
		for i := 0; i < n; i++ {
			t := c09lab.GenTemplate(r, fx.Config, u)
			for _, st := range c09lab.Styles {
				sp := c09lab.Spell(r, fx.Config, t, st)
				o := c09lab.Run(lab, sp)
				m, merr := lab.Mono(sp.Text, sp.OpName, []byte(sp.Variables))
				total++
				ok := merr == nil && o.Err == "" && m.Data.Equal(o.Data)
				if ok {
					agree++
				}
				if o.CacheHit {
					hits++
				}
				if !ok || verbose {
					fmt.Printf("[%s %s hit=%v] %s\n  vars=%s\n  err=%s\n  resp=%s\n", fx.Name, st, o.CacheHit, sp.Text, sp.Variables, o.Err, o.Raw)
					if merr != nil {
						fmt.Println("  mono err:", merr)
					} else {
						fmt.Printf("  mono=%s nerr=%d %s\n", m.Data.String(), m.NErrors, m.Invalid)
					}
					for _, q := range o.Reqs {
						fmt.Printf("    %s %s %s\n", q.Sub, q.Query, q.Vars)
					}
					if verbose {
						for _, p := range o.Pairs {
							fmt.Println("      pair", p)
						}
					}
				}
			}
		}
		fmt.Printf("%s: %d/%d agree with mono, cache hits %d\n", fx.Name, agree, total, hits)
		lab.Close()
	}
}
