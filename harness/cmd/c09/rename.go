package main

import (
	"fmt"
	"os"
	"sort"
	"strings"

	"gvh/c09lab"
	"gvh/common"
	"gvh/fedlab"
)

// corr:C09/rename -- the engine's own preparation of a request (normalisation, validation,
// variable extraction, variables mapper) on generated operations: the document before and after
// the variables mapper, the mapping, and the reference executor's answer to both forms.

// stripInternal removes the "__internal_typename" members: normalisation puts that placeholder
// into selection sets it emptied; the engine never renders it.
func stripInternal(j *fedlab.J) *fedlab.J {
	if j == nil {
		return j
	}
	switch j.Kind {
	case fedlab.JArr:
		out := &fedlab.J{Kind: fedlab.JArr}
		for _, x := range j.Items {
			out.Items = append(out.Items, stripInternal(x))
		}
		return out
	case fedlab.JObj:
		out := &fedlab.J{Kind: fedlab.JObj}
		for _, m := range j.Members {
			if m.Key == "__internal_typename" {
				continue
			}
			out.Members = append(out.Members, fedlab.Member{Key: m.Key, Val: stripInternal(m.Val)})
		}
		return out
	}
	return j
}

func jsonOrNone(r *fedlab.ExecResult, err error) string {
	if err != nil || r == nil {
		return "(fail)"
	}
	if r.Invalid != "" {
		return common.L("invalid", common.QS(r.Invalid))
	}
	return common.L("data", stripInternal(r.Data).Sexp(), common.I(r.NErrors))
}

func observeRename(lab *fedlab.Lab, cfgName string, sp *c09lab.Spelled) string {
	head := []string{"c09", "rename", cfgName, string(sp.Style), common.QS(sp.Text), common.QS(sp.Variables), common.QS(sp.OpName)}
	p, err := c09lab.Prepare(lab.Schema, sp)
	if err != nil {
		return common.L(append(head, common.L("prepare-error", common.QS(trunc(err.Error(), 200))))...)
	}
	before, err1 := fedlab.DumpOperation(p.BeforeMapper)
	after, err2 := fedlab.DumpOperation(p.Normalized)
	if err1 != nil || err2 != nil {
		return common.L(append(head, common.L("prepare-error", common.QS("printed operation does not re-parse")))...)
	}
	varsBefore := fedlab.JO()
	if strings.TrimSpace(p.VarsBefore) != "" {
		if j, err := fedlab.ParseJSON([]byte(p.VarsBefore)); err == nil {
			varsBefore = j
		}
	}
	// what the resolver reads for a (new) variable name: VariablesView.Get through RemapVariables
	news := make([]string, 0, len(p.Remap))
	for k := range p.Remap {
		news = append(news, k)
	}
	sort.Strings(news)
	var mp []string
	varsAfter := fedlab.JO()
	renamedOld := map[string]bool{}
	for _, nw := range news {
		old := p.Remap[nw]
		mp = append(mp, common.L(common.QS(nw), common.QS(old)))
		renamedOld[old] = true
		if v := varsBefore.Get(old); v != nil {
			varsAfter.Members = append(varsAfter.Members, fedlab.Member{Key: nw, Val: v})
		}
	}
	for _, m := range varsBefore.Members {
		if _, isNew := p.Remap[m.Key]; !isNew && varsAfter.Get(m.Key) == nil {
			// a name that is not the target of a renaming is read under its own name
			varsAfter.Members = append(varsAfter.Members, m)
		}
	}
	mb, e1 := lab.Exec.Exec(labSuperID(lab), "mono", before, sp.OpName, varsBefore)
	ma, e2 := lab.Exec.Exec(labSuperID(lab), "mono", after, sp.OpName, varsAfter)
	mo, e3 := lab.Mono(sp.Text, sp.OpName, []byte(sp.Variables))
	return common.L(append(head, before, after, common.L(append([]string{"mapping"}, mp...)...), varsBefore.Sexp(), varsAfter.Sexp(),
		jsonOrNone(mb, e1), jsonOrNone(ma, e2), jsonOrNone(mo, e3), common.L("varserr", common.QS(trunc(p.VarsErr, 160))))...)
}

func labSuperID(l *fedlab.Lab) string {
	// fedlab registers the supergraph under "<lab id>_super"; the id is private, so go through a
	// trivial operation once to learn nothing -- instead mirror the naming (L<n>_super)
	return superIDs[l]
}

var superIDs = map[*fedlab.Lab]string{}

func trunc(s string, n int) string {
	if len(s) > n {
		return s[:n]
	}
	return s
}

func renameCmd(a map[string]string) {
	seed := common.ArgU64(a, "seed", 1)
	n := common.ArgInt(a, "n", 100)
	out := common.NewOut(a["out"])
	defer out.Close()
	exec, err := fedlab.NewExecServer("")
	if err != nil {
		fmt.Fprintln(os.Stderr, err)
		os.Exit(1)
	}
	defer exec.Close()
	r := common.NewRand(seed)
	fixed := c09lab.AllFixed()
	for _, fx := range fixed {
		u := fx.Universe(common.NewRand(r.Uint64() % 1000000))
		lab, err := c09lab.NewLab(fx.Config, u, exec, c09lab.DefaultOptions)
		if err != nil {
			fmt.Fprintln(os.Stderr, err)
			os.Exit(1)
		}
		id := "c09ren_" + fx.Name
		if err := exec.Def(id, fx.Config.Super, u); err != nil {
			fmt.Fprintln(os.Stderr, err)
			os.Exit(1)
		}
		superIDs[lab] = id
		for i := 0; i < n/len(fixed)+1; i++ {
			t := c09lab.GenTemplate(r, fx.Config, u)
			for _, st := range c09lab.Styles {
				if st == c09lab.StyleFrag && !r.Chance(1, 3) {
					continue
				}
				out.Line(observeRename(lab, fx.Name, c09lab.Spell(r, fx.Config, t, st)))
			}
		}
		lab.Close()
	}
}

// renameOne: a single operation text (corpus replay).
func renameCorpus(a map[string]string) {
	out := common.NewOut(a["out"])
	defer out.Close()
	exec, err := fedlab.NewExecServer("")
	if err != nil {
		fmt.Fprintln(os.Stderr, err)
		os.Exit(1)
	}
	defer exec.Close()
	for _, line := range readLines(a["in"]) {
		// cfg<TAB>useed<TAB>opname<TAB>variables<TAB>text
		fs := strings.SplitN(line, "\t", 5)
		if len(fs) != 5 {
			continue
		}
		fx := c09lab.FixedByName(fs[0])
		if fx == nil {
			continue
		}
		var useed uint64
		fmt.Sscan(fs[1], &useed)
		u := fx.Universe(common.NewRand(useed))
		lab, err := c09lab.NewLab(fx.Config, u, exec, c09lab.DefaultOptions)
		if err != nil {
			fmt.Fprintln(os.Stderr, err)
			os.Exit(1)
		}
		id := "c09ren_" + fx.Name
		exec.Def(id, fx.Config.Super, u)
		superIDs[lab] = id
		out.Line(observeRename(lab, fx.Name, &c09lab.Spelled{Style: "corpus", Text: fs[4], Variables: fs[3], OpName: fs[2]}))
		lab.Close()
	}
}

func readLines(path string) []string {
	b, err := os.ReadFile(path)
	if err != nil {
		return nil
	}
	var out []string
	for _, l := range strings.Split(string(b), "\n") {
		if strings.TrimSpace(l) == "" || strings.HasPrefix(l, "#") {
			continue
		}
		out = append(out, l)
	}
	return out
}
