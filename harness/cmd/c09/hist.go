package main

import (
	"fmt"
	"os"
	"runtime"
	"strings"
	"sync"
	"sync/atomic"

	"gvh/c09lab"
	"gvh/common"
	"gvh/fedlab"
)

func pickSets(r *common.Rand, spec string) []c09lab.OptionSet {
	all := c09lab.AllOptionSets()
	switch {
	case spec == "" || spec == "all":
		return all
	case strings.HasPrefix(spec, "sample"):
		// the default set plus k others, drawn per history
		k := 4
		fmt.Sscanf(spec, "sample%d", &k)
		out := []c09lab.OptionSet{c09lab.DefaultOptions}
		perm := r.Perm(len(all))
		for _, i := range perm {
			if len(out) > k {
				break
			}
			if all[i] != c09lab.DefaultOptions {
				out = append(out, all[i])
			}
		}
		return out
	}
	var out []c09lab.OptionSet
	for _, s := range strings.Split(spec, ",") {
		out = append(out, c09lab.ParseOptionSet(s))
	}
	return out
}

// specsFor: the run specifications of one history.  Members of a fixture family with gate orders run the
// multi-fetch x scheduler combination under every order (each provider answers last once), plus the default set,
// the ungated combination and two drawn option sets under a drawn order; interface-hop families always include
// the set that differs from the default in de-duplication only.
func specsFor(r *common.Rand, fx *c09lab.Fixed, spec string) []c09lab.RunSpec {
	if len(fx.GateOrders) > 0 {
		ms := c09lab.OptionSet{Dedup: true, Multi: true, Sched: true}
		out := []c09lab.RunSpec{{Opt: c09lab.DefaultOptions}, {Opt: ms}}
		for _, o := range fx.GateOrders {
			x := ms
			x.Dedup, x.Minify = !r.Chance(1, 4), r.Chance(1, 4)
			out = append(out, c09lab.RunSpec{Opt: x, Order: o})
		}
		all := c09lab.AllOptionSets()
		for k := 0; k < 2; k++ {
			out = append(out, c09lab.RunSpec{Opt: all[r.Pick(len(all))], Order: fx.GateOrders[r.Pick(len(fx.GateOrders))]})
		}
		return out
	}
	sets := pickSets(r, spec)
	if fx.IHops {
		nd := c09lab.OptionSet{}
		have := false
		for _, o := range sets {
			have = have || o == nd
		}
		if !have {
			sets = append(sets, nd)
		}
	}
	return c09lab.SpecsOf(sets)
}

// diag prints (to stderr) what a human needs when a history shows a difference.
func diag(h *c09lab.History, ho *c09lab.HistoryObs, sets []c09lab.RunSpec) {
	for i, b := range ho.Base {
		rq := h.Reqs[i]
		ft := c09lab.RespTree(b.Fresh)
		if b.Mono != nil && b.Mono.Invalid == "" && b.Fresh.Err == "" && !b.Mono.Data.Equal(b.Fresh.Data) {
			fmt.Fprintf(os.Stderr, "MONO-DIFF %s %s\n  vars=%s\n  gw  =%s\n  mono=%s\n", h.CfgName, rq.Sp.Text, rq.Sp.Variables, b.Fresh.Raw, b.Mono.Data.String())
		}
		if b.Fresh.Err != "" {
			fmt.Fprintf(os.Stderr, "EXEC-ERR %s %s\n  vars=%s\n  err=%s\n", h.CfgName, rq.Sp.Text, rq.Sp.Variables, b.Fresh.Err)
		}
		for _, o := range sets {
			r := ho.Runs[o.String()][i]
			if !c09lab.RespTree(r.O).Equal(ft) {
				fmt.Fprintf(os.Stderr, "RESP-DIFF %s opts=%s hit=%v #%d %s\n  vars=%s\n  hist =%s %s\n  fresh=%s %s\n", h.CfgName, o, r.O.CacheHit, i, rq.Sp.Text, rq.Sp.Variables, r.O.Raw, r.O.Err, b.Fresh.Raw, b.Fresh.Err)
			}
			a, bb := strings.Join(r.O.SortedReqKeys(), "\n    "), strings.Join(r.FreshSame.SortedReqKeys(), "\n    ")
			if a != bb {
				fmt.Fprintf(os.Stderr, "REQS-DIFF(hist vs fresh same opts) %s opts=%s hit=%v #%d %s\n  hist:\n    %s\n  fresh:\n    %s\n", h.CfgName, o, r.O.CacheHit, i, rq.Sp.Text, a, bb)
			}
			have := map[string]bool{}
			for _, p := range r.O.Pairs {
				have[p] = true
			}
			for _, p := range b.Fresh.Pairs {
				if !have[p] {
					fmt.Fprintf(os.Stderr, "UNCOVERED %s opts=%s #%d %s\n  pair %s\n", h.CfgName, o, i, rq.Sp.Text, p)
					for _, q := range r.O.Reqs {
						fmt.Fprintf(os.Stderr, "    opt: %s %s %s\n", q.Sub, q.Query, q.Vars)
					}
					for _, q := range b.Fresh.Reqs {
						fmt.Fprintf(os.Stderr, "    def: %s %s %s\n", q.Sub, q.Query, q.Vars)
					}
					break
				}
			}
		}
	}
}

func hist(a map[string]string) {
	seed := common.ArgU64(a, "seed", 1)
	n := common.ArgInt(a, "n", 5)
	workers := common.ArgInt(a, "workers", 6)
	minLen, maxLen := common.ArgInt(a, "minlen", 5), common.ArgInt(a, "maxlen", 30)
	out := common.NewOut(a["out"])
	defer out.Close()
	fixed := c09lab.AllFixed()
	r := common.NewRand(seed)
	type item struct {
		h     *c09lab.History
		useed uint64
		sets  []c09lab.RunSpec
		line  string
	}
	var fams []string
	if a["fam"] != "" {
		fams = strings.Split(a["fam"], ",")
	}
	items := make([]*item, n)
	nfixed := 0
	for i := 0; i < n; i++ {
		var fx *c09lab.Fixed
		if len(fams) > 0 {
			// fixture families (c09lab/families.go), round robin; the member index is the history index
			fx = c09lab.Family(fams[i%len(fams)], seed, i)
			if fx == nil {
				fmt.Fprintln(os.Stderr, "unknown family", fams[i%len(fams)])
				os.Exit(2)
			}
		} else if gen := common.ArgInt(a, "gen", 0); gen > 0 && i%gen == gen-1 {
			// every gen-th history runs on a configuration of the shared federation generator
			fx = c09lab.Generated(seed, i)
		} else {
			fx = fixed[nfixed%len(fixed)]
			nfixed++
		}
		if a["cfg"] != "" {
			fx = c09lab.FixedByName(a["cfg"])
		}
		useed := r.Uint64() % 1000000
		u := fx.Universe(common.NewRand(useed))
		h := c09lab.GenHistoryFx(r, fx, u, minLen, maxLen)
		items[i] = &item{h: h, useed: useed, sets: specsFor(r, fx, a["opts"])}
	}
	if workers < 1 {
		workers = 1
	}
	var wg sync.WaitGroup
	next := make(chan *item, n)
	for _, it := range items {
		next <- it
	}
	close(next)
	var failed atomic.Value
	done := make([]chan struct{}, n)
	for i := range done {
		done[i] = make(chan struct{})
	}
	index := map[*item]int{}
	for i, it := range items {
		index[it] = i
	}
	for w := 0; w < workers; w++ {
		wg.Add(1)
		go func() {
			defer wg.Done()
			exec, err := fedlab.NewExecServer("")
			if err != nil {
				failed.Store(err.Error())
				return
			}
			defer exec.Close()
			for it := range next {
				ho, err := c09lab.ObserveSpecs(it.h, exec, it.sets)
				if err != nil {
					failed.Store(err.Error())
					close(done[index[it]])
					continue
				}
				if a["diag"] == "1" {
					diag(it.h, ho, it.sets)
				}
				it.line = ho.SexpSpecs(it.h, it.useed, it.sets)
				it.h = nil // the observations of a history are large: keep the line only
				close(done[index[it]])
			}
		}()
	}
	// write the lines in generation order as they become available
	for i, it := range items {
		<-done[i]
		if it.line != "" {
			out.Line(it.line)
			it.line = ""
		}
	}
	wg.Wait()
	if os.Getenv("C09_DEBUG") != "" {
		var ms runtime.MemStats
		runtime.GC()
		runtime.ReadMemStats(&ms)
		fmt.Fprintf(os.Stderr, "goroutines=%d heap_alloc=%dMB heap_sys=%dMB\n", runtime.NumGoroutine(), ms.HeapAlloc>>20, ms.HeapSys>>20)
	}
	if v := failed.Load(); v != nil {
		fmt.Fprintln(os.Stderr, "observe:", v)
		os.Exit(1)
	}
}

// histCorpus: hand-written histories.  Input lines: cfg<TAB>universe seed<TAB>group<TAB>operation
// name<TAB>variables<TAB>operation text; consecutive lines with the same (cfg, seed) form one
// history, run under all sixteen option sets.
func histCorpus(a map[string]string) {
	out := common.NewOut(a["out"])
	defer out.Close()
	exec, err := fedlab.NewExecServer("")
	if err != nil {
		fmt.Fprintln(os.Stderr, "exec:", err)
		os.Exit(1)
	}
	defer exec.Close()
	var cur *c09lab.History
	var curFx *c09lab.Fixed
	var curKey string
	var curSeed uint64
	flush := func() {
		if cur == nil || len(cur.Reqs) == 0 {
			return
		}
		sets := c09lab.SpecsOf(c09lab.AllOptionSets())
		// a member of a gated fixture family: also every scheduler option set under every completion order
		for _, ord := range curFx.GateOrders {
			for _, o := range c09lab.AllOptionSets() {
				if o.Sched && !o.Minify {
					sets = append(sets, c09lab.RunSpec{Opt: o, Order: ord})
				}
			}
		}
		ho, err := c09lab.ObserveSpecs(cur, exec, sets)
		if err != nil {
			fmt.Fprintln(os.Stderr, "observe:", err)
			os.Exit(1)
		}
		if a["diag"] == "1" {
			diag(cur, ho, sets)
		}
		out.Line(ho.SexpSpecs(cur, curSeed, sets))
		cur = nil
	}
	for _, line := range readLines(a["in"]) {
		fs := strings.SplitN(line, "\t", 6)
		if len(fs) != 6 {
			continue
		}
		fx := c09lab.FixedByName(fs[0])
		if fx == nil {
			continue
		}
		var useed uint64
		var group int
		fmt.Sscan(fs[1], &useed)
		fmt.Sscan(fs[2], &group)
		key := fs[0] + "|" + fs[1]
		if key != curKey {
			flush()
			curKey, curSeed, curFx = key, useed, fx
			cur = &c09lab.History{CfgName: fx.Name, Config: fx.Config, U: fx.Universe(common.NewRand(useed))}
		}
		cur.Reqs = append(cur.Reqs, c09lab.HReq{Group: group, Sp: &c09lab.Spelled{Style: "corpus", Text: fs[5], Variables: fs[4], OpName: fs[3]}})
		if group >= cur.NGroups {
			cur.NGroups = group + 1
		}
	}
	flush()
}
