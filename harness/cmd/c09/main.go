// c09: planning determinism, plan-cache / option / renaming transparency (see tools/props/c09.py).
package main

import (
	"fmt"
	"os"
	"runtime/debug"

	"gvh/common"
)

func main() {
	if len(os.Args) < 2 {
		fmt.Fprintln(os.Stderr, "usage: c09 <probe|hist|det|detchild|dedup|rename|corpus> -k v ...")
		os.Exit(2)
	}
	// engines are created by the thousand; keep the collector ahead of the allocation rate
	debug.SetMemoryLimit(3 << 30)
	a := common.Args(os.Args[2:])
	switch os.Args[1] {
	case "histcorpus":
		histCorpus(a)
	case "hist":
		hist(a)
	case "one":
		one(a)
	case "det":
		det(a)
	case "detchild":
		detchild(a)
	case "dedup":
		dedupCmd(a)
	case "rename":
		renameCmd(a)
	case "renamecorpus":
		renameCorpus(a)
	case "probe":
		probe(a)
	default:
		fmt.Fprintln(os.Stderr, "unknown subcommand", os.Args[1])
		os.Exit(2)
	}
}
