package main

import (
	"fmt"
	"os"

	"gvh/c09lab"
	"gvh/common"
	"gvh/fedlab"
)

// one: run one operation text under the given option sets and print everything (exploration and
// replay of corpus cases by hand).
func one(a map[string]string) {
	fx := c09lab.FixedByName(a["cfg"])
	if fx == nil {
		fmt.Println("no such config")
		os.Exit(2)
	}
	u := fx.Universe(common.NewRand(common.ArgU64(a, "useed", 1)))
	exec, err := fedlab.NewExecServer("")
	if err != nil {
		fmt.Println(err)
		os.Exit(1)
	}
	defer exec.Close()
	vars := a["vars"]
	if vars == "" {
		vars = "{}"
	}
	sp := &c09lab.Spelled{Text: a["op"], Variables: vars, OpName: a["name"]}
	for _, o := range pickSets(common.NewRand(1), a["opts"]) {
		lab, err := c09lab.NewLab(fx.Config, u, exec, o)
		if err != nil {
			fmt.Println(err)
			continue
		}
		spec := c09lab.RunSpec{Opt: o}
		if a["order"] != "" { // gated completion order: subgraph priority list "root>calc>prov1>prov0"
			spec = c09lab.ParseRunSpec(o.String() + " order=" + a["order"])
		}
		ob := c09lab.RunSpecd(lab, sp, spec)
		fmt.Printf("== opts %s err=%q\n  resp=%s\n", spec, ob.Err, ob.Raw)
		for _, q := range ob.Reqs {
			fmt.Printf("    %s %s %s\n", q.Sub, q.Query, q.Vars)
		}
		if a["plan"] == "1" && ob.NewPlan != nil {
			if resp := c09lab.PlanResponse(ob.NewPlan); resp != nil {
				for _, f := range c09lab.FetchDeps(resp.Fetches) {
					fmt.Printf("    fetch %d deps %v %s %s\n", f.ID, f.Deps, f.Kind, f.DS)
				}
			}
		}
		if a["mono"] == "1" {
			m, err := lab.Mono(sp.Text, sp.OpName, []byte(vars))
			if err != nil {
				fmt.Println("  mono err", err)
			} else {
				fmt.Printf("  mono=%s nerr=%d %s\n", m.Data.String(), m.NErrors, m.Invalid)
			}
		}
		lab.Close()
	}
}
