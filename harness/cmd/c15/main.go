// c15: argument values on their way from the client's operation to the subgraph request.
//
// Generates literal SPELLINGS (and JSON variable values), and observes on the real code
//
//	level 1  astparser + (*ast.Document).ValueToJSON                      -> JSON bytes
//	level 2  astnormalization (the engine's two passes, incl. variable
//	         extraction / default extraction)                            -> Document.Input.Variables
//	level 3  execution/engine.ExecutionEngine with one GraphQL subgraph
//	         whose http.RoundTripper records the request body            -> upstream `variables`
//
// One S-expression per case is written for the extracted Coq model / spec checker.
package main

import (
	"bufio"
	"bytes"
	"context"
	"encoding/json"
	"fmt"
	"io"
	"net/http"
	"os"
	"strings"

	"github.com/jensneuse/abstractlogger"

	"gvh/common"

	"github.com/wundergraph/graphql-go-tools/execution/engine"
	"github.com/wundergraph/graphql-go-tools/execution/graphql"
	"github.com/wundergraph/graphql-go-tools/v2/pkg/ast"
	"github.com/wundergraph/graphql-go-tools/v2/pkg/astnormalization"
	"github.com/wundergraph/graphql-go-tools/v2/pkg/astparser"
	"github.com/wundergraph/graphql-go-tools/v2/pkg/asttransform"
	"github.com/wundergraph/graphql-go-tools/v2/pkg/engine/datasource/graphql_datasource"
	"github.com/wundergraph/graphql-go-tools/v2/pkg/engine/plan"
	"github.com/wundergraph/graphql-go-tools/v2/pkg/engine/resolve"
	"github.com/wundergraph/graphql-go-tools/v2/pkg/operationreport"
)

const schemaSDL = `
scalar Any
enum Color { RED GREEN BLUE }
input In { s: String, i: Int, f: Float, b: Boolean, e: Color, l: [String], n: In, any: Any, li: [In], ll: [[Int]] }
input E { s: String = "es", z: String = "", i: Int = 3, i0: Int = 0, f: Float = 0.5, b: Boolean = true, c: Boolean = false, e: Color = BLUE,
  l: [Int] = [9], le: [String] = [], any: Any = "a", id: ID = "e1", p: String, r: E, rl: [E] }
input D { s: String = "anonymous", z: String = "", i: Int = 7, i0: Int = 0, f: Float = 1.5, f0: Float = 0.0, b: Boolean = true, c: Boolean = false,
  e: Color = GREEN, id: ID = "id0", any: Any = {k: [1]}, l: [String] = ["x", "y"], le: [String] = [], ll: [[Int]] = [[1], []],
  n: E = {s: "ns", i: 0}, ne: E = {}, m: E, dl: [D], el: [E] = [{i: 1}, {}], nn: Int! = 5, sn: String = null, p: String }
type Query {
  f(a: Any, s: String, i: In, la: [Any]): String
  h(p0: Any, p1: Any, p2: Any, p3: Any, p4: Any, p5: Any): String
  g(d: D, dl: [D], lld: [[D]]): String
}
schema { query: Query }
`

// ---------------------------------------------------------------------------- value trees

type kind int

const (
	kNull kind = iota
	kBool
	kInt
	kFloat
	kStr
	kBlock
	kEnum
	kVar
	kList
	kObj
)

type val struct {
	k      kind
	b      bool
	raw    string // int/float token (with sign), string raw content, enum / variable name
	items  []*val
	fields []field
}
type field struct {
	name string
	v    *val
}

func (v *val) sexp() string {
	switch v.k {
	case kNull:
		return "(null)"
	case kBool:
		return common.L("bool", common.B(v.b))
	case kInt:
		return common.L("int", common.QS(v.raw))
	case kFloat:
		return common.L("float", common.QS(v.raw))
	case kStr:
		return common.L("str", common.QS(v.raw))
	case kBlock:
		return common.L("block", common.QS(v.raw))
	case kEnum:
		return common.L("enum", common.QS(v.raw))
	case kVar:
		return common.L("var", common.QS(v.raw))
	case kList:
		it := []string{"list"}
		for _, x := range v.items {
			it = append(it, x.sexp())
		}
		return common.L(it...)
	case kObj:
		it := []string{"obj"}
		for _, f := range v.fields {
			it = append(it, common.L(common.QS(f.name), f.v.sexp()))
		}
		return common.L(it...)
	}
	return "(null)"
}

var seps = []string{",", ", ", " ", "  ", " , ", "\n", ",\t", " ,, "}

func (v *val) source(r *common.Rand, sb *strings.Builder) {
	switch v.k {
	case kNull:
		sb.WriteString("null")
	case kBool:
		if v.b {
			sb.WriteString("true")
		} else {
			sb.WriteString("false")
		}
	case kInt, kFloat, kEnum:
		sb.WriteString(v.raw)
	case kStr:
		sb.WriteByte('"')
		sb.WriteString(v.raw)
		sb.WriteByte('"')
	case kBlock:
		sb.WriteString(`"""`)
		sb.WriteString(v.raw)
		sb.WriteString(`"""`)
	case kVar:
		sb.WriteByte('$')
		sb.WriteString(v.raw)
	case kList:
		sb.WriteByte('[')
		if r.Chance(1, 6) {
			sb.WriteByte(' ')
		}
		for i, x := range v.items {
			if i > 0 {
				sb.WriteString(common.PickOf(r, seps))
			}
			x.source(r, sb)
		}
		if r.Chance(1, 6) {
			sb.WriteString(common.PickOf(r, []string{" ", ",", "\n"}))
		}
		sb.WriteByte(']')
	case kObj:
		sb.WriteByte('{')
		for i, f := range v.fields {
			if i > 0 {
				sb.WriteString(common.PickOf(r, seps))
			}
			sb.WriteString(f.name)
			sb.WriteString(common.PickOf(r, []string{":", ": ", " : ", ":\t"}))
			f.v.source(r, sb)
		}
		if r.Chance(1, 6) {
			sb.WriteByte(' ')
		}
		sb.WriteByte('}')
	}
}

// ---------------------------------------------------------------------------- generators

var plainPieces = []string{"a", "b", "Z", "0", " ", "  ", "hello", "x y", "/", "'", "#", "$v0", "{", "}", "[", "]", ":", ",", "<", ">", "&",
	"\x7f", "\xc3\xa9", "\xe4\xb8\xad", "\U0001F600", "\xe2\x80\xa8", "\xe2\x80\xa9", "\xef\xbf\xbd", "\xc2\xa0"}
var escPieces = []string{`\n`, `\"`, `\\`, `\/`, `\b`, `\f`, `\r`, `\t`}
var uniPieces = []string{`\u0041`, `\u00e9`, `\u00E9`, `\u2028`, `\uFFFD`, `\u0000`, `\u001f`, `\u007F`, `\u0022`, `\u005c`, `\uffff`, `\u4e2d`}
var pairPieces = []string{`\uD83D\uDE00`, `\ud83d\ude00`, `\uD800\uDC00`, `\uDBFF\uDFFF`}
var bracePieces = []string{`\u{1F600}`, `\u{41}`, `\u{0041}`, `\u{10FFFF}`, `\u{0}`, `\u{e9}`, `\u{1f600}`, `\u{FFFF}`, `\u{10000}`, `\u{00000041}`,
	`\u{22}`, `\u{5C}`, `\u{9}`, `\u{D7FF}`, `\u{E000}`, `\\u{41}`, `\u{41}}`, `\u{2028}`}
var rawCtl = []string{"\t", "\t", "\t", "\x01", "\x1f", "\x08", "\x0c"}
var badPieces = []string{`\uD83D`, `\uDE00`, `\uD83Dx`, `\uD83D\u0041`, `\q`, `\u12`, `\u{}`, `\u{110000}`, `\u{D800}`, `\x41`, `\u{41`, `\U0041`,
	`\u{100000000}`, `\u{FFFFFFFF}`, `\u{4G}`, `\u{ 41}`, `\u{+41}`, `\u{DFFF}`}

// quoted string content; class selects how adventurous it is
func genQuoted(r *common.Rand, allowBad bool) string {
	var sb strings.Builder
	n := r.Pick(6)
	quirky := r.Chance(1, 5) // most strings stay inside what the implementation handles faithfully
	for i := 0; i < n; i++ {
		switch k := r.Pick(20); {
		case k < 8:
			sb.WriteString(common.PickOf(r, plainPieces))
		case k < 12:
			sb.WriteString(common.PickOf(r, escPieces))
		case k < 15:
			sb.WriteString(common.PickOf(r, uniPieces))
		case k < 16:
			sb.WriteString(common.PickOf(r, pairPieces))
		case k < 17:
			sb.WriteString(fmt.Sprintf(`\u%04x`, r.Pick(0xD800)))
		default:
			if !quirky {
				sb.WriteString(common.PickOf(r, plainPieces))
				continue
			}
			switch r.Pick(3) {
			case 0:
				sb.WriteString(common.PickOf(r, bracePieces))
			case 1:
				sb.WriteString(common.PickOf(r, rawCtl))
			default:
				if allowBad {
					sb.WriteString(common.PickOf(r, badPieces))
				} else {
					sb.WriteString(common.PickOf(r, rawCtl))
				}
			}
		}
	}
	return sb.String()
}

var indents = []string{"", " ", "  ", "    ", "\t", "\t\t", " \t", "\t ", "      "}
var lineEnds = []string{"\n", "\n", "\n", "\r\n", "\r"}
var blockPieces = []string{"a", "text", "x y", `\`, `\\`, `\n`, `\u0041`, "\xc3\xa9", "\U0001F600", "\xe2\x80\xa8", "\xe2\x80\xa9", "\x01", "\x7f", "\x1f",
	"<b>&", "#", "  ", "\t", "'", "x`y", "q\"q", "a\"\"b"}
var blockQuirks = []string{`\"""`, `"`, `""`, " \" ", "\" ", " \"", `\"`}

func genBlockLine(r *common.Rand, quirky bool) string {
	var sb strings.Builder
	sb.WriteString(common.PickOf(r, indents))
	n := 1 + r.Pick(3)
	for i := 0; i < n; i++ {
		if quirky && r.Chance(1, 3) {
			sb.WriteString(common.PickOf(r, blockQuirks))
		} else {
			sb.WriteString(common.PickOf(r, blockPieces))
		}
	}
	if r.Chance(1, 6) {
		sb.WriteString(common.PickOf(r, []string{" ", "  ", "\t"}))
	}
	return sb.String()
}

// the GraphQL lexer (spec): index of the first unescaped triple quote in s
func specBlockEnd(s string) int {
	for i := 0; i < len(s); {
		if strings.HasPrefix(s[i:], `\"""`) {
			i += 4
			continue
		}
		if strings.HasPrefix(s[i:], `"""`) {
			return i
		}
		i++
	}
	return -1
}

// replica of lexer.readBlockString's termination: does the Go lexer end the token exactly at len(raw)?
func goBlockLexable(raw string) bool {
	escaped := false
	quotes := 0
	for i := 0; i < len(raw); i++ {
		switch raw[i] {
		case ' ', '\t', '\r', '\n':
			escaped = false
			quotes = 0
		case 0:
			return false
		case '"':
			if escaped {
				escaped = false
				continue
			}
			quotes++
			if quotes == 3 {
				return false
			}
		case '\\':
			escaped = !escaped
			quotes = 0
		default:
			escaped = false
			quotes = 0
		}
	}
	return !escaped && quotes == 0
}

func genBlock(r *common.Rand) string {
	for tries := 0; tries < 50; tries++ {
		var sb strings.Builder
		quirky := r.Chance(1, 5)
		nl := 1 + r.Pick(5)
		if r.Chance(1, 3) {
			sb.WriteString(common.PickOf(r, lineEnds)) // usual style: content starts on the next line
		}
		for i := 0; i < nl; i++ {
			if i > 0 {
				sb.WriteString(common.PickOf(r, lineEnds))
			}
			if r.Chance(1, 6) || (quirky && r.Chance(1, 2)) {
				sb.WriteString(common.PickOf(r, indents)) // blank line
			} else {
				sb.WriteString(genBlockLine(r, quirky))
			}
		}
		if r.Chance(1, 3) {
			sb.WriteString(common.PickOf(r, lineEnds))
			sb.WriteString(common.PickOf(r, indents))
		}
		raw := sb.String()
		if specBlockEnd(raw+`"""`) == len(raw) && goBlockLexable(raw) {
			return raw
		}
	}
	return "fallback"
}

var intToks = []string{"0", "-0", "1", "-1", "7", "42", "-42", "2147483647", "2147483648", "-2147483649", "9223372036854775807", "9223372036854775808",
	"123456789012345678901234567890", "-99999999999999999999999999999999999999", "10", "100", "9007199254740993"}
var floatToks = []string{"1.5", "-1.5", "0.0", "-0.0", "1e5", "1E5", "0e0", "1.5e+10", "1.5E-10", "-2.50", "3.14159265358979323846264338327950288",
	"1.0e+400", "123456789012345678901234567890.123456789e-400", "0.000", "100.00100", "1e0005", "6.02E23", "1.0E-3", "-0e7", "5e99999"}

var enumNames = []string{"RED", "GREEN", "BLUE", "red", "_x", "A1", "truee", "nullable", "Falsey"}
var fieldNames = []string{"s", "i", "f", "b", "e", "l", "n", "any", "li", "ll", "k", "_k9"}
var varNames = []string{"v0", "v1", "v2", "v3"}

type genOpts struct {
	allowVars bool
	allowBad  bool
}

func genScalar(r *common.Rand, o genOpts) *val {
	switch k := r.Pick(20); {
	case k < 6:
		return &val{k: kStr, raw: genQuoted(r, o.allowBad)}
	case k < 10:
		return &val{k: kBlock, raw: genBlock(r)}
	case k < 12:
		return &val{k: kInt, raw: common.PickOf(r, intToks)}
	case k < 15:
		return &val{k: kFloat, raw: common.PickOf(r, floatToks)}
	case k < 16:
		return &val{k: kEnum, raw: common.PickOf(r, enumNames)}
	case k < 17:
		return &val{k: kBool, b: r.Chance(1, 2)}
	case k < 18:
		return &val{k: kNull}
	default:
		if o.allowVars {
			return &val{k: kVar, raw: common.PickOf(r, varNames)}
		}
		return &val{k: kInt, raw: common.PickOf(r, intToks)}
	}
}

func genValue(r *common.Rand, depth int, o genOpts) *val {
	if depth <= 0 || r.Chance(2, 5) {
		return genScalar(r, o)
	}
	if r.Chance(1, 2) {
		n := r.Pick(4)
		v := &val{k: kList}
		for i := 0; i < n; i++ {
			v.items = append(v.items, genValue(r, depth-1, o))
		}
		return v
	}
	n := r.Pick(4)
	v := &val{k: kObj}
	used := map[string]bool{}
	for i := 0; i < n; i++ {
		name := common.PickOf(r, fieldNames)
		if used[name] {
			continue
		}
		used[name] = true
		v.fields = append(v.fields, field{name, genValue(r, depth-1, o)})
	}
	return v
}

// top-level argument literal: never a bare variable (that is the forwarding stream)
func genLiteral(r *common.Rand, o genOpts) *val {
	for {
		v := genValue(r, 3, o)
		if v.k != kVar {
			return v
		}
	}
}

func collectVars(v *val, into map[string]bool) {
	switch v.k {
	case kVar:
		into[v.raw] = true
	case kList:
		for _, x := range v.items {
			collectVars(x, into)
		}
	case kObj:
		for _, f := range v.fields {
			collectVars(f.v, into)
		}
	}
}

// JSON variable values as the client would send them (spelling matters here too)
var jsonStrings = []string{`""`, `"x"`, `"a b"`, `"\n\t\"\\\/\b\f\r"`, `"\u0041\u00e9"`, `"\uD83D\uDE00"`, "\"\xc3\xa9\xe4\xb8\xad\U0001F600\"", `"\u2028"`, `"\u0000"`, `"</script>"`, `"null"`}
var jsonNumbers = []string{"0", "-0", "1", "-1", "1.5", "2.50", "1e5", "1E+5", "1.5e-10", "123456789012345678901234567890", "9007199254740993", "1e400", "0.1"}

func genJSON(r *common.Rand, depth int) string {
	if depth <= 0 || r.Chance(1, 2) {
		switch r.Pick(6) {
		case 0:
			return common.PickOf(r, jsonStrings)
		case 1:
			return common.PickOf(r, jsonNumbers)
		case 2:
			return "true"
		case 3:
			return "false"
		case 4:
			return "null"
		}
		return common.PickOf(r, jsonStrings)
	}
	ws := func() string { return common.PickOf(r, []string{"", "", "", " ", "\n", "  "}) }
	if r.Chance(1, 2) {
		n := r.Pick(4)
		parts := make([]string, n)
		for i := range parts {
			parts[i] = ws() + genJSON(r, depth-1) + ws()
		}
		return "[" + strings.Join(parts, ",") + "]"
	}
	n := r.Pick(4)
	var parts []string
	used := map[string]bool{}
	for i := 0; i < n; i++ {
		k := common.PickOf(r, fieldNames)
		if used[k] {
			continue
		}
		used[k] = true
		parts = append(parts, ws()+`"`+k+`"`+ws()+":"+ws()+genJSON(r, depth-1)+ws())
	}
	return "{" + strings.Join(parts, ",") + "}"
}

type varBinding struct {
	name  string
	state int // 0 absent, 1 null, 2 value
	json  string
}

func genBinding(r *common.Rand, name string) varBinding {
	switch r.Pick(5) {
	case 0, 1:
		return varBinding{name: name, state: 0}
	case 2:
		return varBinding{name: name, state: 1, json: "null"}
	}
	j := genJSON(r, 2)
	st := 2
	if j == "null" {
		st = 1
	}
	return varBinding{name: name, state: st, json: j}
}

func clientVariables(r *common.Rand, bs []varBinding) string {
	var parts []string
	for _, b := range bs {
		if b.state == 0 {
			continue
		}
		sp := ""
		if r.Chance(1, 4) {
			sp = " "
		}
		parts = append(parts, `"`+b.name+`":`+sp+b.json)
	}
	if len(parts) == 0 {
		if r.Chance(1, 2) {
			return ""
		}
		return "{}"
	}
	return "{" + strings.Join(parts, ","+common.PickOf(r, []string{"", " "})) + "}"
}

func bindingsSexp(bs []varBinding) string {
	it := []string{"vars"}
	for _, b := range bs {
		if b.state == 0 {
			continue
		}
		it = append(it, common.L(common.QS(b.name), common.QS(b.json)))
	}
	return common.L(it...)
}

// ---------------------------------------------------------------------------- lenient JSON object splitting

type member struct {
	key string
	raw []byte
}

// splitObject returns the members of a JSON object text with the raw span of each value. It
// only tracks strings (with backslash escapes) and bracket depth, so it also works on texts
// that are not valid JSON (raw control characters, bad escapes, odd numbers).
func splitObject(text []byte) ([]member, bool) {
	i := 0
	skip := func() {
		for i < len(text) && (text[i] == ' ' || text[i] == '\t' || text[i] == '\n' || text[i] == '\r') {
			i++
		}
	}
	str := func() (int, int, bool) { // positions of content
		if i >= len(text) || text[i] != '"' {
			return 0, 0, false
		}
		i++
		st := i
		for i < len(text) {
			if text[i] == '\\' {
				i += 2
				continue
			}
			if text[i] == '"' {
				i++
				return st, i - 1, true
			}
			i++
		}
		return 0, 0, false
	}
	skip()
	if i >= len(text) || text[i] != '{' {
		return nil, false
	}
	i++
	var out []member
	skip()
	if i < len(text) && text[i] == '}' {
		return out, true
	}
	for {
		skip()
		ks, ke, ok := str()
		if !ok {
			return nil, false
		}
		skip()
		if i >= len(text) || text[i] != ':' {
			return nil, false
		}
		i++
		skip()
		vs := i
		depth := 0
		for i < len(text) {
			c := text[i]
			if c == '"' {
				if _, _, ok := str(); !ok {
					return nil, false
				}
				continue
			}
			if c == '[' || c == '{' {
				depth++
			} else if c == ']' || c == '}' {
				if depth == 0 {
					break
				}
				depth--
			} else if c == ',' && depth == 0 {
				break
			}
			i++
		}
		ve := i
		for ve > vs && (text[ve-1] == ' ' || text[ve-1] == '\t' || text[ve-1] == '\n' || text[ve-1] == '\r') {
			ve--
		}
		out = append(out, member{string(text[ks:ke]), text[vs:ve]})
		if i >= len(text) {
			return nil, false
		}
		if text[i] == ',' {
			i++
			continue
		}
		if text[i] == '}' {
			return out, true
		}
		return nil, false
	}
}

func findMember(ms []member, k string) ([]byte, bool) {
	for _, m := range ms {
		if m.key == k {
			return m.raw, true
		}
	}
	return nil, false
}

// ---------------------------------------------------------------------------- the implementation under observation

type recorder struct{ bodies [][]byte }

func (r *recorder) RoundTrip(req *http.Request) (*http.Response, error) {
	var b []byte
	if req.Body != nil {
		b, _ = io.ReadAll(req.Body)
	}
	r.bodies = append(r.bodies, b)
	return &http.Response{StatusCode: 200, Header: http.Header{"Content-Type": []string{"application/json"}},
		Body: io.NopCloser(bytes.NewBufferString(`{"data":{"f":"ok","h":"ok","g":"ok"}}`))}, nil
}

type impl struct {
	def *ast.Document
	eng *engine.ExecutionEngine
	rec *recorder
	ctx context.Context
	isch []iobj
}

func newImpl() *impl {
	def, rep := astparser.ParseGraphqlDocumentString(schemaSDL)
	if rep.HasErrors() {
		panic(rep.Error())
	}
	if err := asttransform.MergeDefinitionWithBaseSchema(&def); err != nil {
		panic(err)
	}
	schema, err := graphql.NewSchemaFromString(schemaSDL)
	if err != nil {
		panic(err)
	}
	rec := &recorder{}
	client := &http.Client{Transport: rec}
	ctx := context.Background()
	factory, err := graphql_datasource.NewFactory(ctx, client, graphql_datasource.NewGraphQLSubscriptionClient(ctx,
		graphql_datasource.WithUpgradeClient(client), graphql_datasource.WithStreamingClient(client)))
	if err != nil {
		panic(err)
	}
	sc, err := graphql_datasource.NewSchemaConfiguration(schemaSDL, nil)
	if err != nil {
		panic(err)
	}
	cc, err := graphql_datasource.NewConfiguration(graphql_datasource.ConfigurationInput{
		Fetch:               &graphql_datasource.FetchConfiguration{URL: "https://subgraph.example/", Method: "POST"},
		SchemaConfiguration: sc,
	})
	if err != nil {
		panic(err)
	}
	ds, err := plan.NewDataSourceConfiguration[graphql_datasource.Configuration]("sg", factory,
		&plan.DataSourceMetadata{RootNodes: []plan.TypeField{{TypeName: "Query", FieldNames: []string{"f", "h", "g"}}}}, cc)
	if err != nil {
		panic(err)
	}
	conf := engine.NewConfiguration(schema)
	conf.SetDataSources([]plan.DataSource{ds})
	args := func(names ...string) []plan.ArgumentConfiguration {
		var out []plan.ArgumentConfiguration
		for _, n := range names {
			out = append(out, plan.ArgumentConfiguration{Name: n, SourceType: plan.FieldArgumentSource, RenderConfig: plan.RenderArgumentAsGraphQLValue})
		}
		return out
	}
	conf.SetFieldConfigurations(plan.FieldConfigurations{
		{TypeName: "Query", FieldName: "f", Path: []string{"f"}, Arguments: args("a", "s", "i", "la")},
		{TypeName: "Query", FieldName: "h", Path: []string{"h"}, Arguments: args("p0", "p1", "p2", "p3", "p4", "p5")},
		{TypeName: "Query", FieldName: "g", Path: []string{"g"}, Arguments: args("d", "dl", "lld")},
	})
	eng, err := engine.NewExecutionEngine(ctx, abstractlogger.Noop{}, conf, resolve.ResolverOptions{MaxConcurrency: 8})
	if err != nil {
		panic(err)
	}
	return &impl{def: &def, eng: eng, rec: rec, ctx: ctx}
}

// dump the parsed value in the same form as the generator's trees (block strings: the lexer's
// trimmed Content, which is what the document stores)
func dumpValue(d *ast.Document, v ast.Value) string {
	switch v.Kind {
	case ast.ValueKindNull:
		return "(null)"
	case ast.ValueKindBoolean:
		return common.L("bool", common.B(v.Ref != 0))
	case ast.ValueKindInteger:
		raw := string(d.IntValueRaw(v.Ref))
		if d.IntValueIsNegative(v.Ref) {
			raw = "-" + raw
		}
		return common.L("int", common.QS(raw))
	case ast.ValueKindFloat:
		raw := string(d.FloatValueRaw(v.Ref))
		if d.FloatValueIsNegative(v.Ref) {
			raw = "-" + raw
		}
		return common.L("float", common.QS(raw))
	case ast.ValueKindString:
		if d.StringValueIsBlockString(v.Ref) {
			return common.L("block", common.Q(d.StringValueContentBytes(v.Ref)))
		}
		return common.L("str", common.Q(d.StringValueContentBytes(v.Ref)))
	case ast.ValueKindEnum:
		return common.L("enum", common.Q(d.EnumValueNameBytes(v.Ref)))
	case ast.ValueKindVariable:
		return common.L("var", common.QS(d.VariableValueNameString(v.Ref)))
	case ast.ValueKindList:
		it := []string{"list"}
		for _, ref := range d.ListValues[v.Ref].Refs {
			it = append(it, dumpValue(d, d.Values[ref]))
		}
		return common.L(it...)
	case ast.ValueKindObject:
		it := []string{"obj"}
		for _, ref := range d.ObjectValues[v.Ref].Refs {
			it = append(it, common.L(common.Q(d.ObjectFieldNameBytes(ref)), dumpValue(d, d.ObjectFieldValue(ref))))
		}
		return common.L(it...)
	}
	return "(unknown)"
}

func guard(f func() string) (out string) {
	defer func() {
		if p := recover(); p != nil {
			out = common.L("panic", common.QS(fmt.Sprint(p)))
		}
	}()
	return f()
}

// level 1: parse, ValueToJSON of the first argument of the first field
func (im *impl) level1(query, clientVars string) string {
	return guard(func() string {
		op, rep := astparser.ParseGraphqlDocumentString(query)
		if rep.HasErrors() {
			return "(l1 parse-err)"
		}
		if len(op.Arguments) == 0 {
			return "(l1 no-arg)"
		}
		if clientVars != "" {
			op.Input.Variables = []byte(clientVars)
		}
		// the first argument of the root field is the one with the lowest source position; the
		// parser appends arguments in source order
		b, err := op.ValueToJSON(op.Arguments[0].Value)
		if err != nil {
			return common.L("l1", "err", common.QS(err.Error()))
		}
		return common.L("l1", "ok", common.Q(b), common.L("tree", dumpValue(&op, op.Arguments[0].Value)))
	})
}

// level 2: the engine's normalisation passes; reports Input.Variables, its validity according to
// encoding/json, and for every argument of the root field the variable it became
func (im *impl) level2(query, clientVars string) string {
	return guard(func() string {
		op, rep := astparser.ParseGraphqlDocumentString(query)
		if rep.HasErrors() {
			return "(l2 parse-err)"
		}
		if clientVars != "" {
			op.Input.Variables = []byte(clientVars)
		} else {
			op.Input.Variables = []byte("{}")
		}
		var r operationreport.Report
		n1 := astnormalization.NewWithOpts(astnormalization.WithRemoveFragmentDefinitions(), astnormalization.WithRemoveUnusedVariables(),
			astnormalization.WithInlineFragmentSpreads())
		n1.NormalizeOperation(&op, im.def, &r)
		if r.HasErrors() {
			return common.L("l2", "err", common.QS("normalize1"))
		}
		n2 := astnormalization.NewWithOpts(astnormalization.WithExtractVariables())
		n2.NormalizeOperation(&op, im.def, &r)
		if r.HasErrors() {
			return common.L("l2", "err", common.QS("normalize2"))
		}
		vars := op.Input.Variables
		ms, ok := splitObject(vars)
		it := []string{"l2", "ok", common.Q(vars), common.B(json.Valid(vars)), common.B(ok)}
		for i := range op.Arguments {
			name := op.ArgumentNameString(i)
			v := op.Arguments[i].Value
			if v.Kind != ast.ValueKindVariable {
				it = append(it, common.L(common.QS(name), "notvar"))
				continue
			}
			vn := op.VariableValueNameString(v.Ref)
			raw, found := findMember(ms, vn)
			if !found {
				it = append(it, common.L(common.QS(name), common.QS(vn), "absent"))
			} else {
				it = append(it, common.L(common.QS(name), common.QS(vn), common.Q(raw)))
			}
		}
		return common.L(it...)
	})
}

// level 3: execute through the engine; report what the subgraph received
func (im *impl) level3(query, clientVars string) string {
	return guard(func() string {
		req := graphql.Request{Query: query}
		if clientVars != "" {
			req.Variables = []byte(clientVars)
		}
		im.rec.bodies = nil
		w := graphql.NewEngineResultWriter()
		if err := im.eng.Execute(im.ctx, &req, &w); err != nil {
			msg := err.Error()
			if len(msg) > 120 {
				msg = msg[:120]
			}
			return common.L("l3", "err", common.QS("execute"), common.QS(msg))
		}
		if len(im.rec.bodies) != 1 {
			return common.L("l3", "err", common.QS(fmt.Sprintf("%d upstream requests", len(im.rec.bodies))))
		}
		body := im.rec.bodies[0]
		top, ok := splitObject(body)
		if !ok {
			return common.L("l3", "err", common.QS("body not an object"), common.Q(body))
		}
		q, _ := findMember(top, "query")
		var upstreamQuery string
		if err := json.Unmarshal(q, &upstreamQuery); err != nil {
			return common.L("l3", "err", common.QS("upstream query not a string"))
		}
		varsRaw, hasVars := findMember(top, "variables")
		var ms []member
		vok := true
		if hasVars {
			ms, vok = splitObject(varsRaw)
		}
		up, rep := astparser.ParseGraphqlDocumentString(upstreamQuery)
		if rep.HasErrors() {
			return common.L("l3", "err", common.QS("upstream query does not parse"))
		}
		it := []string{"l3", "ok", common.Q(varsRaw), common.B(json.Valid(body)), common.B(vok)}
		for i := range up.Arguments {
			name := up.ArgumentNameString(i)
			v := up.Arguments[i].Value
			if v.Kind != ast.ValueKindVariable {
				it = append(it, common.L(common.QS(name), "notvar", common.QS(dumpValue(&up, v))))
				continue
			}
			vn := up.VariableValueNameString(v.Ref)
			raw, found := findMember(ms, vn)
			if !found {
				it = append(it, common.L(common.QS(name), common.QS(vn), "absent"))
			} else {
				it = append(it, common.L(common.QS(name), common.QS(vn), common.Q(raw)))
			}
		}
		return common.L(it...)
	})
}

// ---------------------------------------------------------------------------- case kinds

func varDecls(names []string, ty string) string {
	if len(names) == 0 {
		return ""
	}
	parts := make([]string, len(names))
	for i, n := range names {
		parts[i] = "$" + n + ": " + ty
	}
	return "(" + strings.Join(parts, ", ") + ")"
}

func sortedKeys(m map[string]bool) []string {
	var out []string
	for _, n := range varNames {
		if m[n] {
			out = append(out, n)
		}
	}
	return out
}

// (lit <value> (vars ..) (src q) (cv clientvars) l1 l2 l3)
func (im *impl) litCase(r *common.Rand, v *val, bs []varBinding, withL3 bool) string {
	used := map[string]bool{}
	collectVars(v, used)
	var keep []varBinding
	for _, b := range bs {
		if used[b.name] {
			keep = append(keep, b)
		}
	}
	return im.litCaseCV(r, v, clientVariables(r, keep), keep, withL3)
}

func (im *impl) litCaseCV(r *common.Rand, v *val, cv string, keep []varBinding, withL3 bool) string {
	used := map[string]bool{}
	collectVars(v, used)
	names := sortedKeys(used)
	var sb strings.Builder
	sb.WriteString("query" + varDecls(names, "Any") + " { f(a: ")
	v.source(r, &sb)
	sb.WriteString(") }")
	q := sb.String()
	l3 := "(l3 skip)"
	if withL3 {
		l3 = im.level3(q, cv)
	}
	return common.L("lit", v.sexp(), bindingsSexp(keep), common.L("src", common.QS(q)), common.L("cv", common.QS(cv)),
		im.level1(q, cv), im.level2(q, cv), l3)
}

// (raw (src q) l1 l2): a source-level spelling with no generator tree; the model runs on the
// tree the Go parser produced
func (im *impl) rawCase(lit string) string {
	q := "query { f(a: " + lit + ") }"
	return common.L("raw", common.L("src", common.QS(q)), im.level1(q, ""), im.level2(q, ""))
}

type fwdArg struct {
	param string
	isVar bool
	v     *val // literal, or the variable reference
}

// (fwd (args (p0 var "v1") (p1 lit <value>) ...) (vars ..) (src q) (cv ..) l2 l3)
func (im *impl) fwdCase(r *common.Rand) string {
	n := 1 + r.Pick(5)
	params := []string{"p0", "p1", "p2", "p3", "p4", "p5"}
	r.Shuffle(len(params), func(i, j int) { params[i], params[j] = params[j], params[i] })
	// variable names chosen so that the engine's renaming (a, b, c, ...) collides with client names
	pool := []string{"a", "b", "c", "d", "v0", "zz"}
	r.Shuffle(len(pool), func(i, j int) { pool[i], pool[j] = pool[j], pool[i] })
	var args []fwdArg
	var bs []varBinding
	var decl []string
	for i := 0; i < n; i++ {
		if r.Chance(3, 4) {
			name := pool[i]
			args = append(args, fwdArg{param: params[i], isVar: true, v: &val{k: kVar, raw: name}})
			bs = append(bs, genBinding(r, name))
			decl = append(decl, name)
		} else {
			args = append(args, fwdArg{param: params[i], v: genLiteral(r, genOpts{})})
		}
	}
	var sb strings.Builder
	sb.WriteString("query" + varDecls(decl, "Any") + " { h(")
	it := []string{"args"}
	for i, a := range args {
		if i > 0 {
			sb.WriteString(", ")
		}
		sb.WriteString(a.param + ": ")
		a.v.source(r, &sb)
		if a.isVar {
			it = append(it, common.L(common.QS(a.param), "var", common.QS(a.v.raw)))
		} else {
			it = append(it, common.L(common.QS(a.param), "lit", a.v.sexp()))
		}
	}
	sb.WriteString(") }")
	q := sb.String()
	cv := clientVariables(r, bs)
	return common.L("fwd", common.L(it...), bindingsSexp(bs), common.L("src", common.QS(q)), common.L("cv", common.QS(cv)),
		im.level2(q, cv), im.level3(q, cv))
}

// (dflt <wraps> <default value> (vars ..) (src q) (cv ..) l2 l3): variable default values
func (im *impl) dfltCase(r *common.Rand) string {
	wraps := r.Pick(2)
	var dv *val
	if r.Chance(1, 4) {
		dv = &val{k: kNull}
	} else {
		dv = genLiteral(r, genOpts{})
	}
	b := genBinding(r, "v0")
	if wraps == 1 && b.state == 2 && !strings.HasPrefix(b.json, "[") {
		b.json = "[" + b.json + "]"
	}
	return im.dfltCaseCV(r, wraps, dv, clientVariables(r, []varBinding{b}), []varBinding{b})
}

func (im *impl) dfltCaseCV(r *common.Rand, wraps int, dv *val, cv string, bs []varBinding) string {
	ty := "Any"
	if wraps == 1 {
		ty = "[Any]"
	}
	var sb strings.Builder
	sb.WriteString("query($v0: " + ty + " = ")
	dv.source(r, &sb)
	if wraps == 1 {
		sb.WriteString(") { f(la: $v0) }")
	} else {
		sb.WriteString(") { f(a: $v0) }")
	}
	q := sb.String()
	return common.L("dflt", common.I(wraps), dv.sexp(), bindingsSexp(bs), common.L("src", common.QS(q)), common.L("cv", common.QS(cv)),
		im.level2(q, cv), im.level3(q, cv))
}

// malformed / borderline spellings at source level
var rawLits = []string{`1.`, `1.e5`, `1.5e`, `007`, `-007`, `00`, `1.+5`, `1e`, `1E`, `0.`, `-0.`, `1e5.5`, `1e+5`, `1e-5`, `1.5e+`, `01.5`,
	`"\q"`, `"\u12"`, `"\uD800"`, `"\uDC00\uD800"`, `"\u{}"`, `"\u{110000}"`, `"\u{D800}"`, `"\x41"`, `"\U00000041"`, `"\u{41"`, "\"a\\\nb\"", "\"ab\n", `"\ "`,
	`"\uD83D\u0041"`, `"\a"`, `"\0"`, `"\'"`}

func genRawLit(r *common.Rand) string {
	if r.Chance(1, 2) {
		return common.PickOf(r, rawLits)
	}
	// mutate a valid quoted string or number
	switch r.Pick(3) {
	case 0:
		s := genQuoted(r, true)
		return `"` + s + `"`
	case 1:
		t := common.PickOf(r, floatToks)
		i := r.Pick(len(t) + 1)
		return t[:i] + common.PickOf(r, []string{".", "e", "E", "0", "+", "-", "00"}) + t[i:]
	}
	t := common.PickOf(r, intToks)
	i := r.Pick(len(t) + 1)
	return t[:i] + common.PickOf(r, []string{".", "e", "0", "00", "-", "e5"}) + t[i:]
}

// ---------------------------------------------------------------------------- corpus

// minimal reader for the value S-expressions this program writes: (kind "bytes with \xx escapes" ...)
type sx struct {
	atom  string
	str   []byte
	isStr bool
	list  []*sx
}

func parseSx(s string, i *int) *sx {
	for *i < len(s) && (s[*i] == ' ' || s[*i] == '\t') {
		*i++
	}
	if *i >= len(s) {
		return nil
	}
	switch s[*i] {
	case '(':
		*i++
		n := &sx{}
		for {
			for *i < len(s) && s[*i] == ' ' {
				*i++
			}
			if *i >= len(s) {
				return nil
			}
			if s[*i] == ')' {
				*i++
				return n
			}
			c := parseSx(s, i)
			if c == nil {
				return nil
			}
			n.list = append(n.list, c)
		}
	case '"':
		*i++
		n := &sx{isStr: true}
		hex := func(c byte) byte {
			switch {
			case c >= '0' && c <= '9':
				return c - '0'
			case c >= 'a' && c <= 'f':
				return c - 'a' + 10
			}
			return c - 'A' + 10
		}
		for *i < len(s) && s[*i] != '"' {
			if s[*i] == '\\' && *i+2 < len(s) {
				n.str = append(n.str, hex(s[*i+1])<<4|hex(s[*i+2]))
				*i += 3
				continue
			}
			n.str = append(n.str, s[*i])
			*i++
		}
		*i++
		return n
	}
	st := *i
	for *i < len(s) && s[*i] != ' ' && s[*i] != '(' && s[*i] != ')' {
		*i++
	}
	return &sx{atom: s[st:*i]}
}

func valOfSx(n *sx) *val {
	if n == nil || len(n.list) == 0 {
		return nil
	}
	arg := func() string {
		if len(n.list) > 1 && n.list[1].isStr {
			return string(n.list[1].str)
		}
		return ""
	}
	switch n.list[0].atom {
	case "null":
		return &val{k: kNull}
	case "bool":
		return &val{k: kBool, b: len(n.list) > 1 && n.list[1].atom == "t"}
	case "int":
		return &val{k: kInt, raw: arg()}
	case "float":
		return &val{k: kFloat, raw: arg()}
	case "str":
		return &val{k: kStr, raw: arg()}
	case "block":
		return &val{k: kBlock, raw: arg()}
	case "enum":
		return &val{k: kEnum, raw: arg()}
	case "var":
		return &val{k: kVar, raw: arg()}
	case "list":
		v := &val{k: kList}
		for _, c := range n.list[1:] {
			x := valOfSx(c)
			if x == nil {
				return nil
			}
			v.items = append(v.items, x)
		}
		return v
	case "obj":
		v := &val{k: kObj}
		for _, c := range n.list[1:] {
			if len(c.list) != 2 || !c.list[0].isStr {
				return nil
			}
			x := valOfSx(c.list[1])
			if x == nil {
				return nil
			}
			v.fields = append(v.fields, field{string(c.list[0].str), x})
		}
		return v
	}
	return nil
}

func bindingsOf(cv string) []varBinding {
	var bs []varBinding
	if ms, ok := splitObject([]byte(cv)); ok {
		for _, m := range ms {
			st := 2
			if string(m.raw) == "null" {
				st = 1
			}
			bs = append(bs, varBinding{name: m.key, state: st, json: string(m.raw)})
		}
	}
	return bs
}

// corpus lines (TAB separated; the value is an S-expression as in the case files, the client
// variables a Go-quoted string):
//
//	lit   <value>  "<client variables>"
//	dflt  <wraps>  <default value>  "<client variables>"
//	raw   "<literal source>"
//	inp   <lit|var|vdef>  <d|dl|lld>  <value>
func (im *impl) corpusLine(r *common.Rand, line string) (string, bool) {
	parts := strings.Split(line, "\t")
	unq := func(s string) string {
		var out string
		if _, err := fmt.Sscanf(s, "%q", &out); err != nil {
			fmt.Fprintln(os.Stderr, "bad corpus string:", s)
			os.Exit(2)
		}
		return out
	}
	switch parts[0] {
	case "lit":
		if len(parts) < 3 {
			return "", false
		}
		i := 0
		v := valOfSx(parseSx(parts[1], &i))
		if v == nil {
			return "", false
		}
		cv := unq(parts[2])
		return im.litCaseCV(r, v, cv, bindingsOf(cv), true), true
	case "dflt":
		if len(parts) < 4 {
			return "", false
		}
		i := 0
		v := valOfSx(parseSx(parts[2], &i))
		if v == nil {
			return "", false
		}
		wraps := 0
		fmt.Sscan(parts[1], &wraps)
		cv := unq(parts[3])
		return im.dfltCaseCV(r, wraps, v, cv, bindingsOf(cv)), true
	case "raw":
		if len(parts) < 2 {
			return "", false
		}
		return im.rawCase(unq(parts[1])), true
	case "inp":
		// inp <lit|var|vdef> <d|dl|lld> <value>
		if len(parts) < 4 {
			return "", false
		}
		i := 0
		v := valOfSx(parseSx(parts[3], &i))
		if v == nil {
			return "", false
		}
		for a := range inpArgs {
			if inpArgs[a].arg == parts[2] {
				return im.inpCase(r, parts[1], a, v), true
			}
		}
		return "", false
	}
	return "", false
}

func main() {
	if len(os.Args) < 2 {
		fmt.Fprintln(os.Stderr, "usage: c15 gen -seed S -n N -out F | c15 corpus -in F -out F")
		os.Exit(2)
	}
	a := common.Args(os.Args[2:])
	out := common.NewOut(a["out"])
	defer out.Close()
	im := newImpl()
	switch os.Args[1] {
	case "gen":
		r := common.NewRand(common.ArgU64(a, "seed", 1))
		n := common.ArgInt(a, "n", 1000)
		l3every := common.ArgInt(a, "l3every", 1)
		out.Line(im.schemaLine())
		for i := 0; i < n; i++ {
			switch k := r.Pick(24); {
			case k >= 20:
				out.Line(im.genInp(r))
			case k < 12:
				v := genLiteral(r, genOpts{allowVars: true})
				var bs []varBinding
				for _, n := range varNames {
					bs = append(bs, genBinding(r, n))
				}
				out.Line(im.litCase(r, v, bs, i%l3every == 0))
			case k < 15:
				out.Line(im.fwdCase(r))
			case k < 17:
				out.Line(im.dfltCase(r))
			default:
				out.Line(im.rawCase(genRawLit(r)))
			}
		}
	case "corpus":
		r := common.NewRand(1)
		f, err := os.Open(a["in"])
		if err != nil {
			return
		}
		defer f.Close()
		sc := bufio.NewScanner(f)
		sc.Buffer(make([]byte, 1<<20), 1<<20)
		out.Line(im.schemaLine())
		for sc.Scan() {
			line := sc.Text()
			if strings.HasPrefix(line, "#") || strings.TrimSpace(line) == "" {
				continue
			}
			if s, ok := im.corpusLine(r, line); ok {
				out.Line(s)
			} else {
				fmt.Fprintln(os.Stderr, "bad corpus line:", line)
				os.Exit(2)
			}
		}
	}
}
