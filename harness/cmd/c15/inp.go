// inp cases: values for input-object types whose fields HAVE schema defaults (inject_input_default_values.go).
//
// A typed value tree is generated for one of the arguments of Query.g (d: D, dl: [D], lld: [[D]]) with, for every
// field, one of: omitted / null / the edge value of its kind ("" 0 0.0 false [] {} ...) / an ordinary value. It is
// supplied as a literal in the operation (mode lit), as a JSON variable (mode var) or as the default value of an
// omitted variable (mode vdef). The spec value is computed by the extracted Coq function spec_defaults from the
// schema description this program derives from the parsed SDL (the `ischema` line): a supplied member keeps its
// value, an omitted member with a default gets the default (completed recursively), an explicit null stays null.
package main

import (
	"strings"

	"gvh/common"

	"github.com/wundergraph/graphql-go-tools/v2/pkg/ast"
)

type ityp struct {
	k       int // 0 scalar/enum, 1 list, 2 input object
	name    string
	of      *ityp
	nonNull bool
}

func (t *ityp) sexp() string {
	switch t.k {
	case 1:
		return common.L("list", t.of.sexp())
	case 2:
		return common.L("obj", common.QS(t.name))
	}
	return common.L("scalar", common.QS(t.name))
}

type ifield struct {
	name    string
	t       *ityp
	hasDflt bool
	dflt    string // S-expression of the default value
}

type iobj struct {
	name   string
	fields []ifield
}

func (im *impl) typeOf(ref int) *ityp {
	d := im.def
	switch d.Types[ref].TypeKind {
	case ast.TypeKindNonNull:
		t := im.typeOf(d.Types[ref].OfType)
		t.nonNull = true
		return t
	case ast.TypeKindList:
		return &ityp{k: 1, of: im.typeOf(d.Types[ref].OfType)}
	}
	name := d.TypeNameString(ref)
	if node, ok := d.Index.FirstNodeByNameStr(name); ok && node.Kind == ast.NodeKindInputObjectTypeDefinition {
		return &ityp{k: 2, name: name}
	}
	return &ityp{k: 0, name: name}
}

// the input object types of the schema, read off the parsed definition document
func (im *impl) inputSchema() []iobj {
	if im.isch != nil {
		return im.isch
	}
	d := im.def
	for i := range d.InputObjectTypeDefinitions {
		o := iobj{name: d.InputObjectTypeDefinitionNameString(i)}
		if d.InputObjectTypeDefinitions[i].HasInputFieldsDefinition {
			for _, ref := range d.InputObjectTypeDefinitions[i].InputFieldsDefinition.Refs {
				f := ifield{name: d.InputValueDefinitionNameString(ref), t: im.typeOf(d.InputValueDefinitions[ref].Type)}
				if d.InputValueDefinitions[ref].DefaultValue.IsDefined {
					f.hasDflt = true
					f.dflt = dumpValue(d, d.InputValueDefinitions[ref].DefaultValue.Value)
				}
				o.fields = append(o.fields, f)
			}
		}
		im.isch = append(im.isch, o)
	}
	return im.isch
}

func (im *impl) inputObj(name string) *iobj {
	s := im.inputSchema()
	for i := range s {
		if s[i].name == name {
			return &s[i]
		}
	}
	return nil
}

// (ischema ("D" ("s" (scalar "String") (some (str "anonymous"))) ...) ...): first line of every case file
func (im *impl) schemaLine() string {
	it := []string{"ischema"}
	for _, o := range im.inputSchema() {
		ot := []string{common.QS(o.name)}
		for _, f := range o.fields {
			d := "(none)"
			if f.hasDflt {
				d = common.L("some", f.dflt)
			}
			ot = append(ot, common.L(common.QS(f.name), f.t.sexp(), d))
		}
		it = append(it, common.L(ot...))
	}
	return common.L(it...)
}

var inpStrings = []string{"x", "anonymous", "a b", "null", "0", "[]", "{}", "false", "es", " ", "true", "\\\"\\\"", "id0"}

func (im *impl) genScalarTyped(r *common.Rand, name string) *val {
	edge := r.Chance(1, 2)
	switch name {
	case "String":
		if edge {
			return &val{k: kStr, raw: ""}
		}
		return &val{k: kStr, raw: common.PickOf(r, inpStrings)}
	case "Int":
		if edge {
			return &val{k: kInt, raw: "0"}
		}
		return &val{k: kInt, raw: common.PickOf(r, []string{"1", "7", "-1", "3", "2147483647", "-0"})}
	case "Float":
		if edge {
			return &val{k: kFloat, raw: common.PickOf(r, []string{"0.0", "0e0", "-0.0"})}
		}
		if r.Chance(1, 4) {
			return &val{k: kInt, raw: common.PickOf(r, []string{"0", "2"})}
		}
		return &val{k: kFloat, raw: common.PickOf(r, []string{"1.5", "0.5", "1e5", "-2.50"})}
	case "Boolean":
		return &val{k: kBool, b: !edge}
	case "Color":
		return &val{k: kEnum, raw: common.PickOf(r, []string{"RED", "GREEN", "BLUE"})}
	case "ID":
		if edge {
			return common.PickOf(r, []*val{{k: kStr, raw: ""}, {k: kInt, raw: "0"}})
		}
		return common.PickOf(r, []*val{{k: kStr, raw: "id0"}, {k: kStr, raw: "0"}, {k: kInt, raw: "5"}, {k: kStr, raw: "e1"}})
	}
	// custom scalar: any JSON kind
	switch r.Pick(9) {
	case 0:
		return &val{k: kStr, raw: ""}
	case 1:
		return &val{k: kInt, raw: "0"}
	case 2:
		return &val{k: kBool}
	case 3:
		return &val{k: kList}
	case 4:
		return &val{k: kObj}
	case 5:
		return &val{k: kObj, fields: []field{{"k", &val{k: kStr, raw: ""}}}}
	case 6:
		return &val{k: kList, items: []*val{{k: kStr, raw: ""}, {k: kList}, {k: kNull}}}
	case 7:
		return &val{k: kFloat, raw: "0.0"}
	}
	return &val{k: kStr, raw: "a"}
}

func (im *impl) genTyped(r *common.Rand, t *ityp, depth int) *val {
	if !t.nonNull && r.Chance(1, 10) {
		return &val{k: kNull}
	}
	switch t.k {
	case 0:
		return im.genScalarTyped(r, t.name)
	case 1:
		v := &val{k: kList}
		if r.Chance(2, 5) {
			return v
		}
		n := 1 + r.Pick(3)
		for i := 0; i < n; i++ {
			v.items = append(v.items, im.genTyped(r, t.of, depth))
		}
		return v
	}
	v := &val{k: kObj}
	o := im.inputObj(t.name)
	if o == nil {
		return v
	}
	// how many of the fields are mentioned at all
	num, den := 1, 2
	switch r.Pick(4) {
	case 0:
		num, den = 1, 6
	case 1:
		num, den = 5, 6
	}
	for _, f := range o.fields {
		if !r.Chance(num, den) {
			continue
		}
		if f.t.k != 0 && depth <= 0 {
			// at the bottom: containers are empty, null or left out
			switch {
			case r.Chance(1, 2):
				continue
			case f.t.k == 1:
				v.fields = append(v.fields, field{f.name, &val{k: kList}})
			case f.t.nonNull || r.Chance(2, 3):
				v.fields = append(v.fields, field{f.name, &val{k: kObj}})
			default:
				v.fields = append(v.fields, field{f.name, &val{k: kNull}})
			}
			continue
		}
		v.fields = append(v.fields, field{f.name, im.genTyped(r, f.t, depth-1)})
	}
	if r.Chance(1, 3) {
		r.Shuffle(len(v.fields), func(i, j int) { v.fields[i], v.fields[j] = v.fields[j], v.fields[i] })
	}
	return v
}

// the value as the client would put it into the variables JSON
func (v *val) json(r *common.Rand, sb *strings.Builder) {
	sp := func() {
		if r.Chance(1, 8) {
			sb.WriteString(common.PickOf(r, []string{" ", "\n", "  "}))
		}
	}
	switch v.k {
	case kNull:
		sb.WriteString("null")
	case kBool:
		if v.b {
			sb.WriteString("true")
		} else {
			sb.WriteString("false")
		}
	case kInt, kFloat:
		sb.WriteString(v.raw)
	case kStr, kBlock, kEnum, kVar:
		// the generated contents are plain or use the escapes shared by GraphQL and JSON
		sb.WriteByte('"')
		sb.WriteString(v.raw)
		sb.WriteByte('"')
	case kList:
		sb.WriteByte('[')
		for i, x := range v.items {
			if i > 0 {
				sb.WriteByte(',')
			}
			sp()
			x.json(r, sb)
			sp()
		}
		sb.WriteByte(']')
	case kObj:
		sb.WriteByte('{')
		for i, f := range v.fields {
			if i > 0 {
				sb.WriteByte(',')
			}
			sp()
			sb.WriteString(`"` + f.name + `"`)
			sp()
			sb.WriteByte(':')
			sp()
			f.v.json(r, sb)
			sp()
		}
		sb.WriteByte('}')
	}
}

var inpArgs = []struct {
	arg string
	ty  string
	t   *ityp
}{
	{"d", "D", &ityp{k: 2, name: "D"}},
	{"dl", "[D]", &ityp{k: 1, of: &ityp{k: 2, name: "D"}}},
	{"lld", "[[D]]", &ityp{k: 1, of: &ityp{k: 1, of: &ityp{k: 2, name: "D"}}}},
}

func (im *impl) genInp(r *common.Rand) string {
	a := 0
	switch r.Pick(6) {
	case 4:
		a = 1
	case 5:
		a = 2
	}
	v := im.genTyped(r, inpArgs[a].t, 2)
	if v.k == kNull {
		v = im.genTyped(r, &ityp{k: inpArgs[a].t.k, name: inpArgs[a].t.name, of: inpArgs[a].t.of, nonNull: true}, 2)
	}
	mode := common.PickOf(r, []string{"lit", "lit", "var", "var", "vdef"})
	return im.inpCase(r, mode, a, v)
}

// (inp (mode m) (arg "d") (ty <type>) <value> (src q) (cv text) <l1> <l2> <l3>)
func (im *impl) inpCase(r *common.Rand, mode string, a int, v *val) string {
	arg, ty := inpArgs[a].arg, inpArgs[a].ty
	var sb strings.Builder
	cv := ""
	l1 := "(l1 skip)"
	switch mode {
	case "lit":
		sb.WriteString("query { g(" + arg + ": ")
		v.source(r, &sb)
		sb.WriteString(") }")
	case "var":
		sb.WriteString("query($v: " + ty + ") { g(" + arg + ": $v) }")
		var jb strings.Builder
		v.json(r, &jb)
		cv = `{"v":` + jb.String() + `}`
	default:
		sb.WriteString("query($v: " + ty + " = ")
		v.source(r, &sb)
		sb.WriteString(") { g(" + arg + ": $v) }")
		if r.Chance(1, 2) {
			cv = "{}"
		}
	}
	q := sb.String()
	if mode == "lit" {
		l1 = im.level1(q, cv)
	}
	return common.L("inp", common.L("mode", mode), common.L("arg", common.QS(arg)), common.L("ty", inpArgs[a].t.sexp()), v.sexp(),
		common.L("src", common.QS(q)), common.L("cv", common.QS(cv)), l1, im.level2(q, cv), im.level3(q, cv))
}
