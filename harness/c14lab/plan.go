// Package c14lab holds the C14-specific pieces on top of gvh/fedlab: planning an operation the way
// ExecutionEngine.Execute does (same normalisation, plan.Planner, postprocess) so that the real
// response tree / fetch list / AuthorizationCoordinates can be dumped; recording authorizers; the
// operation+response walker that computes the denied positions; protected sets and sentinel
// universes.
package c14lab

import (
	"bytes"
	"encoding/json"
	"fmt"
	"sort"
	"strings"

	"gvh/common"

	"github.com/wundergraph/graphql-go-tools/execution/graphql"
	"github.com/wundergraph/graphql-go-tools/v2/pkg/ast"
	"github.com/wundergraph/graphql-go-tools/v2/pkg/astnormalization"
	"github.com/wundergraph/graphql-go-tools/v2/pkg/astvalidation"
	"github.com/wundergraph/graphql-go-tools/v2/pkg/engine/plan"
	"github.com/wundergraph/graphql-go-tools/v2/pkg/engine/postprocess"
	"github.com/wundergraph/graphql-go-tools/v2/pkg/engine/resolve"
	"github.com/wundergraph/graphql-go-tools/v2/pkg/operationreport"
)

// BuildPlan prepares and plans one operation exactly like ExecutionEngine.Execute /
// getCachedPlan (execution/engine/execution_engine.go): normalise, validate, extract variables,
// map variables, plan.NewPlanner(cfg).Plan, postprocess.NewProcessor().Process.
func BuildPlan(cfg plan.Configuration, schema *graphql.Schema, opText, opName string, vars []byte) (*resolve.GraphQLResponse, error) {
	req := &graphql.Request{Query: opText, OperationName: opName}
	if len(bytes.TrimSpace(vars)) > 0 {
		req.Variables = json.RawMessage(vars)
	}
	nres, err := req.Normalize(schema,
		astnormalization.WithRemoveFragmentDefinitions(),
		astnormalization.WithRemoveUnusedVariables(),
		astnormalization.WithInlineFragmentSpreads(),
		astnormalization.WithEnableDefer(),
		astnormalization.WithPrevalidationRules(
			astvalidation.DeferStreamOnValidOperations(),
			astvalidation.DeferStreamHaveUniqueLabels(),
			astvalidation.DirectivesAreDefined(),
			astvalidation.DirectivesAreInValidLocations(),
			astvalidation.DirectivesAreUniquePerLocation(),
			astvalidation.StreamAppliedToListFieldsOnly()),
	)
	if err != nil {
		return nil, err
	}
	if !nres.Successful {
		return nil, nres.Errors
	}
	if vres, err := req.ValidateForSchema(schema); err != nil {
		return nil, err
	} else if !vres.Valid {
		return nil, vres.Errors
	}
	if nres, err = req.Normalize(schema, astnormalization.WithExtractVariables()); err != nil {
		return nil, err
	} else if !nres.Successful {
		return nil, nres.Errors
	}
	var report operationreport.Report
	astnormalization.NewVariablesMapper().NormalizeOperation(req.Document(), schema.Document(), &report)
	if report.HasErrors() {
		return nil, report
	}
	planner, err := plan.NewPlanner(cfg)
	if err != nil {
		return nil, err
	}
	p := planner.Plan(req.Document(), schema.Document(), opName, &report, plan.IncludeQueryPlanInResponse())
	if report.HasErrors() {
		return nil, report
	}
	postprocess.NewProcessor().Process(p)
	switch x := p.(type) {
	case *plan.SynchronousResponsePlan:
		return x.Response, nil
	case *plan.DeferResponsePlan:
		// the response tree (with the deferred fields) and the coordinates live on the initial
		// response; its fetch tree holds the initial fetches only
		return x.Response.Response, nil
	}
	return nil, fmt.Errorf("not a synchronous or deferred plan: %T", p)
}

// Coord is an authorization coordinate (data source id + graph coordinate).
type Coord struct{ DS, Type, Field string }

func (c Coord) TF() string { return c.Type + "." + c.Field }
func (c Coord) Sexp() string {
	return common.L("c", common.QS(c.DS), common.QS(c.Type), common.QS(c.Field))
}

// RootField of a fetch.
type RootField struct {
	Type, Field string
	Rule        bool
}

// FetchDump is one fetch of the post-processed fetch tree.
type FetchDump struct {
	ID        int
	DependsOn []int
	Kind      string // single | entity | batch | listitem
	DS        string
	DSName    string
	OpType    ast.OperationType
	Roots     []RootField
	Query     string // upstream operation text (FetchInfo.QueryPlan.Query)
	Path      string
}

// PlanDump is the part of the plan that authorization reads.
type PlanDump struct {
	OpType  ast.OperationType
	Fetches []FetchDump
	Tree    string  // S-expression of the response tree (fields with authorization info)
	Coords  []Coord // GraphQLResponseInfo.AuthorizationCoordinates as the Go collector left them
	NFields int
	NRule   int
}

func opTypeAtom(t ast.OperationType) string {
	switch t {
	case ast.OperationTypeQuery:
		return "query"
	case ast.OperationTypeMutation:
		return "mutation"
	case ast.OperationTypeSubscription:
		return "subscription"
	}
	return "unknown"
}

func collectFetches(n *resolve.FetchTreeNode, out *[]FetchDump) {
	if n == nil {
		return
	}
	if n.Item != nil && n.Item.Fetch != nil {
		f := n.Item.Fetch
		fd := FetchDump{Path: n.Item.ResponsePath}
		switch x := f.(type) {
		case *resolve.SingleFetch:
			fd.Kind = "single"
			fd.ID, fd.DependsOn = x.FetchDependencies.FetchID, x.FetchDependencies.DependsOnFetchIDs
		case *resolve.EntityFetch:
			fd.Kind = "entity"
			fd.ID, fd.DependsOn = x.FetchDependencies.FetchID, x.FetchDependencies.DependsOnFetchIDs
		case *resolve.BatchEntityFetch:
			fd.Kind = "batch"
			fd.ID, fd.DependsOn = x.FetchDependencies.FetchID, x.FetchDependencies.DependsOnFetchIDs
		default:
			fd.Kind = fmt.Sprintf("%T", f)
		}
		if info := f.FetchInfo(); info != nil {
			fd.DS, fd.DSName, fd.OpType = info.DataSourceID, info.DataSourceName, info.OperationType
			for _, r := range info.RootFields {
				fd.Roots = append(fd.Roots, RootField{r.TypeName, r.FieldName, r.HasAuthorizationRule})
			}
			if info.QueryPlan != nil {
				fd.Query = info.QueryPlan.Query
			}
		}
		*out = append(*out, fd)
	}
	collectFetches(n.Trigger, out)
	for _, c := range n.ChildNodes {
		collectFetches(c, out)
	}
}

type treeDumper struct {
	sb     strings.Builder
	fields int
	rule   int
}

func (d *treeDumper) node(n resolve.Node) {
	switch x := n.(type) {
	case *resolve.Object:
		if x == nil {
			d.sb.WriteString("(leaf)")
			return
		}
		d.sb.WriteString("(obj")
		for _, f := range x.Fields {
			d.sb.WriteString(" ")
			d.field(f)
		}
		d.sb.WriteString(")")
	case *resolve.Array:
		if x == nil {
			d.sb.WriteString("(leaf)")
			return
		}
		d.sb.WriteString("(arr ")
		d.node(x.Item)
		d.sb.WriteString(")")
	default:
		d.sb.WriteString("(leaf)")
	}
}

func (d *treeDumper) field(f *resolve.Field) {
	d.fields++
	d.sb.WriteString("(fld " + common.QS(string(f.Name)) + " ")
	if f.Info == nil {
		d.sb.WriteString("(noinfo)")
	} else {
		if f.Info.HasAuthorizationRule {
			d.rule++
		}
		srcs := make([]string, len(f.Info.Source.IDs))
		for i, s := range f.Info.Source.IDs {
			srcs[i] = common.QS(s)
		}
		d.sb.WriteString(common.L("info", common.QS(f.Info.ExactParentTypeName), common.QS(f.Info.Name),
			common.B(f.Info.HasAuthorizationRule), common.L(append([]string{"src"}, srcs...)...)))
	}
	d.sb.WriteString(" ")
	d.node(f.Value)
	d.sb.WriteString(")")
}

// Dump projects the planned response onto what the authorization code reads.
func Dump(r *resolve.GraphQLResponse) *PlanDump {
	pd := &PlanDump{}
	if r.Info != nil {
		pd.OpType = r.Info.OperationType
		for _, c := range r.Info.AuthorizationCoordinates {
			pd.Coords = append(pd.Coords, Coord{c.DataSourceID, c.Coordinate.TypeName, c.Coordinate.FieldName})
		}
	}
	collectFetches(r.Fetches, &pd.Fetches)
	for _, it := range r.RawFetches {
		collectFetches(&resolve.FetchTreeNode{Item: it}, &pd.Fetches)
	}
	td := &treeDumper{}
	td.node(r.Data)
	pd.Tree, pd.NFields, pd.NRule = td.sb.String(), td.fields, td.rule
	return pd
}

func (f *FetchDump) Sexp() string {
	roots := []string{"roots"}
	for _, r := range f.Roots {
		roots = append(roots, common.L("r", common.QS(r.Type), common.QS(r.Field), common.B(r.Rule)))
	}
	return common.L("fetch", common.I(f.ID), common.QS(f.DS), opTypeAtom(f.OpType), common.L(roots...))
}

func (p *PlanDump) Sexp() string {
	fs := []string{"fetches"}
	for i := range p.Fetches {
		fs = append(fs, p.Fetches[i].Sexp())
	}
	cs := []string{"gocoords"}
	for _, c := range p.Coords {
		cs = append(cs, c.Sexp())
	}
	return common.L("plan", opTypeAtom(p.OpType), common.L(fs...), common.L("tree", p.Tree), common.L(cs...))
}

// SortedTF lists the distinct "Type.field" of the collected coordinates.
func (p *PlanDump) SortedTF() []string {
	m := map[string]bool{}
	for _, c := range p.Coords {
		m[c.TF()] = true
	}
	out := make([]string, 0, len(m))
	for k := range m {
		out = append(out, k)
	}
	sort.Strings(out)
	return out
}

// PlanEntry is one field of the planned response tree at a response key path.
type PlanEntry struct {
	Coord string // "ExactParentTypeName.Name"
	// Conds: type conditions under which the renderer walks the field -- its own OnTypeNames (depth 0 =
	// the enclosing object) and ParentOnTypeNames, and those of every enclosing field (shifted up)
	Conds []PlanCond
	// Far: some condition looks at an object above the enclosing one
	Far bool
}

// PlanCond: the object Depth levels above the field's enclosing object (0 = that object) has one of Names.
type PlanCond struct {
	Depth int
	Names []string
}

// Applies: the renderer would walk this field for an object whose runtime types, innermost first, are rts.
func (e *PlanEntry) Applies(rts []string) bool {
	for _, c := range e.Conds {
		if c.Depth >= len(rts) {
			continue
		}
		ok := false
		for _, n := range c.Names {
			if n == rts[c.Depth] {
				ok = true
			}
		}
		if !ok {
			return false
		}
	}
	return true
}

// PlanIndex maps every response key path of the planned response tree ("/a/b", list levels transparent) to
// the fields planned there with their type conditions.
func PlanIndex(r *resolve.GraphQLResponse) map[string][]PlanEntry {
	idx := map[string][]PlanEntry{}
	strs := func(bs [][]byte) []string {
		out := make([]string, len(bs))
		for i, b := range bs {
			out[i] = string(b)
		}
		return out
	}
	var walk func(n resolve.Node, kp string, inherited []PlanCond)
	walk = func(n resolve.Node, kp string, inherited []PlanCond) {
		switch x := n.(type) {
		case *resolve.Object:
			if x == nil {
				return
			}
			for _, f := range x.Fields {
				ckp := kp + "/" + string(f.Name)
				conds := append([]PlanCond(nil), inherited...)
				if f.OnTypeNames != nil {
					conds = append(conds, PlanCond{0, strs(f.OnTypeNames)})
				}
				for _, pc := range f.ParentOnTypeNames {
					conds = append(conds, PlanCond{pc.Depth, strs(pc.Names)})
				}
				if f.Info != nil {
					e := PlanEntry{Coord: f.Info.ExactParentTypeName + "." + f.Info.Name, Conds: conds}
					for _, c := range conds {
						if c.Depth > 0 {
							e.Far = true
						}
					}
					idx[ckp] = append(idx[ckp], e)
				}
				up := make([]PlanCond, len(conds))
				for i, c := range conds {
					up[i] = PlanCond{c.Depth + 1, c.Names}
				}
				walk(f.Value, ckp, up)
			}
		case *resolve.Array:
			if x != nil {
				walk(x.Item, kp, inherited)
			}
		}
	}
	walk(r.Data, "", nil)
	return idx
}
