package c14lab

import (
	"errors"
	"fmt"
	"strings"

	"gvh/fedlab"

	"github.com/wundergraph/graphql-go-tools/v2/pkg/ast"
	"github.com/wundergraph/graphql-go-tools/v2/pkg/astparser"
)

// Op is a client operation in fedlab's structured form plus its kind.
type Op struct {
	Kind string // "query" | "mutation"
	*fedlab.Operation
}

// Text prints the operation (fedlab.Operation.Text always prints "query").
func (o *Op) Text() string {
	t := o.Operation.Text()
	if o.Kind == "mutation" && strings.HasPrefix(t, "query") {
		return "mutation" + t[len("query"):]
	}
	return t
}

func (o *Op) Clone() *Op { return &Op{Kind: o.Kind, Operation: o.Operation.Clone()} }

// ParseOp converts operation text (first operation of the document + fragments) into the
// structured form, using the repo's parser.
func ParseOp(text string, variables *fedlab.J) (*Op, error) {
	doc, report := astparser.ParseGraphqlDocumentString(text)
	if report.HasErrors() {
		return nil, errors.New(report.Error())
	}
	c := &conv{d: &doc}
	out := &Op{Kind: "query", Operation: &fedlab.Operation{Variables: variables}}
	seenOp := false
	for _, n := range doc.RootNodes {
		switch n.Kind {
		case ast.NodeKindOperationDefinition:
			if seenOp {
				continue
			}
			seenOp = true
			od := doc.OperationDefinitions[n.Ref]
			if od.OperationType == ast.OperationTypeMutation {
				out.Kind = "mutation"
			}
			out.Name = c.str(od.Name)
			if od.HasVariableDefinitions {
				for _, vr := range od.VariableDefinitions.Refs {
					vd := &fedlab.VarDef{Name: c.str(doc.VariableValues[doc.VariableDefinitions[vr].VariableValue.Ref].Name), Type: c.typ(doc.VariableDefinitions[vr].Type)}
					if doc.VariableDefinitions[vr].DefaultValue.IsDefined {
						vd.Default = c.value(doc.VariableDefinitions[vr].DefaultValue.Value)
					}
					out.Vars = append(out.Vars, vd)
				}
			}
			if od.HasSelections {
				out.Sels = c.sels(od.SelectionSet)
			}
		case ast.NodeKindFragmentDefinition:
			fd := doc.FragmentDefinitions[n.Ref]
			f := &fedlab.FragDef{Name: c.str(fd.Name), On: c.str(doc.Types[fd.TypeCondition.Type].Name)}
			if fd.HasSelections {
				f.Sels = c.sels(fd.SelectionSet)
			}
			out.Frags = append(out.Frags, f)
		}
	}
	if !seenOp {
		return nil, fmt.Errorf("no operation in document")
	}
	if c.err != nil {
		return nil, c.err
	}
	return out, nil
}

type conv struct {
	d   *ast.Document
	err error
}

func (c *conv) str(r ast.ByteSliceReference) string { return string(c.d.Input.ByteSlice(r)) }

func signed(neg bool, s string) string {
	if neg {
		return "-" + s
	}
	return s
}

func (c *conv) typ(ref int) *fedlab.TypeRef {
	t := c.d.Types[ref]
	switch t.TypeKind {
	case ast.TypeKindNonNull:
		return fedlab.NonNull(c.typ(t.OfType))
	case ast.TypeKindList:
		return fedlab.ListOf(c.typ(t.OfType))
	}
	return fedlab.Named(c.str(t.Name))
}

func (c *conv) value(v ast.Value) *fedlab.Value {
	d := c.d
	switch v.Kind {
	case ast.ValueKindVariable:
		return &fedlab.Value{Kind: fedlab.VVar, Raw: c.str(d.VariableValues[v.Ref].Name)}
	case ast.ValueKindInteger:
		return &fedlab.Value{Kind: fedlab.VInt, Raw: signed(d.IntValues[v.Ref].Negative, c.str(d.IntValues[v.Ref].Raw))}
	case ast.ValueKindFloat:
		return &fedlab.Value{Kind: fedlab.VFloat, Raw: signed(d.FloatValues[v.Ref].Negative, c.str(d.FloatValues[v.Ref].Raw))}
	case ast.ValueKindString:
		return &fedlab.Value{Kind: fedlab.VStr, Raw: c.str(d.StringValues[v.Ref].Content)}
	case ast.ValueKindBoolean:
		return &fedlab.Value{Kind: fedlab.VBool, Raw: fmt.Sprint(bool(d.BooleanValues[v.Ref]))}
	case ast.ValueKindNull:
		return &fedlab.Value{Kind: fedlab.VNull}
	case ast.ValueKindEnum:
		return &fedlab.Value{Kind: fedlab.VEnum, Raw: c.str(d.EnumValues[v.Ref].Name)}
	case ast.ValueKindList:
		out := &fedlab.Value{Kind: fedlab.VList}
		for _, r := range d.ListValues[v.Ref].Refs {
			out.Items = append(out.Items, c.value(d.Values[r]))
		}
		return out
	case ast.ValueKindObject:
		out := &fedlab.Value{Kind: fedlab.VObj}
		for _, r := range d.ObjectValues[v.Ref].Refs {
			out.Fields = append(out.Fields, fedlab.ObjField{Name: c.str(d.ObjectFields[r].Name), Val: c.value(d.ObjectFields[r].Value)})
		}
		return out
	}
	c.err = fmt.Errorf("value kind %v not supported", v.Kind)
	return &fedlab.Value{Kind: fedlab.VNull}
}

func (c *conv) args(refs []int) []fedlab.Arg {
	var out []fedlab.Arg
	for _, r := range refs {
		out = append(out, fedlab.Arg{Name: c.str(c.d.Arguments[r].Name), Val: c.value(c.d.Arguments[r].Value)})
	}
	return out
}

func (c *conv) dirs(has bool, refs []int) []fedlab.Dir {
	if !has {
		return nil
	}
	var out []fedlab.Dir
	for _, r := range refs {
		dd := fedlab.Dir{Name: c.str(c.d.Directives[r].Name)}
		if c.d.Directives[r].HasArguments {
			dd.Args = c.args(c.d.Directives[r].Arguments.Refs)
		}
		out = append(out, dd)
	}
	return out
}

func (c *conv) sels(set int) []*fedlab.Sel {
	d := c.d
	var out []*fedlab.Sel
	for _, sr := range d.SelectionSets[set].SelectionRefs {
		sel := d.Selections[sr]
		switch sel.Kind {
		case ast.SelectionKindField:
			f := d.Fields[sel.Ref]
			s := &fedlab.Sel{Kind: fedlab.SField, Name: c.str(f.Name)}
			if f.Alias.IsDefined {
				s.Alias = c.str(f.Alias.Name)
			}
			if f.HasArguments {
				s.Args = c.args(f.Arguments.Refs)
			}
			s.Dirs = c.dirs(f.HasDirectives, f.Directives.Refs)
			if f.HasSelections {
				s.Sels = c.sels(f.SelectionSet)
			}
			out = append(out, s)
		case ast.SelectionKindInlineFragment:
			fr := d.InlineFragments[sel.Ref]
			s := &fedlab.Sel{Kind: fedlab.SInline}
			if fr.TypeCondition.Type != ast.InvalidRef {
				s.On = c.str(d.Types[fr.TypeCondition.Type].Name)
			}
			s.Dirs = c.dirs(fr.HasDirectives, fr.Directives.Refs)
			if fr.HasSelections {
				s.Sels = c.sels(fr.SelectionSet)
			}
			out = append(out, s)
		case ast.SelectionKindFragmentSpread:
			fs := d.FragmentSpreads[sel.Ref]
			out = append(out, &fedlab.Sel{Kind: fedlab.SSpread, Name: c.str(fs.FragmentName), Dirs: c.dirs(fs.HasDirectives, fs.Directives.Refs)})
		}
	}
	return out
}
