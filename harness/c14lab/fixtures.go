package c14lab

import "gvh/fedlab"

func sf(names ...string) []*fedlab.SubField {
	var out []*fedlab.SubField
	for _, n := range names {
		out = append(out, &fedlab.SubField{Name: n})
	}
	return out
}
func idf() *fedlab.FieldDef {
	return &fedlab.FieldDef{Name: "id", Type: fedlab.NonNull(fedlab.Named("ID"))}
}
func fsc(j *fedlab.J) *fedlab.FVal  { return &fedlab.FVal{Kind: fedlab.FSc, JSON: j} }
func fref(t, k string) *fedlab.FVal { return &fedlab.FVal{Kind: fedlab.FRef, Type: t, Key: k} }
func flst(xs ...*fedlab.FVal) *fedlab.FVal {
	return &fedlab.FVal{Kind: fedlab.FLst, Items: xs}
}
func str(n string) *fedlab.TypeRef { return fedlab.Named(n) }

// MutationFixture: two subgraphs with mutation root fields (the fedlab generator emits queries
// only).  Mutation resolvers are plain stored values / references (the reference executor has no
// side effects; the gate is observed on the request log).
func MutationFixture() (*fedlab.Config, *fedlab.Universe) {
	super := &fedlab.Schema{Query: "Query", Mutation: "Mutation", Types: []*fedlab.TypeDef{
		{Kind: fedlab.KObject, Name: "Query", Fields: []*fedlab.FieldDef{
			{Name: "me", Type: str("User")},
			{Name: "latest", Type: str("Review")},
		}},
		{Kind: fedlab.KObject, Name: "Mutation", Fields: []*fedlab.FieldDef{
			{Name: "setName", Args: []*fedlab.InputValue{{Name: "n", Type: fedlab.NonNull(str("String"))}}, Type: str("User")},
			{Name: "bump", Type: str("Int")},
			{Name: "wipe", Type: str("String")},
			{Name: "addReview", Args: []*fedlab.InputValue{{Name: "body", Type: str("String")}}, Type: str("Review")},
			{Name: "purge", Type: fedlab.NonNull(str("Boolean"))},
		}},
		{Kind: fedlab.KObject, Name: "User", Fields: []*fedlab.FieldDef{
			idf(), {Name: "name", Type: str("String")}, {Name: "handle", Type: str("String")},
			{Name: "reviews", Type: fedlab.ListOf(str("Review"))},
			{Name: "reviewCount", Type: str("Int")}, {Name: "rating", Type: str("String")},
		}},
		{Kind: fedlab.KObject, Name: "Review", Fields: []*fedlab.FieldDef{
			idf(), {Name: "body", Type: str("String")}, {Name: "author", Type: str("User")},
		}},
	}}
	cfg := &fedlab.Config{Super: super, Subgraphs: []*fedlab.Subgraph{
		{Name: "accounts", Types: []*fedlab.SubType{
			{Name: "Query", Fields: sf("me")},
			{Name: "Mutation", Fields: sf("setName", "bump", "wipe")},
			{Name: "User", Keys: []string{"id"}, Fields: sf("id", "name", "handle")},
		}},
		{Name: "reviews", Types: []*fedlab.SubType{
			{Name: "Query", Fields: sf("latest")},
			{Name: "Mutation", Fields: sf("addReview", "purge")},
			{Name: "User", Keys: []string{"id"}, Fields: sf("id", "reviews", "reviewCount", "rating")},
			{Name: "Review", Keys: []string{"id"}, Fields: sf("id", "body", "author")},
		}},
	}}
	u := &fedlab.Universe{Ents: []*fedlab.Entity{
		{Type: "Query", Key: "", Fields: []fedlab.FV{{Name: "me", Val: fref("User", "u1")}, {Name: "latest", Val: fref("Review", "r1")}}},
		{Type: "Mutation", Key: "", Fields: []fedlab.FV{
			{Name: "setName", Val: fref("User", "u1")},
			{Name: "bump", Val: fsc(fedlab.JNumRaw("41"))},
			{Name: "wipe", Val: fsc(fedlab.JS("zq9.Mutation..wipe"))},
			{Name: "addReview", Val: fref("Review", "r2")},
			{Name: "purge", Val: fsc(fedlab.JB(true))},
		}},
		{Type: "User", Key: "u1", Fields: []fedlab.FV{{Name: "id", Val: fsc(fedlab.JS("u1"))}, {Name: "name", Val: fsc(fedlab.JS("zq9.User.u1.name"))},
			{Name: "handle", Val: fsc(fedlab.JS("zq9.User.u1.handle"))},
			{Name: "reviews", Val: flst(fref("Review", "r1"), fref("Review", "r2"))},
			{Name: "reviewCount", Val: fsc(fedlab.JNumRaw("7"))}, {Name: "rating", Val: fsc(fedlab.JS("zq9.User.u1.rating"))}}},
		{Type: "User", Key: "u2", Fields: []fedlab.FV{{Name: "id", Val: fsc(fedlab.JS("u2"))}, {Name: "name", Val: fsc(fedlab.JS("zq9.User.u2.name"))},
			{Name: "handle", Val: fsc(fedlab.JS("zq9.User.u2.handle"))},
			{Name: "reviews", Val: flst()},
			{Name: "reviewCount", Val: fsc(fedlab.JNumRaw("0"))}, {Name: "rating", Val: fsc(fedlab.JS("zq9.User.u2.rating"))}}},
		{Type: "Review", Key: "r1", Fields: []fedlab.FV{{Name: "id", Val: fsc(fedlab.JS("r1"))}, {Name: "body", Val: fsc(fedlab.JS("zq9.Review.r1.body"))}, {Name: "author", Val: fref("User", "u1")}}},
		{Type: "Review", Key: "r2", Fields: []fedlab.FV{{Name: "id", Val: fsc(fedlab.JS("r2"))}, {Name: "body", Val: fsc(fedlab.JS("zq9.Review.r2.body"))}, {Name: "author", Val: fref("User", "u2")}}},
	}}
	return cfg, u
}

// MutationOps are the operations of the mutation stream.
var MutationOps = []string{
	`mutation { bump }`,
	`mutation { bump wipe }`,
	`mutation { wipe purge }`,
	`mutation { setName(n: "x") { id name } }`,
	`mutation { setName(n: "x") { name reviews { body author { name } } } bump }`,
	`mutation { addReview(body: "b") { id body author { id name } } wipe }`,
	`mutation { a: bump b: bump addReview(body: "c") { body } purge }`,
	`mutation { purge setName(n: "y") { reviews { body } } }`,
	`query { me { name reviews { body } } latest { body author { name } } }`,
	// 9.. a mutation root field returning an entity, nested (query-typed) entity fetches from the other
	// subgraph with two or three protected root fields
	`mutation { setName(n: "x") { id name reviewCount rating } }`,
	`mutation { setName(n: "x") { reviewCount rating reviews { body } } bump }`,
	`mutation { addReview(body: "b") { body author { name handle } } }`,
	`mutation { bump setName(n: "z") { rating reviewCount } addReview(body: "c") { author { handle name reviewCount } } }`,
	`query { me { id name reviewCount rating } latest { author { name handle } } }`,
	// 14.. two mutation root fields of one subgraph, then of two subgraphs (serial execution)
	`mutation { wipe bump }`,
	`mutation { purge wipe bump }`,
}

// InterfaceFixture: an interface whose implementers are entities extended by other subgraphs,
// a @requires field whose input is owned elsewhere, a shareable field, a second key.
//
//	home   (A): Query.node/nodes, interface Node {id title secret}, User {id title secret}, Product {id title secret}
//	users  (B): Query.me, User @key(id) {id email notes}, Product @key(id) {id price @external ship @requires(price) label @shareable}
//	stock  (C): Query.product, Product @key(id) @key(sku) {id sku price label @shareable}
func InterfaceFixture() (*fedlab.Config, *fedlab.Universe) {
	nodeFields := func() []*fedlab.FieldDef {
		return []*fedlab.FieldDef{idf(), {Name: "title", Type: str("String")}, {Name: "secret", Type: str("String")}}
	}
	// object- and list-valued interface fields; User.profile is covariant (UserProfile implements Profile)
	profFields := func() []*fedlab.FieldDef {
		return []*fedlab.FieldDef{{Name: "bio", Type: str("String")}, {Name: "psecret", Type: str("String")}}
	}
	links := func() *fedlab.FieldDef { return &fedlab.FieldDef{Name: "links", Type: fedlab.ListOf(str("Link"))} }
	super := &fedlab.Schema{Query: "Query", Types: []*fedlab.TypeDef{
		{Kind: fedlab.KObject, Name: "Query", Fields: []*fedlab.FieldDef{
			{Name: "node", Type: str("Node")},
			{Name: "nodes", Type: fedlab.ListOf(str("Node"))},
			{Name: "me", Type: str("User")},
			{Name: "product", Type: str("Product")},
			{Name: "featured", Type: str("Product")},
		}},
		{Kind: fedlab.KInterface, Name: "Node", Fields: append(nodeFields(), &fedlab.FieldDef{Name: "profile", Type: str("Profile")}, links())},
		{Kind: fedlab.KInterface, Name: "Profile", Fields: profFields()},
		{Kind: fedlab.KObject, Name: "UserProfile", Implements: []string{"Profile"}, Fields: append(profFields(), &fedlab.FieldDef{Name: "rank", Type: str("String")})},
		{Kind: fedlab.KObject, Name: "BasicProfile", Implements: []string{"Profile"}, Fields: profFields()},
		{Kind: fedlab.KObject, Name: "Link", Fields: []*fedlab.FieldDef{{Name: "url", Type: str("String")}, {Name: "note", Type: str("String")}}},
		{Kind: fedlab.KObject, Name: "User", Implements: []string{"Node"}, Fields: append(nodeFields(),
			&fedlab.FieldDef{Name: "profile", Type: str("UserProfile")}, links(),
			&fedlab.FieldDef{Name: "email", Type: str("String")}, &fedlab.FieldDef{Name: "notes", Type: str("String")})},
		{Kind: fedlab.KObject, Name: "Product", Implements: []string{"Node"}, Fields: append(nodeFields(),
			&fedlab.FieldDef{Name: "profile", Type: str("Profile")}, links(),
			&fedlab.FieldDef{Name: "sku", Type: str("String")},
			&fedlab.FieldDef{Name: "price", Type: str("String")},
			&fedlab.FieldDef{Name: "ship", Type: str("String")},
			&fedlab.FieldDef{Name: "label", Type: str("String")})},
	}}
	cfg := &fedlab.Config{Super: super, Subgraphs: []*fedlab.Subgraph{
		{Name: "home", Types: []*fedlab.SubType{
			{Name: "Query", Fields: sf("node", "nodes", "featured")},
			{Name: "Node", Fields: sf("id", "title", "secret", "profile", "links")},
			{Name: "Profile", Fields: sf("bio", "psecret")},
			{Name: "UserProfile", Fields: sf("bio", "psecret", "rank")},
			{Name: "BasicProfile", Fields: sf("bio", "psecret")},
			{Name: "Link", Fields: sf("url", "note")},
			{Name: "User", Keys: []string{"id"}, Fields: sf("id", "title", "secret", "profile", "links")},
			{Name: "Product", Keys: []string{"id"}, Fields: sf("id", "title", "secret", "profile", "links")},
		}},
		{Name: "users", Types: []*fedlab.SubType{
			{Name: "Query", Fields: sf("me")},
			{Name: "User", Keys: []string{"id"}, NoImplements: true, Fields: sf("id", "email", "notes")},
			{Name: "Product", Keys: []string{"id"}, NoImplements: true, Fields: []*fedlab.SubField{
				{Name: "id"}, {Name: "price", External: true}, {Name: "ship", Requires: "price"}, {Name: "label", Shareable: true}}},
		}},
		{Name: "stock", Types: []*fedlab.SubType{
			{Name: "Query", Fields: sf("product")},
			{Name: "Product", Keys: []string{"id", "sku"}, NoImplements: true, Fields: []*fedlab.SubField{
				{Name: "id"}, {Name: "sku"}, {Name: "price"}, {Name: "label", Shareable: true}}},
		}},
	}}
	ent := func(t, k string, extra ...fedlab.FV) *fedlab.Entity {
		e := &fedlab.Entity{Type: t, Key: k, Fields: []fedlab.FV{
			{Name: "id", Val: fsc(fedlab.JS(k))},
			{Name: "title", Val: fsc(fedlab.JS("zq9." + t + "." + k + ".title"))},
			{Name: "secret", Val: fsc(fedlab.JS("zq9." + t + "." + k + ".secret"))},
		}}
		e.Fields = append(e.Fields, extra...)
		return e
	}
	prof := func(t, k string, extra ...fedlab.FV) *fedlab.Entity {
		e := &fedlab.Entity{Type: t, Key: k, Fields: []fedlab.FV{
			{Name: "bio", Val: fsc(fedlab.JS("zq9." + t + "." + k + ".bio"))},
			{Name: "psecret", Val: fsc(fedlab.JS("zq9." + t + "." + k + ".psecret"))},
		}}
		e.Fields = append(e.Fields, extra...)
		return e
	}
	link := func(k string) *fedlab.Entity {
		return &fedlab.Entity{Type: "Link", Key: k, Fields: []fedlab.FV{
			{Name: "url", Val: fsc(fedlab.JS("zq9.Link." + k + ".url"))}, {Name: "note", Val: fsc(fedlab.JS("zq9.Link." + k + ".note"))}}}
	}
	pl := func(profType, profKey string, linkKeys ...string) []fedlab.FV {
		var ls []*fedlab.FVal
		for _, k := range linkKeys {
			ls = append(ls, fref("Link", k))
		}
		return []fedlab.FV{{Name: "profile", Val: fref(profType, profKey)}, {Name: "links", Val: flst(ls...)}}
	}
	s := func(t, k, f string) fedlab.FV {
		return fedlab.FV{Name: f, Val: fsc(fedlab.JS("zq9." + t + "." + k + "." + f))}
	}
	prod := func(k string) *fedlab.Entity {
		e := ent("Product", k, s("Product", k, "sku"), s("Product", k, "price"),
			fedlab.FV{Name: "ship", Val: &fedlab.FVal{Kind: fedlab.FReq, Req: []string{"price"}}}, s("Product", k, "label"))
		if k == "p1" {
			e.Fields = append(e.Fields, pl("BasicProfile", "bp1", "l2")...)
		} else {
			e.Fields = append(e.Fields, pl("UserProfile", "up2", "l1", "l3")...)
		}
		return e
	}
	user := func(k string, extra ...fedlab.FV) *fedlab.Entity {
		e := ent("User", k, extra...)
		if k == "u1" {
			e.Fields = append(e.Fields, pl("UserProfile", "up1", "l1", "l2")...)
		} else {
			e.Fields = append(e.Fields, pl("UserProfile", "up2")...)
		}
		return e
	}
	u := &fedlab.Universe{Ents: []*fedlab.Entity{
		{Type: "Query", Key: "", Fields: []fedlab.FV{
			{Name: "node", Val: fref("User", "u1")},
			{Name: "nodes", Val: flst(fref("User", "u1"), fref("Product", "p1"), fref("User", "u2"), fref("Product", "p2"))},
			{Name: "me", Val: fref("User", "u1")},
			{Name: "product", Val: fref("Product", "p1")},
			{Name: "featured", Val: fref("Product", "p2")},
		}},
		user("u1", s("User", "u1", "email"), s("User", "u1", "notes")),
		user("u2", s("User", "u2", "email"), fedlab.FV{Name: "notes", Val: fsc(fedlab.JN())}),
		prod("p1"), prod("p2"),
		prof("UserProfile", "up1", s("UserProfile", "up1", "rank")), prof("UserProfile", "up2", s("UserProfile", "up2", "rank")),
		prof("BasicProfile", "bp1"), link("l1"), link("l2"), link("l3"),
	}}
	return cfg, u
}

// GridFixture: protected fields whose only way into the response leads through a LIST OF LISTS (and a list of lists
// of lists), with nullable and non-null levels, items of an abstract type, and a nested list inside an
// entity-fetched subtree (seeded regression C14-m6: the coordinate collector must be complete over every shape of
// the plan tree).
//
//	home (A): Query.board [[Cell]]  cube [[[Cell!]!]!]  shapes [[Shape]]  strict [[Cell!]!]!  cells [Cell]  row [Cell!]!  first Cell
//	          interface Shape {id secret}, Cell @key(id) {id secret note}, Blob {id secret weight}
//	ext  (B): Cell @key(id) {id extra tags [[Tag]] near [[Cell]]}, Tag {name hidden}
func GridFixture() (*fedlab.Config, *fedlab.Universe) {
	shapeFields := func() []*fedlab.FieldDef {
		return []*fedlab.FieldDef{idf(), {Name: "secret", Type: str("String")}}
	}
	ll := func(t *fedlab.TypeRef) *fedlab.TypeRef { return fedlab.ListOf(fedlab.ListOf(t)) }
	super := &fedlab.Schema{Query: "Query", Types: []*fedlab.TypeDef{
		{Kind: fedlab.KObject, Name: "Query", Fields: []*fedlab.FieldDef{
			{Name: "board", Type: ll(str("Cell"))},
			{Name: "cube", Type: fedlab.NonNull(fedlab.ListOf(fedlab.NonNull(fedlab.ListOf(fedlab.NonNull(fedlab.ListOf(fedlab.NonNull(str("Cell"))))))))},
			{Name: "shapes", Type: ll(str("Shape"))},
			{Name: "strict", Type: fedlab.NonNull(fedlab.ListOf(fedlab.NonNull(fedlab.ListOf(fedlab.NonNull(str("Cell"))))))},
			{Name: "cells", Type: fedlab.ListOf(str("Cell"))},
			{Name: "row", Type: fedlab.NonNull(fedlab.ListOf(fedlab.NonNull(str("Cell"))))},
			{Name: "first", Type: str("Cell")},
		}},
		{Kind: fedlab.KInterface, Name: "Shape", Fields: shapeFields()},
		{Kind: fedlab.KObject, Name: "Cell", Implements: []string{"Shape"}, Fields: append(shapeFields(),
			&fedlab.FieldDef{Name: "note", Type: str("String")},
			&fedlab.FieldDef{Name: "extra", Type: str("String")},
			&fedlab.FieldDef{Name: "tags", Type: ll(str("Tag"))},
			&fedlab.FieldDef{Name: "near", Type: ll(str("Cell"))})},
		{Kind: fedlab.KObject, Name: "Blob", Implements: []string{"Shape"}, Fields: append(shapeFields(),
			&fedlab.FieldDef{Name: "weight", Type: str("String")})},
		{Kind: fedlab.KObject, Name: "Tag", Fields: []*fedlab.FieldDef{{Name: "name", Type: str("String")}, {Name: "hidden", Type: str("String")}}},
	}}
	cfg := &fedlab.Config{Super: super, Subgraphs: []*fedlab.Subgraph{
		{Name: "home", Types: []*fedlab.SubType{
			{Name: "Query", Fields: sf("board", "cube", "shapes", "strict", "cells", "row", "first")},
			{Name: "Shape", Fields: sf("id", "secret")},
			{Name: "Cell", Keys: []string{"id"}, Fields: sf("id", "secret", "note")},
			{Name: "Blob", Fields: sf("id", "secret", "weight")},
		}},
		{Name: "ext", Types: []*fedlab.SubType{
			{Name: "Cell", Keys: []string{"id"}, NoImplements: true, Fields: sf("id", "extra", "tags", "near")},
			{Name: "Tag", Fields: sf("name", "hidden")},
		}},
	}}
	s := func(t, k, f string) fedlab.FV {
		return fedlab.FV{Name: f, Val: fsc(fedlab.JS("zq9." + t + "." + k + "." + f))}
	}
	null := func() *fedlab.FVal { return fsc(fedlab.JN()) }
	nref := func() *fedlab.FVal { return &fedlab.FVal{Kind: fedlab.FNullRef} }
	c := func(k string) *fedlab.FVal { return fref("Cell", k) }
	t := func(k string) *fedlab.FVal { return fref("Tag", k) }
	cell := func(k string, tags, near *fedlab.FVal) *fedlab.Entity {
		return &fedlab.Entity{Type: "Cell", Key: k, Fields: []fedlab.FV{
			{Name: "id", Val: fsc(fedlab.JS(k))}, s("Cell", k, "secret"), s("Cell", k, "note"), s("Cell", k, "extra"),
			{Name: "tags", Val: tags}, {Name: "near", Val: near}}}
	}
	tag := func(k string) *fedlab.Entity {
		return &fedlab.Entity{Type: "Tag", Key: k, Fields: []fedlab.FV{s("Tag", k, "name"), s("Tag", k, "hidden")}}
	}
	u := &fedlab.Universe{Ents: []*fedlab.Entity{
		{Type: "Query", Key: "", Fields: []fedlab.FV{
			{Name: "board", Val: flst(flst(c("c1"), nref(), c("c2")), null(), flst(), flst(c("c3")))},
			{Name: "cube", Val: flst(flst(flst(c("c1")), flst(c("c2"), c("c3"))), flst(flst(c("c4"))))},
			{Name: "shapes", Val: flst(flst(c("c1"), fref("Blob", "b1")), flst(c("c4")), null())},
			{Name: "strict", Val: flst(flst(c("c2"), c("c4")), flst(c("c3")))},
			{Name: "cells", Val: flst(c("c1"), c("c3"))},
			{Name: "row", Val: flst(c("c2"), c("c4"))},
			{Name: "first", Val: c("c1")},
		}},
		cell("c1", flst(flst(t("t1"), t("t2")), flst(t("t3"))), flst(flst(c("c2")), flst(c("c3"), c("c4")))),
		cell("c2", flst(flst()), flst()),
		cell("c3", null(), null()),
		cell("c4", flst(flst(t("t1")), null()), flst(flst(c("c1")))),
		{Type: "Blob", Key: "b1", Fields: []fedlab.FV{{Name: "id", Val: fsc(fedlab.JS("b1"))}, s("Blob", "b1", "secret"), s("Blob", "b1", "weight")}},
		tag("t1"), tag("t2"), tag("t3"),
	}}
	return cfg, u
}

// GridOps: 1 is the flat-list control; in 2 the coordinate is also reached through a flat list (collected there as
// well).  Nested lists below an entity fetch are reached through an object or a flat list only (first / cells / row):
// operations 16.. put the parents of an entity fetch below a list of lists (the loader used not to execute such a
// fetch: selectItems flattened one array level, work/c14_nested_list_entity_fetch.md, repaired 3202cc0).
var GridOps = []string{
	`{ board { id secret } }`,
	`{ cells { id secret } }`,
	`{ board { id secret } cells { secret } }`,
	`{ cube { secret note } }`,
	`{ shapes { id secret } }`,
	`{ shapes { ... on Cell { secret note } ... on Blob { weight } } }`,
	`{ shapes { secret ... on Cell { secret } } }`,
	`{ first { tags { name hidden } } }`,
	`{ cells { tags { hidden } } }`,
	`{ cells { extra tags { hidden } } cube { id } }`,
	`{ row { secret } board { note } }`,
	`{ row { tags { hidden name } secret } }`,
	`{ first { secret near { extra id } } }`,
	`{ strict { note secret } }`,
	`{ cells { near { tags { hidden } near { extra } } } }`,
	`{ shapes { ... on Cell { secret note } ... on Blob { secret } } strict { id secret } }`,
	// 16.. the parents of an entity fetch sit BELOW a list of lists (repaired 3202cc0: selectItems flattened one array
	// level only and the fetch was never executed); 22 is the regression operation of that repair
	`{ board { tags { name hidden } } }`,
	`{ board { extra tags { hidden } } cube { id } }`,
	`{ cube { tags { hidden name } secret } }`,
	`{ first { secret near { secret note } } }`,
	`{ board { near { near { secret } tags { hidden } } } }`,
	`{ shapes { ... on Cell { near { secret extra } } ... on Blob { secret } } strict { id } }`,
	`{ board { extra tags { name } near { secret } } }`,
}

// Fixture is a hand-written configuration with its operations and protected sets.
type Fixture struct {
	// StrictBaseline: a divergence of the un-authorized gateway run from the monolith is NOT skipped as C01 territory
	// but reported (clause baseline_agrees): the federation is small and fully supported, so a divergence is a defect
	// (regression guard for the entity fetch below a list of lists)
	StrictBaseline bool
	Name           string
	Build          func() (*fedlab.Config, *fedlab.Universe)
	Ops            []string
	Ps             [][]string
}

// InterfaceOps probe: protected fields selected only through a fragment on an interface whose
// implementers are extended by other subgraphs; a protected field that is also a @key /
// @requires input; merged occurrences of which only one carries the rule; abstract parents.
var InterfaceOps = []string{
	`{ node { id secret } }`,
	`{ nodes { title secret } }`,
	`{ nodes { ... on User { secret email } ... on Product { price sku } } }`,
	`{ nodes { secret ... on User { secret notes } } }`,
	`{ nodes { ... on User { secret } title } node { ... on User { secret } } }`,
	`{ nodes { ...F ...G } } fragment F on Node { secret } fragment G on User { secret email }`,
	`{ me { email secret title } product { price ship label } }`,
	`{ nodes { ... on Product { ship label } title } }`,
	`{ product { ship } nodes { ... on Product { ship } } }`,
	`{ nodes { ... on Product { price } } product { price } }`,
	`{ product { id sku label title } me { id notes } }`,
	`{ node { __typename ... on User { id email } } nodes { __typename id } }`,
	`{ a: nodes { s: secret ... on User { s: secret } } b: nodes { ... on Product { s: secret } } }`,
	`{ featured { ship } }`,
	`{ featured { title ship price label sku } }`,
	`{ featured { id label } me { id email } }`,
	// 16.. protected OBJECT- and LIST-valued fields selected bare and under `... on T` on an abstract parent
	`{ nodes { id profile { bio } ... on User { profile { bio } } } }`,
	`{ nodes { ... on User { profile { bio rank } } profile { bio } title } }`,
	`{ nodes { links { url } ... on User { links { url note } } title } }`,
	`{ nodes { ... on Product { links { note } } links { url } } node { links { url } ... on User { links { note } } } }`,
	`{ nodes { profile { bio } links { url } } me { profile { rank } links { note } } }`,
	// 21.. the children of the merged parent sit under different (covariant) parent types
	`{ nodes { profile { psecret } ... on User { profile { psecret } } } }`,
	`{ nodes { profile { bio ... on UserProfile { psecret rank } } ... on User { profile { psecret } } } }`,
	`{ node { profile { psecret bio } } me { profile { psecret } } }`,
	// 24.. deferred payloads (sentinel scan over all frames, fetch gate on the deferred fetches)
	`{ me { email ... @defer { secret title } } }`,
	`{ product { sku ... @defer { title secret } } me { id ... @defer { notes } } }`,
	`{ nodes { id ... on User @defer { email notes } } }`,
}

func Fixtures() []Fixture {
	return []Fixture{
		{Name: "iface", Build: InterfaceFixture, Ops: InterfaceOps, Ps: [][]string{
			{"Node.secret", "User.secret", "Product.secret"}, // closed
			{"User.secret"}, // rule on one implementer only
			{"Node.secret"}, // rule on the interface only
			{"Product.price", "Product.id", "User.id", "Node.id"},            // @requires input and @key fields
			{"Product.price", "Product.ship", "User.email", "Product.label"}, // entity-fetched, shareable
			{"Query.nodes", "Query.node", "Query.me", "Query.product", "User.notes"},
			{"Product.sku", "Product.title", "User.title", "Node.title", "User.notes"},
			{"User.profile", "User.links"},                                                                   // 7: object / list valued, rule on the conditioned coordinate only
			{"Node.profile", "User.profile", "Product.profile", "Node.links", "User.links", "Product.links"}, // 8: on all, decided independently
			{"UserProfile.psecret"}, // 9: nested rule on the covariant child type only
			{"Profile.psecret", "UserProfile.psecret", "BasicProfile.psecret", "UserProfile.rank"},       // 10
			{"User.secret", "User.title", "User.email", "User.notes", "Product.title", "Product.secret"}, // 11: fields of deferred fragments
		}},
		{Name: "grid", StrictBaseline: true, Build: GridFixture, Ops: GridOps, Ps: [][]string{
			{"Cell.secret"}, // 0: rule on the concrete coordinate only
			{"Shape.secret", "Cell.secret", "Blob.secret"}, // 1: closed across the interface
			{"Tag.hidden", "Cell.note"},                    // 2: below a nested list inside an entity-fetched subtree
			{"Cell.secret", "Tag.hidden", "Cell.extra", "Blob.weight"},
			{"Query.board", "Cell.tags", "Tag.name", "Cell.near"}, // 4: the list-of-lists valued fields themselves
		}},
		{Name: "mut", Build: MutationFixture, Ops: MutationOps, Ps: [][]string{
			{"Mutation.bump", "Mutation.wipe", "Mutation.purge"},
			{"Mutation.setName", "Mutation.addReview", "User.name", "Review.body"},
			{"Mutation.bump", "Mutation.setName", "User.reviews", "Review.author", "User.id"},
			{"Query.me", "Query.latest", "User.name", "Mutation.wipe", "Mutation.addReview"},
			{"User.reviewCount", "User.rating"},                                                                           // 4: the root fields of the nested entity fetch
			{"User.reviewCount", "User.rating", "User.reviews", "Mutation.setName"},                                       // 5
			{"User.name", "User.handle", "Mutation.addReview", "User.reviewCount"},                                        // 6
			{"Mutation.bump", "Mutation.wipe", "Mutation.purge", "Mutation.setName", "Mutation.addReview", "User.rating"}, // 7
		}},
	}
}
