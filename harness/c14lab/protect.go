package c14lab

import (
	"fmt"

	"gvh/common"
	"gvh/fedlab"
)

// Sentinelize returns a copy of the universe in which every stored String / ID leaf other than
// "id" is a unique sentinel "zq9.<Type>.<key>.<field>[.i...]".  Key leaves stay unique per
// (type, field), so the universe stays key-consistent.
func Sentinelize(s *fedlab.Schema, u *fedlab.Universe) *fedlab.Universe {
	out := &fedlab.Universe{}
	for _, e := range u.Ents {
		ne := &fedlab.Entity{Type: e.Type, Key: e.Key}
		td := s.Type(e.Type)
		for _, fv := range e.Fields {
			v := fv.Val
			if td != nil && fv.Name != "id" {
				if fd := td.Field(fv.Name); fd != nil && (fd.Type.Base() == "String" || fd.Type.Base() == "ID") {
					v = sentinelVal(fv.Val, SentinelPrefix+e.Type+"."+e.Key+"."+fv.Name)
				}
			}
			ne.Fields = append(ne.Fields, fedlab.FV{Name: fv.Name, Val: v})
		}
		out.Ents = append(out.Ents, ne)
	}
	return out
}

func sentinelVal(v *fedlab.FVal, tag string) *fedlab.FVal {
	switch v.Kind {
	case fedlab.FSc:
		if v.JSON != nil && v.JSON.Kind == fedlab.JStr {
			return &fedlab.FVal{Kind: fedlab.FSc, JSON: fedlab.JS(tag)}
		}
	case fedlab.FLst:
		out := &fedlab.FVal{Kind: fedlab.FLst}
		for i, it := range v.Items {
			out.Items = append(out.Items, sentinelVal(it, fmt.Sprintf("%s.%d", tag, i)))
		}
		return out
	}
	return v
}

// TwinReference builds the reference-only schema and universe: every protected coordinate
// (T, f) gets a twin field f__d (same arguments and type) on T -- and on every possible type
// when T is an interface -- whose resolver always fails.
func TwinReference(s *fedlab.Schema, u *fedlab.Universe, P map[string]bool) (*fedlab.Schema, *fedlab.Universe) {
	need := map[string]map[string]bool{}
	add := func(t, f string) {
		if need[t] == nil {
			need[t] = map[string]bool{}
		}
		need[t][f] = true
	}
	for _, tf := range SortedKeys(P) {
		t, f := SplitTF(tf)
		td := s.Type(t)
		if td == nil || td.Field(f) == nil {
			continue
		}
		add(t, f)
		if td.Kind == fedlab.KInterface {
			for _, pt := range s.PossibleTypes(t) {
				add(pt, f)
			}
		}
	}
	ns := &fedlab.Schema{Query: s.Query, Mutation: s.Mutation}
	for _, td := range s.Types {
		if need[td.Name] == nil {
			ns.Types = append(ns.Types, td)
			continue
		}
		c := *td
		c.Fields = append([]*fedlab.FieldDef(nil), td.Fields...)
		for _, fd := range td.Fields {
			if need[td.Name][fd.Name] {
				c.Fields = append(c.Fields, &fedlab.FieldDef{Name: fd.Name + TwinSuffix, Args: fd.Args, Type: fd.Type})
			}
		}
		ns.Types = append(ns.Types, &c)
	}
	nu := &fedlab.Universe{}
	for _, e := range u.Ents {
		ne := &fedlab.Entity{Type: e.Type, Key: e.Key, Fields: append([]fedlab.FV(nil), e.Fields...)}
		if td := s.Type(e.Type); td != nil {
			for _, fd := range td.Fields {
				if need[e.Type][fd.Name] {
					ne.Fields = append(ne.Fields, fedlab.FV{Name: fd.Name + TwinSuffix, Val: &fedlab.FVal{Kind: fedlab.FErr}})
				}
			}
		}
		nu.Ents = append(nu.Ents, ne)
	}
	return ns, nu
}

// Closure adds, for every protected interface field, the same field of every implementer and,
// for every protected object field that implements an interface field, that interface field
// (what a composition propagating authorization rules across an interface produces).
func Closure(s *fedlab.Schema, P map[string]bool) map[string]bool {
	out := map[string]bool{}
	for k, v := range P {
		if v {
			out[k] = true
		}
	}
	for changed := true; changed; {
		changed = false
		for _, tf := range SortedKeys(out) {
			t, f := SplitTF(tf)
			td := s.Type(t)
			if td == nil {
				continue
			}
			if td.Kind == fedlab.KInterface {
				for _, pt := range s.PossibleTypes(t) {
					if !out[pt+"."+f] {
						out[pt+"."+f], changed = true, true
					}
				}
			}
			for _, i := range td.Implements {
				if it := s.Type(i); it != nil && it.Field(f) != nil && !out[i+"."+f] {
					out[i+"."+f], changed = true, true
				}
			}
		}
	}
	return out
}

// PickProtected chooses a random protected set: each field of each object / interface type with
// probability num/den (the root types included), closed across interfaces when closed is set.
func PickProtected(r *common.Rand, s *fedlab.Schema, num, den int, closed bool) map[string]bool {
	P := map[string]bool{}
	for _, td := range s.Types {
		if td.Kind != fedlab.KObject && td.Kind != fedlab.KInterface {
			continue
		}
		for _, fd := range td.Fields {
			if r.Chance(num, den) {
				P[td.Name+"."+fd.Name] = true
			}
		}
	}
	if closed {
		return Closure(s, P)
	}
	return P
}
