package c14lab

import (
	"sort"
	"strings"

	"gvh/common"
	"gvh/fedlab"
)

// NestLists turns up to max list-valued fields of composite type into LISTS OF LISTS (depth 2, sometimes 3), in place:
// the field's type on every supergraph type that declares a field of that name (interfaces and their implementers
// change together) and every stored value (the items are cut into inner lists, with an empty and -- where the inner
// list is nullable -- a null inner list now and then).  Only fields without arguments whose stored values are plain
// lists / null and whose name occurs in no @key / @requires / @provides selection are candidates.  Operations built
// before the call stay valid (selections do not depend on list wrappers).  Returns the field names changed.
// (Seeded regression C14-m6: the coordinate collector must be complete over every shape of the plan tree.)
func NestLists(cfg *fedlab.Config, uni *fedlab.Universe, r *common.Rand, max int) []string {
	s := cfg.Super
	used := map[string]bool{}
	words := func(sel string) {
		for _, w := range strings.Fields(strings.NewReplacer("{", " ", "}", " ").Replace(sel)) {
			used[w] = true
		}
	}
	for _, g := range cfg.Subgraphs {
		for _, st := range g.Types {
			for _, k := range st.Keys {
				words(k)
			}
			for _, f := range st.Fields {
				words(f.Requires)
				words(f.Provides)
			}
		}
	}
	for tf := range cfg.Lookups {
		_, f := SplitTF(tf)
		used[f] = true
	}
	ok := map[string]bool{}
	for _, td := range s.Types {
		if td.Kind != fedlab.KObject && td.Kind != fedlab.KInterface {
			continue
		}
		for _, fd := range td.Fields {
			good := !used[fd.Name] && len(fd.Args) == 0 && fd.Type.Nullable().Kind == fedlab.TList &&
				fd.Type.Nullable().Of.Nullable().Kind == fedlab.TNamed && !s.IsLeaf(fd.Type.Base())
			if prev, seen := ok[fd.Name]; seen {
				ok[fd.Name] = prev && good
			} else {
				ok[fd.Name] = good
			}
		}
	}
	for _, e := range uni.Ents {
		for _, fv := range e.Fields {
			if !ok[fv.Name] || fv.Val == nil {
				continue
			}
			switch fv.Val.Kind {
			case fedlab.FLst, fedlab.FNullRef:
			case fedlab.FSc:
				if fv.Val.JSON == nil || fv.Val.JSON.Kind != fedlab.JNull {
					ok[fv.Name] = false
				}
			default:
				ok[fv.Name] = false
			}
			if fv.Val.Kind == fedlab.FLst {
				for _, it := range fv.Val.Items {
					if it.Kind != fedlab.FRef && it.Kind != fedlab.FNullRef {
						ok[fv.Name] = false
					}
				}
			}
		}
	}
	var cands []string
	for n, v := range ok {
		if v {
			cands = append(cands, n)
		}
	}
	sort.Strings(cands)
	r.Shuffle(len(cands), func(a, b int) { cands[a], cands[b] = cands[b], cands[a] })
	if len(cands) > max {
		cands = cands[:max]
	}
	sort.Strings(cands)
	for _, name := range cands {
		depth := 2
		if r.Chance(1, 4) {
			depth = 3
		}
		innerNonNull := r.Chance(1, 2)
		for _, td := range s.Types {
			if td.Kind != fedlab.KObject && td.Kind != fedlab.KInterface {
				continue
			}
			if fd := td.Field(name); fd != nil {
				lst := fd.Type.Nullable() // [X]
				for i := 1; i < depth; i++ {
					in := fedlab.ListOf(lst.Of)
					if innerNonNull {
						in = fedlab.NonNull(in)
					}
					lst.Of = in
				}
			}
		}
		for _, e := range uni.Ents {
			for i := range e.Fields {
				if e.Fields[i].Name == name && e.Fields[i].Val != nil && e.Fields[i].Val.Kind == fedlab.FLst {
					v := e.Fields[i].Val
					for d := 1; d < depth; d++ {
						v = chunk(v, r, !innerNonNull)
					}
					e.Fields[i].Val = v
				}
			}
		}
	}
	return cands
}

// chunk cuts the items of a list value into inner lists of 1..3 items.
func chunk(v *fedlab.FVal, r *common.Rand, nullable bool) *fedlab.FVal {
	out := &fedlab.FVal{Kind: fedlab.FLst}
	items := v.Items
	for len(items) > 0 {
		n := 1 + r.Pick(3)
		if n > len(items) {
			n = len(items)
		}
		out.Items = append(out.Items, &fedlab.FVal{Kind: fedlab.FLst, Items: append([]*fedlab.FVal(nil), items[:n]...)})
		items = items[n:]
		if r.Chance(1, 5) {
			if nullable && r.Chance(1, 2) {
				out.Items = append(out.Items, &fedlab.FVal{Kind: fedlab.FSc, JSON: fedlab.JN()})
			} else {
				out.Items = append(out.Items, &fedlab.FVal{Kind: fedlab.FLst})
			}
		}
	}
	return out
}
