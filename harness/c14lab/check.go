package c14lab

import (
	"bytes"
	"fmt"
	"os"
	"sort"
	"strings"

	"gvh/common"
	"gvh/fedlab"

	"github.com/wundergraph/graphql-go-tools/v2/pkg/ast"
	"github.com/wundergraph/graphql-go-tools/v2/pkg/astparser"
)

// ReqRoots parses a subgraph request and lists the coordinates of its root fields: the fields of
// the root selection set on Query / Mutation, and for _entities the fields selected directly
// under each "... on T" (other than __typename).
func ReqRoots(s *fedlab.Schema, query string) (optype string, roots [][2]string, err error) {
	doc, report := astparser.ParseGraphqlDocumentString(query)
	if report.HasErrors() {
		return "", nil, fmt.Errorf("%s", report.Error())
	}
	optype = "query"
	for _, n := range doc.RootNodes {
		if n.Kind != ast.NodeKindOperationDefinition {
			continue
		}
		od := doc.OperationDefinitions[n.Ref]
		root := s.Query
		if od.OperationType == ast.OperationTypeMutation {
			optype, root = "mutation", s.Mutation
		}
		if !od.HasSelections {
			return
		}
		var under func(set int, typ string, depth int)
		under = func(set int, typ string, depth int) {
			if depth > 8 {
				return
			}
			for _, sr := range doc.SelectionSets[set].SelectionRefs {
				sel := doc.Selections[sr]
				switch sel.Kind {
				case ast.SelectionKindField:
					name := doc.FieldNameString(sel.Ref)
					if name == "__typename" {
						continue
					}
					if name == "_entities" && typ == root {
						if fs, ok := doc.FieldSelectionSet(sel.Ref); ok {
							under(fs, "_Entity", depth+1)
						}
						continue
					}
					roots = append(roots, [2]string{typ, name})
				case ast.SelectionKindInlineFragment:
					on := typ
					if doc.InlineFragmentHasTypeCondition(sel.Ref) {
						on = doc.InlineFragmentTypeConditionNameString(sel.Ref)
					}
					if fs, ok := doc.InlineFragmentSelectionSet(sel.Ref); ok {
						under(fs, on, depth+1)
					}
				}
			}
		}
		under(od.SelectionSet, root, 0)
		return
	}
	return
}

func stripWS(s string) string {
	return strings.Map(func(r rune) rune {
		if r == ' ' || r == '\n' || r == '\t' || r == '\r' || r == ',' {
			return -1
		}
		return r
	}, s)
}

// OpCase is one (fixture, operation): everything that does not depend on the decisions.
type OpCase struct {
	Fx      *Fix
	ID      string // "(id ...)" S-expression identifying the fixture and the operation
	Op      *Op
	Text    string
	Vars    []byte
	W       *Walker
	Shadow  *fedlab.J
	Base    *fedlab.Result
	BaseRef *fedlab.ExecResult
	Plan    *PlanDump
	RefID   string // executor definition of the twin reference
	Domain  []string
	A0      *Analysis
	Skip    string // non-empty: the case is not usable (reason)
	// Deferred: the operation uses @defer.  Lab.Run keeps the request log but not the flushed
	// frames, so the frames come from a second run (Fix.RunFrames); only the clauses that do not
	// need the merged response tree are evaluated: sentinel_absent over all frames, fetch_gate on
	// the request log, collector_complete on the questions asked.
	Deferred bool
}

// Prepare runs the decision-independent part.
func Prepare(fx *Fix, id string, op *Op, refID string) *OpCase {
	c := &OpCase{Fx: fx, ID: id, Op: op, Text: op.Text(), Vars: []byte(op.VariablesJSON()), RefID: refID}
	c.Deferred = strings.Contains(c.Text, "@defer")
	c.W = NewWalker(fx.Lab.Config.Super, op, fx.P)
	c.W.Requires = RequiresMap(fx.Lab.Config)
	sh, err := fx.Lab.Mono(c.W.Instrumented().Text(), op.Name, c.Vars)
	if err != nil {
		c.Skip = "lab: shadow: " + err.Error()
		return c
	}
	if sh.Invalid != "" {
		c.Skip = "lab: shadow operation rejected by the reference executor: " + sh.Invalid
		return c
	}
	c.Shadow = sh.Data
	ref, err := fx.Lab.Mono(c.Text, op.Name, c.Vars)
	if err != nil || ref.Invalid != "" {
		c.Skip = fmt.Sprintf("lab: mono: %v %s", err, ref.Invalid)
		return c
	}
	c.BaseRef = ref
	res, _, _ := fx.Run(c.Text, op.Name, c.Vars, None, nil)
	c.Base = res
	for _, q := range res.Requests {
		if q.ExecError != "" {
			c.Skip = "lab: subgraph " + q.Subgraph + ": " + q.ExecError
			return c
		}
	}
	if res.Err != nil {
		c.Skip = "baseline: planning / execution failed without any authorizer (C01 territory): " + fedlab.Trunc(res.Err.Error(), 200)
		return c
	}
	gw := res.Data
	if gw == nil {
		gw = fedlab.JN()
	}
	if c.Deferred {
		frames, err := fx.RunFrames(c.Text, op.Name, c.Vars, None, nil)
		if err != nil || len(frames) == 0 {
			c.Skip = fmt.Sprintf("baseline: deferred execution failed without any authorizer: %v", err)
			return c
		}
		c.Base.Data = nil
	} else if !gw.EqualUnordered(ref.Data) {
		c.Skip = "baseline: gateway differs from the monolith without any authorizer (C01 territory): " + gw.FirstDiffUnordered(ref.Data, "data")
		return c
	}
	resp, err := fx.Plan(c.Text, op.Name, c.Vars)
	if err != nil {
		c.Skip = "lab: own planning failed: " + fedlab.Trunc(err.Error(), 200)
		return c
	}
	c.Plan = Dump(resp)
	c.W.PlanIdx = PlanIndex(resp)
	c.A0 = c.W.Analyze(c.Shadow, None, nil)
	// the decisions range over every coordinate an authorizer can be asked about for this
	// operation: those of the response positions (plan-time and runtime) and those the collector
	// hands to the batch authorizer (which include planner-added root fields of fetches: @key and
	// @requires inputs the client did not select)
	for _, tf := range c.Plan.SortedTF() {
		c.A0.Domain[tf] = true
	}
	c.Domain = SortedKeys(c.A0.Domain)
	return c
}

// OpLine is the decision-independent case line.
func (c *OpCase) OpLine() string {
	base := "(absent)"
	if c.Base != nil && c.Base.Data != nil {
		base = c.Base.Data.Sexp()
	}
	dom := []string{"domain"}
	for _, x := range c.Domain {
		dom = append(dom, common.QS(x))
	}
	prot := []string{"protected"}
	for _, x := range SortedKeys(c.Fx.P) {
		prot = append(prot, common.QS(x))
	}
	return common.L("c14", "op", c.ID, common.L("optype", c.Op.Kind), common.L("text", common.QS(c.Text)), common.L("vars", common.QS(string(c.Vars))),
		common.L(prot...), common.L(dom...), common.L("base", base), c.Plan.Sexp())
}

func errPaths(errs *fedlab.J) (paths []string, n, unauthorized int) {
	if errs == nil || errs.Kind != fedlab.JArr {
		return
	}
	for _, e := range errs.Items {
		n++
		if ext := e.Get("extensions"); ext != nil {
			if code := ext.Get("code"); code != nil && code.Raw == "UNAUTHORIZED_FIELD_OR_TYPE" {
				unauthorized++
			}
		}
		p := e.Get("path")
		if p == nil || p.Kind != fedlab.JArr {
			continue
		}
		parts := []string{"p"}
		for _, el := range p.Items {
			if el.Kind == fedlab.JStr {
				parts = append(parts, common.QS(el.Raw))
			} else {
				parts = append(parts, el.Raw)
			}
		}
		paths = append(paths, common.L(parts...))
	}
	return
}

// RunLine executes the operation under (mode, d) and renders the run line.
func (c *OpCase) RunLine(mode Mode, d Decisions) (line string, an *Analysis) {
	return c.RunLineHooks(mode, d, Hooks{})
}

// RunLineHooks: the same under the loader's other pre-fetch hooks (rate limiting, tracing).
func (c *OpCase) RunLineHooks(mode Mode, d Decisions, h Hooks) (line string, an *Analysis) {
	an = c.W.Analyze(c.Shadow, mode, d)
	res, pf, ba, lim := c.Fx.RunHooks(c.Text, c.Op.Name, c.Vars, mode, d, h)
	if os.Getenv("C14_DEBUG") != "" {
		fmt.Printf("RUN %s mode=%s d=%s hooks=%s\n  response=%s\n", c.ID, mode, d.String(), h.String(), res.Response)
		for _, q := range res.Requests {
			fmt.Printf("  req[%d] %s %s\n     vars=%s\n     -> %s\n", q.Index, q.Subgraph, q.Query, q.Variables.String(), q.Response)
		}
	}
	items := []string{"c14", "run", c.ID, common.L("mode", mode.String()), common.L("optype", c.Op.Kind), common.L("d", common.QS(d.String()))}
	// (hooks name limiter-installed limiter-calls): the limiter is on the request context only once the engine has
	// consulted the authorizer (never, when the plan carries no protected coordinate)
	installed, calls := lim.State()
	items = append(items, common.L("hooks", h.String(), common.B(installed), common.I(calls)))
	if c.Deferred {
		frames, err := c.Fx.RunFramesHooks(c.Text, c.Op.Name, c.Vars, mode, d, h)
		if err != nil {
			res.Err = err
		}
		res.Response, res.Data, res.Errors = frames, nil, nil
		items = append(items, common.L("deferred", "t"))
	}
	for _, q := range res.Requests {
		if q.ExecError != "" {
			return common.L("c14", "run", c.ID, common.L("laberror", common.QS("subgraph "+q.Subgraph+": "+q.ExecError))), an
		}
	}
	if res.Err != nil {
		items = append(items, common.L("execerror", common.QS(fedlab.Trunc(res.Err.Error(), 300))))
		return common.L(items...), an
	}
	// denied positions
	den := []string{"denied"}
	for _, p := range an.Denied {
		den = append(den, PathSexp(p))
	}
	items = append(items, common.L(den...))
	// allowed fields whose @requires input is denied: compared separately (requires_input_intact),
	// masked in the other comparisons
	starved := []string{}
	for _, p := range an.Dependent {
		b, g := GetAt(c.Base.Data, p), GetAt(res.Data, p)
		if b != nil && (g == nil || !g.Equal(b)) {
			starved = append(starved, PathString(p))
		}
	}
	gwData := MaskAt(res.Data, an.Dependent)
	gw := "(absent)"
	if gwData != nil {
		gw = gwData.Sexp()
	}
	eps, nerr, nun := errPaths(res.Errors)
	items = append(items, common.L("gw", gw), common.L(append([]string{"gwerrs"}, eps...)...))
	if len(an.Dependent) > 0 {
		base := "(absent)"
		if c.Base.Data != nil {
			base = MaskAt(c.Base.Data, an.Dependent).Sexp()
		}
		items = append(items, common.L("maskedbase", base))
	}
	st := []string{"starved"}
	for _, x := range starved {
		st = append(st, common.QS(x))
	}
	items = append(items, common.L(st...), common.L("dependent", common.I(len(an.Dependent))))
	// reference
	refS, refErrs, goEqual := "(skip)", 0, true
	var rop *Op
	if !an.Mixed && !c.Deferred {
		// the static rewriting cannot express a coordinate that depends on the runtime type of an
		// enclosing object (ParentOnTypeNames): no reference then, the position clauses still run
		if rop = c.W.Reference(mode, d); c.W.Ambiguous {
			rop = nil
		}
	}
	if rop != nil {
		dump, err := fedlab.DumpOperation(rop.Text())
		if err != nil {
			return common.L("c14", "run", c.ID, common.L("laberror", common.QS("reference operation does not parse: "+err.Error()))), an
		}
		vars := fedlab.JO()
		if len(bytes.TrimSpace(c.Vars)) > 0 {
			vars, _ = fedlab.ParseJSON(c.Vars)
		}
		ref, err := c.Fx.Lab.Exec.Exec(c.RefID, "mono", dump, c.Op.Name, vars)
		if err != nil {
			return common.L("c14", "run", c.ID, common.L("laberror", common.QS("reference: "+err.Error()))), an
		}
		if ref.Invalid != "" {
			return common.L("c14", "run", c.ID, common.L("laberror", common.QS("reference operation rejected: "+ref.Invalid+" :: "+rop.Text()))), an
		}
		refData := MaskAt(ref.Data, an.Dependent)
		refS, refErrs = refData.Sexp(), ref.NErrors
		g := gwData
		if g == nil {
			g = fedlab.JN()
		}
		goEqual = g.EqualUnordered(refData)
	}
	items = append(items, common.L("ref", refS), common.L("referrs", common.I(refErrs)))
	// collector_complete (run level): protected plan-time coordinates seen vs asked
	seen := []string{"seen"}
	for _, tf := range SortedKeys(an.Seen) {
		t, f := SplitTF(tf)
		seen = append(seen, common.L("c", common.QS(t), common.QS(f)))
	}
	asked := []string{"asked"}
	objAsked := []string{"objasked"}
	if ba != nil {
		for _, tf := range SortedKeys(AskedSet(ba.Asked)) {
			t, f := SplitTF(tf)
			asked = append(asked, common.L("c", common.QS(t), common.QS(f)))
		}
	}
	if pf != nil {
		for _, tf := range SortedKeys(AskedSet(pf.Object)) {
			t, f := SplitTF(tf)
			objAsked = append(objAsked, common.L("c", common.QS(t), common.QS(f)))
		}
	}
	items = append(items, common.L(seen...), common.L(asked...), common.L(objAsked...))
	// requests sent, with the coordinates of their root fields
	rq := []string{"reqs"}
	sentKeys := map[string]int{}
	planRoots := map[string]int{}
	for _, f := range c.Plan.Fetches {
		k := f.DSName + "|" + stripWS(f.Query)
		if n, ok := planRoots[k]; !ok || len(f.Roots) < n {
			planRoots[k] = len(f.Roots)
		}
	}
	for _, q := range res.Requests {
		ot, roots, err := ReqRoots(c.Fx.Lab.Config.Super, q.Query)
		if err != nil {
			continue
		}
		rs := []string{"roots"}
		for _, r := range roots {
			tf := r[0] + "." + r[1]
			rs = append(rs, common.L("r", common.QS(r[0]), common.QS(r[1]), common.B(c.Fx.P[tf]), common.B(c.Fx.P[tf] && d[tf])))
		}
		// the number of FetchInfo.RootFields of the planned fetch this request belongs to (-1: not matched)
		pr := -1
		if n, ok := planRoots[q.Subgraph+"|"+stripWS(q.Query)]; ok {
			pr = n
		}
		rq = append(rq, common.L("rq", common.QS(q.Subgraph), ot, common.L(rs...), common.I(pr)))
		sentKeys[q.Subgraph+"|"+stripWS(q.Query)]++
	}
	items = append(items, common.L(rq...))
	// planned fetches: sent or not (matched by subgraph + upstream operation text)
	baseSent := map[string]int{}
	for _, q := range c.Base.Requests {
		baseSent[q.Subgraph+"|"+stripWS(q.Query)]++
	}
	planKeys := map[string]int{}
	for _, f := range c.Plan.Fetches {
		planKeys[f.DSName+"|"+stripWS(f.Query)]++
	}
	sentByID := map[int]bool{}
	for _, f := range c.Plan.Fetches {
		sentByID[f.ID] = sentKeys[f.DSName+"|"+stripWS(f.Query)] > 0
	}
	// a fetch is tainted when something it (transitively) depends on was not sent in this run: its
	// input may be missing for reasons other than its own gate
	byID := map[int]*FetchDump{}
	for i := range c.Plan.Fetches {
		byID[c.Plan.Fetches[i].ID] = &c.Plan.Fetches[i]
	}
	taintMemo := map[int]int{}
	var tainted func(id, depth int) bool
	tainted = func(id, depth int) bool {
		if v, ok := taintMemo[id]; ok {
			return v == 1
		}
		taintMemo[id] = 0
		f := byID[id]
		res := false
		if f != nil && depth < 64 {
			for _, dep := range f.DependsOn {
				if !sentByID[dep] || tainted(dep, depth+1) {
					res = true
				}
			}
		}
		if res {
			taintMemo[id] = 1
		}
		return res
	}
	gs := []string{"gates"}
	starving := []string{"starving"}
	for _, f := range c.Plan.Fetches {
		k := f.DSName + "|" + stripWS(f.Query)
		// eligible: the fetch is identifiable (unique text), it was sent without an authorizer and
		// everything it transitively depends on was sent in this run -- so only the gate can have
		// held it back
		elig := planKeys[k] == 1 && baseSent[k] > 0 && f.Query != "" && !tainted(f.ID, 0)
		rs := []string{"roots"}
		nDen := 0
		for _, r := range f.Roots {
			rs = append(rs, common.L("r", common.QS(r.Type), common.QS(r.Field), common.B(r.Rule)))
			if r.Rule && d[r.Type+"."+r.Field] {
				nDen++
			}
		}
		// the same fetch as the request it would be: operation type and root coordinates read off the
		// upstream operation text, independent of FetchInfo
		reqOp, reqRoots := "unknown", []string{"roots"}
		if ot, roots, err := ReqRoots(c.Fx.Lab.Config.Super, f.Query); err == nil && f.Query != "" {
			reqOp = ot
			for _, r := range roots {
				tf := r[0] + "." + r[1]
				reqRoots = append(reqRoots, common.L("r", common.QS(r[0]), common.QS(r[1]), common.B(c.Fx.P[tf]), common.B(c.Fx.P[tf] && d[tf])))
			}
		}
		gs = append(gs, common.L("g", common.I(f.ID), common.QS(f.DS), opTypeAtom(f.OpType), common.L(rs...), common.B(sentByID[f.ID]), common.B(elig), common.B(planKeys[k] == 1),
			common.L("req", reqOp, common.L(reqRoots...))))
		// held back by the rule of the property although another planned fetch depends on it
		held := mode == Pre && len(f.Roots) > 0 && ((f.OpType == ast.OperationTypeQuery && nDen == len(f.Roots)) || (f.OpType != ast.OperationTypeQuery && nDen > 0))
		if held {
			for _, g := range c.Plan.Fetches {
				for _, dep := range g.DependsOn {
					if dep == f.ID {
						starving = append(starving, common.I(f.ID))
						held = false
					}
				}
				if !held {
					break
				}
			}
		}
	}
	items = append(items, common.L(starving...))
	items = append(items, common.L(gs...))
	// sentinel scan over the whole response text
	leaked := []string{}
	for _, s := range an.Forbidden {
		if bytes.Contains(res.Response, []byte(s)) {
			leaked = append(leaked, s)
		}
	}
	fb := []string{"forbidden"}
	for _, s := range an.Forbidden {
		fb = append(fb, common.QS(s))
	}
	items = append(items, common.L(fb...))
	if len(an.Forbidden) > 0 {
		items = append(items, common.L("resp", common.Q(res.Response)))
	}
	items = append(items, common.L("flags", common.L("sentinel", common.B(len(leaked) == 0)), common.L("goequal", common.B(goEqual)), common.L("mixed", common.B(an.Mixed)), common.L("merged", common.B(an.Mixed || an.MultiCoord))))
	dcs := append([]string(nil), an.DeniedCoords...)
	sort.Strings(dcs)
	items = append(items, common.L("sum", common.L("positions", common.I(an.Positions)), common.L("protected", common.I(an.Protected)),
		common.L("abstract", common.I(an.AbstractProt)), common.L("twopath", common.I(an.TwoPathProt)),
		common.L("denied", common.I(len(an.Denied))), common.L("effective", common.I(an.Effective)),
		common.L("requests", common.I(len(res.Requests))), common.L("baserequests", common.I(len(c.Base.Requests))),
		common.L("errors", common.I(nerr)), common.L("unauthorized", common.I(nun)), common.L("domain", common.I(len(c.Domain)))))
	return common.L(items...), an
}

// RequiresMap lists, per "Type.field", the field names of its @requires selection.
func RequiresMap(cfg *fedlab.Config) map[string][]string {
	out := map[string][]string{}
	for _, g := range cfg.Subgraphs {
		for _, st := range g.Types {
			for _, f := range st.Fields {
				if f.Requires == "" {
					continue
				}
				for _, tok := range strings.Fields(strings.NewReplacer("{", " ", "}", " ").Replace(f.Requires)) {
					out[st.Name+"."+f.Name] = append(out[st.Name+"."+f.Name], tok)
				}
			}
		}
	}
	return out
}
