package c14lab

import (
	"encoding/json"
	"io"
	"sort"
	"strings"
	"sync"

	"github.com/wundergraph/graphql-go-tools/v2/pkg/engine/resolve"
)

// Decisions maps "Type.field" to deny (true = denied); absent = allowed.
type Decisions map[string]bool

func (d Decisions) Denied(typ, field string) bool { return d[typ+"."+field] }

func (d Decisions) String() string {
	var ks []string
	for k, v := range d {
		if v {
			ks = append(ks, k)
		}
	}
	sort.Strings(ks)
	out := ""
	for i, k := range ks {
		if i > 0 {
			out += ","
		}
		out += k
	}
	return out
}

// Asked is one question put to an authorizer.
type Asked struct{ DS, Type, Field string }

// PostFetch is a resolve.Authorizer (default mode): AuthorizeObjectField denies by coordinate;
// AuthorizePreFetch (the legacy load-level hook for mutations / subscriptions) denies by the same
// decisions.  Every question is recorded.
type PostFetch struct {
	D        Decisions
	Lim      *Limiter // installed on the request context at the first AuthorizePreFetch call, nil = no rate limiting
	mu       sync.Mutex
	Object   []Asked // AuthorizeObjectField questions
	PreFetch []Asked // AuthorizePreFetch questions
}

func (a *PostFetch) AuthorizePreFetch(ctx *resolve.Context, ds string, _ json.RawMessage, c resolve.GraphCoordinate) (*resolve.AuthorizationDeny, error) {
	a.Lim.install(ctx)
	a.mu.Lock()
	a.PreFetch = append(a.PreFetch, Asked{strings.Clone(ds), strings.Clone(c.TypeName), strings.Clone(c.FieldName)})
	a.mu.Unlock()
	if a.D.Denied(c.TypeName, c.FieldName) {
		return &resolve.AuthorizationDeny{Reason: "no"}, nil
	}
	return nil, nil
}

func (a *PostFetch) AuthorizeObjectField(_ *resolve.Context, ds string, _ json.RawMessage, c resolve.GraphCoordinate) (*resolve.AuthorizationDeny, error) {
	a.mu.Lock()
	a.Object = append(a.Object, Asked{strings.Clone(ds), strings.Clone(c.TypeName), strings.Clone(c.FieldName)}) // the engine hands out strings over arena memory
	a.mu.Unlock()
	if a.D.Denied(c.TypeName, c.FieldName) {
		return &resolve.AuthorizationDeny{Reason: "no"}, nil
	}
	return nil, nil
}

func (a *PostFetch) HasResponseExtensionData(*resolve.Context) bool            { return false }
func (a *PostFetch) RenderResponseExtension(*resolve.Context, io.Writer) error { return nil }

// Hooks are the loader's OTHER pre-fetch hooks under which a run executes: the fetch gate has to hold under
// every combination of them (seeded regression C14-m7: the rate limiter's verdict overwrote the gate's).
type Hooks struct {
	RateLimit int  // 0 off; 1 RateLimitOptions.Enable + a limiter that lets every request pass; 2 ... that rejects every request
	Trace     bool // TracingOptions.Enable (the trace is not included in the response)
}

func (h Hooks) String() string {
	s := [...]string{"", "rl", "rlx"}[h.RateLimit]
	if h.Trace {
		s += "tr"
	}
	if s == "" {
		return "none"
	}
	return s
}

// ParseHooks: none | rl | rlx | tr | rltr | rlxtr
func ParseHooks(s string) Hooks {
	h := Hooks{Trace: strings.HasSuffix(s, "tr")}
	switch strings.TrimSuffix(s, "tr") {
	case "rl":
		h.RateLimit = 1
	case "rlx":
		h.RateLimit = 2
	}
	return h
}

// Limiter is a resolve.RateLimiter that answers every fetch the same way and records the fetches it is asked about.
// The ExecutionEngine has no execution option for it: it is put on the request's resolve.Context by the authorizer
// the first time the engine hands that context out (Batch.AuthorizeFields -- before any fetch; PostFetch.AuthorizePreFetch
// -- before the rate limit test of the same fetch), through the public Context.SetRateLimiter / RateLimitOptions.
type Limiter struct {
	Reject    bool
	mu        sync.Mutex
	Installed bool
	Calls     int
}

func (l *Limiter) RateLimitPreFetch(_ *resolve.Context, _ *resolve.FetchInfo, _ json.RawMessage) (*resolve.RateLimitDeny, error) {
	l.mu.Lock()
	l.Calls++
	l.mu.Unlock()
	if l.Reject {
		return &resolve.RateLimitDeny{Reason: "limited"}, nil
	}
	return nil, nil
}
func (l *Limiter) RenderResponseExtension(*resolve.Context, io.Writer) error { return nil }

func (l *Limiter) install(ctx *resolve.Context) {
	if l == nil || ctx == nil {
		return
	}
	l.mu.Lock()
	defer l.mu.Unlock()
	if l.Installed {
		return
	}
	l.Installed = true
	ctx.RateLimitOptions.Enable = true
	ctx.SetRateLimiter(l)
}

// State reports (installed, calls).
func (l *Limiter) State() (bool, int) {
	if l == nil {
		return false, 0
	}
	l.mu.Lock()
	defer l.mu.Unlock()
	return l.Installed, l.Calls
}

// Batch is a resolve.BatchAuthorizer (pre-fetch mode) recording the coordinates it was asked.
type Batch struct {
	D     Decisions
	Lim   *Limiter // installed on the request context at the batch call, nil = no rate limiting
	mu    sync.Mutex
	Calls int
	Asked []Asked
}

func (a *Batch) AuthorizeFields(ctx *resolve.Context, cs []resolve.GraphCoordinate) ([]resolve.AuthorizationDecision, error) {
	a.Lim.install(ctx)
	a.mu.Lock()
	defer a.mu.Unlock()
	a.Calls++
	out := make([]resolve.AuthorizationDecision, len(cs))
	for i, c := range cs {
		a.Asked = append(a.Asked, Asked{"", strings.Clone(c.TypeName), strings.Clone(c.FieldName)})
		if a.D.Denied(c.TypeName, c.FieldName) {
			out[i] = resolve.AuthorizationDecision{Allowed: false, Reason: "no"}
		} else {
			out[i] = resolve.AuthorizationDecision{Allowed: true}
		}
	}
	return out, nil
}

// AskedSet is the set of "Type.field" asked.
func AskedSet(as []Asked) map[string]bool {
	m := map[string]bool{}
	for _, a := range as {
		m[a.Type+"."+a.Field] = true
	}
	return m
}
