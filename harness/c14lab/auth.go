package c14lab

import (
	"encoding/json"
	"io"
	"sort"
	"strings"
	"sync"

	"github.com/wundergraph/graphql-go-tools/v2/pkg/engine/resolve"
)

// Decisions maps "Type.field" to deny (true = denied); absent = allowed.
type Decisions map[string]bool

func (d Decisions) Denied(typ, field string) bool { return d[typ+"."+field] }

func (d Decisions) String() string {
	var ks []string
	for k, v := range d {
		if v {
			ks = append(ks, k)
		}
	}
	sort.Strings(ks)
	out := ""
	for i, k := range ks {
		if i > 0 {
			out += ","
		}
		out += k
	}
	return out
}

// Asked is one question put to an authorizer.
type Asked struct{ DS, Type, Field string }

// PostFetch is a resolve.Authorizer (default mode): AuthorizeObjectField denies by coordinate;
// AuthorizePreFetch (the legacy load-level hook for mutations / subscriptions) denies by the same
// decisions.  Every question is recorded.
type PostFetch struct {
	D        Decisions
	mu       sync.Mutex
	Object   []Asked // AuthorizeObjectField questions
	PreFetch []Asked // AuthorizePreFetch questions
}

func (a *PostFetch) AuthorizePreFetch(_ *resolve.Context, ds string, _ json.RawMessage, c resolve.GraphCoordinate) (*resolve.AuthorizationDeny, error) {
	a.mu.Lock()
	a.PreFetch = append(a.PreFetch, Asked{strings.Clone(ds), strings.Clone(c.TypeName), strings.Clone(c.FieldName)})
	a.mu.Unlock()
	if a.D.Denied(c.TypeName, c.FieldName) {
		return &resolve.AuthorizationDeny{Reason: "no"}, nil
	}
	return nil, nil
}

func (a *PostFetch) AuthorizeObjectField(_ *resolve.Context, ds string, _ json.RawMessage, c resolve.GraphCoordinate) (*resolve.AuthorizationDeny, error) {
	a.mu.Lock()
	a.Object = append(a.Object, Asked{strings.Clone(ds), strings.Clone(c.TypeName), strings.Clone(c.FieldName)}) // the engine hands out strings over arena memory
	a.mu.Unlock()
	if a.D.Denied(c.TypeName, c.FieldName) {
		return &resolve.AuthorizationDeny{Reason: "no"}, nil
	}
	return nil, nil
}

func (a *PostFetch) HasResponseExtensionData(*resolve.Context) bool            { return false }
func (a *PostFetch) RenderResponseExtension(*resolve.Context, io.Writer) error { return nil }

// Batch is a resolve.BatchAuthorizer (pre-fetch mode) recording the coordinates it was asked.
type Batch struct {
	D     Decisions
	mu    sync.Mutex
	Calls int
	Asked []Asked
}

func (a *Batch) AuthorizeFields(_ *resolve.Context, cs []resolve.GraphCoordinate) ([]resolve.AuthorizationDecision, error) {
	a.mu.Lock()
	defer a.mu.Unlock()
	a.Calls++
	out := make([]resolve.AuthorizationDecision, len(cs))
	for i, c := range cs {
		a.Asked = append(a.Asked, Asked{"", strings.Clone(c.TypeName), strings.Clone(c.FieldName)})
		if a.D.Denied(c.TypeName, c.FieldName) {
			out[i] = resolve.AuthorizationDecision{Allowed: false, Reason: "no"}
		} else {
			out[i] = resolve.AuthorizationDecision{Allowed: true}
		}
	}
	return out, nil
}

// AskedSet is the set of "Type.field" asked.
func AskedSet(as []Asked) map[string]bool {
	m := map[string]bool{}
	for _, a := range as {
		m[a.Type+"."+a.Field] = true
	}
	return m
}
