package c14lab

import (
	"sort"
	"strconv"
	"strings"

	"gvh/common"
	"gvh/fedlab"
)

// TypenameAlias is the response key under which the instrumented ("shadow") operation selects
// __typename in every composite selection set.
const TypenameAlias = "__tn9"

// SentinelPrefix starts every sentinel string of a sentinel universe.
const SentinelPrefix = "zq9."

// TwinSuffix names the reference-only twin of a protected field (it always fails).
const TwinSuffix = "__d"

// Walker walks an operation together with a response tree (CollectFields of the GraphQL spec
// over fedlab's structured operations).
type Walker struct {
	// Requires: "Type.field" -> names of the fields its @requires selection lists
	Requires map[string][]string
	S        *fedlab.Schema
	Op       *Op
	P        map[string]bool
	frags    map[string]*fedlab.FragDef
	// PlanIdx: response key path ("/a/b", list levels transparent) -> "Parent.field" of the plan's
	// fields at that path (FieldInfo.ExactParentTypeName + Name).  Used only to tell which of the
	// two plan-time readings of an occurrence on an abstract type the planner produced: the
	// abstract type itself, or -- when it rewrote the abstract selection per possible type -- the
	// concrete type.
	PlanIdx map[string][]PlanEntry
	// Ambiguous is set by Reference when a plan-time coordinate depends on the runtime types of enclosing
	// objects (ParentOnTypeNames), which the static rewriting cannot see
	Ambiguous bool
}

// CoordOf is the plan-time coordinate (ExactParentTypeName, field) of an occurrence of field f
// whose static enclosing type is enc, at response key path kp, for an object of runtime type rt.
func (w *Walker) CoordOf(kp, enc string, rts []string, f string) string {
	if et := w.S.Type(enc); et != nil && et.Kind != fedlab.KObject && w.PlanIdx != nil && len(rts) > 0 {
		want := rts[0] + "." + f
		for i := range w.PlanIdx[kp] {
			if e := &w.PlanIdx[kp][i]; e.Coord == want && e.Applies(rts) {
				return want
			}
		}
	}
	return enc + "." + f
}

// coordOfStatic is CoordOf when only the runtime type t of the enclosing object is known; it flags the
// walker as Ambiguous when the answer depends on the types of objects further up.
func (w *Walker) coordOfStatic(kp, enc, t, f string) string {
	if et := w.S.Type(enc); et != nil && et.Kind != fedlab.KObject && w.PlanIdx != nil {
		want := t + "." + f
		for i := range w.PlanIdx[kp] {
			e := &w.PlanIdx[kp][i]
			if e.Coord != want || !e.Applies([]string{t}) {
				continue
			}
			if e.Far {
				w.Ambiguous = true
			}
			return want
		}
	}
	return enc + "." + f
}

func keyPathOf(p []PathEl) string {
	var sb strings.Builder
	for _, e := range p {
		if !e.IsIdx {
			sb.WriteString("/")
			sb.WriteString(e.Key)
		}
	}
	return sb.String()
}

func NewWalker(s *fedlab.Schema, op *Op, P map[string]bool) *Walker {
	w := &Walker{S: s, Op: op, P: P, frags: map[string]*fedlab.FragDef{}}
	for _, f := range op.Frags {
		w.frags[f.Name] = f
	}
	return w
}

func (w *Walker) RootType() string {
	if w.Op.Kind == "mutation" {
		return w.S.Mutation
	}
	return w.S.Query
}

// boolOf evaluates a Boolean argument value (literal or variable; variable defaults honoured).
func (w *Walker) boolOf(v *fedlab.Value) bool {
	switch v.Kind {
	case fedlab.VBool:
		return v.Raw == "true"
	case fedlab.VVar:
		if w.Op.Variables != nil {
			if j := w.Op.Variables.Get(v.Raw); j != nil {
				return j.Kind == fedlab.JTrue
			}
		}
		for _, vd := range w.Op.Vars {
			if vd.Name == v.Raw && vd.Default != nil {
				return vd.Default.Kind == fedlab.VBool && vd.Default.Raw == "true"
			}
		}
	}
	return false
}

func (w *Walker) included(dirs []fedlab.Dir) bool {
	for _, d := range dirs {
		for _, a := range d.Args {
			if a.Name != "if" {
				continue
			}
			b := w.boolOf(a.Val)
			if d.Name == "skip" && b {
				return false
			}
			if d.Name == "include" && !b {
				return false
			}
		}
	}
	return true
}

func (w *Walker) applies(cond, rt string) bool {
	if cond == "" || cond == rt {
		return true
	}
	for _, p := range w.S.PossibleTypes(cond) {
		if p == rt {
			return true
		}
	}
	return false
}

// Occ is one field occurrence: the selection and the static type of the selection set it sits in
// (the planner's enclosing type = ExactParentTypeName).
type Occ struct {
	Enc string
	Sel *fedlab.Sel
}

// Group is the merged field set of one response key.
type Group struct {
	Key  string
	Name string
	Occs []Occ
}

// Scope is a selection set with its static type.
type Scope struct {
	Sels []*fedlab.Sel
	Enc  string
}

// Collect is CollectFields for runtime type rt.
func (w *Walker) Collect(scopes []Scope, rt string) []*Group {
	var out []*Group
	idx := map[string]*Group{}
	var visit func(sels []*fedlab.Sel, enc string, depth int)
	visit = func(sels []*fedlab.Sel, enc string, depth int) {
		if depth > 64 {
			return
		}
		for _, s := range sels {
			if !w.included(s.Dirs) {
				continue
			}
			switch s.Kind {
			case fedlab.SField:
				key := s.Name
				if s.Alias != "" {
					key = s.Alias
				}
				g := idx[key]
				if g == nil {
					g = &Group{Key: key, Name: s.Name}
					idx[key] = g
					out = append(out, g)
				}
				g.Occs = append(g.Occs, Occ{enc, s})
			case fedlab.SInline:
				on := s.On
				if on == "" {
					on = enc
				}
				if w.applies(on, rt) {
					visit(s.Sels, on, depth+1)
				}
			case fedlab.SSpread:
				if f := w.frags[s.Name]; f != nil && w.applies(f.On, rt) {
					visit(f.Sels, f.On, depth+1)
				}
			}
		}
	}
	for _, sc := range scopes {
		visit(sc.Sels, sc.Enc, 0)
	}
	return out
}

// PathEl is a response path element.
type PathEl struct {
	Key   string
	Index int
	IsIdx bool
}

func PathSexp(p []PathEl) string {
	parts := []string{"p"}
	for _, e := range p {
		if e.IsIdx {
			parts = append(parts, strconv.Itoa(e.Index))
		} else {
			parts = append(parts, common.QS(e.Key))
		}
	}
	return common.L(parts...)
}

func PathString(p []PathEl) string {
	var sb strings.Builder
	for i, e := range p {
		if i > 0 {
			sb.WriteString(".")
		}
		if e.IsIdx {
			sb.WriteString(strconv.Itoa(e.Index))
		} else {
			sb.WriteString(e.Key)
		}
	}
	return sb.String()
}

// Analysis of one (operation, shadow response, mode, decisions).
type Analysis struct {
	Denied       [][]PathEl      // topmost denied positions, in walk order
	DeniedCoords []string        // the denied coordinate of each (mode-appropriate)
	Effective    int             // denied positions whose undenied value is non-null
	Mixed        bool            // some position merges occurrences that disagree on protection / denial
	MultiCoord   bool            // some protected position merges occurrences with different plan-time coordinates
	Seen         map[string]bool // plan-time protected coordinates of the occurrences at visited positions
	Domain       map[string]bool // coordinates the authorizer can be asked about for this response (both modes)
	Forbidden    []string        // sentinels under denied positions that occur at no allowed position
	Positions    int
	Protected    int        // visited positions that carry a rule
	AbstractProt int        // ... whose enclosing (plan-time) type is abstract
	TwoPathProt  int        // ... reached through more than one occurrence
	Dependent    [][]PathEl // allowed positions whose field @requires a field that is denied (pre-fetch mode)
	underDenied  map[string]bool
	legit        []string
}

func collectStrings(j *fedlab.J, out map[string]bool) {
	if j == nil {
		return
	}
	switch j.Kind {
	case fedlab.JStr:
		out[j.Raw] = true
	case fedlab.JArr:
		for _, x := range j.Items {
			collectStrings(x, out)
		}
	case fedlab.JObj:
		for _, m := range j.Members {
			if m.Key != TypenameAlias {
				collectStrings(m.Val, out)
			}
		}
	}
}

// Analyze walks the original operation over the shadow response (the undenied monolithic result
// of the instrumented operation, so every object carries its runtime type) and classifies every
// position.  A position is protected when one of its merged occurrences has a plan-time
// coordinate (static enclosing type, field) in P; it is denied
//
//	pre-fetch mode : when such an occurrence's plan-time coordinate is denied by d,
//	post-fetch mode: when it is protected and (runtime type, field) is denied by d.
func (w *Walker) Analyze(shadow *fedlab.J, mode Mode, d Decisions) *Analysis {
	a := &Analysis{Seen: map[string]bool{}, Domain: map[string]bool{}, underDenied: map[string]bool{}}
	legit := map[string]bool{}
	var walkObj func(obj *fedlab.J, rts []string, scopes []Scope, path []PathEl, depth int)
	var walkVal func(v *fedlab.J, g *Group, rts []string, path []PathEl, depth int)
	walkObj = func(obj *fedlab.J, rts []string, scopes []Scope, path []PathEl, depth int) {
		if obj == nil || obj.Kind != fedlab.JObj || depth > 64 {
			return
		}
		rt := rts[0]
		td := w.S.Type(rt)
		for _, g := range w.Collect(scopes, rt) {
			a.Positions++
			v := obj.Get(g.Key)
			p := append(append([]PathEl(nil), path...), PathEl{Key: g.Key})
			if g.Name == "__typename" || td == nil || td.Field(g.Name) == nil {
				collectStrings(v, legit)
				continue
			}
			nProt, nDen := 0, 0
			denCoord := ""
			kp := keyPathOf(p)
			firstTF := ""
			for _, o := range g.Occs {
				tf := w.CoordOf(kp, o.Enc, rts, g.Name)
				if firstTF == "" {
					firstTF = tf
				} else if tf != firstTF && (w.P[tf] || w.P[firstTF]) {
					a.MultiCoord = true
				}
				if !w.P[tf] {
					continue
				}
				nProt++
				a.Seen[tf] = true
				a.Domain[tf] = true
				a.Domain[rt+"."+g.Name] = true
				switch mode {
				case Pre:
					if d[tf] {
						nDen++
						denCoord = tf
					}
				case Post:
					if d[rt+"."+g.Name] {
						nDen++
						denCoord = rt + "." + g.Name
					}
				}
			}
			if nProt > 0 {
				a.Protected++
				if len(g.Occs) > 1 {
					a.TwoPathProt++
				}
				for _, o := range g.Occs {
					if et := w.S.Type(o.Enc); et != nil && et.Kind != fedlab.KObject && w.P[w.CoordOf(kp, o.Enc, rts, g.Name)] {
						a.AbstractProt++
						break
					}
				}
			}
			if nProt > 0 && nProt < len(g.Occs) {
				a.Mixed = true
			}
			if nDen > 0 && nDen < len(g.Occs) {
				a.Mixed = true
			}
			if nDen == 0 && mode == Pre {
				for _, rf := range w.Requires[rt+"."+g.Name] {
					if w.P[rt+"."+rf] && d[rt+"."+rf] {
						a.Dependent = append(a.Dependent, p)
						break
					}
				}
			}
			if nDen > 0 {
				a.Denied = append(a.Denied, p)
				a.DeniedCoords = append(a.DeniedCoords, denCoord)
				if v != nil && v.Kind != fedlab.JNull {
					a.Effective++
				}
				collectStrings(v, a.underDenied)
				continue
			}
			walkVal(v, g, rts, p, depth)
		}
	}
	walkVal = func(v *fedlab.J, g *Group, rts []string, path []PathEl, depth int) {
		if v == nil {
			return
		}
		switch v.Kind {
		case fedlab.JArr:
			for i, it := range v.Items {
				walkVal(it, g, rts, append(append([]PathEl(nil), path...), PathEl{Index: i, IsIdx: true}), depth+1)
			}
		case fedlab.JObj:
			tn := v.Get(TypenameAlias)
			if tn == nil || tn.Kind != fedlab.JStr {
				return
			}
			var scopes []Scope
			for _, o := range g.Occs {
				et := w.S.Type(o.Enc)
				if et == nil {
					continue
				}
				fd := et.Field(g.Name)
				if fd == nil {
					continue
				}
				scopes = append(scopes, Scope{o.Sel.Sels, fd.Type.Base()})
			}
			walkObj(v, append([]string{tn.Raw}, rts...), scopes, path, depth+1)
		default:
			collectStrings(v, legit)
		}
	}
	walkObj(shadow, []string{w.RootType()}, []Scope{{w.Op.Sels, w.RootType()}}, nil, 0)
	for s := range legit {
		a.legit = append(a.legit, s)
	}
	for s := range a.underDenied {
		if !strings.HasPrefix(s, SentinelPrefix) {
			continue
		}
		ok := true
		for _, l := range a.legit {
			if strings.Contains(l, s) {
				ok = false
				break
			}
		}
		if ok {
			a.Forbidden = append(a.Forbidden, s)
		}
	}
	sort.Strings(a.Forbidden)
	return a
}

// Instrumented returns the shadow operation: __tn9: __typename first in every composite field's
// selection set.
func (w *Walker) Instrumented() *Op {
	c := w.Op.Clone()
	var fix func(sels []*fedlab.Sel) []*fedlab.Sel
	fix = func(sels []*fedlab.Sel) []*fedlab.Sel {
		for _, s := range sels {
			if len(s.Sels) == 0 {
				continue
			}
			s.Sels = fix(s.Sels)
			if s.Kind == fedlab.SField {
				s.Sels = append([]*fedlab.Sel{{Kind: fedlab.SField, Alias: TypenameAlias, Name: "__typename"}}, s.Sels...)
			}
		}
		return sels
	}
	c.Sels = fix(c.Sels)
	for _, f := range c.Frags {
		f.Sels = fix(f.Sels)
	}
	return c
}

// inlineSpreads replaces every named fragment spread by the equivalent inline fragment, so that
// each field occurrence has one response key path.
func (w *Walker) inlineSpreads(sels []*fedlab.Sel, depth int) []*fedlab.Sel {
	var out []*fedlab.Sel
	for _, s := range sels {
		c := *s
		if depth < 64 {
			if s.Kind == fedlab.SSpread {
				if f := w.frags[s.Name]; f != nil {
					c = fedlab.Sel{Kind: fedlab.SInline, On: f.On, Dirs: s.Dirs, Sels: w.inlineSpreads(f.Sels, depth+1)}
					out = append(out, &c)
					continue
				}
			}
			c.Sels = w.inlineSpreads(s.Sels, depth+1)
		}
		out = append(out, &c)
	}
	return out
}

// Reference returns the operation whose monolithic execution over the twin universe is the
// expected response under the decisions: every occurrence that the mode denies selects the
// always-failing twin field under the same response key, so the denial null-propagates by the
// executor's ordinary rules.  An occurrence whose possible runtime types are denied only in part
// (post-fetch mode: the coordinate is the runtime type; pre-fetch mode: the planner rewrote the
// abstract selection per type) is split into one inline fragment per possible type.
func (w *Walker) Reference(mode Mode, d Decisions) *Op {
	w.Ambiguous = false
	c := &Op{Kind: w.Op.Kind, Operation: &fedlab.Operation{Name: w.Op.Name, Vars: w.Op.Vars, Variables: w.Op.Variables}}
	var rw func(sels []*fedlab.Sel, enc, kp string, depth int) []*fedlab.Sel
	rw = func(sels []*fedlab.Sel, enc, kp string, depth int) []*fedlab.Sel {
		if depth > 64 {
			return sels
		}
		var out []*fedlab.Sel
		for _, s := range sels {
			switch s.Kind {
			case fedlab.SInline:
				on := s.On
				if on == "" {
					on = enc
				}
				s.Sels = rw(s.Sels, on, kp, depth+1)
				out = append(out, s)
			case fedlab.SSpread:
				out = append(out, s)
			case fedlab.SField:
				et := w.S.Type(enc)
				var fd *fedlab.FieldDef
				if et != nil {
					fd = et.Field(s.Name)
				}
				if s.Name == "__typename" || fd == nil {
					out = append(out, s)
					continue
				}
				key := s.Name
				if s.Alias != "" {
					key = s.Alias
				}
				ckp := kp + "/" + key
				s.Sels = rw(s.Sels, fd.Type.Base(), ckp, depth+1)
				twin := func(x *fedlab.Sel) *fedlab.Sel {
					t := *x
					t.Alias, t.Name = key, x.Name+TwinSuffix
					return &t
				}
				types := w.S.PossibleTypes(enc)
				denied := map[string]bool{}
				nd := 0
				for _, t := range types {
					tf := w.coordOfStatic(ckp, enc, t, s.Name)
					if !w.P[tf] {
						continue
					}
					if (mode == Pre && d[tf]) || (mode == Post && d[t+"."+s.Name]) {
						denied[t] = true
						nd++
					}
				}
				switch {
				case nd == 0:
					out = append(out, s)
				case et.Kind == fedlab.KObject:
					out = append(out, twin(s))
				default:
					for _, t := range types {
						cp := *s
						cp.Sels = cloneSelsDeep(s.Sels)
						cp.Dirs = nil
						var inner *fedlab.Sel = &cp
						if denied[t] {
							inner = twin(&cp)
						}
						out = append(out, &fedlab.Sel{Kind: fedlab.SInline, On: t, Dirs: s.Dirs, Sels: []*fedlab.Sel{inner}})
					}
				}
			}
		}
		return out
	}
	c.Sels = rw(w.inlineSpreads(w.Op.Sels, 0), w.RootType(), "", 0)
	return c
}

func cloneSelsDeep(sels []*fedlab.Sel) []*fedlab.Sel {
	out := make([]*fedlab.Sel, len(sels))
	for i, s := range sels {
		c := *s
		c.Sels = cloneSelsDeep(s.Sels)
		out[i] = &c
	}
	return out
}

// CloneJ is a deep copy.
func CloneJ(j *fedlab.J) *fedlab.J {
	if j == nil {
		return nil
	}
	c := &fedlab.J{Kind: j.Kind, Raw: j.Raw}
	for _, x := range j.Items {
		c.Items = append(c.Items, CloneJ(x))
	}
	for _, m := range j.Members {
		c.Members = append(c.Members, fedlab.Member{Key: m.Key, Val: CloneJ(m.Val)})
	}
	return c
}

// GetAt returns the value at a response path (nil when the position does not exist).
func GetAt(j *fedlab.J, p []PathEl) *fedlab.J {
	for _, e := range p {
		if j == nil {
			return nil
		}
		if e.IsIdx {
			if j.Kind != fedlab.JArr || e.Index >= len(j.Items) {
				return nil
			}
			j = j.Items[e.Index]
		} else {
			j = j.Get(e.Key)
		}
	}
	return j
}

// MaskAt returns a copy in which the positions that exist hold the marker string.
func MaskAt(j *fedlab.J, paths [][]PathEl) *fedlab.J {
	if j == nil || len(paths) == 0 {
		return j
	}
	c := CloneJ(j)
	for _, p := range paths {
		if len(p) == 0 {
			continue
		}
		parent := GetAt(c, p[:len(p)-1])
		last := p[len(p)-1]
		if parent == nil {
			continue
		}
		if last.IsIdx {
			if parent.Kind == fedlab.JArr && last.Index < len(parent.Items) {
				parent.Items[last.Index] = fedlab.JS("<depends-on-denied>")
			}
		} else if parent.Kind == fedlab.JObj {
			for i := range parent.Members {
				if parent.Members[i].Key == last.Key {
					parent.Members[i].Val = fedlab.JS("<depends-on-denied>")
				}
			}
		}
	}
	return c
}
