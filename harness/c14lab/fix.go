package c14lab

import (
	"bytes"
	"context"
	"encoding/json"
	"sort"
	"strings"
	"time"

	"gvh/fedlab"

	"github.com/wundergraph/graphql-go-tools/execution/engine"
	"github.com/wundergraph/graphql-go-tools/execution/graphql"
	"github.com/wundergraph/graphql-go-tools/v2/pkg/engine/plan"
	"github.com/wundergraph/graphql-go-tools/v2/pkg/engine/resolve"
)

// Fix is one (configuration, universe, protected set): a Lab whose planner configuration marks
// every coordinate of P with HasAuthorizationRule, plus the same planner configuration for our
// own planning (plan dumps).
type Fix struct {
	Lab     *fedlab.Lab
	PlanCfg plan.Configuration
	P       map[string]bool // "Type.field"
}

func SplitTF(tf string) (string, string) {
	i := strings.IndexByte(tf, '.')
	return tf[:i], tf[i+1:]
}

func SortedKeys(m map[string]bool) []string {
	out := make([]string, 0, len(m))
	for k, v := range m {
		if v {
			out = append(out, k)
		}
	}
	sort.Strings(out)
	return out
}

func NewFix(cfg *fedlab.Config, uni *fedlab.Universe, exec *fedlab.ExecServer, P map[string]bool) (*Fix, error) {
	fx := &Fix{P: P}
	lab, err := fedlab.NewLab(cfg, uni, exec, fedlab.EngineOptions{Configure: func(conf *engine.Configuration) {
		fcs := conf.FieldConfigurations()
		for _, tf := range SortedKeys(P) {
			t, f := SplitTF(tf)
			if fc := fcs.ForTypeField(t, f); fc != nil {
				fc.HasAuthorizationRule = true
				continue
			}
			fcs = append(fcs, plan.FieldConfiguration{TypeName: t, FieldName: f, HasAuthorizationRule: true})
		}
		conf.SetFieldConfigurations(fcs)
		fx.PlanCfg = plan.Configuration{
			DefaultFlushIntervalMillis: engine.DefaultFlushIntervalInMilliseconds,
			DataSources:                append([]plan.DataSource(nil), conf.DataSources()...),
			Fields:                     append(plan.FieldConfigurations(nil), fcs...),
		}
	}})
	if err != nil {
		return nil, err
	}
	fx.Lab = lab
	return fx, nil
}

func (fx *Fix) Close() { fx.Lab.Close() }

// Plan plans the operation with the fixture's planner configuration.
func (fx *Fix) Plan(opText, opName string, vars []byte) (*resolve.GraphQLResponse, error) {
	return BuildPlan(fx.PlanCfg, fx.Lab.Schema, opText, opName, vars)
}

// Mode of authorization.
type Mode int

const (
	None Mode = iota
	Post      // resolve.Authorizer (AuthorizeObjectField during rendering)
	Pre       // resolve.BatchAuthorizer (one AuthorizeFields call before the fetches)
)

func (m Mode) String() string { return [...]string{"none", "post", "pre"}[m] }

// Run executes the operation under the decisions in the given mode.
func (fx *Fix) Run(opText, opName string, vars []byte, mode Mode, d Decisions) (*fedlab.Result, *PostFetch, *Batch) {
	res, pf, ba, _ := fx.RunHooks(opText, opName, vars, mode, d, Hooks{})
	return res, pf, ba
}

// options: the execution options of (mode, d, hooks).
func options(mode Mode, d Decisions, h Hooks) (opts []engine.ExecutionOptions, pf *PostFetch, ba *Batch, lim *Limiter) {
	if h.RateLimit > 0 && mode != None {
		lim = &Limiter{Reject: h.RateLimit == 2}
	}
	switch mode {
	case Post:
		pf = &PostFetch{D: d, Lim: lim}
		opts = append(opts, engine.WithAuthorizer(pf))
	case Pre:
		ba = &Batch{D: d, Lim: lim}
		opts = append(opts, engine.WithPreFetchFieldAuthorizer(ba))
	}
	if h.Trace {
		opts = append(opts, engine.WithRequestTraceOptions(resolve.TraceOptions{Enable: true, ExcludeParseStats: true, ExcludeNormalizeStats: true,
			ExcludeValidateStats: true, ExcludePlannerStats: true, EnablePredictableDebugTimings: true}))
	}
	return
}

// RunHooks is Run under the loader's other pre-fetch hooks.
func (fx *Fix) RunHooks(opText, opName string, vars []byte, mode Mode, d Decisions, h Hooks) (*fedlab.Result, *PostFetch, *Batch, *Limiter) {
	ro := &fedlab.RunOptions{OperationName: opName}
	opts, pf, ba, lim := options(mode, d, h)
	ro.ExecutionOptions = opts
	return fx.Lab.Run(opText, vars, ro), pf, ba, lim
}

// FrameWriter records every flushed frame of an incremental (@defer) response.
type FrameWriter struct {
	buf    bytes.Buffer
	Frames [][]byte
}

func (w *FrameWriter) Write(p []byte) (int, error) { return w.buf.Write(p) }
func (w *FrameWriter) Flush() error {
	w.Frames = append(w.Frames, append([]byte(nil), w.buf.Bytes()...))
	w.buf.Reset()
	return nil
}
func (w *FrameWriter) Complete()        {}
func (w *FrameWriter) Heartbeat() error { return nil }
func (w *FrameWriter) Error(data []byte) {
	w.Frames = append(w.Frames, append([]byte("ERROR "), data...))
}

// RunFrames executes the operation once more directly on the engine with a writer that keeps all
// frames (Lab.Run's writer keeps only what is left after the last flush); the request log of this
// run is not recorded.
func (fx *Fix) RunFrames(opText, opName string, vars []byte, mode Mode, d Decisions) ([]byte, error) {
	return fx.RunFramesHooks(opText, opName, vars, mode, d, Hooks{})
}

func (fx *Fix) RunFramesHooks(opText, opName string, vars []byte, mode Mode, d Decisions, h Hooks) ([]byte, error) {
	opts, _, _, _ := options(mode, d, h)
	req := &graphql.Request{OperationName: opName, Query: opText}
	if len(bytes.TrimSpace(vars)) > 0 {
		req.Variables = json.RawMessage(vars)
	}
	fw := &FrameWriter{}
	ctx, cancel := context.WithTimeout(context.Background(), 20*time.Second)
	defer cancel()
	err := fx.Lab.Engine.Execute(ctx, req, fw, opts...)
	if fw.buf.Len() > 0 {
		fw.Flush()
	}
	return bytes.Join(fw.Frames, []byte("\n")), err
}
