// Reproductions of what ./check C07 (mode taint) reports about tainted objects
// (ResolverOptions.ValidateRequiredExternalFields).  Public API only; run with
//
//	cd /verif/harness && GOFLAGS=-mod=mod GOPROXY=off GOWORK=off go test -tags verif -count=1 -v ./c07taint/
//
// Each test asserts what the property asks for.  TestSingleEntityFetchIsTainted (00d2cc7) and
// TestMalformedErrorEntryDoesNotAbortTheResponse (9b487a9) are regressions of repaired findings: they pass.
// TestTaintedObjectIsDroppedFromIndependentFetches reproduces the OPEN finding taint-filters-independent-fetches: it FAILS on
// the current tree and is skipped unless C07_OPEN_FINDINGS=1.
package c07taint

import (
	"bytes"
	"context"
	"net/http"
	"os"
	"strings"
	"sync"
	"testing"

	"github.com/wundergraph/graphql-go-tools/v2/pkg/ast"
	"github.com/wundergraph/graphql-go-tools/v2/pkg/engine/datasource/httpclient"
	"github.com/wundergraph/graphql-go-tools/v2/pkg/engine/resolve"
)

type subgraph struct {
	mu      sync.Mutex
	inputs  []string
	respond func(input string) string
}

func (s *subgraph) Load(_ context.Context, _ http.Header, input []byte) ([]byte, error) {
	s.mu.Lock()
	defer s.mu.Unlock()
	s.inputs = append(s.inputs, string(input))
	return []byte(s.respond(string(input))), nil
}
func (s *subgraph) LoadWithFiles(ctx context.Context, h http.Header, input []byte, _ []*httpclient.FileUpload) ([]byte, error) {
	return s.Load(ctx, h, input)
}

func static(s string) resolve.InputTemplate {
	return resolve.InputTemplate{Segments: []resolve.TemplateSegment{{SegmentType: resolve.StaticSegmentType, Data: []byte(s)}}}
}

func rep(required string) resolve.InputTemplate {
	fields := []*resolve.Field{
		{Name: []byte("__typename"), Value: &resolve.String{Path: []string{"__typename"}}},
		{Name: []byte("id"), Value: &resolve.String{Path: []string{"id"}}},
	}
	if required != "" {
		fields = append(fields, &resolve.Field{Name: []byte(required), Value: &resolve.String{Path: []string{required}, Nullable: true}})
	}
	return resolve.InputTemplate{Segments: []resolve.TemplateSegment{{SegmentType: resolve.VariableSegmentType,
		VariableKind: resolve.ResolvableObjectVariableKind, Renderer: resolve.NewGraphQLVariableResolveRenderer(&resolve.Object{Nullable: true, Fields: fields})}},
		SetTemplateOutputToNullOnVariableNull: true}
}

func header(name, field string) resolve.InputTemplate {
	return static(`{"method":"POST","url":"http://` + name + `","body":{"query":"query($representations: [_Any!]!){_entities(representations: $representations){... on User {__typename ` + field + `}}}","variables":{"representations":[`)
}

func batch(id int, deps []int, ds resolve.DataSource, name, field, required string, reasons []resolve.FetchReason, path string) *resolve.FetchTreeNode {
	return resolve.SingleWithPath(&resolve.BatchEntityFetch{
		FetchDependencies: resolve.FetchDependencies{FetchID: id, DependsOnFetchIDs: deps},
		Input: resolve.BatchInput{Header: header(name, field), Items: []resolve.InputTemplate{rep(required)}, Separator: static(`,`), Footer: static(`]}}}`),
			SkipNullItems: true, SkipEmptyObjectItems: true, SkipErrItems: true},
		DataSource:     ds,
		PostProcessing: resolve.PostProcessingConfiguration{SelectResponseDataPath: []string{"data", "_entities"}, SelectResponseErrorsPath: []string{"errors"}},
		Info:           &resolve.FetchInfo{DataSourceID: name, DataSourceName: name, FetchReasons: reasons},
	}, "query."+path+".@", resolve.ArrayPath(path))
}

func entity(id int, deps []int, ds resolve.DataSource, name, field, required string, reasons []resolve.FetchReason, path string) *resolve.FetchTreeNode {
	return resolve.SingleWithPath(&resolve.EntityFetch{
		FetchDependencies: resolve.FetchDependencies{FetchID: id, DependsOnFetchIDs: deps},
		Input:             resolve.EntityInput{Header: header(name, field), Item: rep(required), SkipErrItem: true, Footer: static(`]}}}`)},
		DataSource:        ds,
		// what graphql_datasource emits for a single entity fetch
		PostProcessing: resolve.PostProcessingConfiguration{SelectResponseDataPath: []string{"data", "_entities", "0"}, SelectResponseErrorsPath: []string{"errors"}},
		Info:           &resolve.FetchInfo{DataSourceID: name, DataSourceName: name, FetchReasons: reasons},
	}, "query."+path, resolve.ObjectPath(path))
}

func root(ds resolve.DataSource, query string) *resolve.FetchTreeNode {
	return resolve.Single(&resolve.SingleFetch{
		FetchDependencies: resolve.FetchDependencies{FetchID: 0},
		InputTemplate:     static(`{"method":"POST","url":"http://accounts","body":{"query":"` + query + `"}}`),
		FetchConfiguration: resolve.FetchConfiguration{DataSource: ds,
			PostProcessing: resolve.PostProcessingConfiguration{SelectResponseDataPath: []string{"data"}, SelectResponseErrorsPath: []string{"errors"}}},
		Info: &resolve.FetchInfo{DataSourceID: "accounts", DataSourceName: "accounts"},
	})
}

var zipReason = []resolve.FetchReason{{TypeName: "User", FieldName: "zip", BySubgraphs: []string{"shipping"}, IsRequires: true, Nullable: true}}

func userNode(extra ...*resolve.Field) *resolve.Object {
	return &resolve.Object{Nullable: true, Fields: append([]*resolve.Field{{Name: []byte("id"), Value: &resolve.String{Path: []string{"id"}}}}, extra...)}
}

func run(t *testing.T, resp *resolve.GraphQLResponse) (string, error) {
	t.Helper()
	ctx, cancel := context.WithCancel(context.Background())
	defer cancel()
	r := resolve.New(ctx, resolve.ResolverOptions{MaxConcurrency: 16, ValidateRequiredExternalFields: true})
	buf := &bytes.Buffer{}
	_, err := r.ResolveGraphQLResponse(resolve.NewContext(context.Background()), resp, nil, buf)
	return buf.String(), err
}

func shippingDS() *subgraph {
	return &subgraph{respond: func(in string) string {
		n := strings.Count(in, `"__typename":"User"`)
		ents := make([]string, n)
		for i := range ents {
			ents[i] = `{"__typename":"User","shippingCost":5}`
		}
		return `{"data":{"_entities":[` + strings.Join(ents, ",") + `]}}`
	}}
}

// taint-single-entity-fetch-ignored (repaired, 00d2cc7): a single EntityFetch selects its data with ["data","_entities","0"];
// getTaintedIndices used to resolve the error path ["_entities",0,"zip"] against the entity itself (entity.Get("0") == nil),
// so nothing was ever tainted and the dependant was sent with the failed input as null.
func TestSingleEntityFetchIsTainted(t *testing.T) {
	accounts := &subgraph{respond: func(string) string { return `{"data":{"me":{"__typename":"User","id":"2"}}}` }}
	profile := &subgraph{respond: func(string) string {
		return `{"data":{"_entities":[{"__typename":"User","zip":null}]},"errors":[{"message":"zip lookup timed out","path":["_entities",0,"zip"]}]}`
	}}
	shipping := shippingDS()
	out, err := run(t, &resolve.GraphQLResponse{
		Info: &resolve.GraphQLResponseInfo{OperationType: ast.OperationTypeQuery},
		Fetches: resolve.Sequence(root(accounts, "{me {__typename id}}"),
			entity(1, []int{0}, profile, "profile", "zip", "", zipReason, "me"),
			entity(2, []int{0, 1}, shipping, "shipping", "shippingCost", "zip", nil, "me")),
		Data: &resolve.Object{Fields: []*resolve.Field{{Name: []byte("me"), Value: func() resolve.Node {
			o := userNode(&resolve.Field{Name: []byte("shippingCost"), Value: &resolve.Integer{Path: []string{"shippingCost"}, Nullable: true}})
			o.Path = []string{"me"}
			return o
		}()}}},
	})
	if err != nil {
		t.Fatal(err)
	}
	if len(shipping.inputs) != 0 {
		t.Errorf("shipping was sent a representation with the failed @requires input: %s\nresponse: %s", shipping.inputs[0], out)
	}
}

// key=taint-filters-independent-fetches: a tainted object is left out of EVERY later fetch, whether or not that fetch
// depends on the failed field: reviews (no @requires, depends on the root fetch only) runs after profile and loses User 2.
func TestTaintedObjectIsDroppedFromIndependentFetches(t *testing.T) {
	if os.Getenv("C07_OPEN_FINDINGS") == "" {
		t.Skip("open finding key=taint-filters-independent-fetches (KNOWN_FINDINGS.txt); set C07_OPEN_FINDINGS=1 to reproduce")
	}
	accounts := &subgraph{respond: func(string) string {
		return `{"data":{"accounts":[{"__typename":"User","id":"1"},{"__typename":"User","id":"2"}]}}`
	}}
	profile := &subgraph{respond: func(string) string {
		return `{"data":{"_entities":[{"__typename":"User","zip":"10115"},{"__typename":"User","zip":null}]},"errors":[{"message":"zip lookup timed out","path":["_entities",1,"zip"]}]}`
	}}
	reviews := &subgraph{respond: func(in string) string {
		n := strings.Count(in, `"__typename":"User"`)
		ents := make([]string, n)
		for i := range ents {
			ents[i] = `{"__typename":"User","reviewCount":7}`
		}
		return `{"data":{"_entities":[` + strings.Join(ents, ",") + `]}}`
	}}
	out, err := run(t, &resolve.GraphQLResponse{
		Info: &resolve.GraphQLResponseInfo{OperationType: ast.OperationTypeQuery},
		Fetches: resolve.Sequence(root(accounts, "{accounts {__typename id}}"),
			batch(1, []int{0}, profile, "profile", "zip", "", zipReason, "accounts"),
			batch(2, []int{0, 1}, shippingDS(), "shipping", "shippingCost", "zip", nil, "accounts"),
			batch(3, []int{0}, reviews, "reviews", "reviewCount", "", nil, "accounts")),
		Data: &resolve.Object{Fields: []*resolve.Field{{Name: []byte("accounts"), Value: &resolve.Array{Path: []string{"accounts"},
			Item: userNode(&resolve.Field{Name: []byte("shippingCost"), Value: &resolve.Integer{Path: []string{"shippingCost"}, Nullable: true}},
				&resolve.Field{Name: []byte("reviewCount"), Value: &resolve.Integer{Path: []string{"reviewCount"}, Nullable: true}})}}}},
	})
	if err != nil {
		t.Fatal(err)
	}
	want := `"data":{"accounts":[{"id":"1","shippingCost":5,"reviewCount":7},{"id":"2","shippingCost":null,"reviewCount":7}]}`
	if !strings.Contains(out, want) {
		t.Errorf("reviewCount of User 2 does not depend on the failed zip\n got: %s\nwant: ...%s", out, want)
	}
}

// undecodable-subgraph-error-aborts-response (repaired, 9b487a9): an `errors` entry whose `path` is not an array made
// encoding/json fail in appendSubgraphError and the whole resolve returned an error (no response), with or without the option.
func TestMalformedErrorEntryDoesNotAbortTheResponse(t *testing.T) {
	accounts := &subgraph{respond: func(string) string {
		return `{"data":{"accounts":[{"__typename":"User","id":"1"}]}}`
	}}
	profile := &subgraph{respond: func(string) string {
		return `{"data":{"_entities":[{"__typename":"User","zip":null}]},"errors":[{"message":"zip lookup timed out","path":{"_entities":0}}]}`
	}}
	out, err := run(t, &resolve.GraphQLResponse{
		Info: &resolve.GraphQLResponseInfo{OperationType: ast.OperationTypeQuery},
		Fetches: resolve.Sequence(root(accounts, "{accounts {__typename id}}"),
			batch(1, []int{0}, profile, "profile", "zip", "", zipReason, "accounts")),
		Data: &resolve.Object{Fields: []*resolve.Field{{Name: []byte("accounts"), Value: &resolve.Array{Path: []string{"accounts"}, Item: userNode()}}}},
	})
	if err != nil {
		t.Fatalf("one subgraph's malformed errors entry fails the whole request: %v (written: %q)", err, out)
	}
	if !strings.Contains(out, `"data":{"accounts":[{"id":"1"}]}`) || !strings.Contains(out, "Failed to fetch from Subgraph 'profile'") {
		t.Errorf("expected the data and the wrapped subgraph error, got %s", out)
	}
}
