package loaderlab

import (
	"sort"
	"strconv"
	"strings"

	"gvh/common"
	"gvh/plan"
)

type FKind int

const (
	FSingle FKind = iota
	FEntity
	FBatch
)

func (k FKind) String() string { return [...]string{"single", "entity", "batch"}[k] }

type PathElem struct {
	Array bool
	Name  string
}

// Fetch is one fetch of the generated plan (the lab's own bookkeeping; Build turns it into the
// real resolve.SingleFetch / EntityFetch / BatchEntityFetch).
type Fetch struct {
	ID     int
	Kind   FKind
	Sub    int // subgraph = datasource
	Path   []PathElem
	Deps   []int
	Type   string      // entity type (Query for root fetches)
	Sel    *Sel        // what it asks the subgraph for
	Req    []*FieldDef // extra (required) fields in the representation
	Rep    *plan.Node  // representation variable (nil for FSingle)
	Header string      // input up to the representations (whole input for FSingle)
	Footer string
	Level  int
	Reasons []Reason // fields asked for because a dependant @requires them (FetchInfo.FetchReasons)
}

func (f *Fetch) DSName() string { return "s" + strconv.Itoa(f.Sub) }
func (f *Fetch) DSID() string   { return "ds" + strconv.Itoa(f.Sub) }
func (f *Fetch) ResponsePath() string {
	parts := []string{"query"}
	for _, e := range f.Path {
		parts = append(parts, e.Name)
		if e.Array {
			parts = append(parts, "@")
		}
	}
	return strings.Join(parts, ".")
}

type TNode struct {
	Kind  string // single | seq | par
	Fetch *Fetch
	Kids  []*TNode
}

// Plan is a generated (response tree, fetch tree) pair over a universe.
type Plan struct {
	U       *Universe
	Root    *plan.Node
	Fetches []*Fetch
	Tree    *TNode
	Prov    map[*plan.Field]int // response field -> providing fetch id

	built *builtPlan
	cur   *runState
}

func (p *Plan) fetchByID(id int) *Fetch {
	for _, f := range p.Fetches {
		if f.ID == id {
			return f
		}
	}
	return nil
}

func (p *Plan) newFetch(kind FKind, sub int, path []PathElem, deps []int, typ string) *Fetch {
	f := &Fetch{ID: len(p.Fetches), Kind: kind, Sub: sub, Path: append([]PathElem{}, path...), Deps: append([]int{}, deps...),
		Type: typ, Sel: &Sel{Type: typ}}
	p.Fetches = append(p.Fetches, f)
	return f
}

func (p *Plan) reaches(from, to int) bool {
	if from == to {
		return true
	}
	for _, d := range p.fetchByID(from).Deps {
		if p.reaches(d, to) {
			return true
		}
	}
	return false
}

func addReq(pf *Fetch, r *FieldDef) {
	for _, x := range pf.Req {
		if x == r {
			return
		}
	}
	pf.Req = append(pf.Req, r)
}

func addUniq(xs []int, x int) []int {
	for _, y := range xs {
		if y == x {
			return xs
		}
	}
	return append(xs, x)
}

func (g *Gen) object(p *Plan, t *TypeDef, cur *Fetch, sel *Sel, path []PathElem, inArray bool, depth int) []*plan.Field {
	local := map[int]*Fetch{}
	provider := func(fd *FieldDef) (*Fetch, *Sel) {
		if fd.Owner == cur.Sub {
			return cur, sel
		}
		if f, ok := local[fd.Owner]; ok {
			return f, f.Sel
		}
		sel.Key = true
		kind := FEntity
		if inArray {
			kind = FBatch
		}
		f := p.newFetch(kind, fd.Owner, path, []int{cur.ID}, t.Name)
		local[fd.Owner] = f
		return f, f.Sel
	}
	// ReqChains: the required field may itself require another field (a chain of @requires): the provider of
	// fd depends on the provider of fd.Requires, which depends on the provider of fd.Requires.Requires, ...;
	// none of them depends on the head of the chain directly.  When the provider of fd is (transitively) needed
	// by the provider of its own input, a second fetch to the same subgraph is planned (as the planner does).
	var ensure func(fd *FieldDef, lvl int) (*Fetch, *Sel)
	type provided struct {
		f   *Fetch
		sel *Sel
	}
	have := map[*FieldDef]provided{} // a field of this object is delivered by one fetch only
	ensure = func(fd *FieldDef, lvl int) (*Fetch, *Sel) {
		if h, ok := have[fd]; ok {
			return h.f, h.sel
		}
		pf, psel := provider(fd)
		defer func() { have[fd] = provided{pf, psel} }()
		if fd.Requires == nil || pf == cur || lvl > 6 {
			return pf, psel
		}
		r := fd.Requires
		rf, rsel := ensure(r, lvl+1)
		if rf == pf {
			return pf, psel
		}
		if rf != cur && p.reaches(rf.ID, pf.ID) {
			kind := FEntity
			if inArray {
				kind = FBatch
			}
			pf = p.newFetch(kind, fd.Owner, path, []int{cur.ID}, t.Name)
			local[fd.Owner] = pf
			psel = pf.Sel
		}
		rsel.Field(r)
		rf.addReason(t.Name, r)
		pf.Deps = addUniq(pf.Deps, rf.ID)
		addReq(pf, r)
		return pf, psel
	}
	perm := g.R.Perm(len(t.Fields))
	k := 1 + g.R.Pick(len(t.Fields))
	if k > 4 {
		k = 4
	}
	if g.Opt.ReqChains && t.ChainTail != nil && g.R.Chance(3, 4) {
		// ask for the end of the chain first
		for i, j := range perm {
			if t.Fields[j] == t.ChainTail {
				perm[0], perm[i] = perm[i], perm[0]
			}
		}
	}
	if g.Opt.Taint && g.R.Chance(3, 4) {
		// ask for the fields that @require another one first
		n := 0
		for i, j := range perm {
			if t.Fields[j].Requires != nil {
				perm[n], perm[i] = perm[i], perm[n]
				n++
			}
		}
		if k < n {
			k = n
		}
		if k > 4 {
			k = 4
		}
	}
	var out []*plan.Field
	if t.Name != "Query" && g.R.Chance(1, 4) {
		sel.Key = true
		f := &plan.Field{Name: "__typename", Value: &plan.Node{Kind: plan.KStr, Path: []string{"__typename"}}}
		p.Prov[f] = cur.ID
		out = append(out, f)
	}
	for i := 0; i < len(perm) && len(out) < k; i++ {
		fd := t.Fields[perm[i]]
		if fd.Target != "" && depth >= g.Opt.MaxDepth {
			continue
		}
		var pf *Fetch
		var psel *Sel
		if g.Opt.ReqChains {
			pf, psel = ensure(fd, 0)
		} else {
			pf, psel = provider(fd)
			if fd.Requires != nil && pf != cur {
				r := fd.Requires
				rf, rsel := provider(r)
				if rf != pf {
					if rf != cur && p.reaches(rf.ID, pf.ID) {
						continue // would close a dependency cycle: leave the field out of the query
					}
					rsel.Field(r)
					rf.addReason(t.Name, r)
					pf.Deps = addUniq(pf.Deps, rf.ID)
					addReq(pf, r)
				}
			}
		}
		sf := psel.Field(fd)
		var val *plan.Node
		switch {
		case fd.Scalar != 0:
			val = &plan.Node{Kind: fd.Scalar, Path: []string{fd.Name}, Nullable: fd.Nullable}
		case !fd.List:
			val = &plan.Node{Kind: plan.KObj, Path: []string{fd.Name}, Nullable: fd.Nullable, TypeName: fd.Target}
			val.Fields = g.object(p, p.U.Schema.Type(fd.Target), pf, sf.Sub, append(append([]PathElem{}, path...), PathElem{false, fd.Name}), inArray, depth+1)
		default:
			item := &plan.Node{Kind: plan.KObj, Nullable: fd.ItemNullable, TypeName: fd.Target}
			item.Fields = g.object(p, p.U.Schema.Type(fd.Target), pf, sf.Sub, append(append([]PathElem{}, path...), PathElem{true, fd.Name}), true, depth+1)
			val = &plan.Node{Kind: plan.KArr, Path: []string{fd.Name}, Nullable: fd.Nullable, Item: item}
		}
		f := &plan.Field{Name: fd.Name, Value: val}
		p.Prov[f] = pf.ID
		out = append(out, f)
	}
	if len(out) == 0 {
		// always select something: the first scalar of the type, else its key
		for _, fd := range t.Fields {
			if fd.Scalar != 0 && fd.Owner == cur.Sub {
				sel.Field(fd)
				f := &plan.Field{Name: fd.Name, Value: &plan.Node{Kind: fd.Scalar, Path: []string{fd.Name}, Nullable: fd.Nullable}}
				p.Prov[f] = cur.ID
				return []*plan.Field{f}
			}
		}
		sel.Key = true
		f := &plan.Field{Name: "id", Value: &plan.Node{Kind: plan.KStr, Path: []string{"id"}}}
		p.Prov[f] = cur.ID
		out = append(out, f)
	}
	return out
}

func repNode(f *Fetch) *plan.Node {
	on := []string{f.Type}
	n := &plan.Node{Kind: plan.KObj, Nullable: true}
	n.Fields = append(n.Fields,
		&plan.Field{Name: "__typename", On: on, Value: &plan.Node{Kind: plan.KStr, Path: []string{"__typename"}}},
		&plan.Field{Name: "id", On: on, Value: &plan.Node{Kind: plan.KStr, Path: []string{"id"}}})
	for _, r := range f.Req {
		n.Fields = append(n.Fields, &plan.Field{Name: r.Name, On: on, Value: &plan.Node{Kind: r.Scalar, Path: []string{r.Name}, Nullable: r.Nullable}})
	}
	return n
}


// Finalize computes the operation texts and representation variables of every fetch from its
// selection (called by the generator; exported for hand-built plans).
func (p *Plan) Finalize(sharedOps bool) {
	for _, f := range p.Fetches {
		url := `{"method":"POST","url":"http://` + f.DSName() + `","body":{"query":"`
		opName := ""
		if !sharedOps {
			opName = " f" + strconv.Itoa(f.ID) // a distinct operation per fetch: no subgraph single flight between sibling fetches
		}
		if f.Kind == FSingle {
			f.Header = url + "query" + opName + " " + f.Sel.Text() + `"}}`
			continue
		}
		f.Rep = repNode(f)
		f.Header = url + `query` + opName + `($representations: [_Any!]!){_entities(representations: $representations){... on ` + f.Type + ` ` +
			(&Sel{Type: f.Type, Key: false, Fields: f.Sel.Fields}).typenameText() + `}}","variables":{"representations":[`
		f.Footer = `]}}}`
	}
}

func (p *Plan) level(f *Fetch, memo map[int]int) int {
	if v, ok := memo[f.ID]; ok {
		return v
	}
	l := 0
	for _, d := range f.Deps {
		if x := p.level(p.fetchByID(d), memo) + 1; x > l {
			l = x
		}
	}
	memo[f.ID] = l
	return l
}

// Plan generates a plan over u.
func (g *Gen) Plan(u *Universe) *Plan {
	p := &Plan{U: u, Prov: map[*plan.Field]int{}}
	roots := map[int]*Fetch{}
	root := &plan.Node{Kind: plan.KObj, TypeName: "Query"}
	q := u.Schema.Query
	perm := g.R.Perm(len(q.Fields))
	k := 1 + g.R.Pick(len(q.Fields))
	addRoot := func(fd *FieldDef, rf *Fetch) {
		sf := rf.Sel.Field(fd)
		var val *plan.Node
		switch {
		case fd.Scalar != 0:
			val = &plan.Node{Kind: fd.Scalar, Path: []string{fd.Name}, Nullable: fd.Nullable}
		case !fd.List:
			val = &plan.Node{Kind: plan.KObj, Path: []string{fd.Name}, Nullable: fd.Nullable, TypeName: fd.Target}
			val.Fields = g.object(p, u.Schema.Type(fd.Target), rf, sf.Sub, []PathElem{{false, fd.Name}}, false, 1)
		default:
			item := &plan.Node{Kind: plan.KObj, Nullable: fd.ItemNullable, TypeName: fd.Target}
			item.Fields = g.object(p, u.Schema.Type(fd.Target), rf, sf.Sub, []PathElem{{true, fd.Name}}, true, 1)
			val = &plan.Node{Kind: plan.KArr, Path: []string{fd.Name}, Nullable: fd.Nullable, Item: item}
		}
		f := &plan.Field{Name: fd.Name, Value: val}
		p.Prov[f] = rf.ID
		root.Fields = append(root.Fields, f)
	}
	for i := 0; i < k; i++ {
		fd := q.Fields[perm[i]]
		rf, ok := roots[fd.Owner]
		if !ok {
			rf = p.newFetch(FSingle, fd.Owner, nil, nil, "Query")
			roots[fd.Owner] = rf
		}
		addRoot(fd, rf)
	}
	nDep := 0
	if g.Opt.DepSingles {
		// further root fields come from Single fetches of their own that depend on an entity / batch fetch planned so far
		for i := k; i < len(perm); i++ {
			var cands []*Fetch
			for _, f := range p.Fetches {
				if f.Kind != FSingle {
					cands = append(cands, f)
				}
			}
			if len(cands) == 0 || !g.R.Chance(2, 3) {
				continue
			}
			dep := common.PickOf(g.R, cands)
			// a datasource of its own (errors are attributed by subgraph name and path; everything below it is an entity fetch)
			nDep++
			addRoot(q.Fields[perm[i]], p.newFetch(FSingle, u.Schema.NSub+nDep, nil, []int{dep.ID}, "Query"))
		}
	}
	p.Root = root
	p.Finalize(g.Opt.SharedOps)
	// fetch tree: levels by dependency depth
	memo := map[int]int{}
	maxL := 0
	for _, f := range p.Fetches {
		f.Level = p.level(f, memo)
		if f.Level > maxL {
			maxL = f.Level
		}
	}
	order := append([]*Fetch{}, p.Fetches...)
	sort.SliceStable(order, func(i, j int) bool { return order[i].Level < order[j].Level })
	seq := &TNode{Kind: "seq"}
	shape := g.R.Pick(3)
	if g.Opt.Serial {
		shape = 0
	}
	switch shape {
	case 0: // fully serial
		for _, f := range order {
			seq.Kids = append(seq.Kids, &TNode{Kind: "single", Fetch: f})
		}
	default: // one parallel group per level (shape 2: nested sequence wrapper around the tail)
		for l := 0; l <= maxL; l++ {
			var fs []*TNode
			for _, f := range order {
				if f.Level == l {
					fs = append(fs, &TNode{Kind: "single", Fetch: f})
				}
			}
			if len(fs) == 1 {
				seq.Kids = append(seq.Kids, fs[0])
			} else if len(fs) > 1 {
				seq.Kids = append(seq.Kids, &TNode{Kind: "par", Kids: fs})
			}
		}
		if shape == 2 && len(seq.Kids) > 2 {
			tail := &TNode{Kind: "seq", Kids: append([]*TNode{}, seq.Kids[1:]...)}
			seq.Kids = []*TNode{seq.Kids[0], tail}
		}
	}
	if g.Opt.Taint && !p.ParSafe(seq) {
		// a Parallel sibling would see (or not) the tainted objects depending on the schedule: run serially
		seq = &TNode{Kind: "seq"}
		for _, f := range order {
			seq.Kids = append(seq.Kids, &TNode{Kind: "single", Fetch: f})
		}
	}
	p.Tree = seq
	return p
}

func (s *Sel) typenameText() string {
	t := s.Text()
	return "{__typename " + strings.TrimPrefix(t, "{")
}

// Dependants returns the transitive closure of fetches depending on any fetch in set (set included).
func (p *Plan) Affected(set map[int]bool) map[int]bool {
	out := map[int]bool{}
	for k := range set {
		out[k] = true
	}
	for changed := true; changed; {
		changed = false
		for _, f := range p.Fetches {
			if out[f.ID] {
				continue
			}
			for _, d := range f.Deps {
				if out[d] {
					out[f.ID] = true
					changed = true
					break
				}
			}
		}
	}
	return out
}

// ---------------------------------------------------------------- S-expression dump (read by ocaml/c07)

func qstrs(xs []string) string {
	items := make([]string, len(xs))
	for i, x := range xs {
		items[i] = common.QS(x)
	}
	return "(" + strings.Join(items, " ") + ")"
}

func (t *TNode) Sexp() string {
	switch t.Kind {
	case "single":
		return common.L("single", common.I(t.Fetch.ID))
	default:
		items := []string{t.Kind}
		for _, k := range t.Kids {
			items = append(items, k.Sexp())
		}
		return common.L(items...)
	}
}

func (f *Fetch) Sexp() string {
	pes := []string{"path"}
	for _, e := range f.Path {
		pes = append(pes, common.L("pe", qstrs([]string{e.Name}), "()"))
	}
	deps := []string{"deps"}
	for _, d := range f.Deps {
		deps = append(deps, common.I(d))
	}
	rep := "(null)"
	dp := `((n "data"))`
	switch f.Kind {
	case FEntity:
		rep = f.Rep.Sexp()
		dp = `((n "data") (n "_entities") (i 0))`
	case FBatch:
		rep = f.Rep.Sexp()
		dp = `((n "data") (n "_entities"))`
	}
	return common.L("fetch", common.I(f.ID), f.Kind.String(), common.QS(f.DSName()), common.L(pes...), common.L(deps...), rep,
		common.QS(f.Header), common.QS(f.Footer), common.L("datapath", dp), "(mergepath)")
}

func (p *Plan) Sexp() string {
	fs := []string{"fetches"}
	for _, f := range p.Fetches {
		fs = append(fs, f.Sexp())
	}
	return common.L("plan", p.Root.Sexp(), common.L(fs...), common.L("tree", p.Tree.Sexp()))
}

// ProvSexp dumps the response tree annotated with the providing fetch of every field:
// (pobj (pf "name" fid <sub>)...) | (parr <sub>) | (pleaf)
func (p *Plan) ProvSexp(n *plan.Node) string {
	switch n.Kind {
	case plan.KObj:
		items := []string{"pobj"}
		for _, f := range n.Fields {
			items = append(items, common.L("pf", common.QS(f.Name), common.I(p.Prov[f]), p.ProvSexp(f.Value)))
		}
		return common.L(items...)
	case plan.KArr:
		return common.L("parr", p.ProvSexp(n.Item))
	}
	return "(pleaf)"
}
