package loaderlab

import (
	"bytes"
	"context"
	"errors"
	"fmt"
	"net/http"
	"strconv"
	"strings"
	"sync"
	"time"

	"github.com/wundergraph/graphql-go-tools/v2/pkg/ast"
	"github.com/wundergraph/graphql-go-tools/v2/pkg/caching"
	"github.com/wundergraph/graphql-go-tools/v2/pkg/engine/datasource/httpclient"
	"github.com/wundergraph/graphql-go-tools/v2/pkg/engine/resolve"
)

// FaultKind: what a scripted subgraph does to one request.
type FaultKind int

const (
	FNone           FaultKind = iota
	FTransport                // Load returns an error
	FStatusEmpty              // 500, empty body
	FStatusText               // 503, non-JSON body
	FStatusErrors             // 500, {"errors":[{"message":"boom"}]}
	FEmpty                    // 200, empty body
	FNonJSON                  // 200, HTML
	FTruncated                // 200, the clean body cut in half
	FNaNBody                  // 200, body `NaN` (astjson accepts it as a number)
	FErrorsNoData             // 200, {"errors":[{"message":"boom"}]}
	FErrorsNullData           // 200, {"errors":[{"message":"boom"}],"data":null}
	FNullData                 // 200, {"data":null}
	FCountLess                // entity fetches: last entity dropped
	FCountMore                // entity fetches: last entity repeated
	FStatusWithData           // probe: 500 with the clean body
	FNullEntities             // probe: every entity null
	FNaNData                  // probe: numbers inside data printed as NaN
	FPartial                  // "errors with partial data": some entities with a field nulled + errors entries (RunConfig.Partials)
	// "the selected data path holds an explicit null / a value of the wrong kind": FShapeBase + 4*shape + variant
	// (variant bit 0: with an errors entry, bit 1: status 500); then FItemsBase + 4*itemkind + variant
	FShapeBase
)

// Shapes of the whole `data` member, in the order of coq/C07/Model.v [shape]; item kinds as [itemkind].
var ShapeNames = []string{"entnull", "entobj", "entstr", "dataempty", "datastr", "datanum", "dataarr"}
var shapeData = []string{`{"_entities":null}`, `{"_entities":{}}`, `{"_entities":"x"}`, `{}`, `"x"`, `1`, `[]`}
var ItemNames = []string{"num", "str", "list"}
var itemData = []string{`1`, `"x"`, `[]`}
var variantNames = []string{"", "_e", "_5", "_e5"}

const (
	FItemsBase   = FShapeBase + 4*7
	faultKindEnd = FItemsBase + 4*3
)

// FShape / FItems build the kind; IsShape / IsItems take it apart (index, with errors, status 500).
func FShape(shape, variant int) FaultKind { return FShapeBase + FaultKind(4*shape+variant) }
func FItems(item, variant int) FaultKind  { return FItemsBase + FaultKind(4*item+variant) }
func (k FaultKind) IsShape() (int, bool, bool, bool) {
	if k < FShapeBase || k >= FItemsBase {
		return 0, false, false, false
	}
	i := int(k - FShapeBase)
	return i / 4, i&1 != 0, i&2 != 0, true
}
func (k FaultKind) IsItems() (int, bool, bool, bool) {
	if k < FItemsBase || k >= faultKindEnd {
		return 0, false, false, false
	}
	i := int(k - FItemsBase)
	return i / 4, i&1 != 0, i&2 != 0, true
}

// Aborts: kinds after which MergeValues USED TO fail with ErrMergeDifferentTypes and the whole resolve returned an error
// (wrong-kind-data-aborts-response, repaired eb6ed70: reported as an invalid response of the subgraph): `_entities` items of a
// wrong kind, `data` of a wrong kind on a root fetch.
func (k FaultKind) Aborts(fk FKind) bool {
	if _, _, _, ok := k.IsItems(); ok {
		return true
	}
	if sh, _, _, ok := k.IsShape(); ok {
		return fk == FSingle && sh >= 4
	}
	return false
}

var faultNames = func() []string {
	ns := []string{"none", "transport", "status_empty", "status_text", "status_errors", "empty", "nonjson", "truncated",
		"nan_body", "errors_nodata", "errors_nulldata", "nulldata", "count_less", "count_more", "status_with_data", "null_entities", "nan_data", "partial"}
	for _, sh := range ShapeNames {
		for _, v := range variantNames {
			ns = append(ns, "sh_"+sh+v)
		}
	}
	for _, it := range ItemNames {
		for _, v := range variantNames {
			ns = append(ns, "it_"+it+v)
		}
	}
	return ns
}()

func (k FaultKind) String() string { return faultNames[k] }
func FaultKindByName(s string) FaultKind {
	for i, n := range faultNames {
		if n == s {
			return FaultKind(i)
		}
	}
	return FNone
}

// Applicable reports whether the kind makes sense for the fetch kind.
func (k FaultKind) Applicable(fk FKind) bool {
	switch k {
	case FCountLess, FCountMore, FNullEntities, FPartial:
		return fk != FSingle
	}
	if _, _, _, ok := k.IsItems(); ok {
		return fk != FSingle
	}
	if sh, _, _, ok := k.IsShape(); ok && sh < 3 {
		return fk != FSingle // `_entities` is no field of a root answer (data-path analogues for root fetches: data {} / "x" / 1 / [])
	}
	return k != FNone
}

// Hard kinds: the failures listed by the C07 property text (NaN inside data is a non-JSON body).  The others are probes.
func (k FaultKind) Hard() bool { return (k >= FTransport && k <= FCountMore) || k == FNaNData }


// Request is one recorded subgraph request.
type Request struct {
	Seq      int
	FetchID  int
	DS       string
	Input    []byte
	Reps     []string // nil for single fetches
	BadInput bool     // the input did not have the fetch's header/footer around the representations
	// what the scripted subgraph answered
	Status  int
	Body    []byte
	Err     bool
	Fault   FaultKind
	CC      []string
	NErrors int
	Failed  []int // FPartial: the positions of `_entities` whose field was really set to null
}

// Answer is one (fetch, representation) -> entity answer pair the oracle was asked for.
type Answer struct {
	FetchID int
	Rep     string
	Entity  string
	NErrs   int
}

type RunConfig struct {
	Faults       map[int]FaultKind                  // by fetch id
	Partials     map[int]*Partial                   // by fetch id, for Faults[id] == FPartial
	CacheControl func(fetchID, seq int) []string    // Cache-Control header values of the response
	Cache        caching.Cache                      // nil = no cache
	DefaultTTL   time.Duration
	Timeout      time.Duration
	NoSingleFlight bool // ExecutionOptions.DisableSubgraphRequestDeduplication
}

type Result struct {
	Out       []byte
	Err       error
	Panic     string
	TimedOut  bool
	Elapsed   time.Duration
	Requests  []Request
	Answers   []Answer
	CacheErrs []string
}

type runState struct {
	mu   sync.Mutex
	cfg  RunConfig
	reqs []Request
	ans  []Answer
}

type builtPlan struct {
	resp *resolve.GraphQLResponse
}

// Lab owns the resolver shared by every run (and, for C16b, by a whole history).
type Lab struct {
	Resolver *resolve.Resolver
	cancel   context.CancelFunc
}

func NewLab(opts resolve.ResolverOptions) *Lab {
	ctx, cancel := context.WithCancel(context.Background())
	return &Lab{Resolver: resolve.New(ctx, opts), cancel: cancel}
}
func (l *Lab) Close() { l.cancel() }

// ---------------------------------------------------------------- scripted datasource

type ds struct {
	p *Plan
	f *Fetch
}

// splitTop splits "a,b,c" at commas outside strings / brackets.
func splitTop(s string) []string {
	if len(s) == 0 {
		return nil
	}
	var out []string
	depth, inStr, esc, start := 0, false, false, 0
	for i := 0; i < len(s); i++ {
		c := s[i]
		if inStr {
			if esc {
				esc = false
			} else if c == '\\' {
				esc = true
			} else if c == '"' {
				inStr = false
			}
			continue
		}
		switch c {
		case '"':
			inStr = true
		case '{', '[':
			depth++
		case '}', ']':
			depth--
		case ',':
			if depth == 0 {
				out = append(out, s[start:i])
				start = i + 1
			}
		}
	}
	return append(out, s[start:])
}

// repKey extracts __typename and id from a rendered representation (flat object, string values).
func repKey(rep string) (string, string) {
	get := func(k string) string {
		i := strings.Index(rep, `"`+k+`":"`)
		if i < 0 {
			return ""
		}
		rest := rep[i+len(k)+4:]
		j := strings.IndexByte(rest, '"')
		if j < 0 {
			return ""
		}
		return rest[:j]
	}
	return get("__typename"), get("id")
}

const errBoom = `{"message":"boom"}`

func (d *ds) Load(ctx context.Context, headers http.Header, input []byte) ([]byte, error) {
	st := d.p.cur
	st.mu.Lock()
	defer st.mu.Unlock()
	f := d.f
	rq := Request{Seq: len(st.reqs), FetchID: f.ID, DS: f.DSName(), Input: append([]byte{}, input...), Status: 200}
	fault := st.cfg.Faults[f.ID]
	rq.Fault = fault
	o := projOpts{nan: fault == FNaNData}
	var entities []string
	var errs []string
	var clean string
	if f.Kind == FSingle {
		rq.BadInput = string(input) != f.Header
		n := 0
		data := d.p.U.project(d.p.U.Root, f.Sel, f.Sub, true, o, &n)
		cleanData := data
		if o.nan {
			m := 0
			cleanData = d.p.U.project(d.p.U.Root, f.Sel, f.Sub, true, projOpts{}, &m)
		}
		st.ans = append(st.ans, Answer{f.ID, "", cleanData, 0})
		clean = `{"data":` + data + `}`
	} else {
		in := string(input)
		if strings.HasPrefix(in, f.Header) && strings.HasSuffix(in, f.Footer) && len(in) >= len(f.Header)+len(f.Footer) {
			rq.Reps = splitTop(in[len(f.Header) : len(in)-len(f.Footer)])
		} else {
			rq.BadInput = true
		}
		for i, rep := range rq.Reps {
			tn, id := repKey(rep)
			n := 0
			var e *Ent
			if tn == f.Type && !d.p.U.Unknown[tn+"/"+id+"/"+strconv.Itoa(f.Sub)] {
				e = d.p.U.Ents[tn+"/"+id]
			}
			ent := d.p.U.project(e, f.Sel, f.Sub, true, o, &n)
			cleanEnt := ent
			if o.nan {
				m := 0
				cleanEnt = d.p.U.project(e, f.Sel, f.Sub, true, projOpts{}, &m)
			}
			st.ans = append(st.ans, Answer{f.ID, rep, cleanEnt, n})
			entities = append(entities, ent)
			for k := 0; k < n; k++ {
				errs = append(errs, `{"message":"boom","path":["_entities",`+strconv.Itoa(i)+`]}`)
			}
		}
		if pf := st.cfg.Partials[f.ID]; fault == FPartial && pf != nil {
			var perrs []string
			entities, perrs, rq.Failed = pf.Apply(entities)
			errs = append(errs, perrs...)
		}
		switch fault {
		case FCountLess:
			if len(entities) > 0 {
				entities = entities[:len(entities)-1]
			}
		case FCountMore:
			if len(entities) > 0 {
				entities = append(entities, entities[len(entities)-1])
			}
		case FNullEntities:
			for i := range entities {
				entities[i] = "null"
			}
		}
		clean = `{"data":{"_entities":[` + strings.Join(entities, ",") + `]}`
		if len(errs) > 0 {
			clean += `,"errors":[` + strings.Join(errs, ",") + `]`
		}
		clean += `}`
		rq.NErrors = len(errs)
	}
	body := clean
	var err error
	if fault == FNaNData {
		// every number printed as NaN (project) and one more NaN member in the data object: never plain JSON
		i := strings.Index(body, `{"data":{`)
		if i == 0 {
			rest := body[len(`{"data":{`):]
			if strings.HasPrefix(rest, "}") {
				body = `{"data":{"zz":NaN` + rest
			} else {
				body = `{"data":{"zz":NaN,` + rest
			}
		}
	}
	switch fault {
	case FTransport:
		body, err = "", errors.New("lab: connection refused")
		rq.Status = 0
	case FStatusEmpty:
		body, rq.Status = "", 500
	case FStatusText:
		body, rq.Status = "Service Unavailable", 503
	case FStatusErrors:
		body, rq.Status = `{"errors":[`+errBoom+`]}`, 500
	case FEmpty:
		body = ""
	case FNonJSON:
		body = "<html>oops</html>"
	case FTruncated:
		body = clean[:len(clean)/2]
	case FNaNBody:
		body = "NaN"
	case FErrorsNoData:
		body = `{"errors":[` + errBoom + `]}`
	case FErrorsNullData:
		body = `{"errors":[` + errBoom + `],"data":null}`
	case FNullData:
		body = `{"data":null}`
	case FStatusWithData:
		rq.Status = 500
	}
	boomMember := func(we bool) string {
		if we {
			return `,"errors":[` + errBoom + `]`
		}
		return ""
	}
	if sh, we, s5, ok := fault.IsShape(); ok {
		body = `{"data":` + shapeData[sh] + boomMember(we) + `}`
		if s5 {
			rq.Status = 500
		}
	}
	if it, we, s5, ok := fault.IsItems(); ok {
		items := make([]string, len(entities))
		for i := range items {
			items[i] = itemData[it]
		}
		body = `{"data":{"_entities":[` + strings.Join(items, ",") + `]}` + boomMember(we) + `}`
		if s5 {
			rq.Status = 500
		}
	}
	if st.cfg.CacheControl != nil {
		rq.CC = st.cfg.CacheControl(f.ID, rq.Seq)
	}
	rq.Body = []byte(body)
	rq.Err = err != nil
	if rc := httpclient.GetResponseContext(ctx); rc != nil && err == nil {
		rc.StatusCode = rq.Status
		h := http.Header{}
		for _, v := range rq.CC {
			h.Add("Cache-Control", v)
		}
		rc.Response = &http.Response{StatusCode: rq.Status, Header: h}
	}
	st.reqs = append(st.reqs, rq)
	if err != nil {
		return nil, err
	}
	return []byte(body), nil
}

func (d *ds) LoadWithFiles(ctx context.Context, headers http.Header, input []byte, files []*httpclient.FileUpload) ([]byte, error) {
	return d.Load(ctx, headers, input)
}

// ---------------------------------------------------------------- building the real plan

func static(s string) resolve.InputTemplate {
	return resolve.InputTemplate{Segments: []resolve.TemplateSegment{{SegmentType: resolve.StaticSegmentType, Data: []byte(s)}}}
}

func (p *Plan) buildFetch(f *Fetch) *resolve.FetchTreeNode {
	var path []resolve.FetchItemPathElement
	for _, e := range f.Path {
		if e.Array {
			path = append(path, resolve.ArrayPath(e.Name))
		} else {
			path = append(path, resolve.ObjectPath(e.Name))
		}
	}
	deps := resolve.FetchDependencies{FetchID: f.ID, DependsOnFetchIDs: append([]int(nil), f.Deps...)}
	info := &resolve.FetchInfo{DataSourceID: f.DSID(), DataSourceName: f.DSName(), OperationType: ast.OperationTypeQuery}
	for _, r := range f.Reasons {
		info.FetchReasons = append(info.FetchReasons, resolve.FetchReason{TypeName: r.Type, FieldName: r.Field, IsRequires: true, Nullable: r.Nullable})
	}
	source := &ds{p: p, f: f}
	var fetch resolve.Fetch
	switch f.Kind {
	case FSingle:
		fetch = &resolve.SingleFetch{
			FetchConfiguration: resolve.FetchConfiguration{
				Input: f.Header, DataSource: source,
				PostProcessing: resolve.PostProcessingConfiguration{SelectResponseDataPath: []string{"data"}, SelectResponseErrorsPath: []string{"errors"}},
			},
			FetchDependencies:    deps,
			InputTemplate:        static(f.Header),
			DataSourceIdentifier: []byte("graphql_datasource.Source"),
			Info:                 info,
		}
	case FEntity:
		fetch = &resolve.EntityFetch{
			FetchDependencies: deps,
			Input: resolve.EntityInput{
				Header: static(f.Header),
				Item: resolve.InputTemplate{Segments: []resolve.TemplateSegment{{SegmentType: resolve.VariableSegmentType,
					VariableKind: resolve.ResolvableObjectVariableKind, Renderer: resolve.NewGraphQLVariableResolveRenderer(f.Rep.Build())}},
					SetTemplateOutputToNullOnVariableNull: true},
				SkipErrItem: true,
				Footer:      static(f.Footer),
			},
			DataSource:           source,
			PostProcessing:       resolve.PostProcessingConfiguration{SelectResponseDataPath: []string{"data", "_entities", "0"}, SelectResponseErrorsPath: []string{"errors"}},
			DataSourceIdentifier: []byte("graphql_datasource.Source"),
			Info:                 info,
		}
	case FBatch:
		fetch = &resolve.BatchEntityFetch{
			FetchDependencies: deps,
			Input: resolve.BatchInput{
				Header: static(f.Header),
				Items: []resolve.InputTemplate{{Segments: []resolve.TemplateSegment{{SegmentType: resolve.VariableSegmentType,
					VariableKind: resolve.ResolvableObjectVariableKind, Renderer: resolve.NewGraphQLVariableResolveRenderer(f.Rep.Build())}},
					SetTemplateOutputToNullOnVariableNull: true}},
				SkipNullItems: true, SkipEmptyObjectItems: true, SkipErrItems: true,
				Separator: static(","),
				Footer:    static(f.Footer),
			},
			DataSource:           source,
			PostProcessing:       resolve.PostProcessingConfiguration{SelectResponseDataPath: []string{"data", "_entities"}, SelectResponseErrorsPath: []string{"errors"}},
			DataSourceIdentifier: []byte("graphql_datasource.Source"),
			Info:                 info,
		}
	}
	return resolve.SingleWithPath(fetch, f.ResponsePath(), path...)
}

func (p *Plan) buildTree(t *TNode) *resolve.FetchTreeNode {
	switch t.Kind {
	case "single":
		return p.buildFetch(t.Fetch)
	case "par":
		kids := make([]*resolve.FetchTreeNode, len(t.Kids))
		for i, k := range t.Kids {
			kids[i] = p.buildTree(k)
		}
		return resolve.Parallel(kids...)
	}
	kids := make([]*resolve.FetchTreeNode, len(t.Kids))
	for i, k := range t.Kids {
		kids[i] = p.buildTree(k)
	}
	return resolve.Sequence(kids...)
}

// Build constructs (once) the real resolve.GraphQLResponse of the plan.
func (p *Plan) Build() *resolve.GraphQLResponse {
	if p.built == nil {
		p.built = &builtPlan{resp: &resolve.GraphQLResponse{
			Data:    p.Root.Build().(*resolve.Object),
			Fetches: p.buildTree(p.Tree),
			Info:    &resolve.GraphQLResponseInfo{OperationType: ast.OperationTypeQuery},
		}}
	}
	return p.built.resp
}

// Run executes the plan through the real resolver under cfg.
func (p *Plan) Run(lab *Lab, cfg RunConfig) *Result {
	resp := p.Build()
	st := &runState{cfg: cfg}
	p.cur = st
	res := &Result{}
	timeout := cfg.Timeout
	if timeout == 0 {
		timeout = 5 * time.Second
	}
	done := make(chan struct{})
	start := time.Now()
	var cacheErrs []string
	var cmu sync.Mutex
	go func() {
		defer close(done)
		defer func() {
			if r := recover(); r != nil {
				res.Panic = fmt.Sprint(r)
			}
		}()
		ctx := resolve.NewContext(context.Background())
		ctx.ExecutionOptions.DisableSubgraphRequestDeduplication = cfg.NoSingleFlight
		if cfg.Cache != nil {
			ctx.SetResponseCache(cfg.Cache, cfg.DefaultTTL, func(err error) {
				cmu.Lock()
				cacheErrs = append(cacheErrs, err.Error())
				cmu.Unlock()
			})
		}
		buf := &bytes.Buffer{}
		_, err := lab.Resolver.ResolveGraphQLResponse(ctx, resp, nil, buf)
		res.Out, res.Err = buf.Bytes(), err
	}()
	select {
	case <-done:
	case <-time.After(timeout):
		res.TimedOut = true
	}
	res.Elapsed = time.Since(start)
	st.mu.Lock()
	res.Requests = append([]Request{}, st.reqs...)
	res.Answers = append([]Answer{}, st.ans...)
	st.mu.Unlock()
	cmu.Lock()
	res.CacheErrs = cacheErrs
	cmu.Unlock()
	return res
}

// RequestCount is the number of upstream requests recorded so far in the current run.
func (p *Plan) RequestCount() int {
	st := p.cur
	if st == nil {
		return 0
	}
	st.mu.Lock()
	defer st.mu.Unlock()
	return len(st.reqs)
}
