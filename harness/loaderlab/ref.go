package loaderlab

import (
	"strconv"
	"strings"

	"gvh/plan"
)

// RefData is the lab's own (loader-independent) account of the fault-free merged data restricted
// to the response tree: every response field gets the value the universe holds for it, as the
// providing subgraph would answer it.  Keys are the data paths (= field names in this lab).
func (p *Plan) RefData() string {
	return p.refObj(p.U.Root, p.Root, -1)
}

func (p *Plan) refObj(e *Ent, n *plan.Node, cur int) string {
	if e == nil {
		return "null"
	}
	var parts []string
	for _, f := range n.Fields {
		pf := p.fetchByID(p.Prov[f])
		switch f.Name {
		case "__typename":
			parts = append(parts, `"__typename":`+strconv.Quote(e.Type))
			continue
		case "id":
			if p.U.Schema.Type(e.Type) != nil && fieldDef(p.U.Schema.Type(e.Type), "id") == nil {
				parts = append(parts, `"id":`+strconv.Quote(e.ID))
				continue
			}
		}
		def := fieldDef(p.U.Schema.Type(e.Type), f.Name)
		if def == nil {
			continue
		}
		if pf.ID != cur && pf.Kind != FSingle && p.U.Unknown[e.Type+"/"+e.ID+"/"+strconv.Itoa(pf.Sub)] {
			continue // the providing subgraph does not know the entity: nothing is merged here
		}
		if pf.ID != cur && p.repSkipped(e, pf, 0) {
			continue // a non-null @requires input of the providing fetch was not delivered for this entity: no representation, nothing merged
		}
		if pf.ID != cur && pf.Kind != FSingle && p.U.ErrOn[e.Type+"/"+e.ID+"/"+strconv.Itoa(pf.Sub)] &&
			len(pf.Sel.Fields) > 0 && pf.Sel.Fields[0].Def == def {
			if def.Nullable {
				parts = append(parts, strconv.Quote(f.Name)+":null")
			}
			continue
		}
		var v string
		switch x := e.Vals[def.Name].(type) {
		case string:
			v = x
		case *Ref:
			if x == nil {
				v = "null"
			} else {
				v = p.refObj(p.U.Ents[x.Type+"/"+x.ID], f.Value, pf.ID)
			}
		case []*Ref:
			if x == nil {
				v = "null"
			} else {
				items := make([]string, len(x))
				for i, r := range x {
					if r == nil {
						items[i] = "null"
					} else {
						items[i] = p.refObj(p.U.Ents[r.Type+"/"+r.ID], f.Value.Item, pf.ID)
					}
				}
				v = "[" + strings.Join(items, ",") + "]"
			}
		default:
			v = "null"
		}
		parts = append(parts, strconv.Quote(f.Name)+":"+v)
	}
	return "{" + strings.Join(parts, ",") + "}"
}

func fieldDef(t *TypeDef, name string) *FieldDef {
	if t == nil {
		return nil
	}
	for _, f := range t.Fields {
		if f.Name == name {
			return f
		}
	}
	return nil
}

// repSkipped: the representation of entity e does not render for the entity fetch pf, because a non-null
// required input (pf.Req) is missing from the merged data: its provider (an entity fetch anchored at the same
// object, among pf's dependencies) does not know the entity, answers it with an error on exactly that field
// (project: the first selected field is omitted / null), or was itself left without a representation.
func (p *Plan) repSkipped(e *Ent, pf *Fetch, depth int) bool {
	if pf == nil || pf.Kind == FSingle || depth > 8 {
		return false
	}
	for _, r := range pf.Req {
		if !r.Nullable && !p.delivered(e, r, pf, depth) {
			return true
		}
	}
	return false
}

func (p *Plan) delivered(e *Ent, r *FieldDef, pf *Fetch, depth int) bool {
	for _, id := range pf.Deps {
		rf := p.fetchByID(id)
		if rf == nil || rf.Kind == FSingle || rf.Type != e.Type || rf.ResponsePath() != pf.ResponsePath() || rf.Sel == nil {
			continue
		}
		has := false
		for _, sf := range rf.Sel.Fields {
			has = has || sf.Def == r
		}
		if !has {
			continue
		}
		key := e.Type + "/" + e.ID + "/" + strconv.Itoa(rf.Sub)
		if p.U.Unknown[key] || (p.U.ErrOn[key] && rf.Sel.Fields[0].Def == r) || p.repSkipped(e, rf, depth+1) {
			return false
		}
		return true
	}
	return true // selected by the parent fetch inside its own selection: the plain value
}
