package loaderlab

import (
	"strconv"
	"strings"

	"gvh/common"

	"github.com/tidwall/gjson"
	"github.com/tidwall/sjson"
)

// Reason: a field the fetch asks for because another subgraph @requires it (FetchInfo.FetchReasons,
// IsRequires); tainted objects (ResolverOptions.ValidateRequiredExternalFields) look at the nullable ones.
type Reason struct {
	Type, Field string
	Nullable    bool
}

func (f *Fetch) addReason(typ string, d *FieldDef) {
	for _, r := range f.Reasons {
		if r.Type == typ && r.Field == d.Name {
			return
		}
	}
	f.Reasons = append(f.Reasons, Reason{typ, d.Name, d.Nullable})
}

// Partial is the fault "errors with partial data" on an entity / batch entity fetch: the entities at
// the positions Idx of `_entities` come back with Field set to null (unless the variant says otherwise)
// and one `errors` entry each, whose path names the position properly (ok, deep) or not (the malformed stream).
type Partial struct {
	Variant string
	Field   string
	Idx     []int
}

// PartialVariants: ok and deep are proper paths; the rest is the malformed stream.  objpath -- `path` is not an array --
// used to make encoding/json fail in appendSubgraphError and abort the whole resolve (repaired, 9b487a9).
var PartialVariants = []string{"ok", "deep", "oob", "str", "float", "big", "neg", "negzero", "nofield", "nopath", "noroot", "nonnull", "wrongfield", "boolidx", "objpath"}

// Proper reports whether the subgraph named the failed entity the way the GraphQL spec says.
func (p *Partial) Proper() bool { return p.Variant == "ok" || p.Variant == "deep" }

func (p *Partial) Name() string {
	idx := make([]string, len(p.Idx))
	for i, k := range p.Idx {
		idx[i] = strconv.Itoa(k)
	}
	return "partial/" + p.Variant + "/" + p.Field + "/" + strings.Join(idx, "+")
}

func ParsePartial(name string) *Partial {
	parts := strings.Split(name, "/")
	if len(parts) != 4 || parts[0] != "partial" {
		return nil
	}
	p := &Partial{Variant: parts[1], Field: parts[2]}
	for _, s := range strings.Split(parts[3], "+") {
		if k, err := strconv.Atoi(s); err == nil {
			p.Idx = append(p.Idx, k)
		}
	}
	return p
}

func (p *Partial) nulls() bool { return p.Variant != "nonnull" }

// ErrorEntry is the `errors` entry for position k.
func (p *Partial) ErrorEntry(k int) string {
	ks, fld := strconv.Itoa(k), strconv.Quote(p.Field)
	path := ""
	switch p.Variant {
	case "ok", "nonnull":
		path = `["_entities",` + ks + `,` + fld + `]`
	case "deep":
		path = `["q","_entities",` + ks + `,` + fld + `]`
	case "oob":
		path = `["_entities",` + strconv.Itoa(k+100) + `,` + fld + `]`
	case "str":
		path = `["_entities","` + ks + `",` + fld + `]`
	case "float":
		path = `["_entities",` + ks + `.5,` + fld + `]`
	case "big":
		path = `["_entities",9223372036854775808,` + fld + `]`
	case "neg":
		path = `["_entities",-1,` + fld + `]`
	case "negzero":
		path = `["_entities",-0,` + fld + `]`
	case "nofield":
		path = `["_entities",` + ks + `]`
	case "noroot":
		path = `[` + ks + `,` + fld + `]`
	case "wrongfield":
		path = `["_entities",` + ks + `,"__typename"]`
	case "objpath":
		path = `{"_entities":` + ks + `}`
	case "boolidx":
		path = `["_entities",true,` + fld + `]`
	case "nopath":
		return `{"message":"partial"}`
	}
	return `{"message":"partial","path":` + path + `}`
}

// Apply changes the `_entities` answers: (entities, errors entries, positions really nulled).
func (p *Partial) Apply(entities []string) ([]string, []string, []int) {
	out := append([]string{}, entities...)
	var errs []string
	var failed []int
	for _, k := range p.Idx {
		errs = append(errs, p.ErrorEntry(k))
		if !p.nulls() || k < 0 || k >= len(out) {
			continue
		}
		if g := gjson.Parse(out[k]); g.IsObject() && g.Get(p.Field).Exists() {
			if s, err := sjson.SetRaw(out[k], p.Field, "null"); err == nil {
				out[k] = s
				failed = append(failed, k)
			}
		}
	}
	return out, errs, failed
}

// ItemLoc: an object of the reference data at a fetch's path, with the entity it carries.
type ItemLoc struct {
	Loc string // S-expression of the location: ((n "l") (i 2) ...)
	Ent *Ent
}

// ItemLocs walks the universe along f.Path (the lab's own account, independent of the loader).
func (p *Plan) ItemLocs(f *Fetch) []ItemLoc {
	var out []ItemLoc
	var walk func(e *Ent, i int, loc []string)
	walk = func(e *Ent, i int, loc []string) {
		if e == nil {
			return
		}
		if i == len(f.Path) {
			out = append(out, ItemLoc{"(" + strings.Join(loc, " ") + ")", e})
			return
		}
		pe := f.Path[i]
		step := common.L("n", common.QS(pe.Name))
		switch x := e.Vals[pe.Name].(type) {
		case *Ref:
			if x != nil {
				walk(p.U.Ents[x.Type+"/"+x.ID], i+1, append(append([]string{}, loc...), step))
			}
		case []*Ref:
			for j, r := range x {
				if r != nil {
					walk(p.U.Ents[r.Type+"/"+r.ID], i+1, append(append([]string{}, loc...), step, common.L("i", common.I(j))))
				}
			}
		}
	}
	walk(p.U.Root, 0, nil)
	return out
}

// FailedLocs: the objects at f's path that carry an entity whose representation was at a failed position
// of the request the scripted subgraph saw.
func (p *Plan) FailedLocs(f *Fetch, rq *Request) []string {
	keys := map[string]bool{}
	for _, k := range rq.Failed {
		if k < len(rq.Reps) {
			tn, id := repKey(rq.Reps[k])
			keys[tn+"/"+id] = true
		}
	}
	var out []string
	for _, il := range p.ItemLocs(f) {
		if keys[il.Ent.Type+"/"+il.Ent.ID] {
			out = append(out, il.Loc)
		}
	}
	return out
}

// ParSafe: no Parallel group holds two fetches one of which could see the other's tainted objects (its
// items are the other's items or contain them): inside a group that would depend on the goroutine schedule.
func (p *Plan) ParSafe(t *TNode) bool {
	prefix := func(a, b []PathElem) bool {
		if len(a) > len(b) {
			return false
		}
		for i := range a {
			if a[i] != b[i] {
				return false
			}
		}
		return true
	}
	var leaves func(t *TNode) []*Fetch
	leaves = func(t *TNode) []*Fetch {
		if t.Kind == "single" {
			return []*Fetch{t.Fetch}
		}
		var out []*Fetch
		for _, k := range t.Kids {
			out = append(out, leaves(k)...)
		}
		return out
	}
	if t.Kind == "single" {
		return true
	}
	if t.Kind == "par" {
		for i, a := range t.Kids {
			for j, b := range t.Kids {
				if i == j {
					continue
				}
				for _, fa := range leaves(a) {
					if len(fa.Reasons) == 0 {
						continue
					}
					for _, fb := range leaves(b) {
						if prefix(fb.Path, fa.Path) {
							return false
						}
					}
				}
			}
		}
	}
	for _, k := range t.Kids {
		if !p.ParSafe(k) {
			return false
		}
	}
	return true
}

// CoordsSexp: (coords (fid ("T" "f") ..) ..) -- the nullable @requires reasons per fetch.
func (p *Plan) CoordsSexp() string {
	items := []string{"coords"}
	for _, f := range p.Fetches {
		cs := []string{common.I(f.ID)}
		for _, r := range f.Reasons {
			if r.Nullable {
				cs = append(cs, common.L(common.QS(r.Type), common.QS(r.Field)))
			}
		}
		if len(cs) > 1 {
			items = append(items, common.L(cs...))
		}
	}
	return common.L(items...)
}
