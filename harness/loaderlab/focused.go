package loaderlab

import (
	"strconv"

	"gvh/common"
	"gvh/plan"
)

// Focused universes and plans (C16b): one entity type A whose scalar fields live in subgraph 1, and
// a Query (subgraph 0) with several single links and lists of A.  Every plan of a history uses
// the SAME selection on A, so all its entity fetches share the operation text (= the selection
// part of the cache key) and differ only in which entities they ask for: batches of varying
// composition, single entities, duplicates.  Some entities are unknown to subgraph 1 (`null` in
// `_entities`, at any position of a batch).
type Focus struct {
	U      *Universe
	Links  []*FieldDef // Query fields
	SelFor []*FieldDef // the selection on A
}

func (g *Gen) FocusedUniverse() *Focus {
	r := g.R
	aT := &TypeDef{Name: "A"}
	kinds := []plan.Kind{plan.KStr, plan.KInt, plan.KBool, plan.KFloat}
	for i, n := range []string{"a", "b", "c"} {
		aT.Fields = append(aT.Fields, &FieldDef{Name: n, Scalar: kinds[(i+r.Pick(4))%4], Nullable: r.Chance(2, 3), Owner: 1})
	}
	qT := &TypeDef{Name: "Query"}
	for _, n := range []string{"s1", "s2", "s3", "s4"} {
		qT.Fields = append(qT.Fields, &FieldDef{Name: n, Target: "A", Nullable: true, Owner: 0})
	}
	for _, n := range []string{"l1", "l2", "l3"} {
		qT.Fields = append(qT.Fields, &FieldDef{Name: n, Target: "A", List: true, Nullable: true, ItemNullable: true, Owner: 0})
	}
	s := &Schema{NSub: 2, Types: []*TypeDef{aT}, Query: qT}
	s.Index()
	u := &Universe{Schema: s, Ents: map[string]*Ent{}, ErrOn: map[string]bool{}, Unknown: map[string]bool{}}
	n := 3 + r.Pick(3)
	var ids []string
	for i := 1; i <= n; i++ {
		id := strconv.Itoa(i)
		ids = append(ids, id)
		e := &Ent{Type: "A", ID: id, Vals: map[string]any{}}
		for _, f := range aT.Fields {
			e.Vals[f.Name] = g.scalarValue(f.Scalar, f.Nullable)
		}
		u.Ents["A/"+id] = e
		if r.Chance(1, 3) {
			u.Unknown["A/"+id+"/1"] = true
		}
		if g.Opt.ErrEntities && r.Chance(1, 8) {
			u.ErrOn["A/"+id+"/1"] = true
		}
	}
	u.Root = &Ent{Type: "Query", Vals: map[string]any{}}
	for _, f := range qT.Fields {
		if f.List {
			k := 1 + r.Pick(4)
			l := make([]*Ref, 0, k)
			for i := 0; i < k; i++ {
				l = append(l, &Ref{"A", common.PickOf(r, ids)}) // duplicates wanted
			}
			u.Root.Vals[f.Name] = l
		} else {
			u.Root.Vals[f.Name] = &Ref{"A", common.PickOf(r, ids)}
		}
	}
	fo := &Focus{U: u, Links: qT.Fields}
	for _, f := range aT.Fields {
		if r.Chance(2, 3) {
			fo.SelFor = append(fo.SelFor, f)
		}
	}
	if len(fo.SelFor) == 0 {
		fo.SelFor = aT.Fields[:1]
	}
	return fo
}

// Plan selects 1-3 of the Query links, each with the focus selection on A.
func (fo *Focus) Plan(r *common.Rand) *Plan {
	u := fo.U
	p := &Plan{U: u, Prov: map[*plan.Field]int{}}
	f0 := &Fetch{ID: 0, Kind: FSingle, Sub: 0, Type: "Query", Sel: &Sel{Type: "Query"}}
	p.Fetches = append(p.Fetches, f0)
	root := &plan.Node{Kind: plan.KObj, TypeName: "Query"}
	seq := &TNode{Kind: "seq", Kids: []*TNode{{Kind: "single", Fetch: f0}}}
	perm := r.Perm(len(fo.Links))
	k := 1 + r.Pick(3)
	for i := 0; i < k; i++ {
		link := fo.Links[perm[i]]
		f0.Sel.Field(link).Sub.Key = true
		kind := FEntity
		if link.List {
			kind = FBatch
		}
		f := &Fetch{ID: len(p.Fetches), Kind: kind, Sub: 1, Type: "A", Deps: []int{0}, Path: []PathElem{{Array: link.List, Name: link.Name}}, Sel: &Sel{Type: "A"}}
		p.Fetches = append(p.Fetches, f)
		seq.Kids = append(seq.Kids, &TNode{Kind: "single", Fetch: f})
		obj := &plan.Node{Kind: plan.KObj, Nullable: true, TypeName: "A"}
		for _, d := range fo.SelFor {
			f.Sel.Field(d)
			pf := &plan.Field{Name: d.Name, Value: &plan.Node{Kind: d.Scalar, Path: []string{d.Name}, Nullable: d.Nullable}}
			p.Prov[pf] = f.ID
			obj.Fields = append(obj.Fields, pf)
		}
		var val *plan.Node
		if link.List {
			val = &plan.Node{Kind: plan.KArr, Path: []string{link.Name}, Nullable: true, Item: obj}
		} else {
			obj.Path = []string{link.Name}
			val = obj
		}
		rf := &plan.Field{Name: link.Name, Value: val}
		p.Prov[rf] = 0
		root.Fields = append(root.Fields, rf)
	}
	p.Root = root
	p.Tree = seq
	p.Finalize(true)
	return p
}
