package loaderlab

import (
	"encoding/json"
	"regexp"
	"sort"
	"strings"

	"gvh/common"
	"gvh/plan"

	"github.com/tidwall/gjson"
	"github.com/wundergraph/astjson"
)

func valueErrKind(msg string) int {
	switch {
	case strings.HasPrefix(msg, "Cannot return null for non-nullable field"):
		return 1
	case strings.HasPrefix(msg, "Object cannot represent non-object value"):
		return 2
	case strings.Contains(msg, "for __typename field"):
		return 3
	case strings.HasPrefix(msg, "String cannot represent non-string value"):
		return 4
	case strings.HasPrefix(msg, "Bool cannot represent non-boolean value"):
		return 5
	case strings.HasPrefix(msg, "Int cannot represent non-integer value"):
		return 6
	case strings.HasPrefix(msg, "Float cannot represent non-float value"):
		return 7
	case strings.HasPrefix(msg, "Enum \""):
		return 8
	case strings.HasPrefix(msg, "Invalid value found for"):
		return 9
	case strings.HasPrefix(msg, "Array cannot represent non-array value"):
		return 10
	case strings.HasPrefix(msg, "Unable to resolve field"):
		return 11
	case strings.HasPrefix(msg, "Unauthorized to load field"):
		return 12
	}
	return 99
}

var reFetchErr = regexp.MustCompile(`^Failed to fetch from Subgraph '([^']*)' at Path '([^']*)'(?:, Reason: (.*))?\.$`)
var reStatus = regexp.MustCompile(`^\d+(: .*)?$`)
var reDepsErr = regexp.MustCompile(`^Failed to obtain field dependencies from Subgraph '([^']*)' at Path '([^']*)'\.$`)

// classify one entry of the response's errors array: (l kind fid) loader error, (v kind path) value completion
func classifyErr(p *Plan, item gjson.Result) string {
	msg := item.Get("message").String()
	if m := reFetchErr.FindStringSubmatch(msg); m != nil {
		fid := -1
		for _, f := range p.Fetches {
			if f.DSName() == m[1] && f.ResponsePath() == m[2] && (fid < 0 || f.ID < fid) {
				fid = f.ID // the message names subgraph and path only: the lowest id stands for all fetches there
			}
		}
		kind := 1
		switch {
		case m[3] == "":
			kind = 1
		case m[3] == "empty response":
			kind = 2
		case m[3] == "invalid JSON":
			kind = 3
		case m[3] == "no data or errors in response":
			kind = 4
		case strings.HasPrefix(m[3], "returned entities count does not match"):
			kind = 5
		default:
			kind = 98
		}
		return common.L("l", common.I(kind), common.I(fid))
	}
	if m := reDepsErr.FindStringSubmatch(msg); m != nil {
		fid := -1
		for _, f := range p.Fetches {
			if f.DSName() == m[1] && f.ResponsePath() == m[2] && (fid < 0 || f.ID < fid) {
				fid = f.ID
			}
		}
		return common.L("l", common.I(7), common.I(fid))
	}
	if reStatus.MatchString(msg) {
		return "(l 6 -1)"
	}
	ps := []string{"path"}
	item.Get("path").ForEach(func(_, pe gjson.Result) bool {
		if pe.Type == gjson.String {
			ps = append(ps, common.L("n", common.QS(pe.String())))
		} else {
			ps = append(ps, common.L("i", common.I(int(pe.Int()))))
		}
		return true
	})
	return common.L("v", common.I(valueErrKind(msg)), common.L(ps...))
}


// Observation of one response: validity, envelope shape, error kinds, data (raw bytes and tree).
type Observation struct {
	Valid, Env bool
	NErr       int
	Errs       []string // sorted S-expressions: (l kind fid) | (v kind (path ..))
	DataRaw    string
	DataSexp   string // (some <json>) | (none)
}

// Observe projects the response bytes of a successful resolve.
func (p *Plan) Observe(out []byte) Observation {
	o := Observation{Valid: json.Valid(out), DataSexp: "(none)"}
	if o.Valid {
		g := gjson.ParseBytes(out)
		want := "{"
		if e := g.Get("errors"); e.Exists() {
			want += `"errors":` + e.Raw + ","
			e.ForEach(func(_, item gjson.Result) bool {
				o.NErr++
				o.Errs = append(o.Errs, classifyErr(p, item))
				return true
			})
		}
		o.DataRaw = g.Get("data").Raw
		want += `"data":` + o.DataRaw + "}"
		o.Env = want == string(out)
	} else {
		// not JSON: cut the data member out of the envelope textually (for the model comparison)
		so := string(out)
		if strings.HasPrefix(so, `{"data":`) && strings.HasSuffix(so, "}") {
			o.DataRaw = so[len(`{"data":`) : len(so)-1]
		} else if i := strings.LastIndex(so, `],"data":`); i >= 0 && strings.HasSuffix(so, "}") {
			o.DataRaw = so[i+len(`],"data":`) : len(so)-1]
		}
	}
	if ov, e := astjson.ParseBytes(out); e == nil && ov.Get("data") != nil {
		o.DataSexp = common.L("some", plan.JSONSexp(ov.Get("data")))
	}
	sort.Strings(o.Errs)
	return o
}
