package loaderlab

import (
	"context"
	"errors"
	"sort"
	"strings"
	"sync"

	"github.com/cespare/xxhash/v2"

	"gvh/common"

	"github.com/wundergraph/graphql-go-tools/v2/pkg/caching"
)

// CacheFault: what the recording cache does on one call (by call index).
type CacheFault int

const (
	CFNone       CacheFault = iota
	CFGetErr                // GetMany returns an error
	CFSetErr                // SetMany returns an error, nothing stored
	CFSetPartial            // SetMany returns an error after storing the first half
	CFEvictOne              // GetMany: one of the found entries is dropped first (partial hit)
	CFEvictAll              // GetMany: the whole cache is dropped first
)

var cacheFaultNames = [...]string{"none", "get_err", "set_err", "set_partial", "evict_one", "evict_all"}

func (c CacheFault) String() string { return cacheFaultNames[c] }

// CacheOp is one logged cache call.
type CacheOp struct {
	Get    bool
	Keys   []string // GetMany: asked keys; SetMany: item keys
	Found  []string // GetMany: keys returned (sorted)
	Values []string // SetMany: item values
	TTLs   []int64  // SetMany: item TTLs (ns)
	Err    bool
	Fault  CacheFault
	Stored []string // SetMany: keys actually stored
	Run    int      // client request index (set by the harness through Mark)
	Seq    int      // number of upstream requests recorded in that run when the call was made
}

// RecordingCache implements caching.Cache; entries never expire (time is outside the lab).
type RecordingCache struct {
	mu     sync.Mutex
	m      map[string]caching.Item
	Log    []CacheOp
	Faults map[int]CacheFault // by call index
	Mark   func() (run, seq int)
}

func NewRecordingCache() *RecordingCache {
	return &RecordingCache{m: map[string]caching.Item{}, Faults: map[int]CacheFault{}}
}

func (c *RecordingCache) GetMany(ctx context.Context, keys []string) (map[string]caching.Item, error) {
	c.mu.Lock()
	defer c.mu.Unlock()
	f := c.Faults[len(c.Log)]
	op := CacheOp{Get: true, Keys: append([]string{}, keys...), Fault: f}
	if c.Mark != nil {
		op.Run, op.Seq = c.Mark()
	}
	switch f {
	case CFGetErr:
		op.Err = true
		c.Log = append(c.Log, op)
		return nil, errors.New("lab: cache get failed")
	case CFEvictOne:
		for _, k := range keys {
			if _, ok := c.m[k]; ok {
				delete(c.m, k)
				break
			}
		}
	case CFEvictAll:
		c.m = map[string]caching.Item{}
	}
	out := map[string]caching.Item{}
	for _, k := range keys {
		if it, ok := c.m[k]; ok {
			out[k] = it
			op.Found = append(op.Found, k)
		}
	}
	sort.Strings(op.Found)
	c.Log = append(c.Log, op)
	return out, nil
}

func (c *RecordingCache) SetMany(ctx context.Context, items []caching.Item) error {
	c.mu.Lock()
	defer c.mu.Unlock()
	f := c.Faults[len(c.Log)]
	op := CacheOp{Fault: f}
	if c.Mark != nil {
		op.Run, op.Seq = c.Mark()
	}
	for _, it := range items {
		op.Keys = append(op.Keys, it.Key)
		op.Values = append(op.Values, string(it.Value))
		op.TTLs = append(op.TTLs, int64(it.TTL))
	}
	n := len(items)
	switch f {
	case CFSetErr:
		n = 0
		op.Err = true
	case CFSetPartial:
		n = len(items) / 2
		op.Err = true
	}
	for _, it := range items[:n] {
		c.m[it.Key] = caching.Item{Key: it.Key, Value: append([]byte{}, it.Value...), TTL: it.TTL}
		op.Stored = append(op.Stored, it.Key)
	}
	c.Log = append(c.Log, op)
	if op.Err {
		return errors.New("lab: cache set failed")
	}
	return nil
}

// KeyOf recomputes the engine's cache key for (representation, header, footer).
func KeyOf(rep, header, footer string) string {
	d := xxhash.New()
	_, _ = d.Write([]byte(header))
	_, _ = d.Write([]byte{0})
	_, _ = d.Write([]byte(footer))
	return caching.Key(xxhash.Sum64([]byte(rep)), d.Sum64())
}

// ---------------------------------------------------------------- Cache-Control values (the C16(a) generator, condensed)

var ccNames = []string{"max-age", "s-maxage", "no-store", "no-cache", "public", "private", "must-revalidate", "immutable", "foo", "publicx"}
var ccNumbers = []string{"0", "1", "60", "300", "86400", "2147483647", "2147483648", "007", "-1", "1.5", "abc", ""}
var ccSeps = []string{",", ", ", " , ", ",,", "\t,\t"}

func randCase(r *common.Rand, s string) string {
	if r.Chance(1, 4) {
		return strings.ToUpper(s)
	}
	return s
}

// GenCacheControl returns 0-2 Cache-Control header lines: mostly storable, some refusing, some malformed.
func GenCacheControl(r *common.Rand) []string {
	one := func() string {
		switch k := r.Pick(10); {
		case k < 5: // mostly valid: public + lifetime
			parts := []string{}
			if r.Chance(9, 10) {
				parts = append(parts, randCase(r, "public"))
			}
			if r.Chance(1, 2) {
				parts = append(parts, randCase(r, "max-age")+"="+common.PickOf(r, ccNumbers[:6]))
			}
			if r.Chance(1, 3) {
				parts = append(parts, randCase(r, "s-maxage")+"="+common.PickOf(r, ccNumbers[:6]))
			}
			if r.Chance(1, 5) {
				parts = append(parts, common.PickOf(r, []string{"must-revalidate", "immutable", `ext="a, no-store"`, `ext="private"`}))
			}
			r.Shuffle(len(parts), func(i, j int) { parts[i], parts[j] = parts[j], parts[i] })
			return strings.Join(parts, common.PickOf(r, ccSeps))
		case k < 8: // arbitrary directive list
			n := r.Pick(4)
			parts := make([]string, n)
			for i := range parts {
				parts[i] = randCase(r, common.PickOf(r, ccNames))
				if r.Chance(1, 3) {
					parts[i] += "=" + common.PickOf(r, ccNumbers)
				}
			}
			return strings.Join(parts, common.PickOf(r, ccSeps))
		case k < 9:
			return common.PickOf(r, []string{"public, no-store", "private", "no-cache", "public, private=\"x\"", "PUBLIC, NO-STORE", "public, max-age=0"})
		}
		return common.PickOf(r, []string{`public, x="unterminated`, "pub lic", "\x00public", `public="`, "public;max-age=5", `a="\", public, b="`})
	}
	switch r.Pick(8) {
	case 0:
		return nil
	case 1:
		return []string{one(), one()}
	}
	return []string{one()}
}
