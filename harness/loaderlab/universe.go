// Package loaderlab: a planner-free test bed for v2/pkg/engine/resolve's Loader (+ Resolvable).
//
// It generates resolve-level plans directly (response tree + fetch tree, the way the planner and
// the post-processor would emit them), a small data universe (entity table) that acts as a
// POINTWISE deterministic subgraph oracle, scripted DataSources that record every request and can
// inject the C07 fault kinds, and a recording caching.Cache for C16(b).  Everything is run through
// the real resolve.Resolver.ResolveGraphQLResponse.
package loaderlab

import (
	"sort"
	"strconv"
	"strings"

	"gvh/common"
	"gvh/plan"
)

// ---------------------------------------------------------------- schema + data universe

// FieldDef is a field of an entity type (or of Query).  Scalar != 0 for leaves; Target != "" for
// links to an entity type.  Owner is the subgraph that resolves the field.
type FieldDef struct {
	Name         string
	Scalar       plan.Kind // KStr, KInt, KFloat, KBool for leaves
	Target       string    // entity type for object / list-of-object fields
	List         bool
	Nullable     bool
	ItemNullable bool
	Owner        int
	Requires     *FieldDef // the entity fetch that resolves this field needs that (scalar) field in the representation
}

type TypeDef struct {
	Name      string
	Fields    []*FieldDef
	ChainTail *FieldDef // ReqChains: the last field of the type's @requires chain
}

type Schema struct {
	NSub  int
	Query *TypeDef
	Types []*TypeDef
	byN   map[string]*TypeDef
}

func (s *Schema) Type(n string) *TypeDef { return s.byN[n] }

// Index (re)builds the name index (for hand-built schemas).
func (s *Schema) Index() {
	s.byN = map[string]*TypeDef{}
	for _, t := range s.Types {
		s.byN[t.Name] = t
	}
	if s.Query != nil {
		s.byN["Query"] = s.Query
	}
}

type Ref struct{ Type, ID string }

// Ent: Vals[field] is a JSON text (scalar), *Ref (nil = null) or []*Ref.
type Ent struct {
	Type, ID string
	Vals     map[string]any
}

type Universe struct {
	Schema *Schema
	Ents   map[string]*Ent // "T/id"
	Root   *Ent
	// ErrOn["T/id/sub"]: the subgraph answers this entity with an `errors` entry (and null for its first field)
	ErrOn map[string]bool
	// Unknown["T/id/sub"]: the subgraph does not know this entity: it answers `null` at its position in
	// `_entities` (a legitimate answer, no error)
	Unknown map[string]bool
}

var entityTypeNames = []string{"A", "B", "C"}
var scalarFieldNames = []string{"a", "b", "c", "d", "e"}
var linkFieldNames = []string{"p", "q", "r"}
var strPool = []string{`"x"`, `""`, `"hello world"`, `"q\"uote"`, `"tab\there"`, `"é世"`, `"0"`}
var intPool = []string{"0", "1", "-7", "42", "2147483647"}
var floatPool = []string{"0", "1.5", "-0.25", "1e3", "42"}

// GenOptions tunes the generator.
type GenOptions struct {
	MaxDepth    int
	Subgraphs   int  // 2..4
	Requires    bool // allow @requires-like dependencies between entity fetches
	NullableReq bool // allow the required field to be nullable in the representation (C07 probe)
	ErrEntities bool // some entities answer with errors (C16b: never cached)
	UnknownEntities bool // some entities are unknown to some subgraph: `null` inside `_entities` (no error)
	Serial      bool // force a fully serial fetch tree
	SharedOps   bool // operation text depends on the selection only (two fetches may send identical requests; C16b wants shared cache keys)
	// ReqChains: @requires chains of length 3..4 per entity type (x <- y <- z: z's fetch depends on y's, y's on x's,
	// z's NOT on x's) plus further fields requiring a chain member (a DAG); mostly nullable inputs (with NullableReq)
	ReqChains bool
	// DepSingles: some root (Single) fetches get DependsOnFetchIDs on an entity / batch fetch of the plan
	DepSingles bool
	// Taint (ValidateRequiredExternalFields): more @requires with nullable inputs, longer lists with duplicates and null
	// items (de-duplicated / skipped representations before a failing entity), fields with @requires selected first
	Taint bool
}

type Gen struct {
	R   *common.Rand
	Opt GenOptions
}

func (g *Gen) scalarValue(k plan.Kind, nullable bool) string {
	if nullable && g.R.Chance(1, 7) {
		return "null"
	}
	switch k {
	case plan.KStr:
		return common.PickOf(g.R, strPool)
	case plan.KInt:
		return common.PickOf(g.R, intPool)
	case plan.KFloat:
		return common.PickOf(g.R, floatPool)
	default:
		if g.R.Chance(1, 2) {
			return "true"
		}
		return "false"
	}
}

func (g *Gen) typeFields(t *TypeDef, nsub int, isQuery bool) {
	ns := 2 + g.R.Pick(4)
	if isQuery {
		ns = g.R.Pick(3)
	} else if g.Opt.ReqChains {
		ns = 4 + g.R.Pick(2)
	}
	kinds := []plan.Kind{plan.KStr, plan.KStr, plan.KInt, plan.KFloat, plan.KBool}
	perm := g.R.Perm(len(scalarFieldNames))
	for i := 0; i < ns && i < len(perm); i++ {
		t.Fields = append(t.Fields, &FieldDef{Name: scalarFieldNames[perm[i]], Scalar: common.PickOf(g.R, kinds),
			Nullable: g.R.Chance(1, 2), Owner: g.R.Pick(nsub)})
	}
	nl := 1 + g.R.Pick(3)
	if isQuery {
		nl = 2 + g.R.Pick(2)
	}
	perm = g.R.Perm(len(linkFieldNames))
	for i := 0; i < nl && i < len(perm); i++ {
		t.Fields = append(t.Fields, &FieldDef{Name: linkFieldNames[perm[i]], Target: common.PickOf(g.R, entityTypeNames),
			List: g.R.Chance(1, 2), Nullable: g.R.Chance(1, 2), ItemNullable: g.R.Chance(1, 2), Owner: g.R.Pick(nsub)})
	}
	if g.Opt.ReqChains && !isQuery {
		var sc []*FieldDef
		for _, f := range t.Fields {
			if f.Scalar != 0 {
				sc = append(sc, f)
			}
		}
		l := 3 + g.R.Pick(2)
		if l > len(sc) {
			l = len(sc)
		}
		for i := 1; i < l; i++ {
			if sc[i].Owner == sc[i-1].Owner {
				sc[i].Owner = (sc[i].Owner + 1 + g.R.Pick(nsub-1)) % nsub
			}
			sc[i].Requires = sc[i-1]
			if g.Opt.NullableReq {
				sc[i-1].Nullable = g.R.Chance(3, 4)
			} else {
				sc[i-1].Nullable = false
			}
			t.ChainTail = sc[i]
		}
		// the other scalars may need a member of the chain as well (two inputs of one fetch: a DAG)
		for _, f := range sc[l:] {
			if !g.R.Chance(1, 2) {
				continue
			}
			r := sc[g.R.Pick(l)]
			if r.Owner != f.Owner && (g.Opt.NullableReq || !r.Nullable) {
				f.Requires = r
			}
		}
		return
	}
	if g.Opt.Requires && !isQuery {
		// some scalar fields require another scalar field of the same type owned by a different subgraph
		for _, f := range t.Fields {
			if g.Opt.Taint {
				if f.Scalar == 0 || !g.R.Chance(2, 3) {
					continue
				}
			} else if f.Scalar == 0 || !g.R.Chance(1, 3) {
				continue
			}
			for _, r := range t.Fields {
				if r != f && r.Scalar != 0 && r.Owner != f.Owner && r.Requires == nil && (g.Opt.NullableReq || !r.Nullable) {
					f.Requires = r
					if g.Opt.Taint && g.R.Chance(3, 4) {
						r.Nullable = true
					}
					break
				}
			}
		}
		// no chains of requires (keeps the dependency structure two-level per object)
		for _, f := range t.Fields {
			if f.Requires != nil && f.Requires.Requires != nil {
				f.Requires = nil
			}
		}
		for _, f := range t.Fields {
			if f.Requires != nil {
				for _, h := range t.Fields {
					if h.Requires == f {
						h.Requires = nil
					}
				}
			}
		}
	}
}

// Universe generates schema and entity table.
func (g *Gen) Universe() *Universe {
	nsub := g.Opt.Subgraphs
	if nsub < 2 {
		nsub = 2 + g.R.Pick(3)
		if g.Opt.Taint && nsub < 3 {
			nsub = 3
		}
	}
	s := &Schema{NSub: nsub, byN: map[string]*TypeDef{}}
	for _, n := range entityTypeNames {
		t := &TypeDef{Name: n}
		g.typeFields(t, nsub, false)
		s.Types = append(s.Types, t)
		s.byN[n] = t
	}
	s.Query = &TypeDef{Name: "Query"}
	g.typeFields(s.Query, nsub, true)
	s.byN["Query"] = s.Query
	if g.Opt.Taint {
		// the provider of a required field should be a nested (batch) entity fetch: the link that leads to the type is
		// owned by another subgraph than the required field; mostly lists
		for _, t := range append([]*TypeDef{s.Query}, s.Types...) {
			for _, l := range t.Fields {
				if l.Target == "" {
					continue
				}
				if g.R.Chance(2, 3) {
					l.List = true
				}
				for _, y := range s.byN[l.Target].Fields {
					if y.Requires != nil && y.Requires.Owner == l.Owner {
						l.Owner = (l.Owner + 1 + g.R.Pick(nsub-1)) % nsub
					}
				}
			}
		}
	}
	u := &Universe{Schema: s, Ents: map[string]*Ent{}, ErrOn: map[string]bool{}, Unknown: map[string]bool{}}
	ids := []string{"1", "2", "3", "4"}
	for _, t := range s.Types {
		n := 2 + g.R.Pick(3)
		for i := 0; i < n; i++ {
			u.Ents[t.Name+"/"+ids[i]] = &Ent{Type: t.Name, ID: ids[i], Vals: map[string]any{}}
		}
	}
	idsOf := func(tn string) []string {
		var out []string
		for _, id := range ids {
			if _, ok := u.Ents[tn+"/"+id]; ok {
				out = append(out, id)
			}
		}
		return out
	}
	fill := func(e *Ent, t *TypeDef) {
		for _, f := range t.Fields {
			if f.Scalar != 0 {
				e.Vals[f.Name] = g.scalarValue(f.Scalar, f.Nullable)
				continue
			}
			cand := idsOf(f.Target)
			if f.List {
				if f.Nullable && g.R.Chance(1, 10) {
					e.Vals[f.Name] = []*Ref(nil)
					continue
				}
				n := g.R.Pick(4)
				nullIn := 8
				if g.Opt.Taint {
					n, nullIn = 2+g.R.Pick(5), 5
				}
				l := make([]*Ref, 0, n)
				for i := 0; i < n; i++ {
					if f.ItemNullable && g.R.Chance(1, nullIn) {
						l = append(l, nil)
					} else {
						l = append(l, &Ref{f.Target, common.PickOf(g.R, cand)}) // duplicates wanted (de-duplication)
					}
				}
				if l == nil {
					l = []*Ref{}
				}
				e.Vals[f.Name] = l
			} else {
				if f.Nullable && g.R.Chance(1, 8) {
					e.Vals[f.Name] = (*Ref)(nil)
				} else {
					e.Vals[f.Name] = &Ref{f.Target, common.PickOf(g.R, cand)}
				}
			}
		}
	}
	keys := make([]string, 0, len(u.Ents))
	for k := range u.Ents {
		keys = append(keys, k)
	}
	sort.Strings(keys)
	for _, k := range keys {
		e := u.Ents[k]
		fill(e, s.byN[e.Type])
		if g.Opt.ErrEntities && g.R.Chance(1, 6) {
			u.ErrOn[k+"/"+strconv.Itoa(g.R.Pick(nsub))] = true
		}
		if g.Opt.UnknownEntities && g.R.Chance(1, 4) {
			u.Unknown[k+"/"+strconv.Itoa(g.R.Pick(nsub))] = true
		}
	}
	u.Root = &Ent{Type: "Query", ID: "", Vals: map[string]any{}}
	fill(u.Root, s.Query)
	return u
}

// ---------------------------------------------------------------- selections and the pointwise oracle

// Sel is the selection a fetch makes on an object of type Type.
type Sel struct {
	Type   string
	Key    bool // __typename and id are selected (a nested entity fetch is anchored here)
	Fields []*SelField
}
type SelField struct {
	Def *FieldDef
	Sub *Sel
}

func (s *Sel) Field(d *FieldDef) *SelField {
	for _, f := range s.Fields {
		if f.Def == d {
			return f
		}
	}
	f := &SelField{Def: d}
	if d.Target != "" {
		f.Sub = &Sel{Type: d.Target}
	}
	s.Fields = append(s.Fields, f)
	return f
}

// Text renders the selection as GraphQL-ish text (only used to make the operation text realistic
// and distinct per selection: it is the cache key's "selection" part).
func (s *Sel) Text() string {
	var parts []string
	if s.Key {
		parts = append(parts, "__typename", "id")
	}
	for _, f := range s.Fields {
		if f.Sub != nil {
			parts = append(parts, f.Def.Name+" "+f.Sub.Text())
		} else {
			parts = append(parts, f.Def.Name)
		}
	}
	return "{" + strings.Join(parts, " ") + "}"
}

type projOpts struct {
	nan bool // print every number as NaN (fault probe)
}

// project builds the JSON text the subgraph `sub` returns for entity e under selection s.
// top: the entity root of an _entities answer (always carries __typename).
func (u *Universe) project(e *Ent, s *Sel, sub int, top bool, o projOpts, nerrs *int) string {
	if e == nil {
		return "null"
	}
	var sb strings.Builder
	sb.WriteByte('{')
	first := true
	member := func(k, v string) {
		if !first {
			sb.WriteByte(',')
		}
		first = false
		sb.WriteString(strconv.Quote(k))
		sb.WriteByte(':')
		sb.WriteString(v)
	}
	if (top || s.Key) && e.Type != "Query" {
		member("__typename", strconv.Quote(e.Type))
	}
	if s.Key && e.Type != "Query" {
		member("id", strconv.Quote(e.ID))
	}
	errEnt := u.ErrOn[e.Type+"/"+e.ID+"/"+strconv.Itoa(sub)]
	for i, f := range s.Fields {
		v := e.Vals[f.Def.Name]
		if errEnt && i == 0 && top {
			*nerrs++
			if f.Def.Nullable {
				member(f.Def.Name, "null")
			}
			continue
		}
		switch x := v.(type) {
		case string:
			if o.nan && (f.Def.Scalar == plan.KInt || f.Def.Scalar == plan.KFloat) && x != "null" {
				x = "NaN"
			}
			member(f.Def.Name, x)
		case *Ref:
			if x == nil {
				member(f.Def.Name, "null")
			} else {
				member(f.Def.Name, u.project(u.Ents[x.Type+"/"+x.ID], f.Sub, sub, false, o, nerrs))
			}
		case []*Ref:
			if x == nil {
				member(f.Def.Name, "null")
				break
			}
			items := make([]string, len(x))
			for j, r := range x {
				if r == nil {
					items[j] = "null"
				} else {
					items[j] = u.project(u.Ents[r.Type+"/"+r.ID], f.Sub, sub, false, o, nerrs)
				}
			}
			member(f.Def.Name, "["+strings.Join(items, ",")+"]")
		default:
			member(f.Def.Name, "null")
		}
	}
	sb.WriteByte('}')
	return sb.String()
}
