package fedlab

import (
	"bufio"
	"fmt"
	"io"
	"os"
	"os/exec"
	"path/filepath"
	"strconv"
	"sync"

	"gvh/common"
)

// ExecServer is one long-lived bin/model_exec child process (the Coq-extracted reference
// executor).  Requests are serialised by a mutex; a crashed child is restarted once and the
// definitions are replayed.
type ExecServer struct {
	mu   sync.Mutex
	path string
	cmd  *exec.Cmd
	in   io.WriteCloser
	out  *bufio.Reader
	defs map[string]string // id -> "(def id schema universe)" line, replayed on restart
	ids  []string
	// Calls counts protocol round trips (throughput figures).
	Calls int
}

// ExecPath locates bin/model_exec: $FEDLAB_EXEC, else /verif/bin/model_exec, else relative to
// the executable.
func ExecPath() string {
	if p := os.Getenv("FEDLAB_EXEC"); p != "" {
		return p
	}
	if _, err := os.Stat("/verif/bin/model_exec"); err == nil {
		return "/verif/bin/model_exec"
	}
	exe, _ := os.Executable()
	return filepath.Join(filepath.Dir(exe), "..", "..", "bin", "model_exec")
}

func NewExecServer(path string) (*ExecServer, error) {
	if path == "" {
		path = ExecPath()
	}
	s := &ExecServer{path: path, defs: map[string]string{}}
	if err := s.start(); err != nil {
		return nil, err
	}
	return s, nil
}

func (s *ExecServer) start() error {
	cmd := exec.Command(s.path)
	in, err := cmd.StdinPipe()
	if err != nil {
		return err
	}
	out, err := cmd.StdoutPipe()
	if err != nil {
		return err
	}
	cmd.Stderr = os.Stderr
	if err := cmd.Start(); err != nil {
		return fmt.Errorf("start %s: %w", s.path, err)
	}
	s.cmd, s.in, s.out = cmd, in, bufio.NewReaderSize(out, 1<<20)
	return nil
}

func (s *ExecServer) stop() {
	if s.cmd != nil {
		s.in.Close()
		s.cmd.Process.Kill()
		s.cmd.Wait()
		s.cmd = nil
	}
}

func (s *ExecServer) Close() {
	s.mu.Lock()
	defer s.mu.Unlock()
	s.stop()
}

func (s *ExecServer) roundTrip(line string) (string, error) {
	if s.cmd == nil {
		return "", fmt.Errorf("exec server not running")
	}
	if _, err := io.WriteString(s.in, line+"\n"); err != nil {
		return "", err
	}
	ans, err := s.out.ReadString('\n')
	if err != nil {
		return "", err
	}
	s.Calls++
	return ans[:len(ans)-1], nil
}

// call sends one line; on a broken pipe it restarts the child, replays the definitions and
// retries once.
func (s *ExecServer) call(line string) (string, error) {
	ans, err := s.roundTrip(line)
	if err == nil {
		return ans, nil
	}
	s.stop()
	if err2 := s.start(); err2 != nil {
		return "", fmt.Errorf("exec server died (%v) and could not be restarted: %w", err, err2)
	}
	for _, id := range s.ids {
		if d, ok := s.defs[id]; ok {
			if _, err2 := s.roundTrip(d); err2 != nil {
				return "", fmt.Errorf("exec server died (%v); replay failed: %w", err, err2)
			}
		}
	}
	ans, err2 := s.roundTrip(line)
	if err2 != nil {
		return "", fmt.Errorf("exec server died twice on the same request: %v / %v", err, err2)
	}
	return ans, nil
}

// Def registers (schema, universe) under id.
func (s *ExecServer) Def(id string, sch *Schema, u *Universe) error {
	s.mu.Lock()
	defer s.mu.Unlock()
	line := common.L("def", id, sch.Sexp(), u.Sexp())
	ans, err := s.call(line)
	if err != nil {
		return err
	}
	if ans != "(ok)" {
		return fmt.Errorf("def %s: %s", id, ans)
	}
	if _, ok := s.defs[id]; !ok {
		s.ids = append(s.ids, id)
	}
	s.defs[id] = line
	return nil
}

func (s *ExecServer) Undef(id string) {
	s.mu.Lock()
	defer s.mu.Unlock()
	if _, ok := s.defs[id]; ok {
		delete(s.defs, id)
		s.call(common.L("undef", id))
	}
}

// ExecResult is one answer of the reference executor.
type ExecResult struct {
	Data     *J     // the data member ((n) = null)
	NErrors  int    // number of errors
	ErrPaths []*J   // each a JSON array of path elements (resolver errors / non-null violations)
	Invalid  string // non-empty: the request itself is not executable against the schema
	Raw      string // the answer line
}

// Exec runs a dumped document in the given mode ("mono" | "sub").
func (s *ExecServer) Exec(id, mode, docSexp, opName string, vars *J) (*ExecResult, error) {
	if vars == nil {
		vars = JO()
	}
	s.mu.Lock()
	ans, err := s.call(common.L("exec", id, mode, docSexp, optName(opName), vars.Sexp()))
	s.mu.Unlock()
	if err != nil {
		return nil, err
	}
	x, err := ParseSexp(ans)
	if err != nil {
		return nil, fmt.Errorf("exec answer: %w: %s", err, trunc(ans, 300))
	}
	if x.Head() == "error" {
		msg := ""
		if len(x.List) > 1 {
			msg = x.List[1].Str
		}
		return nil, fmt.Errorf("exec server error: %s", msg)
	}
	if x.Head() != "res" || len(x.List) != 4 {
		return nil, fmt.Errorf("exec answer not understood: %s", trunc(ans, 300))
	}
	data, err := JSONOfSexp(x.List[1])
	if err != nil {
		return nil, err
	}
	n, _ := strconv.Atoi(x.List[2].Atom)
	res := &ExecResult{Data: data, NErrors: n, Raw: ans}
	for _, p := range x.List[3].List[1:] {
		switch p.Head() {
		case "invalid":
			res.Invalid = "invalid"
			if len(p.List) > 1 {
				res.Invalid = "invalid: " + p.List[1].Str
			}
		case "outoffuel":
			res.Invalid = "invalid: out of fuel"
		case "path":
			arr := &J{Kind: JArr}
			for _, el := range p.List[1:] {
				if el.IsStr {
					arr.Items = append(arr.Items, JS(el.Str))
				} else {
					arr.Items = append(arr.Items, JNumRaw(el.Atom))
				}
			}
			res.ErrPaths = append(res.ErrPaths, arr)
		}
	}
	return res, nil
}

// HTTPBody is the GraphQL-over-HTTP response body a subgraph would send for this result.
func (r *ExecResult) HTTPBody() []byte {
	if r.Invalid != "" {
		return []byte(JO(Member{"errors", JA(JO(Member{"message", JS(r.Invalid)}))}).String())
	}
	out := JO(Member{"data", r.Data})
	if r.NErrors > 0 {
		errs := &J{Kind: JArr}
		for _, p := range r.ErrPaths {
			errs.Items = append(errs.Items, JO(Member{"message", JS("resolver error")}, Member{"path", p}))
		}
		for len(errs.Items) < r.NErrors {
			errs.Items = append(errs.Items, JO(Member{"message", JS("resolver error")}))
		}
		out.Members = append(out.Members, Member{"errors", errs})
	}
	return []byte(out.String())
}
