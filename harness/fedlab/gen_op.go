package fedlab

import (
	"fmt"
	"strings"

	"gvh/common"
)

// scope tracks the response keys of one merged selection set (all fragments flattened) so that
// the generated operation satisfies FieldsInSetCanMerge by construction: one response key maps
// to one (field, arguments, type) signature, whatever the type conditions are.
type scope struct {
	keys map[string]*scopeEntry
}
type scopeEntry struct {
	sig   string
	child *scope
}

func newScope() *scope { return &scope{keys: map[string]*scopeEntry{}} }

type opGen struct {
	r        *common.Rand
	k        Knobs
	c        *Config
	u        *Universe
	op       *Operation
	vars     []Member
	nvar     int
	nfrag    int
	maxDepth int
	budget   int
}

// GenOperation generates a query that is valid against the supergraph by construction.
func GenOperation(r *common.Rand, k Knobs, c *Config, u *Universe) *Operation {
	g := &opGen{r: r, k: k, c: c, u: u, op: &Operation{}}
	g.maxDepth = 2 + r.Pick(2)
	if k["deep"] {
		g.maxDepth = 2 + r.Pick(4)
	}
	g.budget = 14 + r.Pick(30)
	if r.Chance(1, 2) {
		g.op.Name = "Q"
	}
	sc := newScope()
	g.op.Sels = g.sels(c.Super.Query, 0, sc, true)
	g.op.Variables = JO(g.vars...)
	return g.op
}

func argsText(args []Arg) string {
	var sb strings.Builder
	printArgs(&sb, args)
	return sb.String()
}

// leafFields / compositeFields of an object or interface type
func (g *opGen) splitFields(td *TypeDef) (leaf, comp []*FieldDef) {
	for _, fd := range td.Fields {
		if g.c.Super.IsLeaf(fd.Type.Base()) {
			leaf = append(leaf, fd)
		} else {
			comp = append(comp, fd)
		}
	}
	return
}

func (g *opGen) sels(typ string, depth int, sc *scope, root bool) []*Sel {
	td := g.c.Super.Type(typ)
	var out []*Sel
	switch td.Kind {
	case KObject, KInterface:
		out = g.objectSels(td, depth, sc, root)
		if td.Kind == KInterface && depth < g.maxDepth {
			forced := ""
			// a field that carries @requires on one implementer, selected on the interface itself
			// together with a fragment on that implementer
			for _, fd := range td.Fields {
				for _, m := range g.c.Super.PossibleTypes(typ) {
					if forced == "" && g.c.RequiresOf(m, fd.Name) != "" && g.r.Chance(2, 3) {
						out = append(out, g.field(td, fd, depth, sc))
						forced = m
					}
				}
			}
			// a list-of-objects field declared by the interface, selected on the interface
			for _, fd := range td.Fields {
				if fd.Type.IsList() && !g.c.Super.IsLeaf(fd.Type.Base()) && g.budget > 0 && g.r.Chance(1, 2) {
					out = append(out, g.field(td, fd, depth, sc))
					break
				}
			}
			if g.k["inlinefragments"] || forced != "" {
				for _, m := range g.c.Super.PossibleTypes(typ) {
					if m == forced || (g.k["inlinefragments"] && g.r.Chance(1, 2)) {
						out = append(out, g.fragmentOn(m, depth, sc))
					}
				}
			}
		}
	case KUnion:
		if g.k["typename"] || g.r.Chance(1, 2) {
			out = append(out, g.field(td, &FieldDef{Name: "__typename", Type: NonNull(Named("String"))}, depth, sc))
		}
		n := 0
		for _, m := range td.Members {
			if g.r.Chance(2, 3) {
				out = append(out, g.fragmentOn(m, depth, sc))
				n++
			}
		}
		if n == 0 && len(out) == 0 {
			out = append(out, g.fragmentOn(td.Members[0], depth, sc))
		}
	}
	if g.k["covariant"] {
		out = append(out, g.covariantSels(td, depth, sc, root)...)
	}
	if g.k["scopedhops"] {
		out = append(out, g.scopedHopSels(td, depth, sc, root)...)
	}
	if g.k["nestedlists"] {
		out = append(out, g.nestedSels(td, depth, sc, root)...)
	}
	if g.k["listrequires"] {
		out = append(out, g.listReqSels(td, depth, sc)...)
	}
	if len(out) == 0 {
		out = append(out, g.field(td, &FieldDef{Name: "__typename", Type: NonNull(Named("String"))}, depth, sc))
	}
	return out
}

// fragmentOn emits "... on T {…}" or a named fragment spread for concrete type T into the same scope.
func (g *opGen) fragmentOn(typ string, depth int, sc *scope) *Sel {
	inner := g.objectSels(g.c.Super.Type(typ), depth, sc, false)
	if len(inner) == 0 {
		inner = []*Sel{g.field(g.c.Super.Type(typ), &FieldDef{Name: "__typename", Type: NonNull(Named("String"))}, depth, sc)}
	}
	if g.k["fragments"] && g.r.Chance(1, 3) {
		g.nfrag++
		name := fmt.Sprintf("F%d", g.nfrag)
		g.op.Frags = append(g.op.Frags, &FragDef{Name: name, On: typ, Sels: inner})
		return &Sel{Kind: SSpread, Name: name, Dirs: g.dirs()}
	}
	return &Sel{Kind: SInline, On: typ, Sels: inner, Dirs: g.dirs()}
}

func (g *opGen) objectSels(td *TypeDef, depth int, sc *scope, root bool) []*Sel {
	leaf, comp := g.splitFields(td)
	var out []*Sel
	if g.k["typename"] && g.r.Chance(1, 5) {
		out = append(out, g.field(td, &FieldDef{Name: "__typename", Type: NonNull(Named("String"))}, depth, sc))
	}
	canDescend := depth < g.maxDepth && g.budget > 0
	nLeaf := g.r.Pick(4)
	if root {
		nLeaf = g.r.Pick(2)
	}
	nComp := 0
	if canDescend && len(comp) > 0 {
		nComp = 1 + g.r.Pick(2)
		if root {
			nComp = 1 + g.r.Pick(3)
		}
	}
	if nLeaf+nComp == 0 {
		nLeaf = 1
	}
	if len(leaf) == 0 {
		nLeaf = 0
	}
	// interleave leaves and composites in a random order
	type pick struct {
		fd *FieldDef
	}
	var picks []pick
	for i := 0; i < nLeaf; i++ {
		picks = append(picks, pick{common.PickOf(g.r, leaf)})
	}
	for i := 0; i < nComp; i++ {
		picks = append(picks, pick{common.PickOf(g.r, comp)})
	}
	g.r.Shuffle(len(picks), func(a, b int) { picks[a], picks[b] = picks[b], picks[a] })
	seen := map[string]bool{}
	for _, p := range picks {
		if seen[p.fd.Name] && !(g.k["dupfields"] && g.r.Chance(1, 3)) {
			continue
		}
		seen[p.fd.Name] = true
		out = append(out, g.field(td, p.fd, depth, sc))
	}
	// wrap a part of the selection in an inline fragment without / with the own type condition
	if g.k["inlinefragments"] && len(out) >= 2 && g.r.Chance(1, 6) && td.Kind == KObject {
		i := g.r.Pick(len(out))
		w := &Sel{Kind: SInline, Sels: []*Sel{out[i]}, Dirs: g.dirs()}
		if g.r.Chance(1, 2) {
			w.On = td.Name
		}
		out[i] = w
	} else if g.k["fragments"] && len(out) >= 2 && g.r.Chance(1, 8) && td.Kind == KObject {
		i := g.r.Pick(len(out))
		g.nfrag++
		name := fmt.Sprintf("F%d", g.nfrag)
		g.op.Frags = append(g.op.Frags, &FragDef{Name: name, On: td.Name, Sels: []*Sel{out[i]}})
		out[i] = &Sel{Kind: SSpread, Name: name}
	}
	return out
}

func (g *opGen) field(parent *TypeDef, fd *FieldDef, depth int, sc *scope) *Sel {
	g.budget--
	s := &Sel{Kind: SField, Name: fd.Name}
	s.Args = g.args(parent.Name, fd)
	sig := g.sigOf(fd, s.Args)
	key := fd.Name
	if g.k["aliases"] && g.r.Chance(1, 6) {
		key = fmt.Sprintf("al%d", g.r.Pick(4))
	}
	for {
		e, ok := sc.keys[key]
		if !ok || e.sig == sig {
			break
		}
		key = fmt.Sprintf("%s_%d", fd.Name, len(sc.keys))
	}
	if key != fd.Name {
		s.Alias = key
	}
	e := sc.keys[key]
	if e == nil {
		e = &scopeEntry{sig: sig}
		sc.keys[key] = e
	}
	s.Dirs = g.dirs()
	if fd.Name != "__typename" && !g.c.Super.IsLeaf(fd.Type.Base()) {
		if e.child == nil {
			e.child = newScope()
		}
		s.Sels = g.sels(fd.Type.Base(), depth+1, e.child, false)
	}
	return s
}

func (g *opGen) dirs() []Dir {
	if !g.k["skipinclude"] || !g.r.Chance(1, 10) {
		return nil
	}
	name := "skip"
	val := g.r.Chance(1, 4)
	if g.r.Chance(1, 2) {
		name = "include"
		val = !val
	}
	var v *Value
	if g.k["variables"] && g.r.Chance(1, 2) {
		v = g.newVar(NonNull(Named("Boolean")), JB(val))
	} else {
		v = &Value{Kind: VBool, Raw: fmt.Sprint(val)}
	}
	return []Dir{{Name: name, Args: []Arg{{Name: "if", Val: v}}}}
}

func (g *opGen) newVar(t *TypeRef, val *J) *Value {
	g.nvar++
	name := fmt.Sprintf("v%d", g.nvar)
	g.op.Vars = append(g.op.Vars, &VarDef{Name: name, Type: t})
	g.vars = append(g.vars, Member{name, val})
	return &Value{Kind: VVar, Raw: name}
}

func (g *opGen) args(parentType string, fd *FieldDef) []Arg {
	var out []Arg
	for _, a := range fd.Args {
		required := a.Type.IsNonNull() && a.Default == nil
		if !required && !g.r.Chance(3, 5) {
			continue
		}
		var lit *Value
		var js *J
		if lk, ok := g.c.Lookups[parentType+"."+fd.Name]; ok && lk.Arg == a.Name {
			id := "nosuch"
			if ents := g.u.OfType(lk.Type); len(ents) > 0 && g.r.Chance(5, 6) {
				id = common.PickOf(g.r, ents).Key
			}
			lit, js = &Value{Kind: VStr, Raw: id}, JS(id)
		} else {
			lit, js = g.value(a.Type, 0)
		}
		if g.k["variables"] && g.r.Chance(2, 5) {
			out = append(out, Arg{Name: a.Name, Val: g.newVar(a.Type, js)})
		} else {
			out = append(out, Arg{Name: a.Name, Val: lit})
		}
	}
	return out
}

// value generates a literal of type t together with the equal JSON value.
func (g *opGen) value(t *TypeRef, depth int) (*Value, *J) {
	if !t.IsNonNull() && g.r.Chance(1, 12) {
		return &Value{Kind: VNull}, JN()
	}
	t = t.Nullable()
	if t.Kind == TList {
		n := g.r.Pick(3)
		lv, lj := &Value{Kind: VList}, &J{Kind: JArr}
		for i := 0; i < n; i++ {
			v, j := g.value(t.Of, depth+1)
			lv.Items = append(lv.Items, v)
			lj.Items = append(lj.Items, j)
		}
		return lv, lj
	}
	switch t.Name {
	case "Int":
		raw := fmt.Sprint(g.r.Pick(200) - 100)
		return &Value{Kind: VInt, Raw: raw}, JNumRaw(raw)
	case "Float":
		raw := common.PickOf(g.r, []string{"1.5", "-0.25", "3.0", "12.75"})
		return &Value{Kind: VFloat, Raw: raw}, JNumRaw(raw)
	case "Boolean":
		b := g.r.Chance(1, 2)
		return &Value{Kind: VBool, Raw: fmt.Sprint(b)}, JB(b)
	case "String", "ID":
		s := common.PickOf(g.r, words) + fmt.Sprint(g.r.Pick(10))
		return &Value{Kind: VStr, Raw: s}, JS(s)
	}
	td := g.c.Super.Type(t.Name)
	if td != nil && td.Kind == KEnum {
		e := common.PickOf(g.r, td.Values)
		return &Value{Kind: VEnum, Raw: e}, JS(e)
	}
	if td != nil && td.Kind == KInput {
		ov, oj := &Value{Kind: VObj}, &J{Kind: JObj}
		for _, iv := range td.Inputs {
			required := iv.Type.IsNonNull() && iv.Default == nil
			if !required && (!g.r.Chance(1, 2) || depth > 2) {
				continue
			}
			v, j := g.value(iv.Type, depth+1)
			ov.Fields = append(ov.Fields, ObjField{iv.Name, v})
			oj.Members = append(oj.Members, Member{iv.Name, j})
		}
		return ov, oj
	}
	return &Value{Kind: VNull}, JN()
}
