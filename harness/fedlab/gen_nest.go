package fedlab

import (
	"strings"

	"gvh/common"
)

// Knob "nestedlists" (ExtraKnobs, opted into with "all3"; CONTRACT.md item 12): fields of type [[T]] and, one time
// in five, [[[T]]], every level nullable or non-null independently ([[T]], [[T!]!]!, [[T]!], ...), T an entity, a
// value type, a subgraph-local type, an interface, a union or a scalar / enum.
//
// Configuration (addNestedLists, after the root fields and before @requires / @provides are handed out, so that
// the new leaves can become @requires inputs / @provides targets and the new fields @provides sites):
//   - the point of the knob: a root field `qnK: W[E]` of subgraph h, E an entity that another subgraph s2 declares by
//     its primary key, and a fresh leaf `nfK` of E that only s2 resolves -- `qnK { nfK }` needs an entity fetch whose
//     parent objects sit below a list of lists;
//   - 1-2 further root fields `qnK: W[T]` towards anything their subgraph can return, sometimes `qsK: W[scalar]`;
//   - per object type, one time in three, `onK: W[T]` (entities: owned by one declaring subgraph; locals: by the home
//     subgraph; value types: shared like all their fields) and, one time in four, a leaf `snK: W[scalar]`;
//   - per interface, one time in two, `inK: W[E]` that the interface's home subgraph owns on every implementer (as
//     with `interfaceobjects`), E preferably the entity with the remote leaf.
// Universe (uniGen.val): the ordinary recursion gives inner lists of 0-3 items, null / failing inner lists and null
// items where the position is nullable; half of the nested lists of objects are built by nestedDupList instead:
// every inner list draws from one pool of at most three entities, so the same entity occurs in several inner lists
// (one representation after de-duplication, merged back into every occurrence).
// Operations: see gen_op_nest.go.

// ListDepth: the number of list wrappers of a type ([[T!]]! -> 2).
func ListDepth(t *TypeRef) int {
	n := 0
	for t.Kind != TNamed {
		if t.Kind == TList {
			n++
		}
		t = t.Of
	}
	return n
}

// nestWrap wraps t into 2 (one time in five: 3) list levels; with `nonnull` every level, the items and the whole
// field are non-null independently.
func (g *cfgGen) nestWrap(t *TypeRef) *TypeRef {
	r, k := g.r, g.k
	depth := 2
	if r.Chance(1, 5) {
		depth = 3
	}
	for i := 0; i < depth; i++ {
		if k["nonnull"] && r.Chance(2, 5) && !t.IsNonNull() {
			t = NonNull(t)
		}
		t = ListOf(t)
	}
	if k["nonnull"] && r.Chance(1, 3) {
		t = NonNull(t)
	}
	return t
}

// nestTarget: a composite type that subgraph s can return (fromValue: only what a value type may reference).
func (g *cfgGen) nestTarget(s int, fromValue bool, not string) string {
	var names []string
	for _, t := range g.objs {
		if t.def.Name == not {
			continue
		}
		switch t.cat {
		case catEntity:
			names = append(names, t.def.Name, t.def.Name)
		case catValue:
			names = append(names, t.def.Name)
		case catLocal:
			if !fromValue && t.home == s {
				names = append(names, t.def.Name)
			}
		}
	}
	if !fromValue {
		for _, a := range g.abs {
			if a.home == s || hasInt(a.partial, s) {
				names = append(names, a.def.Name, a.def.Name)
			}
		}
	}
	if len(names) == 0 {
		return ""
	}
	return common.PickOf(g.r, names)
}

func (g *cfgGen) addNestedLists(query *TypeDef) {
	r := g.r
	// (1) an entity with a leaf that only s2 resolves, below a nested list returned by another subgraph
	type cand struct {
		t  *gType
		s2 []int
	}
	var cands []cand
	for _, t := range g.objs {
		if t.cat != catEntity {
			continue
		}
		var others []int
		for _, s := range t.subs {
			if !hasInt(t.hop, s) {
				others = append(others, s)
			}
		}
		if len(others) > 0 && g.nSub > 1 {
			cands = append(cands, cand{t, others})
		}
	}
	var hopEnt *gType
	if len(cands) > 0 {
		c := cands[r.Pick(len(cands))]
		s2 := common.PickOf(r, c.s2)
		h := (s2 + 1 + r.Pick(g.nSub-1)) % g.nSub
		hopEnt = c.t
		nf := &FieldDef{Name: g.fname("nf"), Type: g.scalarType()}
		hopEnt.def.Fields = append(hopEnt.def.Fields, nf)
		hopEnt.owner[nf.Name] = []int{s2}
		qf := &FieldDef{Name: g.fname("qn"), Type: g.nestWrap(Named(hopEnt.def.Name))}
		query.Fields = append(query.Fields, qf)
		g.rootOwner(qf.Name, h)
	}
	// (2) further root fields
	for n := 1 + r.Pick(2); n > 0; n-- {
		s := r.Pick(g.nSub)
		if tn := g.nestTarget(s, false, ""); tn != "" {
			qf := &FieldDef{Name: g.fname("qn"), Type: g.nestWrap(Named(tn))}
			query.Fields = append(query.Fields, qf)
			g.rootOwner(qf.Name, s)
		}
	}
	if r.Chance(1, 2) {
		qf := &FieldDef{Name: g.fname("qs"), Type: g.nestWrap(g.scalarType())}
		query.Fields = append(query.Fields, qf)
		g.rootOwner(qf.Name, r.Pick(g.nSub))
	}
	// (3) object and leaf fields of the object types (the covariant knob's inner types included)
	for _, t := range append([]*gType(nil), g.objs...) {
		if r.Chance(1, 3) {
			switch t.cat {
			case catEntity:
				s := common.PickOf(r, t.subs)
				if tn := g.nestTarget(s, false, ""); tn != "" {
					fd := &FieldDef{Name: g.fname("on"), Type: g.nestWrap(Named(tn))}
					t.def.Fields = append(t.def.Fields, fd)
					t.owner[fd.Name] = []int{s}
				}
			case catLocal:
				if tn := g.nestTarget(t.home, false, ""); tn != "" {
					fd := &FieldDef{Name: g.fname("on"), Type: g.nestWrap(Named(tn))}
					t.def.Fields = append(t.def.Fields, fd)
					t.owner[fd.Name] = []int{t.home}
				}
			case catValue:
				if tn := g.nestTarget(0, true, t.def.Name); tn != "" {
					t.def.Fields = append(t.def.Fields, &FieldDef{Name: g.fname("on"), Type: g.nestWrap(Named(tn))})
				}
			}
		}
		if r.Chance(1, 4) {
			st := g.scalarType()
			fd := &FieldDef{Name: g.fname("sn" + strings.ToLower(st.Base()[:1])), Type: g.nestWrap(st)}
			t.def.Fields = append(t.def.Fields, fd)
			switch t.cat {
			case catEntity:
				t.owner[fd.Name] = []int{common.PickOf(r, t.subs)}
			case catLocal:
				t.owner[fd.Name] = []int{t.home}
			}
		}
	}
	// (4) interfaces: an entity hop below a nested list, declared by the interface and owned by its home subgraph
	for _, a := range g.abs {
		if a.def.Kind != KInterface || !r.Chance(1, 2) {
			continue
		}
		var ents []*gType
		for _, o := range g.objs {
			if o.cat == catEntity {
				ents = append(ents, o)
			}
		}
		if len(ents) == 0 {
			continue
		}
		e := common.PickOf(r, ents)
		if hopEnt != nil && r.Chance(2, 3) {
			e = hopEnt
		}
		fd := &FieldDef{Name: g.fname("in"), Type: g.nestWrap(Named(e.def.Name))}
		a.def.Fields = append(a.def.Fields, fd)
		for _, tn := range g.cfg.Super.PossibleTypes(a.def.Name) {
			if t := g.obj(tn); t != nil {
				t.def.Fields = append(t.def.Fields, fd)
				t.owner[fd.Name] = []int{a.home}
			}
		}
	}
}

// nestedDupList: a list of lists (of lists) of objects whose items all come from one pool of at most three
// entities: repeats inside an inner list and across inner lists, empty inner lists, null inner lists and null items
// where the position is nullable (knob `nulls`).
func (g *uniGen) nestedDupList(t *TypeRef) *FVal {
	var pool []*FVal
	for _, p := range g.c.Super.PossibleTypes(t.Base()) {
		for _, k := range g.inst[p] {
			pool = append(pool, &FVal{Kind: FRef, Type: p, Key: k})
		}
	}
	g.r.Shuffle(len(pool), func(a, b int) { pool[a], pool[b] = pool[b], pool[a] })
	if len(pool) > 3 {
		pool = pool[:3]
	}
	var build func(t *TypeRef, outer bool) *FVal
	build = func(t *TypeRef, outer bool) *FVal {
		nullable := !t.IsNonNull()
		t = t.Nullable()
		if !outer && nullable && g.k["nulls"] && g.r.Chance(1, 6) {
			if t.Kind == TNamed {
				return &FVal{Kind: FNullRef}
			}
			return &FVal{Kind: FSc, JSON: JN()}
		}
		if t.Kind == TNamed {
			if len(pool) == 0 {
				return &FVal{Kind: FNullRef}
			}
			return pool[g.r.Pick(len(pool))]
		}
		n := g.r.Pick(4)
		if outer {
			n = 2 + g.r.Pick(3)
		}
		if len(pool) == 0 && t.Of.Nullable().Kind == TNamed && t.Of.IsNonNull() {
			n = 0
		}
		out := &FVal{Kind: FLst}
		for i := 0; i < n; i++ {
			out.Items = append(out.Items, build(t.Of, false))
		}
		return out
	}
	return build(t, true)
}
