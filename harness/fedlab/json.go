package fedlab

import (
	"bytes"
	"encoding/json"
	"fmt"
	"strconv"
	"strings"

	"gvh/common"
)

// J is a JSON tree with member order kept and numbers as raw tokens (never re-formatted,
// never compared as floats) -- the Go mirror of coq/lib/Json.v.
type JKind int

const (
	JNull JKind = iota
	JTrue
	JFalse
	JNum
	JStr
	JArr
	JObj
)

type Member struct {
	Key string
	Val *J
}

type J struct {
	Kind    JKind
	Raw     string // JNum: token; JStr: decoded content
	Items   []*J
	Members []Member
}

func JN() *J              { return &J{Kind: JNull} }
func JS(s string) *J      { return &J{Kind: JStr, Raw: s} }
func JNumRaw(r string) *J { return &J{Kind: JNum, Raw: r} }
func JB(b bool) *J {
	if b {
		return &J{Kind: JTrue}
	}
	return &J{Kind: JFalse}
}
func JA(items ...*J) *J  { return &J{Kind: JArr, Items: items} }
func JO(ms ...Member) *J { return &J{Kind: JObj, Members: ms} }

func (j *J) Get(k string) *J {
	if j == nil || j.Kind != JObj {
		return nil
	}
	for _, m := range j.Members {
		if m.Key == k {
			return m.Val
		}
	}
	return nil
}

// ParseJSON parses text into a tree; numbers keep their token.
func ParseJSON(data []byte) (*J, error) {
	dec := json.NewDecoder(bytes.NewReader(data))
	dec.UseNumber()
	j, err := parseValue(dec)
	if err != nil {
		return nil, err
	}
	if _, err := dec.Token(); err == nil {
		return nil, fmt.Errorf("trailing data after JSON value")
	}
	return j, nil
}

func parseValue(dec *json.Decoder) (*J, error) {
	tok, err := dec.Token()
	if err != nil {
		return nil, err
	}
	switch t := tok.(type) {
	case nil:
		return JN(), nil
	case bool:
		return JB(t), nil
	case json.Number:
		return JNumRaw(string(t)), nil
	case string:
		return JS(t), nil
	case json.Delim:
		switch t {
		case '[':
			out := &J{Kind: JArr}
			for dec.More() {
				v, err := parseValue(dec)
				if err != nil {
					return nil, err
				}
				out.Items = append(out.Items, v)
			}
			if _, err := dec.Token(); err != nil {
				return nil, err
			}
			return out, nil
		case '{':
			out := &J{Kind: JObj}
			for dec.More() {
				kt, err := dec.Token()
				if err != nil {
					return nil, err
				}
				k, ok := kt.(string)
				if !ok {
					return nil, fmt.Errorf("object key is not a string")
				}
				v, err := parseValue(dec)
				if err != nil {
					return nil, err
				}
				out.Members = append(out.Members, Member{k, v})
			}
			if _, err := dec.Token(); err != nil {
				return nil, err
			}
			return out, nil
		}
	}
	return nil, fmt.Errorf("unexpected token %v", tok)
}

func writeJSONString(sb *strings.Builder, s string) {
	b, _ := json.Marshal(s)
	// encoding/json escapes <, >, & as \u00xx; harmless and still valid JSON
	sb.Write(b)
}

func (j *J) write(sb *strings.Builder) {
	if j == nil {
		sb.WriteString("null")
		return
	}
	switch j.Kind {
	case JNull:
		sb.WriteString("null")
	case JTrue:
		sb.WriteString("true")
	case JFalse:
		sb.WriteString("false")
	case JNum:
		sb.WriteString(j.Raw)
	case JStr:
		writeJSONString(sb, j.Raw)
	case JArr:
		sb.WriteByte('[')
		for i, x := range j.Items {
			if i > 0 {
				sb.WriteByte(',')
			}
			x.write(sb)
		}
		sb.WriteByte(']')
	case JObj:
		sb.WriteByte('{')
		for i, m := range j.Members {
			if i > 0 {
				sb.WriteByte(',')
			}
			writeJSONString(sb, m.Key)
			sb.WriteByte(':')
			m.Val.write(sb)
		}
		sb.WriteByte('}')
	}
}

// String is compact JSON text.
func (j *J) String() string {
	var sb strings.Builder
	j.write(&sb)
	return sb.String()
}

// Sexp is the FEDLAB.md JSON form.
func (j *J) Sexp() string {
	if j == nil {
		return "(n)"
	}
	switch j.Kind {
	case JNull:
		return "(n)"
	case JTrue:
		return "(t)"
	case JFalse:
		return "(f)"
	case JNum:
		return "(num " + common.QS(j.Raw) + ")"
	case JStr:
		return "(s " + common.QS(j.Raw) + ")"
	case JArr:
		parts := []string{"a"}
		for _, x := range j.Items {
			parts = append(parts, x.Sexp())
		}
		return common.L(parts...)
	case JObj:
		parts := []string{"o"}
		for _, m := range j.Members {
			parts = append(parts, common.L(common.QS(m.Key), m.Val.Sexp()))
		}
		return common.L(parts...)
	}
	return "(n)"
}

// Equal is tree equality: same kinds, raw number tokens, member order significant
// (coq/lib/Json.v json_eqb).
func (j *J) Equal(o *J) bool {
	if j == nil || o == nil {
		return (j == nil || j.Kind == JNull) && (o == nil || o.Kind == JNull)
	}
	if j.Kind != o.Kind {
		return false
	}
	switch j.Kind {
	case JNum, JStr:
		return j.Raw == o.Raw
	case JArr:
		if len(j.Items) != len(o.Items) {
			return false
		}
		for i := range j.Items {
			if !j.Items[i].Equal(o.Items[i]) {
				return false
			}
		}
	case JObj:
		if len(j.Members) != len(o.Members) {
			return false
		}
		for i := range j.Members {
			if j.Members[i].Key != o.Members[i].Key || !j.Members[i].Val.Equal(o.Members[i].Val) {
				return false
			}
		}
	}
	return true
}

// EqualUnordered ignores object member order (used only to classify a difference).
func (j *J) EqualUnordered(o *J) bool {
	if j == nil || o == nil {
		return (j == nil || j.Kind == JNull) && (o == nil || o.Kind == JNull)
	}
	if j.Kind != o.Kind {
		return false
	}
	switch j.Kind {
	case JNum, JStr:
		return j.Raw == o.Raw
	case JArr:
		if len(j.Items) != len(o.Items) {
			return false
		}
		for i := range j.Items {
			if !j.Items[i].EqualUnordered(o.Items[i]) {
				return false
			}
		}
	case JObj:
		if len(j.Members) != len(o.Members) {
			return false
		}
		for _, m := range j.Members {
			v := o.Get(m.Key)
			if v == nil || !m.Val.EqualUnordered(v) {
				return false
			}
		}
	}
	return true
}

// FirstDiff returns a response path to the first difference (for messages), "" when equal.
func (j *J) FirstDiff(o *J, path string) string {
	if j == nil {
		j = JN()
	}
	if o == nil {
		o = JN()
	}
	if j.Kind != o.Kind {
		return path + ": " + trunc(j.String(), 80) + " vs " + trunc(o.String(), 80)
	}
	switch j.Kind {
	case JNum, JStr:
		if j.Raw != o.Raw {
			return path + ": " + trunc(j.String(), 80) + " vs " + trunc(o.String(), 80)
		}
	case JArr:
		if len(j.Items) != len(o.Items) {
			return path + ": array length " + strconv.Itoa(len(j.Items)) + " vs " + strconv.Itoa(len(o.Items))
		}
		for i := range j.Items {
			if d := j.Items[i].FirstDiff(o.Items[i], path+"["+strconv.Itoa(i)+"]"); d != "" {
				return d
			}
		}
	case JObj:
		if len(j.Members) != len(o.Members) {
			return path + ": members " + memberNames(j) + " vs " + memberNames(o)
		}
		for i := range j.Members {
			if j.Members[i].Key != o.Members[i].Key {
				return path + ": member order/keys " + memberNames(j) + " vs " + memberNames(o)
			}
			if d := j.Members[i].Val.FirstDiff(o.Members[i].Val, path+"."+j.Members[i].Key); d != "" {
				return d
			}
		}
	}
	return ""
}

func memberNames(j *J) string {
	ks := make([]string, len(j.Members))
	for i, m := range j.Members {
		ks[i] = m.Key
	}
	return "{" + strings.Join(ks, ",") + "}"
}

func trunc(s string, n int) string {
	if len(s) > n {
		return s[:n] + "..."
	}
	return s
}

// FirstDiffUnordered is FirstDiff with object members matched by key.
func (j *J) FirstDiffUnordered(o *J, path string) string {
	if j == nil {
		j = JN()
	}
	if o == nil {
		o = JN()
	}
	if j.Kind != o.Kind {
		return path + ": " + trunc(j.String(), 80) + " vs " + trunc(o.String(), 80)
	}
	switch j.Kind {
	case JNum, JStr:
		if j.Raw != o.Raw {
			return path + ": " + trunc(j.String(), 80) + " vs " + trunc(o.String(), 80)
		}
	case JArr:
		if len(j.Items) != len(o.Items) {
			return path + ": array length " + strconv.Itoa(len(j.Items)) + " vs " + strconv.Itoa(len(o.Items))
		}
		for i := range j.Items {
			if d := j.Items[i].FirstDiffUnordered(o.Items[i], path+"["+strconv.Itoa(i)+"]"); d != "" {
				return d
			}
		}
	case JObj:
		if len(j.Members) != len(o.Members) {
			return path + ": members " + memberNames(j) + " vs " + memberNames(o)
		}
		for _, m := range j.Members {
			v := o.Get(m.Key)
			if v == nil {
				return path + ": members " + memberNames(j) + " vs " + memberNames(o)
			}
			if d := m.Val.FirstDiffUnordered(v, path+"."+m.Key); d != "" {
				return d
			}
		}
	}
	return ""
}
