package fedlab

import (
	"gvh/common"
)

// Knob "scopedhops" (ExtraKnobs; CONTRACT.md item 7): an entity hop declared on an interface, selected under
// several type-condition scopes of the abstract parent.
//
// Configuration: every interface O (home subgraph h) declares a field `ihK: W[E]` that h owns on every
// implementer; E is an entity with a leaf `hfK` that only ANOTHER subgraph s2 resolves, so selecting `ihK { hfK }`
// plans an entity fetch below the interface field. h gets a root field `qhK: [O]` (a list when `lists` is on).
// Universe: three out of four lists of an abstract item type hold every possible type at least once.
// Operations: see scopedHopSels.

func (g *cfgGen) addScopedHop(query *TypeDef, outer *TypeDef, impls []*gType, h int) {
	r, k := g.r, g.k
	type cand struct {
		t  *gType
		s2 []int
	}
	var cands []cand
	for _, t := range g.objs {
		if t.cat != catEntity {
			continue
		}
		var others []int
		for _, s := range t.subs {
			if s != h && !hasInt(t.hop, s) {
				others = append(others, s)
			}
		}
		if len(others) > 0 {
			cands = append(cands, cand{t, others})
		}
	}
	if len(cands) == 0 {
		return
	}
	c := cands[r.Pick(len(cands))]
	e, s2 := c.t, common.PickOf(r, c.s2)
	hf := &FieldDef{Name: g.fname("hf"), Type: g.scalarType()}
	e.def.Fields = append(e.def.Fields, hf)
	e.owner[hf.Name] = []int{s2}
	tr := Named(e.def.Name)
	if k["lists"] && r.Chance(1, 2) {
		if k["nonnull"] && r.Chance(1, 2) {
			tr = NonNull(tr)
		}
		tr = ListOf(tr)
	}
	if k["nonnull"] && r.Chance(1, 3) {
		tr = NonNull(tr)
	}
	fd := &FieldDef{Name: g.fname("ih"), Type: tr}
	outer.Fields = append(outer.Fields, fd)
	for _, t := range impls {
		t.def.Fields = append(t.def.Fields, fd)
		t.owner[fd.Name] = []int{h}
	}
	qt := Named(outer.Name)
	if k["lists"] {
		if k["nonnull"] && r.Chance(1, 2) {
			qt = NonNull(qt)
		}
		qt = ListOf(qt)
	}
	qf := &FieldDef{Name: g.fname("qh"), Type: qt}
	query.Fields = append(query.Fields, qf)
	g.rootOwner(qf.Name, h)
}

// coverList: a list over an abstract item type in which every possible type occurs (shuffled, with a few repeats).
func (g *uniGen) coverList(item *TypeRef) *FVal {
	var items []*FVal
	for _, p := range g.c.Super.PossibleTypes(item.Base()) {
		if len(g.inst[p]) > 0 {
			items = append(items, &FVal{Kind: FRef, Type: p, Key: common.PickOf(g.r, g.inst[p])})
		}
	}
	for n := g.r.Pick(3); n > 0 && len(items) > 0; n-- {
		items = append(items, items[g.r.Pick(len(items))])
	}
	g.r.Shuffle(len(items), func(a, b int) { items[a], items[b] = items[b], items[a] })
	return &FVal{Kind: FLst, Items: items}
}
