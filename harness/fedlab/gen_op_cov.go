package fedlab

import (
	"fmt"

	"gvh/common"
)

// Operation side of knob "covariant": for an abstract-typed field cv below a parent P the generator
// selects ONE inner response key (a leaf the members of cv's type share) under several combinations
// of outer and inner type conditions, all of them merging into the same response position:
//
//	cv { leaf }                          bare / bare
//	cv { ... on M { leaf } }             inner condition only
//	... on T { cv { leaf } }             outer condition only (T.cv may be narrower than P.cv)
//	... on T { cv { ... on M { leaf } } }  both
//
// with inline or named fragments, below lists when cv or the field leading to P is a list, and
// recursively when the inner type has an abstract-typed field itself (conditions two levels up).

// sigOf is the merge signature of a selection: one response key of a scope maps to one signature.
// Two composite fields of one name merge whatever their named types are (SameResponseShape only
// compares the wrappers and then the sub-selections, which share the child scope), so under the
// covariant knob the named type of a composite field is not part of the signature.
func (g *opGen) sigOf(fd *FieldDef, args []Arg) string {
	t := fd.Type.SDL()
	if g.k["covariant"] && fd.Name != "__typename" && !g.c.Super.IsLeaf(fd.Type.Base()) {
		t = rebase(fd.Type, "*").SDL()
	}
	return fd.Name + argsText(args) + ":" + t
}

func (g *opGen) isAbstract(name string) bool {
	td := g.c.Super.Type(name)
	return td != nil && (td.Kind == KInterface || td.Kind == KUnion)
}

// hasAbstractField: the type, or one of its possible types, declares an abstract-typed field.
func (g *opGen) hasAbstractField(name string) bool {
	td := g.c.Super.Type(name)
	if td == nil {
		return false
	}
	tds := []*TypeDef{td}
	if td.Kind != KObject {
		for _, p := range g.c.Super.PossibleTypes(name) {
			tds = append(tds, g.c.Super.Type(p))
		}
	}
	for _, t := range tds {
		for _, fd := range t.Fields {
			if len(fd.Args) == 0 && g.isAbstract(fd.Type.Base()) {
				return true
			}
		}
	}
	return false
}

var typenameDef = &FieldDef{Name: "__typename", Type: NonNull(Named("String"))}

// fieldWith selects fd (no arguments, never aliased unless the key is taken by another signature)
// into scope sc; sub builds the sub-selection in the child scope of the response key.
func (g *opGen) fieldWith(fd *FieldDef, sc *scope, sub func(child *scope) []*Sel) *Sel {
	g.budget--
	s := &Sel{Kind: SField, Name: fd.Name}
	sig := g.sigOf(fd, nil)
	key := fd.Name
	for {
		e, ok := sc.keys[key]
		if !ok || e.sig == sig {
			break
		}
		key = fmt.Sprintf("%s_%d", fd.Name, len(sc.keys))
	}
	if key != fd.Name {
		s.Alias = key
	}
	e := sc.keys[key]
	if e == nil {
		e = &scopeEntry{sig: sig}
		sc.keys[key] = e
	}
	s.Dirs = g.dirs()
	if sub != nil {
		if e.child == nil {
			e.child = newScope()
		}
		s.Sels = sub(e.child)
	}
	return s
}

// wrapOn puts selections under a type condition: inline, or a named fragment.
func (g *opGen) wrapOn(typ string, sels []*Sel) *Sel {
	if g.k["fragments"] && g.r.Chance(1, 3) {
		g.nfrag++
		name := fmt.Sprintf("F%d", g.nfrag)
		g.op.Frags = append(g.op.Frags, &FragDef{Name: name, On: typ, Sels: sels})
		return &Sel{Kind: SSpread, Name: name, Dirs: g.dirs()}
	}
	return &Sel{Kind: SInline, On: typ, Sels: sels, Dirs: g.dirs()}
}

func (g *opGen) covariantSels(td *TypeDef, depth int, sc *scope, root bool) []*Sel {
	if depth >= g.maxDepth || g.budget <= 0 {
		return nil
	}
	if root {
		// reach a parent that has an abstract-typed field
		var cands []*FieldDef
		for _, fd := range td.Fields {
			if g.hasAbstractField(fd.Type.Base()) {
				cands = append(cands, fd)
			}
		}
		if len(cands) == 0 || !g.r.Chance(3, 4) {
			return nil
		}
		return []*Sel{g.field(td, common.PickOf(g.r, cands), depth, sc)}
	}
	if !g.r.Chance(3, 4) {
		return nil
	}
	return g.covariantPattern(td, depth, sc)
}

type covSite struct {
	on  string // "" = the enclosing type itself
	def *TypeDef
}

func (g *opGen) covariantPattern(td *TypeDef, depth int, sc *scope) []*Sel {
	if depth >= g.maxDepth || g.budget <= 0 {
		return nil
	}
	sup := g.c.Super
	var sites []covSite
	if td.Kind != KUnion {
		sites = append(sites, covSite{"", td})
	}
	if td.Kind != KObject {
		for _, p := range sup.PossibleTypes(td.Name) {
			sites = append(sites, covSite{p, sup.Type(p)})
		}
	}
	var names []string
	seen := map[string]bool{}
	for _, s := range sites {
		for _, fd := range s.def.Fields {
			if !seen[fd.Name] && len(fd.Args) == 0 && g.isAbstract(fd.Type.Base()) {
				seen[fd.Name] = true
				names = append(names, fd.Name)
			}
		}
	}
	if len(names) == 0 {
		return nil
	}
	name := common.PickOf(g.r, names)
	var bare *covSite
	var conds []covSite
	var inner []string
	innerSeen := map[string]bool{}
	for i, s := range sites {
		fd := s.def.Field(name)
		if fd == nil || len(fd.Args) > 0 {
			continue
		}
		if s.on == "" {
			bare = &sites[i]
		} else {
			conds = append(conds, s)
		}
		for _, m := range sup.PossibleTypes(fd.Type.Base()) {
			if !innerSeen[m] {
				innerSeen[m] = true
				inner = append(inner, m)
			}
		}
	}
	// the inner response key: a leaf most of the reachable concrete types declare
	count := map[string]int{}
	var order []string
	for _, m := range inner {
		for _, fd := range sup.Type(m).Fields {
			if len(fd.Args) == 0 && sup.IsLeaf(fd.Type.Base()) {
				if count[fd.Name] == 0 {
					order = append(order, fd.Name)
				}
				count[fd.Name]++
			}
		}
	}
	var leaves []string
	for _, n := range order {
		if count[n] >= 2 {
			leaves = append(leaves, n)
		}
	}
	if len(leaves) == 0 {
		leaves = order
	}
	if len(leaves) == 0 || g.r.Chance(1, 6) {
		leaves = append(leaves, "__typename")
	}
	leaf := common.PickOf(g.r, leaves)
	g.r.Shuffle(len(conds), func(a, b int) { conds[a], conds[b] = conds[b], conds[a] })
	nc := 1 + g.r.Pick(2)
	if nc > len(conds) {
		nc = len(conds)
	}
	chosen := append([]covSite(nil), conds[:nc]...)
	if bare != nil && (nc == 0 || g.r.Chance(4, 5)) {
		if g.r.Chance(2, 3) {
			chosen = append([]covSite{*bare}, chosen...)
		} else {
			chosen = append(chosen, *bare)
		}
	}
	var out []*Sel
	for _, s := range chosen {
		fd := s.def.Field(name)
		sel := g.fieldWith(fd, sc, func(child *scope) []*Sel { return g.covariantInner(fd.Type.Base(), leaf, depth+1, child) })
		if s.on == "" {
			out = append(out, sel)
		} else {
			out = append(out, g.wrapOn(s.on, []*Sel{sel}))
		}
	}
	return out
}

// covariantInner selects leaf below a value of type dName: bare and / or under member conditions.
func (g *opGen) covariantInner(dName, leaf string, depth int, child *scope) []*Sel {
	sup := g.c.Super
	d := sup.Type(dName)
	leafOf := func(t *TypeDef) *FieldDef {
		if leaf == "__typename" {
			return typenameDef
		}
		if t.Kind == KUnion {
			return nil
		}
		if fd := t.Field(leaf); fd != nil && len(fd.Args) == 0 && sup.IsLeaf(fd.Type.Base()) {
			return fd
		}
		return nil
	}
	var opts []func() *Sel
	if fd := leafOf(d); fd != nil {
		opts = append(opts, func() *Sel { return g.fieldWith(fd, child, nil) })
	}
	for _, m := range sup.PossibleTypes(dName) {
		m := m
		if fd := leafOf(sup.Type(m)); fd != nil {
			opts = append(opts, func() *Sel { return g.wrapOn(m, []*Sel{g.fieldWith(fd, child, nil)}) })
		}
	}
	if len(opts) == 0 {
		return g.sels(dName, depth, child, false)
	}
	g.r.Shuffle(len(opts), func(a, b int) { opts[a], opts[b] = opts[b], opts[a] })
	n := 1 + g.r.Pick(2)
	if n > len(opts) {
		n = len(opts)
	}
	var out []*Sel
	for _, o := range opts[:n] {
		out = append(out, o())
	}
	// one level further down, and ordinary selections next to the pattern
	if depth < g.maxDepth && g.budget > 0 && g.r.Chance(1, 2) {
		out = append(out, g.covariantPattern(d, depth, child)...)
	}
	if g.budget > 0 && g.r.Chance(1, 4) {
		more := g.sels(dName, depth, child, false)
		if g.r.Chance(1, 2) {
			out = append(more, out...)
		} else {
			out = append(out, more...)
		}
	}
	return out
}
