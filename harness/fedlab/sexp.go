package fedlab

import (
	"fmt"
	"strings"

	"gvh/common"

	"github.com/wundergraph/graphql-go-tools/v2/pkg/ast"
)

// ---------------------------------------------------------------- reading S-expressions

// SX is a parsed S-expression: an atom, a quoted byte string, or a list.
type SX struct {
	Atom  string
	Str   string
	IsStr bool
	List  []*SX
	IsLst bool
}

func (x *SX) Head() string {
	if x != nil && x.IsLst && len(x.List) > 0 && !x.List[0].IsLst && !x.List[0].IsStr {
		return x.List[0].Atom
	}
	return ""
}

func hexv(c byte) (byte, bool) {
	switch {
	case c >= '0' && c <= '9':
		return c - '0', true
	case c >= 'a' && c <= 'f':
		return c - 'a' + 10, true
	case c >= 'A' && c <= 'F':
		return c - 'A' + 10, true
	}
	return 0, false
}

func ParseSexp(s string) (*SX, error) {
	pos := 0
	var item func() (*SX, error)
	skip := func() {
		for pos < len(s) && (s[pos] == ' ' || s[pos] == '\t' || s[pos] == '\n' || s[pos] == '\r') {
			pos++
		}
	}
	item = func() (*SX, error) {
		skip()
		if pos >= len(s) {
			return nil, fmt.Errorf("sexp: eof")
		}
		switch s[pos] {
		case '(':
			pos++
			out := &SX{IsLst: true}
			for {
				skip()
				if pos >= len(s) {
					return nil, fmt.Errorf("sexp: eof in list")
				}
				if s[pos] == ')' {
					pos++
					return out, nil
				}
				x, err := item()
				if err != nil {
					return nil, err
				}
				out.List = append(out.List, x)
			}
		case ')':
			return nil, fmt.Errorf("sexp: unexpected )")
		case '"':
			pos++
			var b []byte
			for {
				if pos >= len(s) {
					return nil, fmt.Errorf("sexp: eof in string")
				}
				c := s[pos]
				if c == '"' {
					pos++
					return &SX{IsStr: true, Str: string(b)}, nil
				}
				if c == '\\' {
					if pos+2 >= len(s) {
						return nil, fmt.Errorf("sexp: bad escape")
					}
					h, ok1 := hexv(s[pos+1])
					l, ok2 := hexv(s[pos+2])
					if !ok1 || !ok2 {
						return nil, fmt.Errorf("sexp: bad escape")
					}
					b = append(b, h*16+l)
					pos += 3
					continue
				}
				b = append(b, c)
				pos++
			}
		default:
			st := pos
			for pos < len(s) && !strings.ContainsRune(" \t\n\r()\"", rune(s[pos])) {
				pos++
			}
			return &SX{Atom: s[st:pos]}, nil
		}
	}
	x, err := item()
	if err != nil {
		return nil, err
	}
	return x, nil
}

// JSONOfSexp reads the FEDLAB.md JSON form.
func JSONOfSexp(x *SX) (*J, error) {
	if x == nil || !x.IsLst || len(x.List) == 0 {
		return nil, fmt.Errorf("json sexp: not a list")
	}
	switch x.Head() {
	case "n":
		return JN(), nil
	case "t":
		return JB(true), nil
	case "f":
		return JB(false), nil
	case "num":
		if len(x.List) == 2 && x.List[1].IsStr {
			return JNumRaw(x.List[1].Str), nil
		}
	case "s":
		if len(x.List) == 2 && x.List[1].IsStr {
			return JS(x.List[1].Str), nil
		}
	case "a":
		out := &J{Kind: JArr}
		for _, it := range x.List[1:] {
			v, err := JSONOfSexp(it)
			if err != nil {
				return nil, err
			}
			out.Items = append(out.Items, v)
		}
		return out, nil
	case "o":
		out := &J{Kind: JObj}
		for _, it := range x.List[1:] {
			if !it.IsLst || len(it.List) != 2 || !it.List[0].IsStr {
				return nil, fmt.Errorf("json sexp: bad member")
			}
			v, err := JSONOfSexp(it.List[1])
			if err != nil {
				return nil, err
			}
			out.Members = append(out.Members, Member{it.List[0].Str, v})
		}
		return out, nil
	}
	return nil, fmt.Errorf("json sexp: unknown form %q", x.Head())
}

// ---------------------------------------------------------------- schema / universe dumps

func optValue(v *Value) string {
	if v == nil {
		return "(none)"
	}
	return "(some " + v.Sexp() + ")"
}

func ivSexp(iv *InputValue) string {
	return common.L("iv", common.QS(iv.Name), iv.Type.Sexp(), optValue(iv.Default))
}

func tagged(tag string, items []string) string {
	return common.L(append([]string{tag}, items...)...)
}

func quoteAll(xs []string) []string {
	out := make([]string, len(xs))
	for i, x := range xs {
		out[i] = common.QS(x)
	}
	return out
}

func (t *TypeDef) Sexp() string {
	var fields, inputs []string
	for _, f := range t.Fields {
		var args []string
		for _, a := range f.Args {
			args = append(args, ivSexp(a))
		}
		fields = append(fields, common.L("fd", common.QS(f.Name), tagged("args", args), f.Type.Sexp()))
	}
	for _, iv := range t.Inputs {
		inputs = append(inputs, ivSexp(iv))
	}
	return common.L("type", t.Kind.String(), common.QS(t.Name), tagged("implements", quoteAll(t.Implements)),
		tagged("fields", fields), tagged("members", quoteAll(t.Members)), tagged("values", quoteAll(t.Values)),
		tagged("inputs", inputs))
}

func optName(n string) string {
	if n == "" {
		return "(none)"
	}
	return common.QS(n)
}

func (s *Schema) Sexp() string {
	var types []string
	for _, t := range s.Types {
		types = append(types, t.Sexp())
	}
	return common.L("schema", common.QS(s.Query), optName(s.Mutation), "(none)", tagged("types", types), "(directives)")
}

func (v *FVal) Sexp() string {
	switch v.Kind {
	case FSc:
		return "(sc " + v.JSON.Sexp() + ")"
	case FRef:
		return common.L("ref", common.QS(v.Type), common.QS(v.Key))
	case FNullRef:
		return "(nullref)"
	case FLst:
		parts := []string{"lst"}
		for _, x := range v.Items {
			parts = append(parts, x.Sexp())
		}
		return common.L(parts...)
	case FErr:
		return "(err)"
	case FEcho:
		return "(echo)"
	case FLookup:
		return common.L("lookup", common.QS(v.Type), common.QS(v.Arg))
	case FReq:
		return tagged("req", quoteAll(v.Req))
	}
	return "(err)"
}

func (u *Universe) Sexp() string {
	parts := []string{"universe"}
	for _, e := range u.Ents {
		ep := []string{"ent", common.QS(e.Type), common.QS(e.Key)}
		for _, f := range e.Fields {
			ep = append(ep, common.L("fv", common.QS(f.Name), f.Val.Sexp()))
		}
		parts = append(parts, common.L(ep...))
	}
	return common.L(parts...)
}

// ---------------------------------------------------------------- executable documents
//
// Private dumper of a parsed ast.Document in the FEDLAB.md form.  (harness/gqldump follows
// DESIGN.md Appendix B, which writes optionals as (none)|(some "x") and leaves lists untagged;
// bin/model_exec reads FEDLAB.md literally: optional name = "x"|(none), lists tagged
// vardefs/dirs/sels/args.)

type docDumper struct {
	d  *ast.Document
	sb strings.Builder
}

// DumpDocument renders an executable document as one S-expression line.
func DumpDocument(doc *ast.Document) string {
	x := &docDumper{d: doc}
	x.sb.WriteString("(doc")
	for _, n := range doc.RootNodes {
		switch n.Kind {
		case ast.NodeKindOperationDefinition:
			x.sb.WriteByte(' ')
			x.op(n.Ref)
		case ast.NodeKindFragmentDefinition:
			x.sb.WriteByte(' ')
			x.frag(n.Ref)
		}
	}
	x.sb.WriteByte(')')
	return x.sb.String()
}

func (x *docDumper) w(s string) { x.sb.WriteString(s) }
func (x *docDumper) ref(r ast.ByteSliceReference) {
	x.sb.WriteString(common.Q(x.d.Input.ByteSlice(r)))
}

func (x *docDumper) typ(ref int) {
	t := x.d.Types[ref]
	switch t.TypeKind {
	case ast.TypeKindNamed:
		x.w("(named ")
		x.ref(t.Name)
		x.w(")")
	case ast.TypeKindList:
		x.w("(list ")
		x.typ(t.OfType)
		x.w(")")
	case ast.TypeKindNonNull:
		x.w("(nn ")
		x.typ(t.OfType)
		x.w(")")
	}
}

func (x *docDumper) signed(neg bool, raw ast.ByteSliceReference) {
	b := x.d.Input.ByteSlice(raw)
	if neg {
		b = append([]byte{'-'}, b...)
	}
	x.w(common.Q(b))
}

func (x *docDumper) value(v ast.Value) {
	d := x.d
	switch v.Kind {
	case ast.ValueKindVariable:
		x.w("(var ")
		x.ref(d.VariableValues[v.Ref].Name)
		x.w(")")
	case ast.ValueKindInteger:
		x.w("(int ")
		x.signed(d.IntValues[v.Ref].Negative, d.IntValues[v.Ref].Raw)
		x.w(")")
	case ast.ValueKindFloat:
		x.w("(float ")
		x.signed(d.FloatValues[v.Ref].Negative, d.FloatValues[v.Ref].Raw)
		x.w(")")
	case ast.ValueKindString:
		x.w("(str ")
		x.ref(d.StringValues[v.Ref].Content)
		x.w(" " + common.B(d.StringValues[v.Ref].BlockString) + ")")
	case ast.ValueKindBoolean:
		x.w("(bool " + common.B(bool(d.BooleanValues[v.Ref])) + ")")
	case ast.ValueKindNull:
		x.w("(null)")
	case ast.ValueKindEnum:
		x.w("(enum ")
		x.ref(d.EnumValues[v.Ref].Name)
		x.w(")")
	case ast.ValueKindList:
		x.w("(list")
		for _, r := range d.ListValues[v.Ref].Refs {
			x.w(" ")
			x.value(d.Values[r])
		}
		x.w(")")
	case ast.ValueKindObject:
		x.w("(obj")
		for _, r := range d.ObjectValues[v.Ref].Refs {
			x.w(" (")
			x.ref(d.ObjectFields[r].Name)
			x.w(" ")
			x.value(d.ObjectFields[r].Value)
			x.w(")")
		}
		x.w(")")
	default:
		x.w("(null)")
	}
}

func (x *docDumper) args(has bool, refs []int) {
	x.w("(args")
	if has {
		for _, r := range refs {
			x.w(" (")
			x.ref(x.d.Arguments[r].Name)
			x.w(" ")
			x.value(x.d.Arguments[r].Value)
			x.w(")")
		}
	}
	x.w(")")
}

func (x *docDumper) dirs(has bool, refs []int) {
	x.w("(dirs")
	if has {
		for _, r := range refs {
			dr := x.d.Directives[r]
			x.w(" (d ")
			x.ref(dr.Name)
			x.w(" ")
			x.args(dr.HasArguments, dr.Arguments.Refs)
			x.w(")")
		}
	}
	x.w(")")
}

func (x *docDumper) sels(has bool, ref int) {
	x.w("(sels")
	if has && ref >= 0 && ref < len(x.d.SelectionSets) {
		for _, s := range x.d.SelectionSets[ref].SelectionRefs {
			x.w(" ")
			x.sel(x.d.Selections[s])
		}
	}
	x.w(")")
}

func (x *docDumper) sel(s ast.Selection) {
	d := x.d
	switch s.Kind {
	case ast.SelectionKindField:
		f := d.Fields[s.Ref]
		x.w("(f ")
		if f.Alias.IsDefined {
			x.ref(f.Alias.Name)
		} else {
			x.w("(none)")
		}
		x.w(" ")
		x.ref(f.Name)
		x.w(" ")
		x.args(f.HasArguments, f.Arguments.Refs)
		x.w(" ")
		x.dirs(f.HasDirectives, f.Directives.Refs)
		x.w(" ")
		x.sels(f.HasSelections, f.SelectionSet)
		x.w(")")
	case ast.SelectionKindInlineFragment:
		f := d.InlineFragments[s.Ref]
		x.w("(i ")
		if f.TypeCondition.Type == ast.InvalidRef {
			x.w("(none)")
		} else {
			x.ref(d.Types[f.TypeCondition.Type].Name)
		}
		x.w(" ")
		x.dirs(f.HasDirectives, f.Directives.Refs)
		x.w(" ")
		x.sels(f.HasSelections, f.SelectionSet)
		x.w(")")
	case ast.SelectionKindFragmentSpread:
		f := d.FragmentSpreads[s.Ref]
		x.w("(sp ")
		x.ref(f.FragmentName)
		x.w(" ")
		x.dirs(f.HasDirectives, f.Directives.Refs)
		x.w(")")
	}
}

func (x *docDumper) op(ref int) {
	o := x.d.OperationDefinitions[ref]
	kind := "query"
	switch o.OperationType {
	case ast.OperationTypeMutation:
		kind = "mutation"
	case ast.OperationTypeSubscription:
		kind = "subscription"
	}
	x.w("(op " + kind + " ")
	if o.Name.Length() > 0 {
		x.ref(o.Name)
	} else {
		x.w("(none)")
	}
	x.w(" (vardefs")
	if o.HasVariableDefinitions {
		for _, r := range o.VariableDefinitions.Refs {
			vd := x.d.VariableDefinitions[r]
			x.w(" (vd ")
			x.ref(x.d.VariableValues[vd.VariableValue.Ref].Name)
			x.w(" ")
			x.typ(vd.Type)
			x.w(" ")
			if vd.DefaultValue.IsDefined {
				x.w("(some ")
				x.value(vd.DefaultValue.Value)
				x.w(")")
			} else {
				x.w("(none)")
			}
			x.w(" ")
			x.dirs(vd.HasDirectives, vd.Directives.Refs)
			x.w(")")
		}
	}
	x.w(") ")
	x.dirs(o.HasDirectives, o.Directives.Refs)
	x.w(" ")
	x.sels(o.HasSelections, o.SelectionSet)
	x.w(")")
}

func (x *docDumper) frag(ref int) {
	f := x.d.FragmentDefinitions[ref]
	x.w("(frag ")
	x.ref(f.Name)
	x.w(" ")
	x.ref(x.d.Types[f.TypeCondition.Type].Name)
	x.w(" ")
	x.dirs(f.HasDirectives, f.Directives.Refs)
	x.w(" ")
	x.sels(f.HasSelections, f.SelectionSet)
	x.w(")")
}
