package fedlab

import (
	"fmt"
	"strings"

	"gvh/common"
)

// selectionFieldNames: top-level field names of a selection set text ("a b c { d }" -> a b c).
func selectionFieldNames(sel string) []string {
	var out []string
	depth := 0
	for _, tok := range strings.Fields(strings.NewReplacer("{", " { ", "}", " } ").Replace(sel)) {
		switch tok {
		case "{":
			depth++
		case "}":
			depth--
		default:
			if depth == 0 {
				out = append(out, tok)
			}
		}
	}
	return out
}

// RequiresOf returns the @requires selection of Type.field in any subgraph ("" = none).
func (c *Config) RequiresOf(typ, field string) string {
	for _, g := range c.Subgraphs {
		if st := g.Type(typ); st != nil {
			if sf := st.Field(field); sf != nil && sf.Requires != "" {
				return sf.Requires
			}
		}
	}
	return ""
}

// stableFields: fields whose value must be a plain stored leaf/object in the universe because
// the gateway sends them back in representations (keys and @requires inputs).
func (c *Config) stableFields() map[string]bool {
	out := map[string]bool{}
	for _, g := range c.Subgraphs {
		for _, st := range g.Types {
			for n := range keyFieldNames(st.Keys) {
				out[st.Name+"."+n] = true
			}
			// nested key leaves
			for _, k := range st.Keys {
				c.nestedKeyLeaves(st.Name, k, out)
			}
			for _, sf := range st.Fields {
				for _, n := range selectionFieldNames(sf.Requires) {
					out[st.Name+"."+n] = true
				}
			}
		}
	}
	return out
}

func (c *Config) nestedKeyLeaves(typ, key string, out map[string]bool) {
	toks := strings.Fields(strings.NewReplacer("{", " { ", "}", " } ").Replace(key))
	stack := []string{typ}
	last := ""
	for _, tok := range toks {
		switch tok {
		case "{":
			cur := stack[len(stack)-1]
			next := ""
			if td := c.Super.Type(cur); td != nil {
				if fd := td.Field(last); fd != nil {
					next = fd.Type.Base()
				}
			}
			stack = append(stack, next)
		case "}":
			stack = stack[:len(stack)-1]
		default:
			out[stack[len(stack)-1]+"."+tok] = true
			last = tok
		}
	}
}

type uniGen struct {
	r      *common.Rand
	k      Knobs
	c      *Config
	inst   map[string][]string // type -> entity keys
	stable map[string]bool
}

// GenUniverse generates a key-consistent universe for cfg: every object type gets 1-3
// instances; key leaves are unique per (type, field); non-null positions never hold null or a
// failing resolver; keys and @requires inputs are plain stored values.
func GenUniverse(r *common.Rand, k Knobs, c *Config) *Universe {
	g := &uniGen{r: r, k: k, c: c, inst: map[string][]string{}, stable: c.stableFields()}
	var objs []*TypeDef
	for _, t := range c.Super.Types {
		if t.Kind == KObject && t.Name != c.Super.Query {
			objs = append(objs, t)
			n := 1 + r.Pick(3)
			if k["duplists"] {
				n = 2 + r.Pick(3)
			}
			for i := 1; i <= n; i++ {
				g.inst[t.Name] = append(g.inst[t.Name], fmt.Sprintf("%s%d", strings.ToLower(t.Name), i))
			}
		}
	}
	u := &Universe{}
	root := &Entity{Type: c.Super.Query, Key: ""}
	for _, fd := range c.Super.Type(c.Super.Query).Fields {
		root.Fields = append(root.Fields, FV{fd.Name, g.fieldVal(c.Super.Query, fd, "", 0)})
	}
	u.Ents = append(u.Ents, root)
	for ti, t := range objs {
		for i, key := range g.inst[t.Name] {
			e := &Entity{Type: t.Name, Key: key}
			for _, fd := range t.Fields {
				e.Fields = append(e.Fields, FV{fd.Name, g.fieldVal(t.Name, fd, key, 100*(ti+1)+i+1)})
			}
			u.Ents = append(u.Ents, e)
		}
	}
	return u
}

func (g *uniGen) fieldVal(typ string, fd *FieldDef, key string, uniq int) *FVal {
	if req := g.c.RequiresOf(typ, fd.Name); req != "" {
		return &FVal{Kind: FReq, Req: selectionFieldNames(req)}
	}
	if lk, ok := g.c.Lookups[typ+"."+fd.Name]; ok {
		return &FVal{Kind: FLookup, Type: lk.Type, Arg: lk.Arg}
	}
	stable := g.stable[typ+"."+fd.Name]
	if len(fd.Args) > 0 && g.c.Super.IsLeaf(fd.Type.Base()) {
		return &FVal{Kind: FEcho}
	}
	if stable && g.k["listrequires"] && fd.Type.IsList() && g.c.Super.IsLeaf(fd.Type.Base()) {
		// a list-valued @requires input: one JSON leaf (gen_lreq.go)
		return &FVal{Kind: FSc, JSON: g.listLeaf(typ, fd, key, uniq)}
	}
	return g.val(typ, fd, fd.Type, key, uniq, stable)
}

func (g *uniGen) val(typ string, fd *FieldDef, t *TypeRef, key string, uniq int, stable bool) *FVal {
	nullable := !t.IsNonNull()
	t = t.Nullable()
	if nullable && !stable {
		if g.k["errors"] && g.r.Chance(1, 14) {
			return &FVal{Kind: FErr}
		}
		if g.k["nulls"] && g.r.Chance(1, 8) {
			if t.Kind == TNamed && !g.c.Super.IsLeaf(t.Name) {
				return &FVal{Kind: FNullRef}
			}
			return &FVal{Kind: FSc, JSON: JN()}
		}
	}
	if t.Kind == TList {
		if g.k["nestedlists"] && t.Of.Nullable().Kind == TList && !g.c.Super.IsLeaf(t.Base()) && g.r.Chance(1, 2) {
			return g.nestedDupList(t)
		}
		if g.k["scopedhops"] && t.Of.Nullable().Kind == TNamed {
			if td := g.c.Super.Type(t.Of.Base()); td != nil && (td.Kind == KInterface || td.Kind == KUnion) && g.r.Chance(3, 4) {
				return g.coverList(t.Of)
			}
		}
		if g.k["duplists"] && t.Of.Nullable().Kind == TNamed && !g.c.Super.IsLeaf(t.Of.Base()) && g.r.Chance(1, 2) {
			return g.dupList(typ, fd, t.Of, key, uniq, stable)
		}
		n := g.r.Pick(4)
		out := &FVal{Kind: FLst}
		for i := 0; i < n; i++ {
			out.Items = append(out.Items, g.val(typ, fd, t.Of, key, uniq*10+i, stable))
		}
		return out
	}
	name := t.Name
	if g.c.Super.IsLeaf(name) {
		return &FVal{Kind: FSc, JSON: g.leaf(typ, fd, name, key, uniq, stable)}
	}
	poss := g.c.Super.PossibleTypes(name)
	var cands []string
	for _, p := range poss {
		if len(g.inst[p]) > 0 {
			cands = append(cands, p)
		}
	}
	if len(cands) == 0 {
		return &FVal{Kind: FNullRef}
	}
	p := common.PickOf(g.r, cands)
	return &FVal{Kind: FRef, Type: p, Key: common.PickOf(g.r, g.inst[p])}
}

// dupList: a list of objects drawn from a pool of 2-3 distinct values following patterns with
// repeats before and after a new element (a,a,b,c,b ...), optionally with a null in the middle
// when the item type is nullable.
var dupPatterns = [][]int{
	{0, 0, 1, 2, 1}, {0, 0, 1, 1}, {0, 1, 0, 2, 2, 1}, {0, 0, 0, 1, 2, 1, 0}, {0, 1, 1, 2, 0, 2}, {0, -1, 1, 2, 1}, {0, 0, -1, 1, 2, 2, 1},
	{-1, 0, 1, 0, 1}, {0, 1, 2, 0, 1, 2}, {0, 0, 1},
}

func (g *uniGen) dupList(typ string, fd *FieldDef, item *TypeRef, key string, uniq int, stable bool) *FVal {
	var pool []*FVal
	for _, p := range g.c.Super.PossibleTypes(item.Base()) {
		for _, k := range g.inst[p] {
			pool = append(pool, &FVal{Kind: FRef, Type: p, Key: k})
		}
	}
	if len(pool) == 0 {
		return &FVal{Kind: FLst}
	}
	g.r.Shuffle(len(pool), func(a, b int) { pool[a], pool[b] = pool[b], pool[a] })
	out := &FVal{Kind: FLst}
	for _, ix := range common.PickOf(g.r, dupPatterns) {
		if ix < 0 {
			if item.IsNonNull() || !g.k["nulls"] {
				continue
			}
			out.Items = append(out.Items, &FVal{Kind: FNullRef})
			continue
		}
		out.Items = append(out.Items, pool[ix%len(pool)])
	}
	return out
}

var words = []string{"ash", "birch", "cedar", "elm", "fir", "oak", "pine", "yew"}

func (g *uniGen) leaf(typ string, fd *FieldDef, scalar, key string, uniq int, stable bool) *J {
	isKeyLeaf := stable && (fd.Name == "id" || fd.Name == "ck" || fd.Name == "sku" || fd.Name == "code")
	if fd.Name == "id" {
		return JS(key) // (lookup) finds entities by their id
	}
	switch scalar {
	case "Int":
		if isKeyLeaf {
			return JNumRaw(fmt.Sprint(uniq))
		}
		return JNumRaw(fmt.Sprint(g.r.Pick(2000) - 1000))
	case "Float":
		return JNumRaw(common.PickOf(g.r, []string{"0.5", "1.25", "-3.75", "10", "2.5e3", "0"}))
	case "Boolean":
		return JB(g.r.Chance(1, 2))
	case "ID", "String":
		if isKeyLeaf {
			return JS(fmt.Sprintf("%s-%s-%d", strings.ToLower(typ), fd.Name, uniq))
		}
		return JS(common.PickOf(g.r, words) + fmt.Sprint(g.r.Pick(100)))
	}
	if td := g.c.Super.Type(scalar); td != nil && td.Kind == KEnum {
		return JS(common.PickOf(g.r, td.Values))
	}
	return JS("v")
}
