package fedlab

import (
	"gvh/common"
)

// Knob "listrequires" (ExtraKnobs, opted into with "all3"; CONTRACT.md item 8): the inputs of a @requires may be
// list-valued leaves -- [T], [T]!, [T!], [T!]! and, under `nestedlists`, [[T]] in every nullability combination; T a
// scalar or an enum.  Such an input is, like every other one, owned by exactly one other subgraph and @external in the
// requiring subgraph; the gateway has to carry the whole list (null items included) into the representation.
//
// Configuration: the list leaves the `lists` / `nestedlists` knobs already generate become eligible, and two times out
// of three the entity that receives a @requires field gets a fresh leaf `lrK` of one of the list types above in another
// subgraph, which is then preferred as an input.
// Universe (listLeaf): the value of a list-valued @requires input is stored as ONE leaf `(sc (a ...))` -- the reference
// executor completes a JSON array against a list type item by item, compares it with the representation's array as a
// JSON tree in `_entities` lookups and marshals it for `(req ...)` in both modes (a `(lst (sc ..) ..)` value would be
// marshalled in `sub` mode, from the representation, but not in `mono` mode, where `(req ...)` reads `(sc ..)` values
// only).  Null items where the item type is nullable, a null list / inner list where it is nullable, empty lists, and
// items drawn from a pool of two or three values so that values repeat.
// Operations (listReqSels): a @requires field with a list-valued input is selected two times out of three wherever
// its entity is reached, sometimes together with the input itself.

// requiresInputType: may a leaf field of type t be named by a @requires selection?
func (g *cfgGen) requiresInputType(t *TypeRef) bool {
	if !t.IsList() {
		return true
	}
	if !g.k["listrequires"] {
		return false
	}
	d := ListDepth(t)
	return d == 1 || (d == 2 && g.k["nestedlists"])
}

// addListLeaf: two times out of three entity t gets a fresh list-valued leaf owned by a subgraph other than s.
func (g *cfgGen) addListLeaf(t *gType, s int) {
	r, k := g.r, g.k
	var others []int
	for _, o := range t.subs {
		if o != s {
			others = append(others, o)
		}
	}
	if len(others) == 0 || !r.Chance(2, 3) {
		return
	}
	names := []string{"String", "String", "Int", "ID", "Boolean", "Float"}
	if k["enums"] {
		names = append(names, "Color", "Color")
	}
	tr := Named(common.PickOf(r, names))
	// [T], [T]!, [T]!, [T!], [T!]!
	shape := 0
	if k["nonnull"] {
		shape = r.Pick(5)
	}
	if shape >= 3 {
		tr = NonNull(tr)
	}
	if k["nestedlists"] && r.Chance(1, 5) {
		tr = ListOf(tr)
		if k["nonnull"] && r.Chance(1, 2) {
			tr = NonNull(tr)
		}
	}
	tr = ListOf(tr)
	if shape == 1 || shape == 2 || shape == 4 {
		tr = NonNull(tr)
	}
	fd := &FieldDef{Name: g.fname("lr"), Type: tr}
	t.def.Fields = append(t.def.Fields, fd)
	t.owner[fd.Name] = []int{common.PickOf(r, others)}
}

// preferListInput: two times out of three a list-valued candidate is moved to the front (the first m are taken).
func (g *cfgGen) preferListInput(t *gType, cands []string) {
	for i, n := range cands {
		if fd := t.def.Field(n); fd != nil && fd.Type.IsList() {
			if g.r.Chance(2, 3) {
				cands[0], cands[i] = cands[i], cands[0]
			}
			return
		}
	}
}

// listRequiresInputs: the list-valued inputs of the @requires of typ.field ("" selection: none).
func (c *Config) listRequiresInputs(typ, field string) []string {
	req := c.RequiresOf(typ, field)
	if req == "" {
		return nil
	}
	td := c.Super.Type(typ)
	if td == nil {
		return nil
	}
	var out []string
	for _, n := range selectionFieldNames(req) {
		if fd := td.Field(n); fd != nil && fd.Type.IsList() {
			out = append(out, n)
		}
	}
	return out
}

// listLeaf: the value of a list-valued @requires input as one JSON leaf.
func (g *uniGen) listLeaf(typ string, fd *FieldDef, key string, uniq int) *J {
	base := fd.Type.Base()
	var pool []*J
	for n := 2 + g.r.Pick(2); n > 0; n-- {
		pool = append(pool, g.leaf(typ, fd, base, key, uniq, false))
	}
	var build func(t *TypeRef) *J
	build = func(t *TypeRef) *J {
		nullable := !t.IsNonNull()
		t = t.Nullable()
		if t.Kind == TNamed {
			if nullable && g.k["nulls"] && g.r.Chance(1, 3) {
				return JN()
			}
			return pool[g.r.Pick(len(pool))]
		}
		if nullable && g.k["nulls"] && g.r.Chance(1, 7) {
			return JN()
		}
		out := JA()
		if g.r.Chance(1, 7) {
			return out
		}
		for n := 1 + g.r.Pick(4); n > 0; n-- {
			out.Items = append(out.Items, build(t.Of))
		}
		return out
	}
	return build(fd.Type)
}

// listReqSels (operation side of the knob): @requires fields with a list-valued input, selected on their entity -- or,
// from an interface / union, below a fragment on it -- into the merged scope of the enclosing selection set.
func (g *opGen) listReqSels(td *TypeDef, depth int, sc *scope) []*Sel {
	var out []*Sel
	pick := func(otd *TypeDef) []*Sel {
		var sels []*Sel
		for _, fd := range otd.Fields {
			ins := g.c.listRequiresInputs(otd.Name, fd.Name)
			if len(ins) == 0 || len(fd.Args) > 0 || !g.r.Chance(2, 3) {
				continue
			}
			if g.r.Chance(1, 3) {
				if in := otd.Field(ins[0]); in != nil {
					sels = append(sels, g.field(otd, in, depth, sc))
				}
			}
			sels = append(sels, g.field(otd, fd, depth, sc))
		}
		return sels
	}
	switch td.Kind {
	case KObject:
		out = pick(td)
	case KInterface, KUnion:
		for _, m := range g.c.Super.PossibleTypes(td.Name) {
			mtd := g.c.Super.Type(m)
			if mtd == nil {
				continue
			}
			has := false
			for _, fd := range mtd.Fields {
				if len(g.c.listRequiresInputs(m, fd.Name)) > 0 {
					has = true
				}
			}
			if !has || !g.r.Chance(1, 2) {
				continue
			}
			if sels := pick(mtd); len(sels) > 0 {
				out = append(out, &Sel{Kind: SInline, On: m, Sels: sels})
			}
		}
	}
	return out
}

// listRequiresFeature: the operation selects a @requires field one of whose inputs is list-valued.
func (c *Case) listRequiresFeature() bool {
	frag := map[string]*FragDef{}
	for _, fd := range c.Op.Frags {
		frag[fd.Name] = fd
	}
	found := false
	var walk func(typ string, sels []*Sel, depth int)
	walk = func(typ string, sels []*Sel, depth int) {
		if depth > 40 || found {
			return
		}
		td := c.Cfg.Super.Type(typ)
		for _, s := range sels {
			switch s.Kind {
			case SField:
				if td == nil || s.Name == "__typename" {
					continue
				}
				fd := td.Field(s.Name)
				if fd == nil {
					continue
				}
				types := []string{typ}
				if td.Kind == KInterface {
					types = c.Cfg.Super.PossibleTypes(typ)
				}
				for _, p := range types {
					if len(c.Cfg.listRequiresInputs(p, s.Name)) > 0 {
						found = true
					}
				}
				walk(fd.Type.Base(), s.Sels, depth+1)
			case SInline:
				on := s.On
				if on == "" {
					on = typ
				}
				walk(on, s.Sels, depth+1)
			case SSpread:
				if fd := frag[s.Name]; fd != nil {
					walk(fd.On, fd.Sels, depth+1)
				}
			}
		}
	}
	walk(c.Cfg.Super.Query, c.Op.Sels, 0)
	return found
}
