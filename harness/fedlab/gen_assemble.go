package fedlab

import (
	"fmt"
	"sort"
	"strings"
)

// assemble turns the generator's ownership tables into Subgraphs and closes every subgraph
// under "the types my fields return are declared here" (entity stubs, value types in full).
func (g *cfgGen) assemble() {
	super := g.cfg.Super
	subs := make([]*Subgraph, g.nSub)
	for s := range subs {
		subs[s] = &Subgraph{Name: subNames[s]}
		q := &SubType{Name: "Query"}
		for _, fd := range super.Type("Query").Fields {
			if g.rootOwners[fd.Name] == s {
				q.Fields = append(q.Fields, &SubField{Name: fd.Name})
			}
		}
		subs[s].Types = append(subs[s].Types, q)
	}
	keyTop := func(t *gType, s int) map[string]bool {
		if hasInt(t.hop, s) {
			return keyFieldNames([]string{t.keys[1]})
		}
		ks := []string{t.keys[0]}
		if hasInt(t.key2, s) && len(t.keys) > 1 {
			ks = append(ks, t.keys[1])
		}
		return keyFieldNames(ks)
	}
	declare := func(s int, t *gType, stub bool) *SubType {
		st := &SubType{Name: t.def.Name}
		if t.cat == catEntity {
			st.Keys = []string{t.keys[0]}
			if !stub && hasInt(t.hop, s) {
				st.Keys = []string{t.keys[1]}
			} else if !stub && hasInt(t.key2, s) && len(t.keys) > 1 {
				st.Keys = append(st.Keys, t.keys[1])
			}
		}
		for _, fd := range t.def.Fields {
			switch {
			case t.cat == catValue:
				st.Fields = append(st.Fields, &SubField{Name: fd.Name})
			case stub:
				if keyFieldNames(st.Keys)[fd.Name] {
					st.Fields = append(st.Fields, &SubField{Name: fd.Name})
				} else if g.isExt(s, t.def.Name, fd.Name) {
					st.Fields = append(st.Fields, &SubField{Name: fd.Name, External: true})
				}
			case hasInt(t.owner[fd.Name], s) || keyTop(t, s)[fd.Name]:
				st.Fields = append(st.Fields, &SubField{Name: fd.Name})
			case g.isExt(s, t.def.Name, fd.Name):
				st.Fields = append(st.Fields, &SubField{Name: fd.Name, External: true})
			}
		}
		subs[s].Types = append(subs[s].Types, st)
		return st
	}
	for _, t := range g.objs {
		if t.cat == catValue {
			continue
		}
		for _, s := range t.subs {
			declare(s, t, false)
		}
	}
	for _, a := range g.abs {
		if a.def.Kind == KInterface {
			st := &SubType{Name: a.def.Name}
			for _, fd := range a.def.Fields {
				st.Fields = append(st.Fields, &SubField{Name: fd.Name})
			}
			subs[a.home].Types = append(subs[a.home].Types, st)
			for _, s2 := range a.partial {
				subs[s2].Types = append(subs[s2].Types, &SubType{Name: a.def.Name, Fields: []*SubField{{Name: "id"}}})
				for _, impl := range super.PossibleTypes(a.def.Name) {
					if subs[s2].Type(impl) == nil {
						declare(s2, g.obj(impl), true)
					}
				}
			}
		} else {
			subs[a.home].Unions = append(subs[a.home].Unions, a.def.Name)
		}
	}
	// external fields on entities a subgraph does not otherwise declare (provides through a stub)
	for s, byType := range g.ext {
		for tn := range byType {
			if subs[s].Type(tn) == nil {
				declare(s, g.obj(tn), true)
			}
		}
	}
	// closure
	for changed := true; changed; {
		changed = false
		for s, sg := range subs {
			need := func(name string) {
				if t := g.obj(name); t != nil {
					if sg.Type(name) == nil {
						if t.cat == catLocal {
							panic(fmt.Sprintf("fedlab generator: local type %s referenced from subgraph %s", name, sg.Name))
						}
						declare(s, t, true)
						changed = true
					}
					return
				}
				def := super.Type(name)
				if def == nil {
					return
				}
				if def.Kind == KInterface && sg.Type(name) == nil {
					panic(fmt.Sprintf("fedlab generator: interface %s referenced from subgraph %s", name, sg.Name))
				}
			}
			for i := 0; i < len(sg.Types); i++ {
				st := sg.Types[i]
				sup := super.Type(st.Name)
				for _, sf := range st.Fields {
					if fd := sup.Field(sf.Name); fd != nil {
						need(fd.Type.Base())
					}
				}
			}
			for _, u := range sg.Unions {
				for _, m := range super.Type(u).Members {
					need(m)
				}
			}
		}
	}
	// directives
	for key, sel := range g.requires {
		p := strings.SplitN(key, ".", 3)
		var s int
		fmt.Sscanf(p[0], "%d", &s)
		subs[s].Type(p[1]).Field(p[2]).Requires = sel
	}
	for key, sel := range g.provides {
		p := strings.SplitN(key, ".", 3)
		var s int
		fmt.Sscanf(p[0], "%d", &s)
		subs[s].Type(p[1]).Field(p[2]).Provides = sel
	}
	// shareable: a non-key field declared (non-external) by more than one subgraph
	count := map[string]int{}
	for _, sg := range subs {
		for _, st := range sg.Types {
			if st.Name == "Query" {
				continue
			}
			for _, sf := range st.Fields {
				if !sf.External {
					count[st.Name+"."+sf.Name]++
				}
			}
		}
	}
	for _, sg := range subs {
		for _, st := range sg.Types {
			if td := super.Type(st.Name); td == nil || td.Kind != KObject {
				continue
			}
			kf := keyFieldNames(st.Keys)
			for _, sf := range st.Fields {
				if !sf.External && !kf[sf.Name] && count[st.Name+"."+sf.Name] > 1 {
					sf.Shareable = true
				}
			}
		}
		// stable order: Query first, then supergraph order
		idx := map[string]int{}
		for i, t := range super.Types {
			idx[t.Name] = i
		}
		sort.SliceStable(sg.Types, func(a, b int) bool { return idx[sg.Types[a].Name] < idx[sg.Types[b].Name] })
		sort.Strings(sg.Unions)
	}
	if g.k["unresolvable"] {
		for s, sg := range subs {
			for _, st := range sg.Types {
				t := g.obj(st.Name)
				if t == nil || t.cat != catEntity || hasInt(t.subs, s) {
					continue
				}
				if g.r.Chance(1, 2) {
					st.Unresolvable = true
				}
			}
		}
	}
	g.cfg.Subgraphs = subs
}
