// Package fedlab is the Go side of the federation lab (see /verif/FEDLAB.md): data structures
// for a supergraph, its partition into subgraphs with federation metadata, a data universe and
// client operations; S-expression dumps of all of them in the FEDLAB.md formats; a seeded
// generator; and Lab, which builds the real ExecutionEngine over semantic subgraphs answered by
// the Coq-extracted reference executor bin/model_exec.
package fedlab

import (
	"sort"
	"strings"

	"gvh/common"
)

// ---------------------------------------------------------------- type references

type TKind int

const (
	TNamed TKind = iota
	TList
	TNonNull
)

type TypeRef struct {
	Kind TKind
	Name string   // TNamed
	Of   *TypeRef // TList / TNonNull
}

func Named(n string) *TypeRef     { return &TypeRef{Kind: TNamed, Name: n} }
func ListOf(t *TypeRef) *TypeRef  { return &TypeRef{Kind: TList, Of: t} }
func NonNull(t *TypeRef) *TypeRef { return &TypeRef{Kind: TNonNull, Of: t} }

func (t *TypeRef) SDL() string {
	switch t.Kind {
	case TList:
		return "[" + t.Of.SDL() + "]"
	case TNonNull:
		return t.Of.SDL() + "!"
	}
	return t.Name
}

func (t *TypeRef) Sexp() string {
	switch t.Kind {
	case TList:
		return "(list " + t.Of.Sexp() + ")"
	case TNonNull:
		return "(nn " + t.Of.Sexp() + ")"
	}
	return "(named " + common.QS(t.Name) + ")"
}

// Base is the innermost named type.
func (t *TypeRef) Base() string {
	for t.Kind != TNamed {
		t = t.Of
	}
	return t.Name
}
func (t *TypeRef) IsNonNull() bool { return t.Kind == TNonNull }

// Nullable strips one non-null wrapper.
func (t *TypeRef) Nullable() *TypeRef {
	if t.Kind == TNonNull {
		return t.Of
	}
	return t
}
func (t *TypeRef) IsList() bool { return t.Nullable().Kind == TList }

// ---------------------------------------------------------------- literal values

type VKind int

const (
	VVar VKind = iota
	VInt
	VFloat
	VStr
	VBool
	VNull
	VEnum
	VList
	VObj
)

type ObjField struct {
	Name string
	Val  *Value
}

type Value struct {
	Kind   VKind
	Raw    string // variable name, number token, string content (no escapes), "true"/"false", enum name
	Items  []*Value
	Fields []ObjField
}

func (v *Value) GQL() string {
	switch v.Kind {
	case VVar:
		return "$" + v.Raw
	case VInt, VFloat, VEnum:
		return v.Raw
	case VStr:
		return "\"" + v.Raw + "\""
	case VBool:
		return v.Raw
	case VNull:
		return "null"
	case VList:
		parts := make([]string, len(v.Items))
		for i, x := range v.Items {
			parts[i] = x.GQL()
		}
		return "[" + strings.Join(parts, ", ") + "]"
	case VObj:
		parts := make([]string, len(v.Fields))
		for i, f := range v.Fields {
			parts[i] = f.Name + ": " + f.Val.GQL()
		}
		return "{" + strings.Join(parts, ", ") + "}"
	}
	return "null"
}

func (v *Value) Sexp() string {
	switch v.Kind {
	case VVar:
		return "(var " + common.QS(v.Raw) + ")"
	case VInt:
		return "(int " + common.QS(v.Raw) + ")"
	case VFloat:
		return "(float " + common.QS(v.Raw) + ")"
	case VStr:
		return "(str " + common.QS(v.Raw) + " f)"
	case VBool:
		if v.Raw == "true" {
			return "(bool t)"
		}
		return "(bool f)"
	case VNull:
		return "(null)"
	case VEnum:
		return "(enum " + common.QS(v.Raw) + ")"
	case VList:
		parts := []string{"list"}
		for _, x := range v.Items {
			parts = append(parts, x.Sexp())
		}
		return common.L(parts...)
	case VObj:
		parts := []string{"obj"}
		for _, f := range v.Fields {
			parts = append(parts, common.L(common.QS(f.Name), f.Val.Sexp()))
		}
		return common.L(parts...)
	}
	return "(null)"
}

// ---------------------------------------------------------------- schema

type TypeKind int

const (
	KScalar TypeKind = iota
	KObject
	KInterface
	KUnion
	KEnum
	KInput
)

func (k TypeKind) String() string {
	return [...]string{"scalar", "object", "interface", "union", "enum", "input"}[k]
}

type InputValue struct {
	Name    string
	Type    *TypeRef
	Default *Value
}

type FieldDef struct {
	Name string
	Args []*InputValue
	Type *TypeRef
}

type TypeDef struct {
	Kind       TypeKind
	Name       string
	Implements []string
	Fields     []*FieldDef
	Members    []string
	Values     []string
	Inputs     []*InputValue
}

func (t *TypeDef) Field(name string) *FieldDef {
	for _, f := range t.Fields {
		if f.Name == name {
			return f
		}
	}
	return nil
}

type Schema struct {
	Query    string
	Mutation string
	Types    []*TypeDef
}

func (s *Schema) Type(name string) *TypeDef {
	for _, t := range s.Types {
		if t.Name == name {
			return t
		}
	}
	return nil
}

var builtinScalars = map[string]bool{"Int": true, "Float": true, "String": true, "Boolean": true, "ID": true}

func IsBuiltinScalar(n string) bool { return builtinScalars[n] }

// IsLeaf: scalar or enum.
func (s *Schema) IsLeaf(name string) bool {
	if builtinScalars[name] {
		return true
	}
	t := s.Type(name)
	return t != nil && (t.Kind == KScalar || t.Kind == KEnum)
}

// PossibleTypes of a composite type: the concrete object types.
func (s *Schema) PossibleTypes(name string) []string {
	t := s.Type(name)
	if t == nil {
		return nil
	}
	switch t.Kind {
	case KObject:
		return []string{name}
	case KUnion:
		return append([]string(nil), t.Members...)
	case KInterface:
		var out []string
		for _, o := range s.Types {
			if o.Kind == KObject {
				for _, i := range o.Implements {
					if i == name {
						out = append(out, o.Name)
					}
				}
			}
		}
		return out
	}
	return nil
}

// ---------------------------------------------------------------- federation layer

// SubField is a field of a type as one subgraph declares it.
type SubField struct {
	Name      string
	External  bool
	Shareable bool
	Requires  string // selection set text, "" = none
	Provides  string
}

// SubType is a type as one subgraph declares it (objects, interfaces; unions/enums/inputs are
// taken from the supergraph as a whole).
type SubType struct {
	Name         string
	Keys         []string // selection set texts; non-empty = entity in this subgraph
	Fields       []*SubField
	NoImplements bool // do not print "implements" in this subgraph (interface unknown here)
	// Unresolvable: the keys are declared with resolvable: false (a reference-only stub); the
	// gateway must not send _entities requests for this type to this subgraph.
	Unresolvable bool
}

func (t *SubType) Field(name string) *SubField {
	for _, f := range t.Fields {
		if f.Name == name {
			return f
		}
	}
	return nil
}

type Subgraph struct {
	Name  string
	Types []*SubType
	// Unions declared in this subgraph (names); members are those of the supergraph.
	Unions []string
}

func (g *Subgraph) Host() string { return g.Name + ".fedlab" }
func (g *Subgraph) URL() string  { return "http://" + g.Host() + "/graphql" }
func (g *Subgraph) Type(name string) *SubType {
	for _, t := range g.Types {
		if t.Name == name {
			return t
		}
	}
	return nil
}

// Config is one federated configuration: the supergraph and its partition.
type Config struct {
	Super     *Schema
	Subgraphs []*Subgraph
	// Lookups: "Type.field" -> key lookup resolver of that field (universe generator input)
	Lookups map[string]Lookup
}

func (c *Config) Subgraph(name string) *Subgraph {
	for _, g := range c.Subgraphs {
		if g.Name == name {
			return g
		}
	}
	return nil
}

// SubSchema derives the plain GraphQL schema of a subgraph (what its server implements): the
// declared object/interface types restricted to the declared fields, declared unions, and every
// enum / input object / custom scalar of the supergraph.
func (c *Config) SubSchema(g *Subgraph) *Schema {
	out := &Schema{Query: c.Super.Query}
	if c.Super.Mutation != "" && g.Type(c.Super.Mutation) != nil {
		out.Mutation = c.Super.Mutation
	}
	declared := map[string]bool{}
	for _, st := range g.Types {
		declared[st.Name] = true
	}
	for _, u := range g.Unions {
		declared[u] = true
	}
	for _, st := range g.Types {
		sup := c.Super.Type(st.Name)
		if sup == nil {
			continue
		}
		td := &TypeDef{Kind: sup.Kind, Name: sup.Name}
		if !st.NoImplements {
			for _, i := range sup.Implements {
				if declared[i] {
					td.Implements = append(td.Implements, i)
				}
			}
		}
		for _, sf := range st.Fields {
			if fd := sup.Field(sf.Name); fd != nil {
				td.Fields = append(td.Fields, fd)
			}
		}
		out.Types = append(out.Types, td)
	}
	for _, u := range g.Unions {
		sup := c.Super.Type(u)
		if sup == nil {
			continue
		}
		td := &TypeDef{Kind: KUnion, Name: u}
		for _, m := range sup.Members {
			if declared[m] {
				td.Members = append(td.Members, m)
			}
		}
		out.Types = append(out.Types, td)
	}
	for _, t := range c.Super.Types {
		if t.Kind == KEnum || t.Kind == KInput || t.Kind == KScalar {
			out.Types = append(out.Types, t)
		}
	}
	return out
}

// ---------------------------------------------------------------- universe

type FKind int

const (
	FSc FKind = iota
	FRef
	FNullRef
	FLst
	FErr
	FEcho
	FLookup
	FReq
)

type FVal struct {
	Kind  FKind
	JSON  *J     // FSc
	Type  string // FRef / FLookup
	Key   string // FRef
	Arg   string // FLookup
	Items []*FVal
	Req   []string
}

type FV struct {
	Name string
	Val  *FVal
}

type Entity struct {
	Type   string
	Key    string
	Fields []FV
}

func (e *Entity) Field(name string) *FVal {
	for _, f := range e.Fields {
		if f.Name == name {
			return f.Val
		}
	}
	return nil
}

type Universe struct{ Ents []*Entity }

func (u *Universe) Find(typ, key string) *Entity {
	for _, e := range u.Ents {
		if e.Type == typ && e.Key == key {
			return e
		}
	}
	return nil
}

func (u *Universe) OfType(typ string) []*Entity {
	var out []*Entity
	for _, e := range u.Ents {
		if e.Type == typ {
			out = append(out, e)
		}
	}
	return out
}

// ---------------------------------------------------------------- operations

type SelKind int

const (
	SField SelKind = iota
	SInline
	SSpread
)

type Arg struct {
	Name string
	Val  *Value
}

type Dir struct {
	Name string
	Args []Arg
}

type Sel struct {
	Kind  SelKind
	Alias string // SField
	Name  string // SField: field name; SSpread: fragment name
	Args  []Arg
	Dirs  []Dir
	On    string // SInline: type condition ("" = none)
	Sels  []*Sel
}

type VarDef struct {
	Name    string
	Type    *TypeRef
	Default *Value
}

type FragDef struct {
	Name string
	On   string
	Sels []*Sel
}

type Operation struct {
	Name  string
	Vars  []*VarDef
	Sels  []*Sel
	Frags []*FragDef
	// Variables is the JSON object sent with the request (member order kept).
	Variables *J
}

func printArgs(sb *strings.Builder, args []Arg) {
	if len(args) == 0 {
		return
	}
	sb.WriteString("(")
	for i, a := range args {
		if i > 0 {
			sb.WriteString(", ")
		}
		sb.WriteString(a.Name + ": " + a.Val.GQL())
	}
	sb.WriteString(")")
}

func printDirs(sb *strings.Builder, dirs []Dir) {
	for _, d := range dirs {
		sb.WriteString(" @" + d.Name)
		printArgs(sb, d.Args)
	}
}

func printSels(sb *strings.Builder, sels []*Sel) {
	sb.WriteString("{")
	for i, s := range sels {
		if i > 0 {
			sb.WriteString(" ")
		}
		switch s.Kind {
		case SField:
			if s.Alias != "" {
				sb.WriteString(s.Alias + ": ")
			}
			sb.WriteString(s.Name)
			printArgs(sb, s.Args)
			printDirs(sb, s.Dirs)
			if len(s.Sels) > 0 {
				sb.WriteString(" ")
				printSels(sb, s.Sels)
			}
		case SInline:
			sb.WriteString("...")
			if s.On != "" {
				sb.WriteString(" on " + s.On)
			}
			printDirs(sb, s.Dirs)
			sb.WriteString(" ")
			printSels(sb, s.Sels)
		case SSpread:
			sb.WriteString("..." + s.Name)
			printDirs(sb, s.Dirs)
		}
	}
	sb.WriteString("}")
}

// Text prints the operation document (operation first, then fragments).
func (o *Operation) Text() string {
	var sb strings.Builder
	sb.WriteString("query")
	if o.Name != "" {
		sb.WriteString(" " + o.Name)
	}
	if len(o.Vars) > 0 {
		sb.WriteString("(")
		for i, v := range o.Vars {
			if i > 0 {
				sb.WriteString(", ")
			}
			sb.WriteString("$" + v.Name + ": " + v.Type.SDL())
			if v.Default != nil {
				sb.WriteString(" = " + v.Default.GQL())
			}
		}
		sb.WriteString(")")
	}
	sb.WriteString(" ")
	printSels(&sb, o.Sels)
	for _, f := range o.Frags {
		sb.WriteString(" fragment " + f.Name + " on " + f.On + " ")
		printSels(&sb, f.Sels)
	}
	return sb.String()
}

func (o *Operation) VariablesJSON() string {
	if o.Variables == nil {
		return "{}"
	}
	return o.Variables.String()
}

// Clone is a deep copy (the shrinker edits copies).
func (o *Operation) Clone() *Operation {
	c := &Operation{Name: o.Name, Variables: o.Variables}
	c.Vars = append(c.Vars, o.Vars...)
	c.Sels = cloneSels(o.Sels)
	for _, f := range o.Frags {
		c.Frags = append(c.Frags, &FragDef{Name: f.Name, On: f.On, Sels: cloneSels(f.Sels)})
	}
	return c
}

func cloneSels(sels []*Sel) []*Sel {
	out := make([]*Sel, len(sels))
	for i, s := range sels {
		c := *s
		c.Sels = cloneSels(s.Sels)
		out[i] = &c
	}
	return out
}

func sortedKeys[V any](m map[string]V) []string {
	out := make([]string, 0, len(m))
	for k := range m {
		out = append(out, k)
	}
	sort.Strings(out)
	return out
}
