package fedlab

import (
	"fmt"
	"strings"

	"github.com/wundergraph/graphql-go-tools/v2/pkg/ast"
	"github.com/wundergraph/graphql-go-tools/v2/pkg/astparser"
)

// selNode is a parsed field-set text ("a b { c }").
type selNode struct{ kids map[string]*selNode }

func parseFieldSet(s string) *selNode {
	root := &selNode{kids: map[string]*selNode{}}
	stack := []*selNode{root}
	var last *selNode
	for _, tok := range strings.Fields(strings.NewReplacer("{", " { ", "}", " } ").Replace(s)) {
		switch tok {
		case "{":
			if last != nil {
				stack = append(stack, last)
			}
		case "}":
			if len(stack) > 1 {
				stack = stack[:len(stack)-1]
			}
		default:
			n := &selNode{kids: map[string]*selNode{}}
			stack[len(stack)-1].kids[tok] = n
			last = n
		}
	}
	return root
}

func mergeSel(a, b *selNode) *selNode {
	if a == nil {
		return b
	}
	if b == nil {
		return a
	}
	out := &selNode{kids: map[string]*selNode{}}
	for k, v := range a.kids {
		out.kids[k] = v
	}
	for k, v := range b.kids {
		out.kids[k] = mergeSel(out.kids[k], v)
	}
	return out
}

type reqChecker struct {
	c   *Config
	g   *Subgraph
	doc *ast.Document
	out []string
	// fields selected directly under "... on T" of _entities (for the requires check)
	entityFields map[string][]string
	depth        int
}

func (x *reqChecker) bad(format string, a ...any) {
	if len(x.out) < 8 {
		x.out = append(x.out, fmt.Sprintf(format, a...))
	}
}

// CheckRequestOwned: every field of the subgraph request is declared by that subgraph and is
// either owned there (non-external), a key field, reached under an @provides that covers it,
// or __typename / _entities.
func (c *Config) CheckRequestOwned(g *Subgraph, query string) (violations []string, entityFields map[string][]string) {
	doc, report := astparser.ParseGraphqlDocumentString(query)
	if report.HasErrors() {
		return []string{"query does not parse: " + report.Error()}, nil
	}
	x := &reqChecker{c: c, g: g, doc: &doc, entityFields: map[string][]string{}}
	for _, n := range doc.RootNodes {
		if n.Kind != ast.NodeKindOperationDefinition {
			continue
		}
		op := doc.OperationDefinitions[n.Ref]
		root := c.Super.Query
		if op.OperationType == ast.OperationTypeMutation {
			root = c.Super.Mutation
		}
		if op.HasSelections {
			x.walk(root, op.SelectionSet, nil, true, false)
		}
	}
	return x.out, x.entityFields
}

func (x *reqChecker) walk(typ string, setRef int, provided *selNode, isRoot, underEntities bool) {
	x.depth++
	defer func() { x.depth-- }()
	if x.depth > 64 {
		return
	}
	d := x.doc
	for _, sref := range d.SelectionSets[setRef].SelectionRefs {
		sel := d.Selections[sref]
		switch sel.Kind {
		case ast.SelectionKindField:
			name := d.FieldNameString(sel.Ref)
			if name == "__typename" {
				continue
			}
			if isRoot && name == "_entities" && typ == x.c.Super.Query {
				if set, ok := d.FieldSelectionSet(sel.Ref); ok {
					x.walk("_Entity", set, nil, false, true)
				}
				continue
			}
			if typ == "_Entity" {
				x.bad("field %s selected directly on _Entity", name)
				continue
			}
			sup := x.c.Super.Type(typ)
			if sup == nil {
				x.bad("unknown type %s", typ)
				continue
			}
			if sup.Kind == KUnion {
				x.bad("field %s selected on union %s", name, typ)
				continue
			}
			st := x.g.Type(typ)
			if st == nil {
				x.bad("type %s is not declared in subgraph %s (field %s)", typ, x.g.Name, name)
				continue
			}
			sf := st.Field(name)
			if sf == nil {
				x.bad("%s.%s is not declared in subgraph %s", typ, name, x.g.Name)
				continue
			}
			if sf.External && !keyFieldNames(st.Keys)[name] {
				if provided == nil || provided.kids[name] == nil {
					x.bad("%s.%s is @external in subgraph %s and not provided on this path", typ, name, x.g.Name)
				}
			}
			if sup.Kind == KInterface {
				// selected on the interface: every implementer of this subgraph resolves it itself, so
				// none of them may need @requires inputs for it
				for _, impl := range x.c.Super.PossibleTypes(typ) {
					if ist := x.g.Type(impl); ist != nil {
						if isf := ist.Field(name); isf != nil && isf.Requires != "" {
							x.bad("%s.%s is selected on the interface but %s.%s has @requires(%s) in subgraph %s", typ, name, impl, name, isf.Requires, x.g.Name)
						}
					}
				}
			}
			if sf.Requires != "" && !underEntities {
				// the inputs of a @requires field are @external here: the subgraph can compute the
				// field only from a representation, i.e. directly under an _entities fragment
				x.bad("%s.%s has @requires(%s) in subgraph %s but is selected outside an _entities fetch", typ, name, sf.Requires, x.g.Name)
			}
			if underEntities {
				x.entityFields[typ] = append(x.entityFields[typ], name)
			}
			fd := sup.Field(name)
			if fd == nil {
				continue
			}
			if set, ok := d.FieldSelectionSet(sel.Ref); ok {
				var next *selNode
				if provided != nil {
					next = provided.kids[name]
				}
				if sf.Provides != "" {
					next = mergeSel(next, parseFieldSet(sf.Provides))
				}
				x.walk(fd.Type.Base(), set, next, false, false)
			}
		case ast.SelectionKindInlineFragment:
			on := typ
			if d.InlineFragmentHasTypeCondition(sel.Ref) {
				on = d.InlineFragmentTypeConditionNameString(sel.Ref)
			}
			if on != typ {
				if !x.declared(on) {
					x.bad("fragment type %s is not declared in subgraph %s", on, x.g.Name)
					continue
				}
				if typ == "_Entity" {
					if st := x.g.Type(on); st == nil || len(st.Keys) == 0 {
						x.bad("_entities fragment on %s which is not an entity of subgraph %s", on, x.g.Name)
					}
				}
			}
			if set, ok := d.InlineFragmentSelectionSet(sel.Ref); ok {
				x.walk(on, set, provided, false, underEntities && typ == "_Entity")
			}
		case ast.SelectionKindFragmentSpread:
			fname := d.FragmentSpreadNameString(sel.Ref)
			if fref, ok := d.FragmentDefinitionRef([]byte(fname)); ok {
				on := d.FragmentDefinitionTypeName(fref).String()
				if on != typ && !x.declared(on) {
					x.bad("fragment type %s is not declared in subgraph %s", on, x.g.Name)
					continue
				}
				fd := d.FragmentDefinitions[fref]
				if fd.HasSelections {
					x.walk(on, fd.SelectionSet, provided, false, underEntities && typ == "_Entity")
				}
			} else {
				x.bad("unknown fragment %s", fname)
			}
		}
	}
}

func (x *reqChecker) declared(name string) bool {
	if x.g.Type(name) != nil {
		return true
	}
	for _, u := range x.g.Unions {
		if u == name {
			return true
		}
	}
	return false
}

func reprCovers(rep *J, sel *selNode) bool {
	if rep == nil || rep.Kind != JObj {
		return false
	}
	for name, kid := range sel.kids {
		v := rep.Get(name)
		if v == nil {
			return false
		}
		if len(kid.kids) > 0 {
			if !reprCovers(v, kid) {
				return false
			}
		} else if v.Kind == JNull {
			return false
		}
	}
	return true
}

// CheckRepresentations: every _entities representation carries __typename, all fields of one
// key that the subgraph declares for that type, and the @requires inputs of the selected fields.
func (c *Config) CheckRepresentations(g *Subgraph, reps []*J, entityFields map[string][]string) []string {
	var out []string
	bad := func(format string, a ...any) {
		if len(out) < 8 {
			out = append(out, fmt.Sprintf(format, a...))
		}
	}
	for i, rep := range reps {
		tn := rep.Get("__typename")
		if tn == nil || tn.Kind != JStr {
			bad("representation %d has no __typename: %s", i, trunc(rep.String(), 120))
			continue
		}
		st := g.Type(tn.Raw)
		if st == nil || len(st.Keys) == 0 {
			bad("representation %d: %s is not an entity of subgraph %s", i, tn.Raw, g.Name)
			continue
		}
		if st.Unresolvable {
			bad("representation %d: %s is declared resolvable: false in subgraph %s", i, tn.Raw, g.Name)
			continue
		}
		ok := false
		for _, k := range st.Keys {
			if reprCovers(rep, parseFieldSet(k)) {
				ok = true
				break
			}
		}
		if !ok {
			bad("representation %d of %s covers none of the keys %v of subgraph %s: %s", i, tn.Raw, st.Keys, g.Name, trunc(rep.String(), 160))
		}
		for _, f := range entityFields[tn.Raw] {
			if sf := st.Field(f); sf != nil && sf.Requires != "" {
				for name := range parseFieldSet(sf.Requires).kids {
					if rep.Get(name) == nil {
						bad("representation %d of %s lacks %s required by %s.%s: %s", i, tn.Raw, name, tn.Raw, f, trunc(rep.String(), 160))
					}
				}
			}
		}
	}
	return out
}
