package fedlab

import (
	"gvh/common"
)

// Operation side of knob "scopedhops": the same entity hop `ih` of an interface O, with the same or with a
// different nested selection, under several type-condition scopes of the abstract parent -- all of them merging
// into one response position:
//
//	ih {S}  ... on T1 { extra ih {S} }            bare + one implementer
//	... on T1 { ih {S} }  ... on T2 { ih {S'} }   two implementers
//	... on T1 { ih {S} }  ... on O { ih {S} }     implementer + fragment on the interface itself
//	ih {S}  ... on T1 { ih {S} }  ... on T2 { ih {S'} }
//
// inline or through named fragments, below lists when the field leading to O (or ih itself) is a list.  S prefers
// leaves of the entity that the subgraph owning ih does not resolve, so that entity fetches are planned below the
// hop (identical ones for identical S: the planner scopes them by type name and de-duplicates them).

// ownedBy: the subgraphs that declare Type.field non-external.
func (c *Config) ownedBy(typ, field string) []string {
	var out []string
	for _, g := range c.Subgraphs {
		if st := g.Type(typ); st != nil {
			if sf := st.Field(field); sf != nil && !sf.External {
				out = append(out, g.Name)
			}
		}
	}
	return out
}

func (c *Config) isEntity(typ string) bool {
	for _, g := range c.Subgraphs {
		if st := g.Type(typ); st != nil && len(st.Keys) > 0 {
			return true
		}
	}
	return false
}

// hopFields: argument-free fields the interface declares whose type is an entity.
func (g *opGen) hopFields(td *TypeDef) []*FieldDef {
	if td == nil || td.Kind != KInterface {
		return nil
	}
	var out []*FieldDef
	for _, fd := range td.Fields {
		if et := g.c.Super.Type(fd.Type.Base()); len(fd.Args) == 0 && et != nil && et.Kind == KObject && g.c.isEntity(et.Name) {
			out = append(out, fd)
		}
	}
	return out
}

func (g *opGen) scopedHopSels(td *TypeDef, depth int, sc *scope, root bool) []*Sel {
	if depth >= g.maxDepth || g.budget <= 0 {
		return nil
	}
	sup := g.c.Super
	if root {
		var cands []*FieldDef
		for _, fd := range td.Fields {
			if len(g.hopFields(sup.Type(fd.Type.Base()))) > 0 {
				cands = append(cands, fd)
			}
		}
		if len(cands) == 0 || !g.r.Chance(3, 4) {
			return nil
		}
		return []*Sel{g.field(td, common.PickOf(g.r, cands), depth, sc)}
	}
	hops := g.hopFields(td)
	if len(hops) == 0 || !g.r.Chance(3, 4) {
		return nil
	}
	fd := common.PickOf(g.r, hops)
	ent := sup.Type(fd.Type.Base())
	// leaves of the entity; the remote ones are resolved by none of the subgraphs that own the hop on the interface
	home := map[string]bool{}
	for _, n := range g.c.ownedBy(td.Name, fd.Name) {
		home[n] = true
	}
	var leaves, remote []*FieldDef
	for _, lf := range ent.Fields {
		if len(lf.Args) > 0 || !sup.IsLeaf(lf.Type.Base()) {
			continue
		}
		leaves = append(leaves, lf)
		far := true
		for _, o := range g.c.ownedBy(ent.Name, lf.Name) {
			if home[o] {
				far = false
			}
		}
		if far {
			remote = append(remote, lf)
		}
	}
	if len(leaves) == 0 {
		return nil
	}
	pick := func() []*FieldDef {
		var s []*FieldDef
		if len(remote) > 0 {
			s = append(s, common.PickOf(g.r, remote))
		} else {
			s = append(s, common.PickOf(g.r, leaves))
		}
		if g.r.Chance(1, 3) {
			if x := common.PickOf(g.r, leaves); x != s[0] {
				s = append(s, x)
			}
		}
		return s
	}
	s1 := pick()
	s2 := s1
	switch g.r.Pick(4) {
	case 0: // a different nested selection
		s2 = pick()
	case 1: // a superset
		if x := common.PickOf(g.r, leaves); x != s1[0] && (len(s1) < 2 || x != s1[1]) {
			s2 = append(append([]*FieldDef(nil), s1...), x)
		}
	}
	hop := func(s []*FieldDef) *Sel {
		return g.fieldWith(fd, sc, func(child *scope) []*Sel {
			var out []*Sel
			for _, lf := range s {
				out = append(out, g.fieldWith(lf, child, nil))
			}
			return out
		})
	}
	impls := append([]string(nil), sup.PossibleTypes(td.Name)...)
	g.r.Shuffle(len(impls), func(a, b int) { impls[a], impls[b] = impls[b], impls[a] })
	under := func(typ string, s []*FieldDef) *Sel {
		var sels []*Sel
		// something of the implementer's own next to the hop
		if t := sup.Type(typ); t != nil && t.Kind == KObject && g.r.Chance(1, 2) {
			var own []*FieldDef
			for _, x := range t.Fields {
				if len(x.Args) == 0 && sup.IsLeaf(x.Type.Base()) {
					own = append(own, x)
				}
			}
			if len(own) > 0 {
				sels = append(sels, g.fieldWith(common.PickOf(g.r, own), sc, nil))
			}
		}
		if g.r.Chance(1, 2) {
			sels = append(sels, hop(s))
		} else {
			sels = append([]*Sel{hop(s)}, sels...)
		}
		return g.wrapOn(typ, sels)
	}
	var out []*Sel
	variant := g.r.Pick(4)
	if len(impls) < 2 && (variant == 1 || variant == 3) {
		variant = 0
	}
	switch variant {
	case 0:
		out = []*Sel{hop(s1), under(impls[0], s2)}
	case 1:
		out = []*Sel{under(impls[0], s1), under(impls[1], s2)}
	case 2:
		out = []*Sel{under(impls[0], s1), under(td.Name, s2)}
	default:
		out = []*Sel{hop(s1), under(impls[0], s2), under(impls[1], s1)}
	}
	if g.r.Chance(1, 3) {
		g.r.Shuffle(len(out), func(a, b int) { out[a], out[b] = out[b], out[a] })
	}
	return out
}
