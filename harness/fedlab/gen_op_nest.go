package fedlab

import (
	"gvh/common"
)

// Operation side of knob "nestedlists": three times out of four a selection set over a type that declares a field
// of list depth >= 2 selects one (the ordinary selection of g.field below it); when the items are entities -- or an
// interface / union with entity members -- a leaf that none of the subgraphs resolving the list field resolves
// (preferably a @requires field or the knob's own remote leaf) is selected on top, bare or under `... on E`, so that
// an entity fetch is planned whose parent objects sit below the list of lists.

// remoteLeaves: argument-free leaves of entity `ent` that none of the subgraphs in `home` declares non-external;
// @requires fields of the entity count as remote whoever owns them (their inputs have to be fetched first).
func (g *opGen) remoteLeaves(ent *TypeDef, home map[string]bool) []*FieldDef {
	var out []*FieldDef
	for _, lf := range ent.Fields {
		if len(lf.Args) > 0 || !g.c.Super.IsLeaf(lf.Type.Base()) {
			continue
		}
		far := true
		for _, o := range g.c.ownedBy(ent.Name, lf.Name) {
			if home[o] {
				far = false
			}
		}
		if far || g.c.RequiresOf(ent.Name, lf.Name) != "" {
			out = append(out, lf)
		}
	}
	return out
}

// fieldOwners: the subgraphs that resolve parent.field; for an interface parent the owners on its implementers.
func (c *Config) fieldOwners(parent *TypeDef, field string) map[string]bool {
	home := map[string]bool{}
	types := []string{parent.Name}
	if parent.Kind == KInterface {
		types = append(types, c.Super.PossibleTypes(parent.Name)...)
	}
	for _, tn := range types {
		for _, n := range c.ownedBy(tn, field) {
			home[n] = true
		}
	}
	return home
}

func (g *opGen) nestedSels(td *TypeDef, depth int, sc *scope, root bool) []*Sel {
	if depth >= g.maxDepth || g.budget <= 0 || (td.Kind != KObject && td.Kind != KInterface) {
		return nil
	}
	sup := g.c.Super
	var cands []*FieldDef
	for _, fd := range td.Fields {
		if len(fd.Args) == 0 && ListDepth(fd.Type) >= 2 {
			cands = append(cands, fd)
			if !sup.IsLeaf(fd.Type.Base()) {
				cands = append(cands, fd, fd) // composite items three times as often as leaves
			}
		}
	}
	if len(cands) == 0 || !g.r.Chance(3, 4) {
		return nil
	}
	fd := common.PickOf(g.r, cands)
	s := g.field(td, fd, depth, sc)
	if sup.IsLeaf(fd.Type.Base()) {
		return []*Sel{s}
	}
	key := s.Name
	if s.Alias != "" {
		key = s.Alias
	}
	e := sc.keys[key]
	if e == nil || e.child == nil {
		return []*Sel{s}
	}
	home := g.c.fieldOwners(td, fd.Name)
	base := sup.Type(fd.Type.Base())
	var ents []*TypeDef
	if base.Kind == KObject {
		ents = []*TypeDef{base}
	} else {
		for _, p := range sup.PossibleTypes(base.Name) {
			ents = append(ents, sup.Type(p))
		}
		g.r.Shuffle(len(ents), func(a, b int) { ents[a], ents[b] = ents[b], ents[a] })
	}
	for _, et := range ents {
		if et == nil || !g.c.isEntity(et.Name) {
			continue
		}
		far := g.remoteLeaves(et, home)
		if len(far) == 0 {
			continue
		}
		leaves := []*Sel{g.fieldWith(common.PickOf(g.r, far), e.child, nil)}
		if g.r.Chance(1, 3) {
			leaves = append(leaves, g.fieldWith(common.PickOf(g.r, far), e.child, nil))
		}
		if base.Kind == KObject && g.r.Chance(2, 3) {
			s.Sels = append(s.Sels, leaves...)
		} else {
			s.Sels = append(s.Sels, g.wrapOn(et.Name, leaves))
		}
		if !g.r.Chance(1, 3) {
			break
		}
	}
	return []*Sel{s}
}

// nestedFeatures: (a) the operation selects a field of list depth >= 2; (b) the entity types E of which it selects,
// somewhere below such a field (the field itself or an ancestor), a field that no subgraph resolving the field that
// led to E resolves -- an entity fetch for E below a list of lists is needed (unless an @provides covers it).
func (c *Case) nestedFeatures() (nested bool, hopTypes map[string]bool) {
	sup := c.Cfg.Super
	hopTypes = map[string]bool{}
	frag := map[string]*FragDef{}
	for _, fd := range c.Op.Frags {
		frag[fd.Name] = fd
	}
	var walk func(typ string, sels []*Sel, home map[string]bool, below bool, depth int)
	walk = func(typ string, sels []*Sel, home map[string]bool, below bool, depth int) {
		if depth > 60 {
			return
		}
		td := sup.Type(typ)
		for _, s := range sels {
			switch s.Kind {
			case SField:
				if td == nil || s.Name == "__typename" || td.Kind == KUnion {
					continue
				}
				fd := td.Field(s.Name)
				if fd == nil {
					continue
				}
				if below && home != nil && td.Kind == KObject && c.Cfg.isEntity(typ) {
					far := true
					for _, o := range c.Cfg.ownedBy(typ, s.Name) {
						if home[o] {
							far = false
						}
					}
					if far || c.Cfg.RequiresOf(typ, s.Name) != "" {
						hopTypes[typ] = true
					}
				}
				b := below
				if ListDepth(fd.Type) >= 2 {
					nested, b = true, true
				}
				if len(s.Sels) > 0 {
					walk(fd.Type.Base(), s.Sels, c.Cfg.fieldOwners(td, s.Name), b, depth+1)
				}
			case SInline:
				on := s.On
				if on == "" {
					on = typ
				}
				walk(on, s.Sels, home, below, depth+1)
			case SSpread:
				if fd := frag[s.Name]; fd != nil {
					walk(fd.On, fd.Sels, home, below, depth+1)
				}
			}
		}
	}
	walk(sup.Query, c.Op.Sels, nil, false, 0)
	return nested, hopTypes
}
