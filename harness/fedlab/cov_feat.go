package fedlab

import (
	"sort"
	"strings"
)

// CondCombos walks an operation and returns, for every response path (response keys joined with "."),
// the distinct type-condition combinations under which that position is selected.  A combination has
// one component per level of the path, separated by "/": the type conditions (other than the static type
// of the enclosing selection set) that wrap the selection at that level, nested ones joined with "&".
// `a { b { ... on M { c } } ... on T { b { c } } }` gives a.b.c -> ["//M", "/T/"].
func (c *Case) CondCombos() map[string][]string {
	sup := c.Cfg.Super
	frag := map[string]*FragDef{}
	for _, fd := range c.Op.Frags {
		frag[fd.Name] = fd
	}
	sets := map[string]map[string]bool{}
	var walk func(static, typ string, sels []*Sel, path []string, levels []string, here string, depth int)
	walk = func(static, typ string, sels []*Sel, path []string, levels []string, here string, depth int) {
		if depth > 60 {
			return
		}
		td := sup.Type(typ)
		under := func(on string, sub []*Sel) {
			h := here
			if on != "" && on != static {
				if h != "" {
					h += "&"
				}
				h += on
			}
			if on == "" {
				on = typ
			}
			walk(static, on, sub, path, levels, h, depth+1)
		}
		for _, s := range sels {
			switch s.Kind {
			case SField:
				key := s.Name
				if s.Alias != "" {
					key = s.Alias
				}
				p := append(append([]string(nil), path...), key)
				lv := append(append([]string(nil), levels...), here)
				ps := strings.Join(p, ".")
				if sets[ps] == nil {
					sets[ps] = map[string]bool{}
				}
				sets[ps][strings.Join(lv, "/")] = true
				if td == nil || s.Name == "__typename" || td.Kind == KUnion {
					continue
				}
				if fd := td.Field(s.Name); fd != nil && len(s.Sels) > 0 {
					walk(fd.Type.Base(), fd.Type.Base(), s.Sels, p, lv, "", depth+1)
				}
			case SInline:
				under(s.On, s.Sels)
			case SSpread:
				if fd := frag[s.Name]; fd != nil {
					under(fd.On, fd.Sels)
				}
			}
		}
	}
	walk(sup.Query, sup.Query, c.Op.Sels, nil, nil, "", 0)
	out := map[string][]string{}
	for p, set := range sets {
		for k := range set {
			out[p] = append(out[p], k)
		}
		sort.Strings(out[p])
	}
	return out
}

// covFeatures: see Features.CovField / CovNarrowed / CovSameKey.
func (c *Case) covFeatures() (covField, narrowed, sameKey bool) {
	sup := c.Cfg.Super
	abstract := func(n string) bool {
		td := sup.Type(n)
		return td != nil && (td.Kind == KInterface || td.Kind == KUnion)
	}
	frag := map[string]*FragDef{}
	for _, fd := range c.Op.Frags {
		frag[fd.Name] = fd
	}
	below := map[string]bool{} // response paths of abstract-typed fields below an abstract parent
	var walk func(static, typ string, sels []*Sel, path string, depth int)
	walk = func(static, typ string, sels []*Sel, path string, depth int) {
		if depth > 60 {
			return
		}
		td := sup.Type(typ)
		for _, s := range sels {
			switch s.Kind {
			case SField:
				if td == nil || s.Name == "__typename" || td.Kind == KUnion {
					continue
				}
				fd := td.Field(s.Name)
				if fd == nil {
					continue
				}
				key := s.Name
				if s.Alias != "" {
					key = s.Alias
				}
				p := path + "." + key
				if abstract(static) {
					// the field as the possible types of the enclosing abstract type declare it
					var bases []string
					anyAbstract := abstract(fd.Type.Base())
					for _, m := range sup.PossibleTypes(static) {
						if mt := sup.Type(m); mt != nil {
							if mf := mt.Field(s.Name); mf != nil {
								bases = append(bases, mf.Type.Base())
								anyAbstract = anyAbstract || abstract(mf.Type.Base())
							}
						}
					}
					if st := sup.Type(static); st != nil && st.Kind == KInterface {
						if sf := st.Field(s.Name); sf != nil {
							bases = append(bases, sf.Type.Base())
							anyAbstract = anyAbstract || abstract(sf.Type.Base())
						}
					}
					if anyAbstract {
						covField = true
						below[p] = true
						for _, b := range bases {
							if b != bases[0] {
								narrowed = true
							}
						}
					}
				}
				if len(s.Sels) > 0 {
					walk(fd.Type.Base(), fd.Type.Base(), s.Sels, p, depth+1)
				}
			case SInline:
				on := s.On
				if on == "" {
					on = typ
				}
				walk(static, on, s.Sels, path, depth+1)
			case SSpread:
				if fd := frag[s.Name]; fd != nil {
					walk(static, fd.On, fd.Sels, path, depth+1)
				}
			}
		}
	}
	walk(sup.Query, sup.Query, c.Op.Sels, "", 0)
	if !covField {
		return
	}
	for p, combos := range c.CondCombos() {
		if len(combos) < 2 {
			continue
		}
		for b := range below {
			if strings.HasPrefix("."+p+".", b+".") && len(p)+1 > len(b) {
				sameKey = true
			}
		}
	}
	return
}

// DiffPosition locates the first difference between the gateway's data and the reference's: the response
// path of the differing position as response keys without list indices.  When two objects differ in their
// member sets the path ends with the first key only one of them has (or a duplicated key).
func DiffPosition(gw, ref *J) []string {
	var find func(a, b *J, path []string) []string
	find = func(a, b *J, path []string) []string {
		if a == nil {
			a = JN()
		}
		if b == nil {
			b = JN()
		}
		if a.Kind != b.Kind {
			return path
		}
		switch a.Kind {
		case JNum, JStr:
			if a.Raw != b.Raw {
				return path
			}
		case JArr:
			if len(a.Items) != len(b.Items) {
				return path
			}
			for i := range a.Items {
				if p := find(a.Items[i], b.Items[i], path); p != nil {
					return p
				}
			}
		case JObj:
			seen := map[string]bool{}
			for _, m := range a.Members {
				if seen[m.Key] || b.Get(m.Key) == nil {
					return append(append([]string(nil), path...), m.Key)
				}
				seen[m.Key] = true
			}
			for _, m := range b.Members {
				if !seen[m.Key] {
					return append(append([]string(nil), path...), m.Key)
				}
			}
			for _, m := range a.Members {
				if p := find(m.Val, b.Get(m.Key), append(append([]string(nil), path...), m.Key)); p != nil {
					return p
				}
			}
		}
		return nil
	}
	p := find(gw, ref, []string{})
	return p
}

// scopedHopFeature: see Features.ScopedHop.
func (c *Case) scopedHopFeature() bool {
	sup := c.Cfg.Super
	frag := map[string]*FragDef{}
	for _, fd := range c.Op.Frags {
		frag[fd.Name] = fd
	}
	hops := map[string]bool{} // response paths of entity hops selected below an interface-typed position
	var walk func(static, typ string, sels []*Sel, path string, depth int)
	walk = func(static, typ string, sels []*Sel, path string, depth int) {
		if depth > 60 {
			return
		}
		td := sup.Type(typ)
		for _, s := range sels {
			switch s.Kind {
			case SField:
				if td == nil || s.Name == "__typename" || td.Kind == KUnion {
					continue
				}
				fd := td.Field(s.Name)
				if fd == nil {
					continue
				}
				key := s.Name
				if s.Alias != "" {
					key = s.Alias
				}
				p := path + "." + key
				if st := sup.Type(static); st != nil && st.Kind == KInterface && st.Field(s.Name) != nil && c.Cfg.isEntity(fd.Type.Base()) {
					hops[p] = true
				}
				if len(s.Sels) > 0 {
					walk(fd.Type.Base(), fd.Type.Base(), s.Sels, p, depth+1)
				}
			case SInline:
				on := s.On
				if on == "" {
					on = typ
				}
				walk(static, on, s.Sels, path, depth+1)
			case SSpread:
				if fd := frag[s.Name]; fd != nil {
					walk(static, fd.On, fd.Sels, path, depth+1)
				}
			}
		}
	}
	walk(sup.Query, sup.Query, c.Op.Sels, "", 0)
	if len(hops) == 0 {
		return false
	}
	combos := c.CondCombos()
	for p := range hops {
		if len(combos[p[1:]]) >= 2 {
			return true
		}
	}
	return false
}
