package fedlab

import (
	"fmt"
	"strings"

	"gvh/common"
)

// OpsPerConfig: case index i uses configuration i/OpsPerConfig and its operation i%OpsPerConfig.
const OpsPerConfig = 5

func mix(seed uint64, xs ...uint64) uint64 {
	h := seed*0x9e3779b97f4a7c15 + 0x1234567
	for _, x := range xs {
		h ^= x + 0x9e3779b97f4a7c15 + (h << 6) + (h >> 2)
		h *= 0xbf58476d1ce4e5b9
		h ^= h >> 29
	}
	return h
}

var tier0 = []string{"lists", "nonnull", "nulls", "typename", "aliases"}
var tier1 = []string{"sub3", "valuetypes", "localtypes", "args", "variables", "errors", "fragments", "inlinefragments",
	"lookups", "enums", "shareable", "manytypes", "deep", "dupfields", "interfaces", "requires", "interfacerequires",
	"interfaceobjects", "duplists"}

// KnobsFor picks the feature set of a configuration: a third of the configurations are simple,
// a third medium, a third use everything that max allows ("start simple and grow").
func KnobsFor(seed uint64, cfgIdx int, max Knobs) Knobs {
	r := common.NewRand(mix(seed, uint64(cfgIdx), 7))
	k := Knobs{}
	tier := r.Pick(3)
	add := func(names []string) {
		for _, n := range names {
			if max[n] {
				k[n] = true
			}
		}
	}
	add(tier0)
	if tier >= 1 {
		add(tier1)
	}
	if tier >= 2 {
		add(AllKnobs)
	}
	// ExtraKnobs (only when max asks for them: "all2" / "all3"): half of the medium and full configurations.  The
	// draw comes last, so the knob sets chosen under the frozen AllKnobs are what they always were.
	if tier >= 1 {
		for _, n := range ExtraKnobs {
			if max[n] && r.Chance(1, 2) {
				k[n] = true
			}
		}
	}
	return k
}

// Case is one generated (configuration, universe, operation).
type Case struct {
	Seed   uint64
	Index  int
	UniIdx int
	Knobs  Knobs
	Cfg    *Config
	Uni    *Universe
	Op     *Operation
}

func (c *Case) CfgIdx() int { return c.Index / OpsPerConfig }

// BuildConfig / BuildUniverse / BuildOperation derive everything from (seed, index, knobs).
func BuildConfig(seed uint64, cfgIdx int, k Knobs) *Config {
	return GenConfig(common.NewRand(mix(seed, uint64(cfgIdx), 1)), k)
}
func BuildUniverse(seed uint64, cfgIdx, uniIdx int, k Knobs, cfg *Config) *Universe {
	return GenUniverse(common.NewRand(mix(seed, uint64(cfgIdx), 2, uint64(uniIdx))), k, cfg)
}
func BuildOperation(seed uint64, index int, k Knobs, cfg *Config, u0 *Universe) *Operation {
	return GenOperation(common.NewRand(mix(seed, uint64(index), 3)), k, cfg, u0)
}

// BuildCase: exact = use k as is; otherwise k is the maximum and KnobsFor picks the tier.
func BuildCase(seed uint64, index, uniIdx int, k Knobs, exact bool) *Case {
	cfgIdx := index / OpsPerConfig
	if !exact {
		k = KnobsFor(seed, cfgIdx, k)
	}
	c := &Case{Seed: seed, Index: index, UniIdx: uniIdx, Knobs: k}
	c.Cfg = BuildConfig(seed, cfgIdx, k)
	u0 := BuildUniverse(seed, cfgIdx, 0, k, c.Cfg)
	c.Op = BuildOperation(seed, index, k, c.Cfg, u0)
	c.Uni = u0
	if uniIdx != 0 {
		c.Uni = BuildUniverse(seed, cfgIdx, uniIdx, k, c.Cfg)
	}
	return c
}

// Verdict of the C01 clauses on one run.
type Verdict struct {
	LabError string // harness-side failure (executor protocol, ...): not a verdict on the gateway

	PlanningOK bool
	PlanError  string
	Panicked   bool // the engine panicked on this case (recovered in Execute, or the worker process died)

	DataEqual bool // equal as JSON values (object member order ignored)
	OrderOnly bool // equal as values but the member order differs from CollectFields order (informational)
	Diff      string

	GatewayErrors bool
	RefErrors     bool

	InvalidRequests []string // executor answered "invalid" for a subgraph request
	NotOwned        []string
	ReprIncomplete  []string

	Fetches       int
	EntityFetches int

	Gateway *Result
	Ref     *ExecResult
}

func (v *Verdict) ErrorsIff() bool { return v.GatewayErrors == v.RefErrors }

// Failed lists the failed clauses in a fixed order.
func (v *Verdict) Failed() []string {
	var out []string
	if v.Panicked {
		return []string{"no_panic"}
	}
	if !v.PlanningOK {
		return []string{"planning_never_fails"}
	}
	if !v.DataEqual {
		out = append(out, "data_equal")
	}
	if !v.ErrorsIff() {
		out = append(out, "errors_iff")
	}
	if len(v.InvalidRequests) > 0 {
		out = append(out, "request_valid")
	}
	if len(v.NotOwned) > 0 {
		out = append(out, "request_owned")
	}
	if len(v.ReprIncomplete) > 0 {
		out = append(out, "representation_complete")
	}
	return out
}

// Check runs one operation through the gateway and the monolithic reference and evaluates the
// C01 clauses.
func Check(lab *Lab, opText, opName string, variables []byte, ro *RunOptions) *Verdict {
	v := &Verdict{}
	ref, err := lab.Mono(opText, opName, variables)
	if err != nil {
		v.LabError = "mono: " + err.Error()
		return v
	}
	if ref.Invalid != "" {
		v.LabError = "generated operation rejected by the reference executor: " + ref.Invalid
		return v
	}
	v.Ref = ref
	v.RefErrors = ref.NErrors > 0
	if ro == nil {
		ro = &RunOptions{}
	}
	ro.OperationName = opName
	res := lab.Run(opText, variables, ro)
	v.Gateway = res
	v.Fetches = len(res.Requests)
	for _, q := range res.Requests {
		if q.IsEntityFetch {
			v.EntityFetches++
		}
		if q.ExecError != "" {
			v.LabError = "subgraph " + q.Subgraph + ": " + q.ExecError
		}
	}
	if res.Err != nil {
		v.PlanError = res.Err.Error()
		if strings.HasPrefix(v.PlanError, "panic in Execute") {
			v.Panicked = true
			return v
		}
		if verr := lab.Validate(opText); verr != nil {
			// the repo's own validator rejects the operation: a generator defect (or a validator
			// one), not a planning failure
			v.LabError = "generated operation rejected by the validator: " + trunc(verr.Error(), 300)
		}
		return v
	}
	if res.Data == nil && !res.HasErrors() {
		v.PlanError = "no data and no errors in the gateway response: " + trunc(string(res.Response), 200)
		return v
	}
	v.PlanningOK = true
	v.GatewayErrors = res.HasErrors()
	gw := res.Data
	if gw == nil {
		gw = JN()
	}
	// "the same JSON value": object member order is not part of a JSON value, so data_equal
	// compares unordered; a pure member-order difference is kept as an informational flag
	v.DataEqual = gw.EqualUnordered(ref.Data)
	v.OrderOnly = v.DataEqual && !gw.Equal(ref.Data)
	if !v.DataEqual {
		v.Diff = gw.FirstDiffUnordered(ref.Data, "data")
	}
	for _, q := range res.Requests {
		g := lab.Config.Subgraph(q.Subgraph)
		tag := fmt.Sprintf("[%d %s] ", q.Index, q.Subgraph)
		if q.ParseError != "" {
			v.InvalidRequests = append(v.InvalidRequests, tag+q.ParseError)
			continue
		}
		if q.Result != nil && q.Result.Invalid != "" {
			v.InvalidRequests = append(v.InvalidRequests, tag+q.Result.Invalid+" in "+trunc(q.Query, 200))
		}
		if g == nil {
			continue
		}
		viol, ef := lab.Config.CheckRequestOwned(g, q.Query)
		for _, m := range viol {
			v.NotOwned = append(v.NotOwned, tag+m)
		}
		if q.IsEntityFetch {
			for _, m := range lab.Config.CheckRepresentations(g, q.Representations, ef) {
				v.ReprIncomplete = append(v.ReprIncomplete, tag+m)
			}
		}
	}
	return v
}

// Features of a case for the distribution report.
type Features struct {
	Subgraphs, Types     int
	Abstract             bool // the operation selects on an interface / union typed field
	Requires, Provides   bool // the operation selects a @requires field / a field carrying @provides
	Variables, Fragments bool
	Directives, Aliases  bool
	// IfaceRequires: a field selected ON an interface has @requires on some implementer;
	// IfaceObjList: a list-of-objects field is selected ON an interface
	IfaceRequires, IfaceObjList bool
	// CovField: an abstract-typed field is selected on an abstract parent or below a type condition of one;
	// CovNarrowed: ... and some implementer narrows that field covariantly;
	// CovSameKey: a response position below such a field is selected under >= 2 different combinations of
	// outer and inner type conditions (see CondCombos)
	CovField, CovNarrowed, CovSameKey bool
	// ScopedHop: an entity-typed field that an interface declares is selected under >= 2 type-condition scopes
	ScopedHop bool
	// NestedList: a field of list depth >= 2 is selected; NestedHopTypes: entity types that need an entity fetch
	// below such a field (nestedFeatures)
	NestedList     bool
	NestedHopTypes map[string]bool
	// ListRequires: a @requires field one of whose inputs is list-valued is selected
	ListRequires bool
}

func (c *Case) Features() Features {
	f := Features{Subgraphs: len(c.Cfg.Subgraphs), Variables: len(c.Op.Vars) > 0, Fragments: len(c.Op.Frags) > 0}
	for _, t := range c.Cfg.Super.Types {
		if t.Kind == KObject {
			f.Types++
		}
	}
	provides := map[string]bool{}
	for _, g := range c.Cfg.Subgraphs {
		for _, st := range g.Types {
			for _, sf := range st.Fields {
				if sf.Provides != "" {
					provides[st.Name+"."+sf.Name] = true
				}
			}
		}
	}
	frag := map[string]*FragDef{}
	for _, fd := range c.Op.Frags {
		frag[fd.Name] = fd
	}
	var walk func(typ string, sels []*Sel, depth int)
	walk = func(typ string, sels []*Sel, depth int) {
		if depth > 40 {
			return
		}
		td := c.Cfg.Super.Type(typ)
		for _, s := range sels {
			if len(s.Dirs) > 0 {
				f.Directives = true
			}
			switch s.Kind {
			case SField:
				if s.Alias != "" {
					f.Aliases = true
				}
				if td == nil || s.Name == "__typename" {
					continue
				}
				fd := td.Field(s.Name)
				if fd == nil {
					continue
				}
				if c.Cfg.RequiresOf(typ, s.Name) != "" {
					f.Requires = true
				}
				if td.Kind == KInterface {
					for _, p := range c.Cfg.Super.PossibleTypes(typ) {
						if c.Cfg.RequiresOf(p, s.Name) != "" {
							f.Requires, f.IfaceRequires = true, true
						}
					}
					if fd.Type.IsList() && !c.Cfg.Super.IsLeaf(fd.Type.Base()) {
						f.IfaceObjList = true
					}
					// (a field selected on the interface carries the @provides of its implementers)
					for _, p := range c.Cfg.Super.PossibleTypes(typ) {
						if provides[p+"."+s.Name] {
							f.Provides = true
						}
					}
				}
				if provides[typ+"."+s.Name] {
					f.Provides = true
				}
				if bt := c.Cfg.Super.Type(fd.Type.Base()); bt != nil && (bt.Kind == KInterface || bt.Kind == KUnion) {
					f.Abstract = true
				}
				walk(fd.Type.Base(), s.Sels, depth+1)
			case SInline:
				on := s.On
				if on == "" {
					on = typ
				}
				walk(on, s.Sels, depth+1)
			case SSpread:
				if fd := frag[s.Name]; fd != nil {
					walk(fd.On, fd.Sels, depth+1)
				}
			}
		}
	}
	walk(c.Cfg.Super.Query, c.Op.Sels, 0)
	f.CovField, f.CovNarrowed, f.CovSameKey = c.covFeatures()
	f.ScopedHop = c.scopedHopFeature()
	f.NestedList, f.NestedHopTypes = c.nestedFeatures()
	f.ListRequires = c.listRequiresFeature()
	return f
}

// Summary is the one-line case description used in cases files and evidence samples.
func (c *Case) Summary(v *Verdict) string {
	f := c.Features()
	// nestedhop: the gateway really sent an _entities fetch for an entity type that the operation reaches below a
	// list of lists and of which it selects a field the arriving subgraph does not resolve
	nestedHop := false
	if v.Gateway != nil && len(f.NestedHopTypes) > 0 {
		for _, q := range v.Gateway.Requests {
			if !q.IsEntityFetch {
				continue
			}
			for _, rep := range q.Representations {
				if tn := rep.Get("__typename"); tn != nil && f.NestedHopTypes[tn.Raw] {
					nestedHop = true
				}
			}
		}
	}
	return fmt.Sprintf("(sum (subgraphs %d) (types %d) (fetches %d) (entityfetches %d) (abstract %s) (requires %s) (provides %s) (vars %s) (frags %s) (dirs %s) (aliases %s) (ifacerequires %s) (ifaceobjlist %s) (covfield %s) (covnarrowed %s) (covsamekey %s) (scopedhop %s) (nestedlist %s) (nestedhop %s) (listrequires %s))",
		f.Subgraphs, f.Types, v.Fetches, v.EntityFetches, common.B(f.Abstract), common.B(f.Requires), common.B(f.Provides),
		common.B(f.Variables), common.B(f.Fragments), common.B(f.Directives), common.B(f.Aliases),
		common.B(f.IfaceRequires), common.B(f.IfaceObjList), common.B(f.CovField), common.B(f.CovNarrowed), common.B(f.CovSameKey), common.B(f.ScopedHop),
		common.B(f.NestedList), common.B(nestedHop), common.B(f.ListRequires))
}

func joinTrunc(xs []string, n int) string {
	if len(xs) > n {
		xs = xs[:n]
	}
	return strings.Join(xs, "; ")
}

// FailDetail is a short human-readable reason of the first failed clause.
func (v *Verdict) FailDetail() string {
	switch {
	case !v.PlanningOK:
		return trunc(v.PlanError, 400)
	case !v.DataEqual:
		return v.Diff
	case !v.ErrorsIff():
		d := fmt.Sprintf("gateway errors=%v reference errors=%v; data equal", v.GatewayErrors, v.RefErrors)
		if v.Gateway != nil && v.Gateway.HasErrors() {
			if m := v.Gateway.Errors.Items[0].Get("message"); m != nil {
				d += "; gateway error: " + trunc(m.Raw, 160)
			}
		}
		return d
	case len(v.InvalidRequests) > 0:
		return joinTrunc(v.InvalidRequests, 2)
	case len(v.NotOwned) > 0:
		return joinTrunc(v.NotOwned, 2)
	case len(v.ReprIncomplete) > 0:
		return joinTrunc(v.ReprIncomplete, 2)
	}
	return ""
}
