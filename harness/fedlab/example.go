package fedlab

// Example is a small hand-written configuration (accounts / reviews / products) with a universe;
// it is the smoke test of the lab and a template for property harnesses that want a fixed layout.
func Example() (*Config, *Universe) {
	id := func() *FieldDef { return &FieldDef{Name: "id", Type: NonNull(Named("ID"))} }
	super := &Schema{Query: "Query", Types: []*TypeDef{
		{Kind: KObject, Name: "Query", Fields: []*FieldDef{
			{Name: "me", Type: Named("User")},
			{Name: "users", Type: NonNull(ListOf(NonNull(Named("User"))))},
			{Name: "user", Args: []*InputValue{{Name: "id", Type: NonNull(Named("ID"))}}, Type: Named("User")},
			{Name: "topProducts", Type: ListOf(Named("Product"))},
			{Name: "latestReview", Type: Named("Review")},
		}},
		{Kind: KObject, Name: "User", Fields: []*FieldDef{
			id(),
			{Name: "name", Type: Named("String")},
			{Name: "greet", Args: []*InputValue{{Name: "p", Type: Named("String"), Default: &Value{Kind: VStr, Raw: "hi"}}}, Type: Named("String")},
			{Name: "reviews", Type: ListOf(Named("Review"))},
		}},
		{Kind: KObject, Name: "Review", Fields: []*FieldDef{
			id(),
			{Name: "body", Type: Named("String")},
			{Name: "author", Type: Named("User")},
			{Name: "product", Type: Named("Product")},
		}},
		{Kind: KObject, Name: "Product", Fields: []*FieldDef{
			{Name: "upc", Type: NonNull(Named("ID"))},
			{Name: "title", Type: Named("String")},
			{Name: "price", Type: Named("Int")},
			{Name: "reviews", Type: ListOf(Named("Review"))},
		}},
	}}
	f := func(names ...string) []*SubField {
		var out []*SubField
		for _, n := range names {
			out = append(out, &SubField{Name: n})
		}
		return out
	}
	cfg := &Config{Super: super, Subgraphs: []*Subgraph{
		{Name: "accounts", Types: []*SubType{
			{Name: "Query", Fields: f("me", "users", "user")},
			{Name: "User", Keys: []string{"id"}, Fields: f("id", "name", "greet")},
		}},
		{Name: "reviews", Types: []*SubType{
			{Name: "Query", Fields: f("latestReview")},
			{Name: "User", Keys: []string{"id"}, Fields: f("id", "reviews")},
			{Name: "Review", Keys: []string{"id"}, Fields: f("id", "body", "author", "product")},
			{Name: "Product", Keys: []string{"upc"}, Fields: f("upc", "reviews")},
		}},
		{Name: "products", Types: []*SubType{
			{Name: "Query", Fields: f("topProducts")},
			{Name: "Product", Keys: []string{"upc"}, Fields: f("upc", "title", "price")},
		}},
	}}
	sc := func(j *J) *FVal { return &FVal{Kind: FSc, JSON: j} }
	ref := func(t, k string) *FVal { return &FVal{Kind: FRef, Type: t, Key: k} }
	lst := func(xs ...*FVal) *FVal { return &FVal{Kind: FLst, Items: xs} }
	u := &Universe{Ents: []*Entity{
		{Type: "Query", Key: "", Fields: []FV{
			{"me", ref("User", "u1")},
			{"users", lst(ref("User", "u1"), ref("User", "u2"))},
			{"user", &FVal{Kind: FLookup, Type: "User", Arg: "id"}},
			{"topProducts", lst(ref("Product", "p1"), &FVal{Kind: FNullRef}, ref("Product", "p2"))},
			{"latestReview", ref("Review", "r2")},
		}},
		{Type: "User", Key: "u1", Fields: []FV{{"id", sc(JS("u1"))}, {"name", sc(JS("Ann"))}, {"greet", &FVal{Kind: FEcho}},
			{"reviews", lst(ref("Review", "r1"), ref("Review", "r2"))}}},
		{Type: "User", Key: "u2", Fields: []FV{{"id", sc(JS("u2"))}, {"name", sc(JN())}, {"greet", &FVal{Kind: FEcho}},
			{"reviews", &FVal{Kind: FNullRef}}}},
		{Type: "Review", Key: "r1", Fields: []FV{{"id", sc(JS("r1"))}, {"body", sc(JS("good"))}, {"author", ref("User", "u1")}, {"product", ref("Product", "p1")}}},
		{Type: "Review", Key: "r2", Fields: []FV{{"id", sc(JS("r2"))}, {"body", &FVal{Kind: FErr}}, {"author", ref("User", "u2")}, {"product", ref("Product", "p2")}}},
		{Type: "Product", Key: "p1", Fields: []FV{{"upc", sc(JS("p1"))}, {"title", sc(JS("Table"))}, {"price", sc(JNumRaw("899"))}, {"reviews", lst(ref("Review", "r1"))}}},
		{Type: "Product", Key: "p2", Fields: []FV{{"upc", sc(JS("p2"))}, {"title", sc(JS("Chair"))}, {"price", sc(JN())}, {"reviews", lst()}}},
	}}
	return cfg, u
}
