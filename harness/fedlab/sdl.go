package fedlab

import (
	"strings"

	"github.com/wundergraph/graphql-go-tools/v2/pkg/engine/plan"
)

func printArgDefs(sb *strings.Builder, args []*InputValue) {
	if len(args) == 0 {
		return
	}
	sb.WriteString("(")
	for i, a := range args {
		if i > 0 {
			sb.WriteString(", ")
		}
		sb.WriteString(a.Name + ": " + a.Type.SDL())
		if a.Default != nil {
			sb.WriteString(" = " + a.Default.GQL())
		}
	}
	sb.WriteString(")")
}

// printType prints one type definition; dirs(field) gives the directive text of a field
// (with leading space) and typeDirs the directives of the type itself.
func printType(sb *strings.Builder, t *TypeDef, typeDirs string, fieldDirs func(f *FieldDef) string) {
	switch t.Kind {
	case KScalar:
		sb.WriteString("scalar " + t.Name + "\n\n")
	case KEnum:
		sb.WriteString("enum " + t.Name + " {\n")
		for _, v := range t.Values {
			sb.WriteString("  " + v + "\n")
		}
		sb.WriteString("}\n\n")
	case KInput:
		sb.WriteString("input " + t.Name + " {\n")
		for _, iv := range t.Inputs {
			sb.WriteString("  " + iv.Name + ": " + iv.Type.SDL())
			if iv.Default != nil {
				sb.WriteString(" = " + iv.Default.GQL())
			}
			sb.WriteString("\n")
		}
		sb.WriteString("}\n\n")
	case KUnion:
		sb.WriteString("union " + t.Name + " = " + strings.Join(t.Members, " | ") + "\n\n")
	case KObject, KInterface:
		if t.Kind == KObject {
			sb.WriteString("type " + t.Name)
		} else {
			sb.WriteString("interface " + t.Name)
		}
		if len(t.Implements) > 0 {
			sb.WriteString(" implements " + strings.Join(t.Implements, " & "))
		}
		if len(t.Fields) == 0 {
			sb.WriteString(typeDirs + "\n\n")
			return
		}
		sb.WriteString(typeDirs + " {\n")
		for _, f := range t.Fields {
			sb.WriteString("  " + f.Name)
			printArgDefs(sb, f.Args)
			sb.WriteString(": " + f.Type.SDL())
			if fieldDirs != nil {
				sb.WriteString(fieldDirs(f))
			}
			sb.WriteString("\n")
		}
		sb.WriteString("}\n\n")
	}
}

// SDL of a plain schema (the supergraph as the client sees it).
func (s *Schema) SDL() string {
	var sb strings.Builder
	for _, t := range s.Types {
		printType(&sb, t, "", nil)
	}
	return sb.String()
}

// SubgraphSDL is the service SDL of a subgraph with its federation directives.
func (c *Config) SubgraphSDL(g *Subgraph) string {
	sch := c.SubSchema(g)
	var sb strings.Builder
	for _, t := range sch.Types {
		st := g.Type(t.Name)
		typeDirs := ""
		if st != nil {
			for _, k := range st.Keys {
				if st.Unresolvable {
					typeDirs += " @key(fields: \"" + k + "\", resolvable: false)"
				} else {
					typeDirs += " @key(fields: \"" + k + "\")"
				}
			}
		}
		printType(&sb, t, typeDirs, func(f *FieldDef) string {
			if st == nil {
				return ""
			}
			sf := st.Field(f.Name)
			if sf == nil {
				return ""
			}
			d := ""
			if sf.External {
				d += " @external"
			}
			if sf.Shareable {
				d += " @shareable"
			}
			if sf.Requires != "" {
				d += " @requires(fields: \"" + sf.Requires + "\")"
			}
			if sf.Provides != "" {
				d += " @provides(fields: \"" + sf.Provides + "\")"
			}
			return d
		})
	}
	return sb.String()
}

// keyFieldNames returns the top-level field names mentioned by the keys of a type.
func keyFieldNames(keys []string) map[string]bool {
	out := map[string]bool{}
	for _, k := range keys {
		depth := 0
		for _, tok := range strings.Fields(strings.NewReplacer("{", " { ", "}", " } ").Replace(k)) {
			switch tok {
			case "{":
				depth++
			case "}":
				depth--
			default:
				if depth == 0 {
					out[tok] = true
				}
			}
		}
	}
	return out
}

// Metadata builds the planner's description of a subgraph the way the router's composition
// does: root types and entities are root nodes, every other object type and the interfaces are
// child nodes; @external fields (other than key fields) are listed as external only; keys,
// requires and provides become FederationFieldConfigurations.
func (c *Config) Metadata(g *Subgraph) *plan.DataSourceMetadata {
	md := &plan.DataSourceMetadata{}
	for _, st := range g.Types {
		sup := c.Super.Type(st.Name)
		if sup == nil {
			continue
		}
		isRoot := st.Name == c.Super.Query || (c.Super.Mutation != "" && st.Name == c.Super.Mutation)
		keyNames := keyFieldNames(st.Keys)
		tf := plan.TypeField{TypeName: st.Name}
		for _, sf := range st.Fields {
			if sf.External && !keyNames[sf.Name] {
				tf.ExternalFieldNames = append(tf.ExternalFieldNames, sf.Name)
			} else {
				tf.FieldNames = append(tf.FieldNames, sf.Name)
			}
			if sf.Requires != "" {
				md.FederationMetaData.Requires = append(md.FederationMetaData.Requires,
					plan.FederationFieldConfiguration{TypeName: st.Name, FieldName: sf.Name, SelectionSet: sf.Requires})
			}
			if sf.Provides != "" {
				md.FederationMetaData.Provides = append(md.FederationMetaData.Provides,
					plan.FederationFieldConfiguration{TypeName: st.Name, FieldName: sf.Name, SelectionSet: sf.Provides})
			}
		}
		for _, k := range st.Keys {
			md.FederationMetaData.Keys = append(md.FederationMetaData.Keys,
				plan.FederationFieldConfiguration{TypeName: st.Name, SelectionSet: k, DisableEntityResolver: st.Unresolvable})
		}
		if isRoot || len(st.Keys) > 0 {
			md.RootNodes = append(md.RootNodes, tf)
		} else {
			md.ChildNodes = append(md.ChildNodes, tf)
		}
	}
	return md
}

// FieldConfigurations lists every supergraph field that takes arguments (the planner forwards
// an argument upstream only when it is configured).
func (c *Config) FieldConfigurations() plan.FieldConfigurations {
	var out plan.FieldConfigurations
	for _, t := range c.Super.Types {
		if t.Kind != KObject && t.Kind != KInterface {
			continue
		}
		for _, f := range t.Fields {
			if len(f.Args) == 0 {
				continue
			}
			fc := plan.FieldConfiguration{TypeName: t.Name, FieldName: f.Name}
			for _, a := range f.Args {
				fc.Arguments = append(fc.Arguments, plan.ArgumentConfiguration{Name: a.Name, SourceType: plan.FieldArgumentSource})
			}
			out = append(out, fc)
		}
	}
	return out
}
