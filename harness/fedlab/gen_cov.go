package fedlab

import (
	"fmt"

	"gvh/common"
)

// Knob "covariant" (CONTRACT.md, interfaces): abstract-typed object fields below an abstract parent.
//
// For an interface O (home subgraph h, implementers T1..Tn) the generator adds an inner abstract type
// F -- an interface FacetN with 2-3 implementers, or a union FacetUN -- and one or two fields
//
//	interface O { cvK: W[F] }        W = the list / non-null wrappers, the same on every implementer
//	type Ti implements O { cvK: W[F] | W[M] }   M a member of F: a covariant narrowing
//
// (every implementer keeping W[F] is the plain, non-covariant case).  Everything lives in h: the
// members of F are fresh subgraph-local types of h, sometimes an entity that h declares; h owns cvK on
// every implementer, so a selection of cvK on O needs no per-type rewrite, and h gets a root field
// returning O.  An inner interface may again declare such a field (towards itself or an earlier
// abstract type of h), which gives type conditions two levels up.  The members share their leaf
// fields (declared by the interface, or simply equally named on union members), so that one response
// key can be selected bare and under `... on M`.

// rebase rebuilds the wrappers of t around another named type.
func rebase(t *TypeRef, name string) *TypeRef {
	switch t.Kind {
	case TList:
		return ListOf(rebase(t.Of, name))
	case TNonNull:
		return NonNull(rebase(t.Of, name))
	}
	return Named(name)
}

func (g *cfgGen) wrapObj(t *TypeRef) *TypeRef {
	r, k := g.r, g.k
	if k["lists"] && r.Chance(2, 5) {
		if k["nonnull"] && r.Chance(1, 3) {
			t = NonNull(t)
		}
		t = ListOf(t)
	}
	if k["nonnull"] && r.Chance(1, 4) {
		t = NonNull(t)
	}
	return t
}

// addAbstractField declares field `name: wrappers[target]` on the interface parent and on its
// implementers, narrowing it to a member of target on some of them.
func (g *cfgGen) addAbstractField(parent *TypeDef, impls []*gType, h int, name string, target *TypeDef) {
	r := g.r
	tr := g.wrapObj(Named(target.Name))
	parent.Fields = append(parent.Fields, &FieldDef{Name: name, Type: tr})
	// (PossibleTypes reads Implements: set for the inner types and for earlier interfaces by now)
	members := g.cfg.Super.PossibleTypes(target.Name)
	narrowAny := r.Chance(3, 4)
	for _, t := range impls {
		ft := tr
		if narrowAny && len(members) > 0 && r.Chance(1, 2) {
			ft = rebase(tr, common.PickOf(r, members))
		}
		t.def.Fields = append(t.def.Fields, &FieldDef{Name: name, Type: ft})
		t.owner[name] = []int{h}
	}
}

func (g *cfgGen) addCovariant(query *TypeDef, outer *TypeDef, impls []*gType, h int, idx int) {
	r, k := g.r, g.k
	super := g.cfg.Super
	if !r.Chance(5, 6) {
		return
	}
	union := k["unions"] && r.Chance(1, 4)
	inner := &TypeDef{Kind: KInterface, Name: fmt.Sprintf("Facet%d", idx)}
	if union {
		inner = &TypeDef{Kind: KUnion, Name: fmt.Sprintf("FacetU%d", idx)}
	}
	// members: fresh local types of h, the last one sometimes an entity h declares
	nm := 2 + r.Pick(2)
	var members []*gType
	for j := 0; j < nm; j++ {
		if j == nm-1 && r.Chance(1, 3) {
			var ents []*gType
			for _, t := range g.objs {
				if t.cat == catEntity && hasInt(t.subs, h) && !hasInt(t.hop, h) {
					ents = append(ents, t)
				}
			}
			if len(ents) > 0 {
				members = append(members, common.PickOf(r, ents))
				continue
			}
		}
		t := &gType{def: &TypeDef{Kind: KObject, Name: fmt.Sprintf("%s%c", inner.Name, 'A'+j)}, cat: catLocal, home: h, subs: []int{h},
			owner: map[string][]int{}, isKey: map[string]bool{}}
		g.objs = append(g.objs, t)
		super.Types = append(super.Types, t.def)
		members = append(members, t)
	}
	// leaf fields every member has (declared by the interface when there is one)
	nf := 1 + r.Pick(3)
	for j := 0; j < nf; j++ {
		fd := &FieldDef{Name: g.fname("pf"), Type: g.scalarType()}
		if k["args"] && r.Chance(1, 6) {
			fd = &FieldDef{Name: g.fname("px"), Args: g.argDefs(), Type: Named("String")}
		}
		if !union {
			inner.Fields = append(inner.Fields, fd)
		}
		for _, t := range members {
			t.def.Fields = append(t.def.Fields, fd)
			t.owner[fd.Name] = []int{h}
			if !union && k["extinterfacefields"] && t.cat == catEntity && len(t.subs) >= 2 && r.Chance(1, 3) {
				for _, s2 := range t.subs {
					if s2 != h {
						t.owner[fd.Name] = []int{s2}
						g.addExt(h, t.def.Name, fd.Name)
						break
					}
				}
			}
		}
	}
	// a leaf two members share under one name without the interface declaring it, and leaves of their own
	if len(members) >= 2 && r.Chance(1, 2) {
		fd := &FieldDef{Name: g.fname("ps"), Type: g.scalarType()}
		for _, t := range members[:2] {
			t.def.Fields = append(t.def.Fields, fd)
			t.owner[fd.Name] = []int{h}
		}
	}
	for _, t := range members {
		if t.cat == catLocal && r.Chance(1, 2) {
			fd := &FieldDef{Name: g.fname("pm"), Type: g.scalarType()}
			t.def.Fields = append(t.def.Fields, fd)
		}
	}
	if union {
		for _, t := range members {
			inner.Members = append(inner.Members, t.def.Name)
		}
	} else {
		for _, t := range members {
			t.def.Implements = append(t.def.Implements, inner.Name)
		}
	}
	super.Types = append(super.Types, inner)
	g.abs = append(g.abs, &gAbstract{def: inner, home: h})

	// the fields of the outer interface
	n := 1 + r.Pick(2)
	for j := 0; j < n; j++ {
		g.addAbstractField(outer, impls, h, g.fname("cv"), inner)
	}
	// one level further: the inner interface declares an abstract-typed field as well
	if !union && r.Chance(1, 2) {
		var targets []*TypeDef
		for _, a := range g.abs {
			if a.home == h && a.def != inner && len(super.PossibleTypes(a.def.Name)) > 0 {
				targets = append(targets, a.def)
			}
		}
		targets = append(targets, inner)
		g.addAbstractField(inner, members, h, g.fname("cw"), common.PickOf(r, targets))
	}
	// the outer interface is reachable from a root field of h
	qf := &FieldDef{Name: g.fname("qc"), Type: g.wrapObj(Named(outer.Name))}
	query.Fields = append(query.Fields, qf)
	g.rootOwner(qf.Name, h)
}
