package fedlab

// Shrinking helpers: pruning an operation's unused definitions and pruning a configuration /
// universe down to what an operation can touch.

func usedNames(sels []*Sel, frags map[string]*FragDef, vars, fr map[string]bool) {
	var val func(v *Value)
	val = func(v *Value) {
		if v == nil {
			return
		}
		if v.Kind == VVar {
			vars[v.Raw] = true
		}
		for _, x := range v.Items {
			val(x)
		}
		for _, f := range v.Fields {
			val(f.Val)
		}
	}
	for _, s := range sels {
		for _, a := range s.Args {
			val(a.Val)
		}
		for _, d := range s.Dirs {
			for _, a := range d.Args {
				val(a.Val)
			}
		}
		if s.Kind == SSpread {
			if !fr[s.Name] {
				fr[s.Name] = true
				if fd := frags[s.Name]; fd != nil {
					usedNames(fd.Sels, frags, vars, fr)
				}
			}
			continue
		}
		usedNames(s.Sels, frags, vars, fr)
	}
}

// PruneOperation drops fragment definitions, variable definitions and variable values that
// are no longer referenced (an operation with unused ones is invalid).
func PruneOperation(o *Operation) {
	frags := map[string]*FragDef{}
	for _, f := range o.Frags {
		frags[f.Name] = f
	}
	vars, fr := map[string]bool{}, map[string]bool{}
	usedNames(o.Sels, frags, vars, fr)
	var nf []*FragDef
	for _, f := range o.Frags {
		if fr[f.Name] {
			nf = append(nf, f)
		}
	}
	o.Frags = nf
	var nv []*VarDef
	for _, v := range o.Vars {
		if vars[v.Name] {
			nv = append(nv, v)
		}
	}
	o.Vars = nv
	if o.Variables != nil {
		nj := &J{Kind: JObj}
		for _, m := range o.Variables.Members {
			if vars[m.Key] {
				nj.Members = append(nj.Members, m)
			}
		}
		o.Variables = nj
	}
}

// PruneCase returns a copy of the case whose configuration and universe keep only what the
// operation can touch: the selected fields (on every possible runtime type), the keys of the
// entities involved, @requires inputs and @provides targets of kept fields.
func PruneCase(c *Case) *Case {
	cfg := c.Cfg
	sup := cfg.Super
	used := map[string]bool{}
	kept := map[string]bool{sup.Query: true}
	frag := map[string]*FragDef{}
	for _, fd := range c.Op.Frags {
		frag[fd.Name] = fd
	}
	mark := func(typ, field string) {
		td := sup.Type(typ)
		if td == nil || td.Field(field) == nil {
			return
		}
		used[typ+"."+field] = true
		kept[typ] = true
		if td.Kind == KInterface {
			for _, p := range sup.PossibleTypes(typ) {
				if pt := sup.Type(p); pt != nil && pt.Field(field) != nil {
					used[p+"."+field] = true
					kept[p] = true
				}
			}
		}
	}
	var walk func(typ string, sels []*Sel, depth int)
	walk = func(typ string, sels []*Sel, depth int) {
		if depth > 40 {
			return
		}
		kept[typ] = true
		td := sup.Type(typ)
		for _, s := range sels {
			switch s.Kind {
			case SField:
				if td == nil || s.Name == "__typename" {
					continue
				}
				fd := td.Field(s.Name)
				if fd == nil {
					continue
				}
				mark(typ, s.Name)
				walk(fd.Type.Base(), s.Sels, depth+1)
			case SInline:
				on := s.On
				if on == "" {
					on = typ
				}
				walk(on, s.Sels, depth+1)
			case SSpread:
				if fd := frag[s.Name]; fd != nil {
					walk(fd.On, fd.Sels, depth+1)
				}
			}
		}
	}
	walk(sup.Query, c.Op.Sels, 0)
	var markSet func(typ string, n *selNode)
	markSet = func(typ string, n *selNode) {
		td := sup.Type(typ)
		if td == nil {
			return
		}
		for name, kid := range n.kids {
			mark(typ, name)
			if fd := td.Field(name); fd != nil && len(kid.kids) > 0 {
				markSet(fd.Type.Base(), kid)
			}
		}
	}
	for changed := true; changed; {
		before := len(used) + len(kept)
		// types reachable through kept fields, abstract members
		for _, td := range sup.Types {
			if !kept[td.Name] {
				continue
			}
			switch td.Kind {
			case KUnion, KInterface:
				for _, p := range sup.PossibleTypes(td.Name) {
					kept[p] = true
				}
			case KObject:
				for _, fd := range td.Fields {
					if used[td.Name+"."+fd.Name] {
						kept[fd.Type.Base()] = true
					}
				}
				for _, i := range td.Implements {
					_ = i
				}
			}
		}
		for _, g := range cfg.Subgraphs {
			for _, st := range g.Types {
				if !kept[st.Name] {
					continue
				}
				for _, k := range st.Keys {
					markSet(st.Name, parseFieldSet(k))
				}
				for _, sf := range st.Fields {
					if !used[st.Name+"."+sf.Name] {
						continue
					}
					if sf.Requires != "" {
						markSet(st.Name, parseFieldSet(sf.Requires))
					}
					if sf.Provides != "" {
						if fd := sup.Type(st.Name).Field(sf.Name); fd != nil {
							markSet(fd.Type.Base(), parseFieldSet(sf.Provides))
						}
					}
				}
			}
		}
		// every kept object / interface type keeps at least one field
		for _, td := range sup.Types {
			if !kept[td.Name] || (td.Kind != KObject && td.Kind != KInterface) || td.Name == sup.Query {
				continue
			}
			any := false
			for _, fd := range td.Fields {
				if used[td.Name+"."+fd.Name] {
					any = true
				}
			}
			if !any && len(td.Fields) > 0 {
				pick := td.Fields[0]
				for _, fd := range td.Fields {
					if sup.IsLeaf(fd.Type.Base()) && len(fd.Args) == 0 {
						pick = fd
						break
					}
				}
				mark(td.Name, pick.Name)
			}
		}
		changed = len(used)+len(kept) != before
	}

	// rebuild
	ns := &Schema{Query: sup.Query, Mutation: sup.Mutation}
	for _, td := range sup.Types {
		switch td.Kind {
		case KEnum, KInput, KScalar:
			ns.Types = append(ns.Types, td)
		case KUnion:
			if kept[td.Name] {
				ns.Types = append(ns.Types, td)
			}
		case KObject, KInterface:
			if !kept[td.Name] {
				continue
			}
			nt := &TypeDef{Kind: td.Kind, Name: td.Name}
			for _, i := range td.Implements {
				if kept[i] {
					nt.Implements = append(nt.Implements, i)
				}
			}
			for _, fd := range td.Fields {
				if used[td.Name+"."+fd.Name] {
					nt.Fields = append(nt.Fields, fd)
				}
			}
			ns.Types = append(ns.Types, nt)
		}
	}
	nc := &Config{Super: ns, Lookups: map[string]Lookup{}}
	for k, v := range cfg.Lookups {
		if used[k] {
			nc.Lookups[k] = v
		}
	}
	for _, g := range cfg.Subgraphs {
		ng := &Subgraph{Name: g.Name}
		for _, st := range g.Types {
			if !kept[st.Name] {
				continue
			}
			nst := &SubType{Name: st.Name, Keys: st.Keys, NoImplements: st.NoImplements}
			for _, sf := range st.Fields {
				if used[st.Name+"."+sf.Name] {
					nst.Fields = append(nst.Fields, sf)
				}
			}
			if len(nst.Fields) == 0 && st.Name != sup.Query {
				continue
			}
			ng.Types = append(ng.Types, nst)
		}
		for _, u := range g.Unions {
			if kept[u] {
				ng.Unions = append(ng.Unions, u)
			}
		}
		only := len(ng.Types) == 1 && ng.Types[0].Name == sup.Query && len(ng.Types[0].Fields) == 0 && len(ng.Unions) == 0
		if len(ng.Types) == 0 || only {
			continue
		}
		nc.Subgraphs = append(nc.Subgraphs, ng)
	}
	nu := &Universe{}
	for _, e := range c.Uni.Ents {
		if !kept[e.Type] {
			continue
		}
		ne := &Entity{Type: e.Type, Key: e.Key}
		for _, f := range e.Fields {
			if used[e.Type+"."+f.Name] {
				ne.Fields = append(ne.Fields, f)
			}
		}
		nu.Ents = append(nu.Ents, ne)
	}
	out := *c
	out.Cfg, out.Uni = nc, nu
	return &out
}
