package fedlab

import (
	"bytes"
	"context"
	"encoding/json"
	"errors"
	"fmt"
	"io"
	"net/http"
	"runtime/debug"
	"sort"
	"strings"
	"sync"
	"time"

	"github.com/jensneuse/abstractlogger"

	"github.com/wundergraph/graphql-go-tools/execution/engine"
	"github.com/wundergraph/graphql-go-tools/execution/graphql"
	"github.com/wundergraph/graphql-go-tools/v2/pkg/astnormalization"
	"github.com/wundergraph/graphql-go-tools/v2/pkg/astparser"
	"github.com/wundergraph/graphql-go-tools/v2/pkg/engine/datasource/graphql_datasource"
	"github.com/wundergraph/graphql-go-tools/v2/pkg/engine/plan"
	"github.com/wundergraph/graphql-go-tools/v2/pkg/engine/postprocess"
	"github.com/wundergraph/graphql-go-tools/v2/pkg/engine/resolve"
	"github.com/wundergraph/graphql-go-tools/v2/pkg/operationreport"
)

// Request is one subgraph request the gateway sent, as the RoundTripper saw it.
type Request struct {
	Index           int    // arrival order within the Run (0-based)
	Subgraph        string // subgraph name (from the URL host)
	Query           string // "query" member of the body
	OperationName   string
	Variables       *J   // "variables" member (nil when absent)
	Representations []*J // variables.representations items (entity fetches)
	IsEntityFetch   bool // the query selects _entities
	Body            []byte
	Header          http.Header
	// filled in when the semantic answer has been computed (before BeforeRespond is called)
	ParseError string      // the query did not parse
	Result     *ExecResult // answer of the reference executor (nil on parse error / exec failure)
	ExecError  string      // protocol failure talking to the executor
	Response   []byte      // the HTTP body that is (or would have been) returned
	Status     int         // HTTP status actually returned (0 = transport error)
	Arrived    time.Time
	Responded  time.Time
}

// Ident identifies a request independently of its arrival order (subgraph + query text).
func (r *Request) Ident() string { return r.Subgraph + "|" + r.Query }

// Action tells the RoundTripper what to do with one request.  The zero value answers normally.
type Action struct {
	Delay time.Duration   // sleep before answering
	Wait  <-chan struct{} // block until closed / received (gates: hold and release in a chosen order)
	Err   error           // fail the round trip with this transport error
	// Status / Body replace the semantic answer when Status != 0 (Body nil keeps the computed body).
	Status int
	Body   []byte
	Header http.Header // extra response headers
}

// Hook is called on the request's own goroutine after the semantic answer has been computed and
// before anything is returned to the gateway; it may block.
type Hook func(reqIndex int, req *Request) Action

// RunOptions of one Lab.Run.
type RunOptions struct {
	OperationName string
	BeforeRespond Hook
	// ExecutionOptions are passed to ExecutionEngine.Execute (engine.WithAuthorizer,
	// engine.WithPreFetchFieldAuthorizer, engine.WithAdditionalHttpHeaders, tracing ...).
	ExecutionOptions []engine.ExecutionOptions
	Timeout          time.Duration // default 20s
	Context          context.Context
}

// EngineOptions select how the engine is built (C09 option sets).
type EngineOptions struct {
	Resolver        resolve.ResolverOptions // zero value: MaxConcurrency 1024
	MultiFetch      bool                    // engine.Configuration.EnableMultiFetch
	ScheduleFetches bool                    // engine.Configuration.EnableScheduleFetches
	// Configure, when set, may edit the engine configuration before the engine is built.
	Configure func(conf *engine.Configuration)
	// DataSourceMetadata, when set, may edit a subgraph's planner metadata (seeding defects).
	DataSourceMetadata func(g *Subgraph, md *plan.DataSourceMetadata)
}

// Result of one Lab.Run.
type Result struct {
	Err      error  // error returned by Execute (planning / validation failure), nil otherwise
	Response []byte // bytes written to the response writer
	Requests []*Request
	Data     *J // parsed "data" member (nil when absent)
	Errors   *J // parsed "errors" member (nil when absent)
	Wall     time.Duration
}

func (r *Result) HasErrors() bool {
	return r.Errors != nil && r.Errors.Kind == JArr && len(r.Errors.Items) > 0
}

// Lab is one federated configuration wired to a real ExecutionEngine whose subgraphs are
// answered by the reference executor over a data universe.
type Lab struct {
	Config   *Config
	Universe *Universe
	Engine   *engine.ExecutionEngine
	Schema   *graphql.Schema
	Exec     *ExecServer
	SubSDL   map[string]string
	SuperSDL string

	planConfig plan.Configuration
	ownExec    bool
	id         string
	cancel     context.CancelFunc

	mu    sync.Mutex // serialises Run
	logMu sync.Mutex // guards run / the request log
	run   *runState
}

type runState struct {
	hook Hook
	reqs []*Request
}

var labCounter struct {
	sync.Mutex
	n int
}

// NewLab builds the engine exactly like execution/engine/child_type_mismatch_test.go
// (newChildTypeMismatchEngine) and registers the supergraph and every subgraph schema with the
// universe in the executor.  exec may be nil (a private child process is started).
func NewLab(cfg *Config, u *Universe, exec *ExecServer, opts EngineOptions) (*Lab, error) {
	labCounter.Lock()
	labCounter.n++
	id := fmt.Sprintf("L%d", labCounter.n)
	labCounter.Unlock()

	l := &Lab{Config: cfg, Universe: u, Exec: exec, id: id, SubSDL: map[string]string{}}
	if l.Exec == nil {
		e, err := NewExecServer("")
		if err != nil {
			return nil, err
		}
		l.Exec, l.ownExec = e, true
	}
	ctx, cancel := context.WithCancel(context.Background())
	l.cancel = cancel
	fail := func(err error) (*Lab, error) {
		l.Close()
		return nil, err
	}

	httpClient := &http.Client{Transport: roundTripper{l}}
	subscriptionClient := graphql_datasource.NewGraphQLSubscriptionClient(ctx,
		graphql_datasource.WithUpgradeClient(httpClient),
		graphql_datasource.WithStreamingClient(httpClient),
	)
	factory, err := graphql_datasource.NewFactory(ctx, httpClient, subscriptionClient)
	if err != nil {
		return fail(err)
	}

	l.SuperSDL = cfg.Super.SDL()
	schema, err := graphql.NewSchemaFromString(l.SuperSDL)
	if err != nil {
		return fail(fmt.Errorf("supergraph schema: %w", err))
	}
	l.Schema = schema
	conf := engine.NewConfiguration(schema)
	for _, g := range cfg.Subgraphs {
		sdl := cfg.SubgraphSDL(g)
		l.SubSDL[g.Name] = sdl
		schemaConfig, err := graphql_datasource.NewSchemaConfiguration(sdl,
			&graphql_datasource.FederationConfiguration{Enabled: true, ServiceSDL: sdl})
		if err != nil {
			return fail(fmt.Errorf("subgraph %s schema configuration: %w", g.Name, err))
		}
		dsConfig, err := graphql_datasource.NewConfiguration(graphql_datasource.ConfigurationInput{
			Fetch:               &graphql_datasource.FetchConfiguration{URL: g.URL(), Method: http.MethodPost},
			SchemaConfiguration: schemaConfig,
		})
		if err != nil {
			return fail(fmt.Errorf("subgraph %s configuration: %w", g.Name, err))
		}
		md := cfg.Metadata(g)
		if opts.DataSourceMetadata != nil {
			opts.DataSourceMetadata(g, md)
		}
		ds, err := plan.NewDataSourceConfiguration[graphql_datasource.Configuration](g.Name, factory, md, dsConfig)
		if err != nil {
			return fail(fmt.Errorf("subgraph %s datasource: %w", g.Name, err))
		}
		conf.AddDataSource(ds)
		l.planConfig.DataSources = append(l.planConfig.DataSources, ds)
	}
	l.planConfig.Fields = cfg.FieldConfigurations()
	l.planConfig.DisableResolveFieldPositions = true
	conf.SetFieldConfigurations(cfg.FieldConfigurations())
	if opts.MultiFetch {
		conf.EnableMultiFetch()
	}
	if opts.ScheduleFetches {
		conf.EnableScheduleFetches()
	}
	if opts.Configure != nil {
		opts.Configure(&conf)
	}
	ro := opts.Resolver
	if ro.MaxConcurrency == 0 {
		ro.MaxConcurrency = 1024
	}
	eng, err := engine.NewExecutionEngine(ctx, abstractlogger.Noop{}, conf, ro)
	if err != nil {
		return fail(err)
	}
	l.Engine = eng
	if err := l.SetUniverse(u); err != nil {
		return fail(err)
	}
	return l, nil
}

func (l *Lab) superID() string          { return l.id + "_super" }
func (l *Lab) subID(name string) string { return l.id + "_" + name }

// SetUniverse (re)defines the supergraph and all subgraph schemas over u in the executor; the
// engine (and its plan cache) is kept.
func (l *Lab) SetUniverse(u *Universe) error {
	l.Universe = u
	if err := l.Exec.Def(l.superID(), l.Config.Super, u); err != nil {
		return err
	}
	for _, g := range l.Config.Subgraphs {
		if err := l.Exec.Def(l.subID(g.Name), l.Config.SubSchema(g), u); err != nil {
			return err
		}
	}
	return nil
}

func (l *Lab) Close() {
	if l.cancel != nil {
		l.cancel()
	}
	if l.Exec != nil {
		if l.ownExec {
			l.Exec.Close()
		} else {
			l.Exec.Undef(l.superID())
			for _, g := range l.Config.Subgraphs {
				l.Exec.Undef(l.subID(g.Name))
			}
		}
	}
}

// DumpOperation parses operation text with the repo's parser and dumps it (FEDLAB.md form).
func DumpOperation(text string) (string, error) {
	doc, report := astparser.ParseGraphqlDocumentString(text)
	if report.HasErrors() {
		return "", errors.New(report.Error())
	}
	return DumpDocument(&doc), nil
}

// Mono executes the client operation over the whole supergraph and universe in the reference
// executor ("what a single server owning all the data returns").
func (l *Lab) Mono(operation, operationName string, variables []byte) (*ExecResult, error) {
	dump, err := DumpOperation(operation)
	if err != nil {
		return nil, fmt.Errorf("operation does not parse: %w", err)
	}
	vars := JO()
	if len(bytes.TrimSpace(variables)) > 0 {
		if vars, err = ParseJSON(variables); err != nil {
			return nil, fmt.Errorf("variables: %w", err)
		}
	}
	return l.Exec.Exec(l.superID(), "mono", dump, operationName, vars)
}

// Run sends one client operation through ExecutionEngine.Execute.  Runs on one Lab are
// serialised (the request log belongs to the run).
func (l *Lab) Run(operation string, variables []byte, opts *RunOptions) *Result {
	if opts == nil {
		opts = &RunOptions{}
	}
	l.mu.Lock()
	defer l.mu.Unlock()
	rs := &runState{hook: opts.BeforeRespond}
	l.seqLock(func() { l.run = rs })
	defer l.seqLock(func() { l.run = nil })

	parent := opts.Context
	if parent == nil {
		parent = context.Background()
	}
	timeout := opts.Timeout
	if timeout == 0 {
		timeout = 20 * time.Second
	}
	ctx, cancel := context.WithTimeout(parent, timeout)
	defer cancel()

	req := &graphql.Request{OperationName: opts.OperationName, Query: operation}
	if len(bytes.TrimSpace(variables)) > 0 {
		req.Variables = json.RawMessage(variables)
	}
	writer := graphql.NewEngineResultWriter()
	t0 := time.Now()
	res := &Result{}
	func() {
		defer func() {
			if p := recover(); p != nil {
				res.Err = fmt.Errorf("panic in Execute: %v | %s", p, trunc(strings.Join(strings.Fields(string(debug.Stack())), " "), 3000))
			}
		}()
		res.Err = l.Engine.Execute(ctx, req, &writer, opts.ExecutionOptions...)
	}()
	res.Wall = time.Since(t0)
	res.Response = append([]byte(nil), writer.Bytes()...)
	l.seqLock(func() { res.Requests = append(res.Requests, rs.reqs...) })
	if len(res.Response) > 0 {
		if j, err := ParseJSON(res.Response); err == nil {
			res.Data = j.Get("data")
			res.Errors = j.Get("errors")
		} else if res.Err == nil {
			res.Err = fmt.Errorf("gateway response is not JSON: %v: %s", err, trunc(string(res.Response), 200))
		}
	}
	return res
}

func (l *Lab) seqLock(f func()) {
	l.logMu.Lock()
	defer l.logMu.Unlock()
	f()
}

// ---------------------------------------------------------------- the subgraph transport

type roundTripper struct{ l *Lab }

func (rt roundTripper) RoundTrip(hr *http.Request) (*http.Response, error) {
	l := rt.l
	var body []byte
	if hr.Body != nil {
		body, _ = io.ReadAll(hr.Body)
		hr.Body.Close()
	}
	req := &Request{Subgraph: strings.TrimSuffix(hr.URL.Hostname(), ".fedlab"), Body: body, Header: hr.Header.Clone(), Arrived: time.Now()}
	var rs *runState
	l.seqLock(func() {
		rs = l.run
		if rs != nil {
			req.Index = len(rs.reqs)
			rs.reqs = append(rs.reqs, req)
		}
	})
	l.answer(req)
	act := Action{}
	if rs != nil && rs.hook != nil {
		act = rs.hook(req.Index, req)
	}
	if act.Wait != nil {
		select {
		case <-act.Wait:
		case <-hr.Context().Done():
			return nil, hr.Context().Err()
		}
	}
	if act.Delay > 0 {
		select {
		case <-time.After(act.Delay):
		case <-hr.Context().Done():
			return nil, hr.Context().Err()
		}
	}
	req.Responded = time.Now()
	if act.Err != nil {
		return nil, act.Err
	}
	status, out := http.StatusOK, req.Response
	if act.Status != 0 {
		status = act.Status
		if act.Body != nil {
			out = act.Body
		}
	}
	req.Status = status
	h := http.Header{"Content-Type": []string{"application/json"}}
	for k, v := range act.Header {
		h[k] = v
	}
	return &http.Response{
		Status: fmt.Sprintf("%d %s", status, http.StatusText(status)), StatusCode: status,
		Proto: "HTTP/1.1", ProtoMajor: 1, ProtoMinor: 1,
		Header: h, Body: io.NopCloser(bytes.NewReader(out)), ContentLength: int64(len(out)), Request: hr,
	}, nil
}

// answer computes the semantic response of the subgraph.
func (l *Lab) answer(req *Request) {
	fail := func(msg string) {
		req.Response = []byte(JO(Member{"errors", JA(JO(Member{"message", JS(msg)}))}).String())
	}
	bj, err := ParseJSON(req.Body)
	if err != nil || bj.Kind != JObj {
		req.ParseError = "request body is not a JSON object"
		fail(req.ParseError)
		return
	}
	if q := bj.Get("query"); q != nil && q.Kind == JStr {
		req.Query = q.Raw
	}
	if on := bj.Get("operationName"); on != nil && on.Kind == JStr {
		req.OperationName = on.Raw
	}
	req.Variables = bj.Get("variables")
	if req.Variables != nil {
		if reps := req.Variables.Get("representations"); reps != nil && reps.Kind == JArr {
			req.Representations = reps.Items
		}
	}
	g := l.Config.Subgraph(req.Subgraph)
	if g == nil {
		req.ParseError = "unknown subgraph host " + req.Subgraph
		fail(req.ParseError)
		return
	}
	doc, report := astparser.ParseGraphqlDocumentString(req.Query)
	if report.HasErrors() {
		req.ParseError = "query does not parse: " + report.Error()
		fail(req.ParseError)
		return
	}
	req.IsEntityFetch = strings.Contains(req.Query, "_entities(")
	vars := req.Variables
	if vars == nil || vars.Kind != JObj {
		vars = JO()
	}
	res, err := l.Exec.Exec(l.subID(g.Name), "sub", DumpDocument(&doc), req.OperationName, vars)
	if err != nil {
		req.ExecError = err.Error()
		fail("fedlab: " + req.ExecError)
		return
	}
	req.Result = res
	req.Response = res.HTTPBody()
}

// Validate checks an operation against the supergraph with the repo's own validator.
func (l *Lab) Validate(operation string) error {
	req := &graphql.Request{Query: operation}
	// same order as ExecutionEngine.Execute: normalise (fragments inlined), then validate
	nres, err := req.Normalize(l.Schema, astnormalization.WithRemoveFragmentDefinitions(),
		astnormalization.WithRemoveUnusedVariables(), astnormalization.WithInlineFragmentSpreads())
	if err != nil {
		return err
	}
	if !nres.Successful {
		return nres.Errors
	}
	res, err := req.ValidateForSchema(l.Schema)
	if err != nil {
		return err
	}
	if !res.Valid {
		return res.Errors
	}
	return nil
}

// Trunc shortens a string for messages.
func Trunc(s string, n int) string { return trunc(s, n) }

// Plan plans the operation with a planner of its own over the same data sources and returns the
// post-processed fetch tree pretty-printed (diagnostics; Run uses the engine's own planner).
func (l *Lab) Plan(operation, operationName string) (string, error) {
	sp, err := l.planResponse(operation, operationName, nil)
	if err != nil {
		return "", err
	}
	return sp.Response.Fetches.QueryPlan().PrettyPrint(), nil
}

// PlanFields describes the fields the post-processed response plan holds at a response path (response keys,
// no list indices): one line per resolve.Field of that name with its own and inherited type conditions, e.g.
// `pf7 on=[Facet1A] parentOn=[1:User]`.  Several lines = the renderer decides per object which one applies.
func (l *Lab) PlanFields(operation, operationName string, variables []byte, path []string) ([]string, error) {
	sp, err := l.planResponse(operation, operationName, variables)
	if err != nil {
		return nil, err
	}
	if sp.Response == nil || sp.Response.Data == nil {
		return nil, nil
	}
	objs := []*resolve.Object{sp.Response.Data}
	var out []string
	for i, key := range path {
		var next []*resolve.Object
		for _, o := range objs {
			for _, f := range o.Fields {
				if string(f.Name) != key {
					continue
				}
				if i == len(path)-1 {
					out = append(out, describeField(f))
					continue
				}
				v := f.Value
				for v != nil && v.NodeKind() == resolve.NodeKindArray {
					v = v.(*resolve.Array).Item
				}
				if ob, ok := v.(*resolve.Object); ok && ob != nil {
					next = append(next, ob)
				}
			}
		}
		objs = next
	}
	return out, nil
}

func describeField(f *resolve.Field) string {
	names := func(xs [][]byte) string {
		ss := make([]string, len(xs))
		for i, x := range xs {
			ss[i] = string(x)
		}
		sort.Strings(ss)
		return strings.Join(ss, ",")
	}
	s := string(f.Name)
	if f.OnTypeNames != nil {
		s += " on=[" + names(f.OnTypeNames) + "]"
	}
	if f.ParentOnTypeNames != nil {
		var ps []string
		for _, p := range f.ParentOnTypeNames {
			ps = append(ps, fmt.Sprintf("%d:%s", p.Depth, names(p.Names)))
		}
		s += " parentOn=[" + strings.Join(ps, ";") + "]"
	}
	return s
}

// planResponse normalises like ExecutionEngine.Execute (the variable values decide @skip / @include there) and
// plans with a planner of its own over the same data sources.
func (l *Lab) planResponse(operation, operationName string, variables []byte) (*plan.SynchronousResponsePlan, error) {
	req := &graphql.Request{Query: operation, OperationName: operationName}
	if len(bytes.TrimSpace(variables)) > 0 {
		req.Variables = json.RawMessage(variables)
	}
	nres, err := req.Normalize(l.Schema, astnormalization.WithRemoveFragmentDefinitions(),
		astnormalization.WithRemoveUnusedVariables(), astnormalization.WithInlineFragmentSpreads())
	if err != nil {
		return nil, err
	}
	if !nres.Successful {
		return nil, nres.Errors
	}
	if nres, err = req.Normalize(l.Schema, astnormalization.WithExtractVariables()); err != nil {
		return nil, err
	} else if !nres.Successful {
		return nil, nres.Errors
	}
	var report operationreport.Report
	astnormalization.NewVariablesMapper().NormalizeOperation(req.Document(), l.Schema.Document(), &report)
	if report.HasErrors() {
		return nil, report
	}
	planner, err := plan.NewPlanner(l.planConfig)
	if err != nil {
		return nil, err
	}
	p := planner.Plan(req.Document(), l.Schema.Document(), operationName, &report, plan.IncludeQueryPlanInResponse())
	if report.HasErrors() {
		return nil, report
	}
	postprocess.NewProcessor().Process(p)
	sp, ok := p.(*plan.SynchronousResponsePlan)
	if !ok {
		return nil, fmt.Errorf("not a synchronous plan")
	}
	return sp, nil
}
