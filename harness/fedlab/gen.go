package fedlab

import (
	"fmt"
	"sort"
	"strings"

	"gvh/common"
)

// ---------------------------------------------------------------- knobs

// Knobs switch generator features on; a failing case is shrunk by turning knobs off.
type Knobs map[string]bool

// AllKnobs in a fixed order (documentation in CONTRACT.md).  This list is FROZEN: the laboratories built on
// fedlab (C07e, C08e, C09, C10, C14) use "all" / KnobsAll with fixed seeds and keep corpora keyed by
// (seed, index), so "all" must keep meaning exactly this set and a knob that is off must not consume a
// single random draw.  Later knobs go to ExtraKnobs and are opted into with "all2" / KnobsAllV2 (the first two, frozen
// as well) or "all3" / KnobsAllV3 (all of them).
var AllKnobs = []string{
	// configuration
	"sub3",      // 3-4 subgraphs instead of 2
	"manytypes", // up to 10 object types instead of up to 5
	"compoundkeys", "nestedkeys", "multikeys",
	"valuetypes", "localtypes", "interfaces", "unions",
	"lists", "nonnull", "enums",
	"args", "inputargs", "lookups",
	"requires", "provides", "shareable",
	"partialinterfaces",  // a second subgraph declares an interface with its id field only and returns it
	"extinterfacefields", // an interface field of an entity is owned by another subgraph (@external in the interface's home)
	"unresolvable",       // reference-only entity stubs are declared @key(resolvable: false)
	"keyhop",             // an extension subgraph declares only the second key (needs multikeys)
	"interfacerequires",  // an interface-declared field carries @requires on one implementer (input owned by another subgraph)
	"interfaceobjects",   // interfaces declare object / list-of-entity fields owned by the interface's home subgraph
	// universe
	"nulls", "errors",
	"duplists", // longer lists of entities that reference the same entity several times (a,a,b,c,b), nulls in the middle
	// operations
	"aliases", "fragments", "inlinefragments", "typename", "variables", "skipinclude", "deep", "dupfields",
}

// ExtraKnobs were added after AllKnobs was frozen; only checks that ask for them ("all2") see them.
var ExtraKnobs = []string{
	// interfaces declare object / list fields whose type is itself an interface or union and which some
	// implementers narrow covariantly; operations select one inner response key under several combinations
	// of outer and inner type conditions (needs interfaces)
	"covariant",
	// every interface declares an entity hop whose entity has a leaf in another subgraph; operations select the hop
	// under several type-condition scopes of the abstract parent; lists hold every implementer (needs interfaces)
	"scopedhops",
	// fields of type [[T]] / [[[T]]] in every nullability combination, T an entity (with fields in other subgraphs:
	// entity fetches below a list of lists), value / local type, interface, union or scalar; universes with null and
	// empty inner lists and entities repeated across inner lists (gen_nest.go, gen_op_nest.go).  NOT part of "all2".
	"nestedlists",
	// @requires inputs may be list-valued leaves ([T], [T]!, [T!], [T!]!, under nestedlists also [[T]]); universes hold
	// null items / null lists / empty lists / repeated values in them (gen_lreq.go).  "all3" only.
	"listrequires",
}

// AllKnobsV2 = AllKnobs followed by the first two ExtraKnobs.  FROZEN like AllKnobs: C09's family `genh`
// (harness/c09lab/families.go) draws from KnobsAllV2() with fixed seeds.
var AllKnobsV2 = append(append([]string(nil), AllKnobs...), ExtraKnobs[:2]...)

// AllKnobsV3 = AllKnobs followed by all ExtraKnobs ("all3"; C01 and its plan-validation part use it).
var AllKnobsV3 = append(append([]string(nil), AllKnobs...), ExtraKnobs...)

func KnobsAll() Knobs {
	k := Knobs{}
	for _, n := range AllKnobs {
		k[n] = true
	}
	return k
}

// KnobsAllV2: the frozen AllKnobsV2 (AllKnobs + covariant + scopedhops).
func KnobsAllV2() Knobs {
	k := Knobs{}
	for _, n := range AllKnobsV2 {
		k[n] = true
	}
	return k
}

// KnobsAllV3: every knob including all ExtraKnobs.
func KnobsAllV3() Knobs {
	k := Knobs{}
	for _, n := range AllKnobsV3 {
		k[n] = true
	}
	return k
}

// ParseKnobs: "all" (the frozen AllKnobs), "all2" (the frozen AllKnobsV2), "all3" (AllKnobsV3), "none", or a comma
// list of knob names, "all" / "all2" / "all3" and "-name" removals; a list starting with a removal starts from "all".
func ParseKnobs(s string) Knobs {
	s = strings.TrimSpace(s)
	if s == "" || s == "all" {
		return KnobsAll()
	}
	k := Knobs{}
	if s == "none" {
		return k
	}
	parts := strings.Split(s, ",")
	if strings.HasPrefix(parts[0], "-") {
		k = KnobsAll()
	}
	for _, p := range parts {
		p = strings.TrimSpace(p)
		switch {
		case p == "all":
			for n := range KnobsAll() {
				k[n] = true
			}
		case p == "all2":
			for n := range KnobsAllV2() {
				k[n] = true
			}
		case p == "all3":
			for n := range KnobsAllV3() {
				k[n] = true
			}
		case strings.HasPrefix(p, "-"):
			delete(k, p[1:])
		case p != "":
			k[p] = true
		}
	}
	return k
}

func (k Knobs) String() string {
	var on []string
	for _, n := range AllKnobsV3 {
		if k[n] {
			on = append(on, n)
		}
	}
	if len(on) == 0 {
		return "none"
	}
	return strings.Join(on, ",")
}

func (k Knobs) Clone() Knobs {
	c := Knobs{}
	for n, v := range k {
		if v {
			c[n] = true
		}
	}
	return c
}

// ---------------------------------------------------------------- configuration generator

const (
	catEntity = iota
	catValue
	catLocal
)

type gType struct {
	def   *TypeDef
	cat   int
	home  int
	subs  []int            // subgraphs that declare the type with ownership (entities: >= 1; locals: home)
	keys  []string         // entity keys, primary first
	key2  []int            // subgraphs that also declare the second key
	hop   []int            // subgraphs (subset of key2, not home) that declare ONLY the second key
	owner map[string][]int // field -> subgraphs declaring it non-external (keys: all subs)
	isKey map[string]bool  // top-level key fields of the primary key
}

type gAbstract struct {
	def     *TypeDef
	home    int
	partial []int // subgraphs that declare the interface with its id field only
}

type cfgGen struct {
	r    *common.Rand
	k    Knobs
	nSub int
	objs []*gType
	abs  []*gAbstract
	cfg  *Config
	fctr int
	// lookups: "Type.field" -> argument name
	lookups map[string]Lookup
	// external declarations added for requires / provides: sub -> type -> field -> true
	ext map[int]map[string]map[string]bool
	// directives per (sub, type, field)
	requires   map[string]string
	provides   map[string]string
	rootOwners map[string]int
}

// Lookup describes a root field resolved by key lookup ((lookup "Type" "arg") in the universe).
type Lookup struct{ Type, Arg string }

var typeNamePool = []string{"User", "Product", "Review", "Order", "Shop", "Item", "Post", "Tag", "Media", "Venue"}
var subNames = []string{"alpha", "beta", "gamma", "delta"}

func (g *cfgGen) fname(prefix string) string {
	g.fctr++
	return fmt.Sprintf("%s%d", prefix, g.fctr)
}

func (g *cfgGen) obj(name string) *gType {
	for _, o := range g.objs {
		if o.def.Name == name {
			return o
		}
	}
	return nil
}

func (g *cfgGen) scalarType() *TypeRef {
	names := []string{"String", "Int", "Boolean", "Float", "ID", "String", "Int"}
	if g.k["enums"] {
		names = append(names, "Color")
	}
	t := Named(common.PickOf(g.r, names))
	if g.k["nonnull"] && g.r.Chance(3, 10) {
		return NonNull(t)
	}
	return t
}

func (g *cfgGen) argDefs() []*InputValue {
	var out []*InputValue
	n := 1 + g.r.Pick(3)
	for i := 0; i < n; i++ {
		name := fmt.Sprintf("a%d", i)
		var iv *InputValue
		switch g.r.Pick(7) {
		case 0:
			iv = &InputValue{Name: name, Type: Named("Int")}
		case 1:
			iv = &InputValue{Name: name, Type: Named("String"), Default: &Value{Kind: VStr, Raw: "dflt"}}
		case 2:
			iv = &InputValue{Name: name, Type: NonNull(Named("Int"))}
		case 3:
			if g.k["enums"] {
				iv = &InputValue{Name: name, Type: Named("Color")}
				if g.r.Chance(1, 2) {
					iv.Default = &Value{Kind: VEnum, Raw: "GREEN"}
				}
			} else {
				iv = &InputValue{Name: name, Type: Named("Boolean")}
			}
		case 4:
			if g.k["inputargs"] {
				iv = &InputValue{Name: name, Type: Named("Filter")}
			} else {
				iv = &InputValue{Name: name, Type: Named("ID")}
			}
		case 5:
			if g.k["lists"] {
				iv = &InputValue{Name: name, Type: ListOf(NonNull(Named("Int")))}
			} else {
				iv = &InputValue{Name: name, Type: Named("Float")}
			}
		default:
			iv = &InputValue{Name: name, Type: Named("String")}
		}
		out = append(out, iv)
	}
	return out
}

func hasInt(xs []int, x int) bool {
	for _, y := range xs {
		if y == x {
			return true
		}
	}
	return false
}

// GenConfig generates one configuration satisfying the composition contract (CONTRACT.md).
func GenConfig(r *common.Rand, k Knobs) *Config {
	g := &cfgGen{r: r, k: k, lookups: map[string]Lookup{}, ext: map[int]map[string]map[string]bool{},
		requires: map[string]string{}, provides: map[string]string{}}
	g.nSub = 2
	if k["sub3"] {
		g.nSub = 2 + r.Pick(3)
	}
	nObj := 3 + r.Pick(3)
	if k["manytypes"] {
		nObj = 3 + r.Pick(8)
	}
	super := &Schema{Query: "Query"}
	query := &TypeDef{Kind: KObject, Name: "Query"}
	super.Types = append(super.Types, query)
	if k["enums"] {
		super.Types = append(super.Types, &TypeDef{Kind: KEnum, Name: "Color", Values: []string{"RED", "GREEN", "BLUE"}})
	}
	if k["inputargs"] && k["args"] {
		inner := &TypeDef{Kind: KInput, Name: "Range", Inputs: []*InputValue{
			{Name: "lo", Type: Named("Int"), Default: &Value{Kind: VInt, Raw: "0"}},
			{Name: "hi", Type: Named("Int")},
		}}
		filter := &TypeDef{Kind: KInput, Name: "Filter", Inputs: []*InputValue{
			{Name: "q", Type: Named("String"), Default: &Value{Kind: VStr, Raw: "any"}},
			{Name: "n", Type: Named("Int")},
			{Name: "tags", Type: ListOf(NonNull(Named("String")))},
			{Name: "range", Type: Named("Range")},
		}}
		super.Types = append(super.Types, inner, filter)
	}
	g.cfg = &Config{Super: super}

	// --- A/B: object types, categories, subgraph membership, scalar fields
	perm := r.Perm(len(typeNamePool))
	for i := 0; i < nObj; i++ {
		t := &gType{def: &TypeDef{Kind: KObject, Name: typeNamePool[perm[i]]}, owner: map[string][]int{}, isKey: map[string]bool{}}
		switch {
		case i < 2:
			t.cat = catEntity
		default:
			c := r.Pick(10)
			switch {
			case c < 5:
				t.cat = catEntity
			case c < 7 && k["valuetypes"]:
				t.cat = catValue
			case c < 9 && k["localtypes"]:
				t.cat = catLocal
			default:
				t.cat = catEntity
			}
		}
		t.home = r.Pick(g.nSub)
		switch t.cat {
		case catEntity:
			t.subs = []int{t.home}
			for s := 0; s < g.nSub; s++ {
				if s != t.home && (r.Chance(1, 2) || (i == 0 && len(t.subs) == 1)) {
					t.subs = append(t.subs, s)
				}
			}
			if i == 0 && len(t.subs) == 1 {
				t.subs = append(t.subs, (t.home+1)%g.nSub)
			}
			sort.Ints(t.subs)
			t.def.Fields = append(t.def.Fields, &FieldDef{Name: "id", Type: NonNull(Named("ID"))})
			t.isKey["id"] = true
			key := "id"
			if k["compoundkeys"] && r.Chance(1, 4) {
				if r.Chance(1, 2) {
					t.def.Fields = append(t.def.Fields, &FieldDef{Name: "ck", Type: NonNull(Named("Int"))})
				} else {
					t.def.Fields = append(t.def.Fields, &FieldDef{Name: "ck", Type: NonNull(Named("String"))})
				}
				t.isKey["ck"] = true
				key = "id ck"
			}
			t.keys = []string{key}
		case catLocal:
			t.subs = []int{t.home}
		case catValue:
			t.def.Fields = append(t.def.Fields, &FieldDef{Name: "code", Type: NonNull(Named("String"))})
		}
		g.objs = append(g.objs, t)
		super.Types = append(super.Types, t.def)
	}
	// scalar fields
	for _, t := range g.objs {
		n := 1 + r.Pick(4)
		for i := 0; i < n; i++ {
			var fd *FieldDef
			if k["args"] && r.Chance(1, 4) {
				fd = &FieldDef{Name: g.fname("x"), Args: g.argDefs(), Type: Named("String")}
				if k["nonnull"] && r.Chance(1, 4) {
					fd.Type = NonNull(fd.Type)
				}
			} else {
				st := g.scalarType()
				fd = &FieldDef{Name: g.fname(strings.ToLower(st.Base()[:1])), Type: st}
				if k["lists"] && r.Chance(1, 8) {
					fd.Type = ListOf(fd.Type)
					if k["nonnull"] && r.Chance(1, 3) {
						fd.Type = NonNull(fd.Type)
					}
				}
			}
			t.def.Fields = append(t.def.Fields, fd)
		}
	}
	// second keys
	if k["multikeys"] {
		for _, t := range g.objs {
			if t.cat == catEntity && len(t.subs) >= 2 && r.Chance(1, 4) {
				t.def.Fields = append(t.def.Fields, &FieldDef{Name: "sku", Type: NonNull(Named("String"))})
				t.keys = append(t.keys, "sku")
				t.key2 = []int{t.home}
				for _, s := range t.subs {
					if s != t.home && r.Chance(1, 2) {
						t.key2 = append(t.key2, s)
					}
				}
				// key hop: one extension subgraph knows the entity by the second key only, so
				// reaching it from a subgraph that has the primary key needs a fetch of sku first
				if k["keyhop"] && len(t.key2) >= 2 && r.Chance(1, 2) {
					t.hop = []int{t.key2[1+r.Pick(len(t.key2)-1)]}
				}
			}
		}
	}

	// --- abstract types (before object fields so that fields can target them)
	if k["interfaces"] {
		nI := r.Pick(3)
		if nI == 0 && r.Chance(1, 2) {
			nI = 1
		}
		if (k["covariant"] || k["scopedhops"]) && nI == 0 {
			nI = 1
		}
		for i := 0; i < nI; i++ {
			h := r.Pick(g.nSub)
			var cands []*gType
			for _, t := range g.objs {
				if (t.cat == catEntity || t.cat == catLocal) && hasInt(t.subs, h) && !hasInt(t.hop, h) {
					cands = append(cands, t)
				}
			}
			if len(cands) < 2 {
				continue
			}
			r.Shuffle(len(cands), func(a, b int) { cands[a], cands[b] = cands[b], cands[a] })
			m := 2 + r.Pick(2)
			if m > len(cands) {
				m = len(cands)
			}
			impls := cands[:m]
			idef := &TypeDef{Kind: KInterface, Name: fmt.Sprintf("Node%d", i+1)}
			allEnt := true
			for _, t := range impls {
				if t.cat != catEntity {
					allEnt = false
				}
			}
			if allEnt && r.Chance(2, 3) {
				idef.Fields = append(idef.Fields, &FieldDef{Name: "id", Type: NonNull(Named("ID"))})
			}
			nf := 1 + r.Pick(2)
			for j := 0; j < nf; j++ {
				fd := &FieldDef{Name: g.fname("if"), Type: g.scalarType()}
				if k["interfacerequires"] && r.Chance(1, 2) {
					fd.Type = Named("String")
				}
				if k["args"] && r.Chance(1, 5) {
					fd = &FieldDef{Name: g.fname("ix"), Args: g.argDefs(), Type: Named("String")}
				}
				idef.Fields = append(idef.Fields, fd)
				for _, t := range impls {
					t.def.Fields = append(t.def.Fields, fd)
					t.owner[fd.Name] = []int{h}
					// the interface field of an entity may live in another subgraph: the home
					// subgraph of the interface then declares it @external on that implementer
					if k["extinterfacefields"] && t.cat == catEntity && len(t.subs) >= 2 && r.Chance(1, 3) {
						for _, s2 := range t.subs {
							if s2 != h {
								t.owner[fd.Name] = []int{s2}
								g.addExt(h, t.def.Name, fd.Name)
								break
							}
						}
					}
				}
			}
			if k["interfaceobjects"] && r.Chance(2, 3) {
				// an object field declared by the interface and owned, for every implementer, by the
				// interface's home subgraph: the selection stays on the interface (no per-type rewrite)
				var ents []*gType
				for _, o := range g.objs {
					if o.cat == catEntity {
						ents = append(ents, o)
					}
				}
				tr := Named(common.PickOf(r, ents).def.Name)
				if k["lists"] && r.Chance(3, 4) {
					if k["nonnull"] && r.Chance(1, 2) {
						tr = NonNull(tr)
					}
					tr = ListOf(tr)
				}
				if k["nonnull"] && r.Chance(1, 3) {
					tr = NonNull(tr)
				}
				fd := &FieldDef{Name: g.fname("io"), Type: tr}
				idef.Fields = append(idef.Fields, fd)
				for _, t := range impls {
					t.def.Fields = append(t.def.Fields, fd)
					t.owner[fd.Name] = []int{h}
				}
			}
			if k["covariant"] {
				g.addCovariant(query, idef, impls, h, i+1)
			}
			if k["scopedhops"] {
				g.addScopedHop(query, idef, impls, h)
			}
			for _, t := range impls {
				t.def.Implements = append(t.def.Implements, idef.Name)
			}
			ga := &gAbstract{def: idef, home: h}
			if k["partialinterfaces"] && idef.Field("id") != nil && g.nSub > 1 && r.Chance(1, 2) {
				ga.partial = []int{(h + 1 + r.Pick(g.nSub-1)) % g.nSub}
				for _, t := range impls {
					if hasInt(t.hop, ga.partial[0]) {
						ga.partial = nil
						break
					}
				}
			}
			g.abs = append(g.abs, ga)
			super.Types = append(super.Types, idef)
		}
	}
	if k["unions"] {
		nU := r.Pick(3)
		for i := 0; i < nU; i++ {
			h := r.Pick(g.nSub)
			var cands []*gType
			for _, t := range g.objs {
				if t.cat == catEntity || t.cat == catValue || (t.cat == catLocal && t.home == h) {
					cands = append(cands, t)
				}
			}
			if len(cands) < 2 {
				continue
			}
			r.Shuffle(len(cands), func(a, b int) { cands[a], cands[b] = cands[b], cands[a] })
			m := 2 + r.Pick(2)
			if m > len(cands) {
				m = len(cands)
			}
			udef := &TypeDef{Kind: KUnion, Name: fmt.Sprintf("Any%d", i+1)}
			for _, t := range cands[:m] {
				udef.Members = append(udef.Members, t.def.Name)
			}
			g.abs = append(g.abs, &gAbstract{def: udef, home: h})
			super.Types = append(super.Types, udef)
		}
	}

	// --- C: owners of the scalar fields
	for _, t := range g.objs {
		if t.cat != catEntity {
			continue
		}
		// every extension subgraph should own something
		need := append([]int(nil), t.subs...)
		for _, fd := range t.def.Fields {
			if _, done := t.owner[fd.Name]; done {
				continue
			}
			if t.isKey[fd.Name] {
				for _, s := range t.subs {
					if !hasInt(t.hop, s) {
						t.owner[fd.Name] = append(t.owner[fd.Name], s)
					}
				}
				continue
			}
			if fd.Name == "sku" {
				t.owner[fd.Name] = append([]int(nil), t.key2...)
				continue
			}
			var o int
			if len(need) > 0 && r.Chance(2, 3) {
				o = need[0]
				need = need[1:]
			} else {
				o = common.PickOf(r, t.subs)
			}
			t.owner[fd.Name] = []int{o}
			if k["shareable"] && len(t.subs) >= 2 && len(fd.Args) == 0 && r.Chance(1, 6) {
				for _, s := range t.subs {
					if s != o {
						t.owner[fd.Name] = append(t.owner[fd.Name], s)
						break
					}
				}
			}
		}
	}
	for _, t := range g.objs {
		if t.cat == catLocal {
			for _, fd := range t.def.Fields {
				t.owner[fd.Name] = []int{t.home}
			}
		}
	}

	// --- D: object-typed fields
	targetFor := func(s int, fromValue bool) *TypeRef {
		// candidates resolvable from subgraph s
		var names []string
		for _, t := range g.objs {
			switch t.cat {
			case catEntity:
				names = append(names, t.def.Name, t.def.Name)
			case catValue:
				names = append(names, t.def.Name)
			case catLocal:
				if !fromValue && t.home == s {
					names = append(names, t.def.Name, t.def.Name)
				}
			}
		}
		if !fromValue {
			for _, a := range g.abs {
				if a.home == s || hasInt(a.partial, s) {
					names = append(names, a.def.Name, a.def.Name)
				}
			}
		}
		return Named(common.PickOf(r, names))
	}
	wrap := func(t *TypeRef) *TypeRef {
		if k["lists"] && r.Chance(2, 5) {
			if k["nonnull"] && r.Chance(1, 3) {
				t = NonNull(t)
			}
			t = ListOf(t)
		}
		if k["nonnull"] && r.Chance(1, 4) {
			t = NonNull(t)
		}
		return t
	}
	for _, t := range g.objs {
		n := r.Pick(3)
		if t.cat == catValue {
			n = r.Pick(2)
		}
		for i := 0; i < n; i++ {
			switch t.cat {
			case catEntity:
				s := common.PickOf(r, t.subs)
				fd := &FieldDef{Name: g.fname("o"), Type: wrap(targetFor(s, false))}
				t.def.Fields = append(t.def.Fields, fd)
				t.owner[fd.Name] = []int{s}
				// an object field resolvable by two subgraphs (@shareable): only towards types
				// every subgraph can declare (entities, value types)
				if tt := g.obj(fd.Type.Base()); k["shareable"] && len(t.subs) >= 2 && tt != nil && tt.cat != catLocal && r.Chance(1, 5) {
					for _, s2 := range t.subs {
						if s2 != s {
							t.owner[fd.Name] = append(t.owner[fd.Name], s2)
							break
						}
					}
				}
			case catLocal:
				fd := &FieldDef{Name: g.fname("o"), Type: wrap(targetFor(t.home, false))}
				t.def.Fields = append(t.def.Fields, fd)
				t.owner[fd.Name] = []int{t.home}
			case catValue:
				tr := targetFor(0, true)
				if tr.Name == t.def.Name {
					continue
				}
				t.def.Fields = append(t.def.Fields, &FieldDef{Name: g.fname("o"), Type: wrap(tr)})
			}
		}
	}
	// nested keys: id + an object field whose target carries a non-null leaf
	if k["nestedkeys"] {
		for _, t := range g.objs {
			if t.cat != catEntity || len(t.keys) != 1 || t.keys[0] != "id" || !r.Chance(1, 4) {
				continue
			}
			var cands []*gType
			for _, o := range g.objs {
				if o != t && ((o.cat == catEntity && o.keys[0] == "id" && len(o.hop) == 0) || o.cat == catValue) {
					cands = append(cands, o)
				}
			}
			if len(cands) == 0 {
				continue
			}
			o := common.PickOf(r, cands)
			leaf := "id"
			if o.cat == catValue {
				leaf = "code"
			}
			t.def.Fields = append(t.def.Fields, &FieldDef{Name: "nk", Type: NonNull(Named(o.def.Name))})
			t.isKey["nk"] = true
			t.owner["nk"] = append([]int(nil), t.subs...)
			t.keys[0] = "id nk { " + leaf + " }"
		}
	}

	// --- F: root fields
	for s := 0; s < g.nSub; s++ {
		n := 1 + r.Pick(3)
		for i := 0; i < n; i++ {
			tr := targetFor(s, false)
			if o := g.obj(tr.Name); o != nil && o.cat == catValue && r.Chance(2, 3) {
				tr = targetFor(s, false)
			}
			o := g.obj(tr.Name)
			if k["lookups"] && k["args"] && o != nil && o.cat == catEntity && r.Chance(1, 3) {
				fd := &FieldDef{Name: g.fname("get"), Args: []*InputValue{{Name: "id", Type: NonNull(Named("ID"))}}, Type: tr}
				query.Fields = append(query.Fields, fd)
				g.lookups["Query."+fd.Name] = Lookup{Type: tr.Name, Arg: "id"}
				g.rootOwner(fd.Name, s)
				continue
			}
			fd := &FieldDef{Name: g.fname("q"), Type: wrap(tr)}
			query.Fields = append(query.Fields, fd)
			g.rootOwner(fd.Name, s)
		}
		if k["args"] && r.Chance(1, 3) {
			fd := &FieldDef{Name: g.fname("qx"), Args: g.argDefs(), Type: Named("String")}
			query.Fields = append(query.Fields, fd)
			g.rootOwner(fd.Name, s)
		}
	}

	if k["nestedlists"] {
		g.addNestedLists(query)
	}

	// --- G: requires / provides
	if k["requires"] {
		for _, t := range g.objs {
			if t.cat != catEntity || len(t.subs) < 2 || !r.Chance(1, 2) {
				continue
			}
			s := common.PickOf(r, t.subs)
			if k["listrequires"] {
				g.addListLeaf(t, s)
			}
			var cands []string
			for _, fd := range t.def.Fields {
				ow := t.owner[fd.Name]
				if len(fd.Args) == 0 && !t.isKey[fd.Name] && fd.Name != "sku" && len(ow) == 1 && ow[0] != s &&
					super.IsLeaf(fd.Type.Base()) && g.requiresInputType(fd.Type) && !g.isExt(s, t.def.Name, fd.Name) {
					cands = append(cands, fd.Name)
				}
			}
			if len(cands) == 0 {
				continue
			}
			r.Shuffle(len(cands), func(a, b int) { cands[a], cands[b] = cands[b], cands[a] })
			if k["listrequires"] {
				g.preferListInput(t, cands)
			}
			m := 1 + r.Pick(3)
			if m > len(cands) {
				m = len(cands)
			}
			req := cands[:m]
			fd := &FieldDef{Name: g.fname("rq"), Type: Named("String")}
			t.def.Fields = append(t.def.Fields, fd)
			t.owner[fd.Name] = []int{s}
			g.requires[fmt.Sprintf("%d.%s.%s", s, t.def.Name, fd.Name)] = strings.Join(req, " ")
			for _, f := range req {
				g.addExt(s, t.def.Name, f)
			}
		}
	}
	if k["interfacerequires"] {
		for _, a := range g.abs {
			if a.def.Kind != KInterface {
				continue
			}
			h := a.home
			for _, tn := range super.PossibleTypes(a.def.Name) {
				t := g.obj(tn)
				if t == nil || t.cat != catEntity || len(t.subs) < 2 || !r.Chance(2, 3) {
					continue
				}
				// the requiring field: a String interface field this implementer owns in h
				var rf *FieldDef
				for _, fd := range a.def.Fields {
					ow := t.owner[fd.Name]
					if fd.Type.Base() == "String" && !fd.Type.IsList() && len(fd.Args) == 0 && len(ow) == 1 && ow[0] == h &&
						!g.isRequiresField(tn, fd.Name) && !g.isRequiresInput(tn, fd.Name) && !t.isKey[fd.Name] {
						rf = fd
						break
					}
				}
				if rf == nil {
					continue
				}
				var cands []string
				for _, fd := range t.def.Fields {
					ow := t.owner[fd.Name]
					if len(fd.Args) == 0 && !t.isKey[fd.Name] && fd.Name != "sku" && len(ow) == 1 && ow[0] != h &&
						super.IsLeaf(fd.Type.Base()) && g.requiresInputType(fd.Type) && !g.isExt(h, tn, fd.Name) && !g.isRequiresField(tn, fd.Name) &&
						a.def.Field(fd.Name) == nil {
						cands = append(cands, fd.Name)
					}
				}
				if len(cands) == 0 {
					continue
				}
				w := common.PickOf(r, cands)
				g.requires[fmt.Sprintf("%d.%s.%s", h, tn, rf.Name)] = w
				g.addExt(h, tn, w)
			}
		}
	}
	if k["provides"] {
		type site struct {
			owner *gType // nil = Query
			fd    *FieldDef
			s     int
		}
		var sites []site
		for _, fd := range query.Fields {
			sites = append(sites, site{nil, fd, g.rootOwners[fd.Name]})
		}
		for _, t := range g.objs {
			if t.cat == catValue {
				continue
			}
			for _, fd := range t.def.Fields {
				if ow := t.owner[fd.Name]; len(ow) >= 1 {
					sites = append(sites, site{t, fd, ow[r.Pick(len(ow))]})
				}
			}
		}
		for _, st := range sites {
			e := g.obj(st.fd.Type.Base())
			if e == nil || e.cat != catEntity || !r.Chance(1, 4) {
				continue
			}
			if _, isLookup := g.lookups["Query."+st.fd.Name]; isLookup && st.owner == nil {
				continue
			}
			var cands []string
			for _, fd := range e.def.Fields {
				ow := e.owner[fd.Name]
				if len(fd.Args) == 0 && !e.isKey[fd.Name] && fd.Name != "sku" && len(ow) == 1 && ow[0] != st.s &&
					super.IsLeaf(fd.Type.Base()) && !g.isExt(st.s, e.def.Name, fd.Name) && !g.isRequiresField(e.def.Name, fd.Name) {
					cands = append(cands, fd.Name)
				}
			}
			if len(cands) == 0 {
				continue
			}
			x := common.PickOf(r, cands)
			tn := "Query"
			if st.owner != nil {
				tn = st.owner.def.Name
			}
			g.provides[fmt.Sprintf("%d.%s.%s", st.s, tn, st.fd.Name)] = x
			g.addExt(st.s, e.def.Name, x)
		}
	}

	g.assemble()
	g.cfg.Lookups = g.lookups
	return g.cfg
}

// isRequiresInput: field is named by the @requires selection of some field of typ.
func (g *cfgGen) isRequiresInput(typ, field string) bool {
	for k, sel := range g.requires {
		p := strings.SplitN(k, ".", 3)
		if p[1] != typ {
			continue
		}
		for _, n := range strings.Fields(sel) {
			if n == field {
				return true
			}
		}
	}
	return false
}

func (g *cfgGen) isRequiresField(typ, field string) bool {
	for k := range g.requires {
		if strings.HasSuffix(k, "."+typ+"."+field) {
			return true
		}
	}
	return false
}

func (g *cfgGen) addExt(s int, typ, field string) {
	if g.ext[s] == nil {
		g.ext[s] = map[string]map[string]bool{}
	}
	if g.ext[s][typ] == nil {
		g.ext[s][typ] = map[string]bool{}
	}
	g.ext[s][typ][field] = true
}

func (g *cfgGen) isExt(s int, typ, field string) bool {
	return g.ext[s] != nil && g.ext[s][typ] != nil && g.ext[s][typ][field]
}

// root field owners are kept on the generator
func (g *cfgGen) rootOwner(field string, s int) {
	if g.rootOwners == nil {
		g.rootOwners = map[string]int{}
	}
	g.rootOwners[field] = s
}
