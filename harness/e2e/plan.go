// Package e2e holds what the end-to-end checks on the federation lab share (C08 schedules, C07
// faults): a dump of the REAL plan's fetch tree (same plan.Planner + postprocess.Processor calls as
// execution/engine/execution_engine.go getCachedPlan), request multisets, gates.
package e2e

import (
	"bytes"
	"context"
	"encoding/json"
	"fmt"
	"net/http"
	"sort"
	"strings"

	"gvh/fedlab"

	"github.com/wundergraph/graphql-go-tools/execution/graphql"
	"github.com/wundergraph/graphql-go-tools/v2/pkg/astnormalization"
	"github.com/wundergraph/graphql-go-tools/v2/pkg/astvalidation"
	"github.com/wundergraph/graphql-go-tools/v2/pkg/engine/datasource/graphql_datasource"
	"github.com/wundergraph/graphql-go-tools/v2/pkg/engine/datasource/introspection_datasource"
	"github.com/wundergraph/graphql-go-tools/v2/pkg/engine/plan"
	"github.com/wundergraph/graphql-go-tools/v2/pkg/engine/postprocess"
	"github.com/wundergraph/graphql-go-tools/v2/pkg/engine/resolve"
	"github.com/wundergraph/graphql-go-tools/v2/pkg/operationreport"
)

// Fetch is one fetch of the dumped plan.
type Fetch struct {
	ID       int
	Deps     []int
	Kind     string // single | entity | batch | multi
	Subgraph string
	Path     string // ResponsePath
	Query    string // the "query" text of the request body as the plan carries it
	Merged   []int  // MultiEntityFetch: the original fetch ids
	Entity   bool   // raw fetch: RequiresEntityFetch / RequiresEntityBatchFetch
	Entries  []Entry // MultiEntityFetch: alias and response path of every merged entry
	FetchPath []PathElem
	MergePath []string
}

type Entry struct {
	Alias  string
	Path   string
	Single bool // the entry comes from an EntityFetch (one object), not from a BatchEntityFetch
}

type PathElem struct {
	Kind      string
	Path      []string
	TypeNames []string
}

// Tree mirrors resolve.FetchTreeNode.
type Tree struct {
	Kind     string // S | Q | P
	Children []*Tree
	Fetch    *Fetch
}

func (t *Tree) Fetches() []*Fetch {
	if t == nil {
		return nil
	}
	if t.Kind == "S" {
		return []*Fetch{t.Fetch}
	}
	var out []*Fetch
	for _, c := range t.Children {
		out = append(out, c.Fetches()...)
	}
	return out
}

// Sexp prints the tree in the form ocaml/c08/driver.ml reads: (S id (deps)) (Q ..) (P ..).
func (t *Tree) Sexp() string {
	switch t.Kind {
	case "S":
		ds := make([]string, len(t.Fetch.Deps))
		for i, d := range t.Fetch.Deps {
			ds[i] = fmt.Sprint(d)
		}
		return fmt.Sprintf("(S %d (%s))", t.Fetch.ID, strings.Join(ds, " "))
	default:
		parts := []string{t.Kind}
		for _, c := range t.Children {
			parts = append(parts, c.Sexp())
		}
		return "(" + strings.Join(parts, " ") + ")"
	}
}

// MaxParallel is the largest number of Single leaves that may run concurrently.
func (t *Tree) MaxParallel() int {
	switch t.Kind {
	case "S":
		return 1
	case "Q":
		m := 0
		for _, c := range t.Children {
			if k := c.MaxParallel(); k > m {
				m = k
			}
		}
		return m
	default:
		s := 0
		for _, c := range t.Children {
			s += c.MaxParallel()
		}
		return s
	}
}

// Planner builds plans for one Lab with the engine's own recipe.
type Planner struct {
	lab    *fedlab.Lab
	conf   plan.Configuration
	ppOpts []postprocess.ProcessorOption
	cancel context.CancelFunc
}

// NewPlanner rebuilds the planner configuration NewLab hands to engine.NewExecutionEngine
// (data sources from Config.Metadata / SubgraphSDL, field configurations) plus the two flags.
func NewPlanner(lab *fedlab.Lab, opts fedlab.EngineOptions) (*Planner, error) {
	ctx, cancel := context.WithCancel(context.Background())
	p := &Planner{lab: lab, cancel: cancel}
	httpClient := &http.Client{}
	sub := graphql_datasource.NewGraphQLSubscriptionClient(ctx, graphql_datasource.WithUpgradeClient(httpClient), graphql_datasource.WithStreamingClient(httpClient))
	factory, err := graphql_datasource.NewFactory(ctx, httpClient, sub)
	if err != nil {
		cancel()
		return nil, err
	}
	cfg := lab.Config
	for _, g := range cfg.Subgraphs {
		sdl := cfg.SubgraphSDL(g)
		sc, err := graphql_datasource.NewSchemaConfiguration(sdl, &graphql_datasource.FederationConfiguration{Enabled: true, ServiceSDL: sdl})
		if err != nil {
			cancel()
			return nil, err
		}
		dsc, err := graphql_datasource.NewConfiguration(graphql_datasource.ConfigurationInput{
			Fetch:               &graphql_datasource.FetchConfiguration{URL: g.URL(), Method: http.MethodPost},
			SchemaConfiguration: sc,
		})
		if err != nil {
			cancel()
			return nil, err
		}
		md := cfg.Metadata(g)
		if opts.DataSourceMetadata != nil {
			opts.DataSourceMetadata(g, md)
		}
		ds, err := plan.NewDataSourceConfiguration[graphql_datasource.Configuration](g.Name, factory, md, dsc)
		if err != nil {
			cancel()
			return nil, err
		}
		p.conf.DataSources = append(p.conf.DataSources, ds)
	}
	p.conf.Fields = cfg.FieldConfigurations()
	// engine.NewConfiguration default + what NewExecutionEngine adds (introspection data sources)
	p.conf.DefaultFlushIntervalMillis = 1000
	if icf, err := introspection_datasource.NewIntrospectionConfigFactory(lab.Schema.Document()); err == nil {
		p.conf.DataSources = append(p.conf.DataSources, icf.BuildDataSourceConfigurations()...)
		p.conf.Fields = append(p.conf.Fields, icf.BuildFieldConfigurations()...)
	} else {
		cancel()
		return nil, err
	}
	if opts.MultiFetch {
		p.conf.EnableMultiFetch = true
		p.ppOpts = append(p.ppOpts, postprocess.EnableMultiFetch())
	}
	if opts.ScheduleFetches {
		p.ppOpts = append(p.ppOpts, postprocess.EnableScheduleFetches())
	}
	return p, nil
}

func (p *Planner) Close() { p.cancel() }

// Plan normalises/validates like ExecutionEngine.Execute, plans and post-processes.
func (p *Planner) Plan(operation, operationName string, variables []byte) (*Tree, *resolve.FetchTreeNode, error) {
	t, _, n, err := p.plan(operation, operationName, variables)
	return t, n, err
}

// PlanWithRaw also returns the planner's raw fetch list (before post-processing).
func (p *Planner) PlanWithRaw(operation, operationName string, variables []byte) (*Tree, []*Fetch, error) {
	t, raw, _, err := p.plan(operation, operationName, variables)
	return t, raw, err
}

func (p *Planner) plan(operation, operationName string, variables []byte) (*Tree, []*Fetch, *resolve.FetchTreeNode, error) {
	l := p.lab
	req := &graphql.Request{Query: operation, OperationName: operationName}
	if len(bytes.TrimSpace(variables)) > 0 {
		req.Variables = json.RawMessage(variables)
	}
	nres, err := req.Normalize(l.Schema, astnormalization.WithRemoveFragmentDefinitions(),
		astnormalization.WithRemoveUnusedVariables(), astnormalization.WithInlineFragmentSpreads(),
		astnormalization.WithEnableDefer(),
		astnormalization.WithPrevalidationRules(
			astvalidation.DeferStreamOnValidOperations(),
			astvalidation.DeferStreamHaveUniqueLabels(),
			astvalidation.DirectivesAreDefined(),
			astvalidation.DirectivesAreInValidLocations(),
			astvalidation.DirectivesAreUniquePerLocation(),
			astvalidation.StreamAppliedToListFieldsOnly()))
	if err != nil {
		return nil, nil, nil, err
	}
	if !nres.Successful {
		return nil, nil, nil, nres.Errors
	}
	if vres, err := req.ValidateForSchema(l.Schema); err != nil {
		return nil, nil, nil, err
	} else if !vres.Valid {
		return nil, nil, nil, vres.Errors
	}
	if nres, err = req.Normalize(l.Schema, astnormalization.WithExtractVariables()); err != nil {
		return nil, nil, nil, err
	} else if !nres.Successful {
		return nil, nil, nil, nres.Errors
	}
	var report operationreport.Report
	astnormalization.NewVariablesMapper().NormalizeOperation(req.Document(), l.Schema.Document(), &report)
	if report.HasErrors() {
		return nil, nil, nil, report
	}
	planner, err := plan.NewPlanner(p.conf)
	if err != nil {
		return nil, nil, nil, err
	}
	pl := planner.Plan(req.Document(), l.Schema.Document(), operationName, &report)
	if report.HasErrors() {
		return nil, nil, nil, report
	}
	sp, ok := pl.(*plan.SynchronousResponsePlan)
	if !ok {
		return nil, nil, nil, fmt.Errorf("not a synchronous plan: %T", pl)
	}
	var raw []*Fetch
	for _, it := range sp.Response.RawFetches {
		rt, err := dumpTree(&resolve.FetchTreeNode{Kind: resolve.FetchTreeNodeKindSingle, Item: it})
		if err != nil {
			return nil, nil, nil, err
		}
		raw = append(raw, rt.Fetch)
	}
	postprocess.NewProcessor(p.ppOpts...).Process(pl)
	t, err := dumpTree(sp.Response.Fetches)
	return t, raw, sp.Response.Fetches, err
}

func staticText(t resolve.InputTemplate) string {
	var sb strings.Builder
	var walk func(segs []resolve.TemplateSegment)
	walk = func(segs []resolve.TemplateSegment) {
		for _, s := range segs {
			if s.SegmentType == resolve.StaticSegmentType {
				sb.Write(s.Data)
			} else {
				sb.WriteString("\x00")
			}
		}
	}
	walk(t.Segments)
	return sb.String()
}

// queryOf extracts the JSON string value of "query" from the static text of a request template.
func queryOf(text string) string {
	i := strings.Index(text, `"query":"`)
	if i < 0 {
		return ""
	}
	rest := text[i+len(`"query":`):]
	dec := json.NewDecoder(strings.NewReader(rest))
	var s string
	if err := dec.Decode(&s); err != nil {
		return ""
	}
	return s
}

func pathElems(p []resolve.FetchItemPathElement) []PathElem {
	out := make([]PathElem, len(p))
	for i, e := range p {
		out[i] = PathElem{Kind: string(e.Kind), Path: append([]string(nil), e.Path...), TypeNames: append([]string(nil), e.TypeNames...)}
	}
	return out
}

func dumpTree(n *resolve.FetchTreeNode) (*Tree, error) {
	if n == nil {
		return &Tree{Kind: "Q"}, nil
	}
	switch n.Kind {
	case resolve.FetchTreeNodeKindSingle:
		f := &Fetch{Path: n.Item.ResponsePath, FetchPath: pathElems(n.Item.FetchPath)}
		deps := n.Item.Fetch.Dependencies()
		f.ID, f.Deps = deps.FetchID, append([]int(nil), deps.DependsOnFetchIDs...)
		if info := n.Item.Fetch.FetchInfo(); info != nil {
			f.Subgraph = info.DataSourceName
		}
		switch x := n.Item.Fetch.(type) {
		case *resolve.SingleFetch:
			f.Kind = "single"
			f.Entity = x.RequiresEntityFetch || x.RequiresEntityBatchFetch
			f.Query = queryOf(x.Input)
			if f.Query == "" {
				f.Query = queryOf(staticText(x.InputTemplate))
			}
			f.MergePath = x.PostProcessing.MergePath
		case *resolve.EntityFetch:
			f.Kind = "entity"
			f.Query = queryOf(staticText(x.Input.Header))
			f.MergePath = x.PostProcessing.MergePath
		case *resolve.BatchEntityFetch:
			f.Kind = "batch"
			f.Query = queryOf(staticText(x.Input.Header))
			f.MergePath = x.PostProcessing.MergePath
		case *resolve.MultiEntityFetch:
			f.Kind = "multi"
			f.Query = queryOf(staticText(x.Input.Header))
			f.Merged = append([]int(nil), x.MergedFetchIDs...)
			for _, en := range x.Input.Entries {
				p := ""
				if en.Item != nil {
					p = en.Item.ResponsePath
				}
				f.Entries = append(f.Entries, Entry{Alias: en.Alias, Path: p, Single: en.OriginKind == resolve.EntityFetchOriginSingle})
			}
		default:
			return nil, fmt.Errorf("unknown fetch type %T", x)
		}
		return &Tree{Kind: "S", Fetch: f}, nil
	case resolve.FetchTreeNodeKindSequence, resolve.FetchTreeNodeKindParallel:
		t := &Tree{Kind: "Q"}
		if n.Kind == resolve.FetchTreeNodeKindParallel {
			t.Kind = "P"
		}
		for _, c := range n.ChildNodes {
			ct, err := dumpTree(c)
			if err != nil {
				return nil, err
			}
			t.Children = append(t.Children, ct)
		}
		return t, nil
	}
	return nil, fmt.Errorf("unexpected node kind %q", n.Kind)
}

// ReqKey identifies a request independently of timing: Ident + canonical representations (or the
// whole variables object for multi-entity requests, which carry several representation lists).
func ReqKey(r *fedlab.Request) string {
	return r.Ident() + "|" + RepsKey(r)
}

func RepsKey(r *fedlab.Request) string {
	if r.Variables == nil {
		return ""
	}
	return r.Variables.String()
}

// Multiset of request keys.
func KeyMultiset(rs []*fedlab.Request) map[string]int {
	m := map[string]int{}
	for _, r := range rs {
		m[ReqKey(r)]++
	}
	return m
}

func SortedKeys(m map[string]int) []string {
	ks := make([]string, 0, len(m))
	for k := range m {
		ks = append(ks, k)
	}
	sort.Strings(ks)
	return ks
}
