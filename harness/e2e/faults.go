package e2e

import (
	"errors"
	"fmt"
	"sort"
	"strings"

	"gvh/fedlab"

	"github.com/wundergraph/graphql-go-tools/v2/pkg/ast"
	"github.com/wundergraph/graphql-go-tools/v2/pkg/astparser"
)

// Fault kinds injected into one subgraph request (C07).
const (
	KTransport   = "transport"     // the round trip fails
	K500Body     = "s500_body"     // status 500, the semantic body
	K500Empty    = "s500_empty"    // status 500, empty body
	K200Empty    = "empty"         // status 200, empty body
	KNonJSON     = "nonjson"       // status 200, an HTML page
	KNaN         = "nan"           // the semantic body with one number replaced by NaN
	KInf         = "inf"           // ... by -inf (astjson takes nan/inf/Inf spellings for numbers; "Infinity" it rejects)
	KBadNum      = "badnum"        // ... by 01 (leading zero: not a JSON number)
	KTruncated   = "truncated"     // the semantic body cut in the middle
	KErrsNoData  = "errors_nodata" // {"errors":[{"message":..}]}
	KEntMissing  = "ent_missing"   // _entities without its last element
	KEntExtra    = "ent_extra"     // _entities with one more element
	KEntNull     = "ent_null"      // the first element of _entities is null
	// the selected data path holds an explicit null / a wrong kind / nothing (unmerged entity requests only):
	KEntListNull    = "entlist_null"     // {"data":{"_entities":null}}
	KEntListNull500 = "entlist_null_500" // the same with status 500
	KEntListNullErr = "entlist_null_err" // {"data":{"_entities":null},"errors":[..]}
	KEntListObj     = "entlist_obj"      // {"data":{"_entities":{}}}
	KDataEmpty      = "data_empty"       // {"data":{}}
)

var AllKinds = []string{KTransport, K500Body, K500Empty, K200Empty, KNonJSON, KNaN, KInf, KBadNum, KTruncated, KErrsNoData, KEntMissing, KEntExtra, KEntNull,
	KEntListNull, KEntListNull500, KEntListNullErr, KEntListObj, KDataEmpty}

func wholeList(kind string) bool {
	switch kind {
	case KEntListNull, KEntListNull500, KEntListNullErr, KEntListObj, KDataEmpty:
		return true
	}
	return false
}

// Hard kinds are the failures the property lists (the request as a whole failed); ent_null is a
// legitimate federation answer for one entity and only affects that entity.
func Hard(kind string) bool { return kind != KEntNull }

// GroupLevel kinds damage one _entities list of the request (the first non-empty one); in a
// merged (MultiFetch) request the other aliased lists are answered correctly, exactly as the
// separate requests of the unmerged plan would be.
func GroupLevel(kind string) bool { return kind == KEntMissing || kind == KEntExtra || kind == KEntNull }

// entityLists returns the members of data that hold _entities arrays (aliased in merged requests).
func entityLists(body *fedlab.J) []*fedlab.J {
	data := body.Get("data")
	if data == nil || data.Kind != fedlab.JObj {
		return nil
	}
	var out []*fedlab.J
	for _, m := range data.Members {
		if m.Val != nil && m.Val.Kind == fedlab.JArr {
			out = append(out, m.Val)
		}
	}
	return out
}

func firstNumber(j *fedlab.J) *fedlab.J {
	if j == nil {
		return nil
	}
	switch j.Kind {
	case fedlab.JNum:
		return j
	case fedlab.JArr:
		for _, x := range j.Items {
			if n := firstNumber(x); n != nil {
				return n
			}
		}
	case fedlab.JObj:
		for _, m := range j.Members {
			if n := firstNumber(m.Val); n != nil {
				return n
			}
		}
	}
	return nil
}

// Applicable tells whether the kind can be built for this request (entity kinds need a non-empty
// _entities list, NaN needs a number in the data).
func Applicable(kind string, req *fedlab.Request) bool {
	if wholeList(kind) {
		// an unmerged entity request: data is exactly {"_entities":[..non-empty..]}
		if !req.IsEntityFetch {
			return false
		}
		body, err := fedlab.ParseJSON(req.Response)
		if err != nil {
			return false
		}
		data := body.Get("data")
		return data != nil && data.Kind == fedlab.JObj && len(data.Members) == 1 && data.Members[0].Key == "_entities" &&
			data.Members[0].Val != nil && data.Members[0].Val.Kind == fedlab.JArr && len(data.Members[0].Val.Items) > 0
	}
	switch kind {
	case KEntMissing, KEntExtra, KEntNull:
		if !req.IsEntityFetch {
			return false
		}
		body, err := fedlab.ParseJSON(req.Response)
		if err != nil {
			return false
		}
		for _, l := range entityLists(body) {
			if len(l.Items) > 0 {
				return true
			}
		}
		return false
	case KNaN, KInf, KBadNum:
		body, err := fedlab.ParseJSON(req.Response)
		return err == nil && firstNumber(body.Get("data")) != nil
	}
	return true
}

// ActionFor builds the hook action for a kind from the request's semantic answer.  target (for
// ent_null): the index of the list and element that was nulled is returned in what.
func ActionFor(kind string, req *fedlab.Request) (fedlab.Action, error) {
	switch kind {
	case KTransport:
		return fedlab.Action{Err: errors.New("dial tcp: connection refused (injected)")}, nil
	case K500Body:
		return fedlab.Action{Status: 500}, nil
	case K500Empty:
		return fedlab.Action{Status: 500, Body: []byte{}}, nil
	case K200Empty:
		return fedlab.Action{Status: 200, Body: []byte{}}, nil
	case KNonJSON:
		return fedlab.Action{Status: 200, Body: []byte("<html><body>502 Bad Gateway</body></html>")}, nil
	case KTruncated:
		b := req.Response
		return fedlab.Action{Status: 200, Body: append([]byte(nil), b[:len(b)/2]...)}, nil
	case KErrsNoData:
		return fedlab.Action{Status: 200, Body: []byte(`{"errors":[{"message":"injected: boom"}]}`)}, nil
	case KEntListNull:
		return fedlab.Action{Status: 200, Body: []byte(`{"data":{"_entities":null}}`)}, nil
	case KEntListNull500:
		return fedlab.Action{Status: 500, Body: []byte(`{"data":{"_entities":null}}`)}, nil
	case KEntListNullErr:
		return fedlab.Action{Status: 200, Body: []byte(`{"data":{"_entities":null},"errors":[{"message":"injected: boom"}]}`)}, nil
	case KEntListObj:
		return fedlab.Action{Status: 200, Body: []byte(`{"data":{"_entities":{}}}`)}, nil
	case KDataEmpty:
		return fedlab.Action{Status: 200, Body: []byte(`{"data":{}}`)}, nil
	}
	body, err := fedlab.ParseJSON(req.Response)
	if err != nil {
		return fedlab.Action{}, err
	}
	switch kind {
	case KNaN, KInf, KBadNum:
		n := firstNumber(body.Get("data"))
		if n == nil {
			return fedlab.Action{}, fmt.Errorf("no number in the body")
		}
		switch kind {
		case KNaN:
			n.Raw = "NaN"
		case KInf:
			n.Raw = "-inf"
		default:
			n.Raw = "01"
		}
	case KEntMissing, KEntExtra, KEntNull:
		done := false
		for _, l := range entityLists(body) {
			if len(l.Items) == 0 {
				continue
			}
			switch kind {
			case KEntMissing:
				l.Items = l.Items[:len(l.Items)-1]
			case KEntExtra:
				l.Items = append(l.Items, l.Items[len(l.Items)-1])
			case KEntNull:
				l.Items[0] = fedlab.JN()
			}
			done = true
			break
		}
		if !done {
			return fedlab.Action{}, fmt.Errorf("no entities in the body")
		}
	default:
		return fedlab.Action{}, fmt.Errorf("unknown kind %q", kind)
	}
	return fedlab.Action{Status: 200, Body: []byte(body.String())}, nil
}

// ---------------------------------------------------------------- what a request delivers

// Pair is one (entity, field) of the universe.
type Pair struct{ Type, Key, Field string }

// Group is one list of representations of a request with the fields selected per type.
type Group struct {
	Alias   string              // response key of the _entities field ("" for a root request)
	RepsVar string              // name of the representations variable
	Fields  map[string][]string // type condition -> field names (not aliases), __typename excluded
}

// ParseRequest splits a subgraph query into its groups: a root request has one group with
// Fields[""] = root field names; an entity request one group per _entities field.
func ParseRequest(query string) ([]Group, error) {
	doc, report := astparser.ParseGraphqlDocumentString(query)
	if report.HasErrors() {
		return nil, errors.New(report.Error())
	}
	var groups []Group
	root := Group{Fields: map[string][]string{}}
	for _, n := range doc.RootNodes {
		if n.Kind != ast.NodeKindOperationDefinition {
			continue
		}
		op := doc.OperationDefinitions[n.Ref]
		if !op.HasSelections {
			continue
		}
		for _, sref := range doc.SelectionSets[op.SelectionSet].SelectionRefs {
			sel := doc.Selections[sref]
			if sel.Kind != ast.SelectionKindField {
				continue
			}
			name := doc.FieldNameString(sel.Ref)
			if name != "_entities" {
				if name != "__typename" {
					root.Fields[""] = append(root.Fields[""], name)
				}
				continue
			}
			g := Group{Alias: doc.FieldAliasOrNameString(sel.Ref), RepsVar: "representations", Fields: map[string][]string{}}
			if arg, ok := doc.FieldArgument(sel.Ref, []byte("representations")); ok {
				v := doc.ArgumentValue(arg)
				if v.Kind == ast.ValueKindVariable {
					g.RepsVar = doc.VariableValueNameString(v.Ref)
				}
			}
			if doc.Fields[sel.Ref].HasSelections {
				for _, fr := range doc.SelectionSets[doc.Fields[sel.Ref].SelectionSet].SelectionRefs {
					fs := doc.Selections[fr]
					if fs.Kind != ast.SelectionKindInlineFragment {
						continue
					}
					tc := doc.InlineFragmentTypeConditionNameString(fs.Ref)
					if !doc.InlineFragments[fs.Ref].HasSelections {
						continue
					}
					for _, xr := range doc.SelectionSets[doc.InlineFragments[fs.Ref].SelectionSet].SelectionRefs {
						xs := doc.Selections[xr]
						if xs.Kind == ast.SelectionKindField {
							if fn := doc.FieldNameString(xs.Ref); fn != "__typename" {
								g.Fields[tc] = append(g.Fields[tc], fn)
							}
						}
					}
				}
			}
			groups = append(groups, g)
		}
	}
	if len(root.Fields[""]) > 0 {
		groups = append(groups, root)
	}
	return groups, nil
}

// FindEntity: the entity of the universe a representation denotes (all its leaf members match).
func FindEntity(u *fedlab.Universe, rep *fedlab.J) *fedlab.Entity {
	if rep == nil || rep.Kind != fedlab.JObj {
		return nil
	}
	tn := rep.Get("__typename")
	if tn == nil {
		return nil
	}
	var matches func(e *fedlab.Entity, obj *fedlab.J) bool
	matches = func(e *fedlab.Entity, obj *fedlab.J) bool {
		n := 0
		for _, m := range obj.Members {
			if m.Key == "__typename" {
				continue
			}
			fv := e.Field(m.Key)
			if fv == nil {
				continue // a required field computed elsewhere, or a field this universe does not list
			}
			switch fv.Kind {
			case fedlab.FSc:
				if m.Val.Kind == fedlab.JObj || m.Val.Kind == fedlab.JArr {
					continue
				}
				if !fv.JSON.Equal(m.Val) {
					return false
				}
				n++
			case fedlab.FRef:
				if m.Val.Kind == fedlab.JObj {
					if sub := u.Find(fv.Type, fv.Key); sub != nil && !matches(sub, m.Val) {
						return false
					}
				}
			}
		}
		return n > 0 || len(obj.Members) <= 1
	}
	for _, e := range u.OfType(tn.Raw) {
		if id := rep.Get("id"); id != nil && id.Kind == fedlab.JStr {
			if e.Key == id.Raw {
				return e
			}
			continue
		}
		if matches(e, rep) {
			return e
		}
	}
	return nil
}

// Deliverables: the (entity, field) pairs a request was supposed to deliver: its selection x
// its representations (only = the index of one representation of the first non-empty list, -1 =
// all; firstGroupOnly: only the first non-empty list of a merged request); for a root request its
// root fields on the Query entity.  Fields that are members of the representation itself (keys,
// required inputs) are not deliverables.
func Deliverables(cfg *fedlab.Config, u *fedlab.Universe, req *fedlab.Request, only int, firstGroupOnly bool) ([]Pair, error) {
	return DeliverablesWhere(cfg, u, req, func(group int, _ string, i int, rep *fedlab.J, e *fedlab.Entity) bool {
		if firstGroupOnly && group > 0 {
			return false
		}
		if only >= 0 && !(group == 0 && i == only) {
			return false
		}
		return true
	})
}

// DeliverablesWhere: as Deliverables, for the representations pred selects (group counts the
// non-empty representation lists of the request; a root request has no representations and is
// taken whole when pred(0, "", -1, nil, nil) holds; alias is the response key of the _entities field).
func DeliverablesWhere(cfg *fedlab.Config, u *fedlab.Universe, req *fedlab.Request, pred func(group int, alias string, i int, rep *fedlab.J, e *fedlab.Entity) bool) ([]Pair, error) {
	return deliverablesWhere(cfg, u, req, pred, false)
}

// RepMemberSelections: the (entity, field) pairs a request SELECTS although the field is a member of the
// representation (a key field such as `id`, asked for again because the planner serves a response position --
// `al2: id` -- from this request).  Not deliverables in the data-flow sense (the value is known before the
// request), but the response position is filled from this request's answer and is null when it fails.
func RepMemberSelections(cfg *fedlab.Config, u *fedlab.Universe, req *fedlab.Request, pred func(group int, alias string, i int, rep *fedlab.J, e *fedlab.Entity) bool) ([]Pair, error) {
	return deliverablesWhere(cfg, u, req, pred, true)
}

func deliverablesWhere(cfg *fedlab.Config, u *fedlab.Universe, req *fedlab.Request, pred func(group int, alias string, i int, rep *fedlab.J, e *fedlab.Entity) bool, repMembers bool) ([]Pair, error) {
	groups, err := ParseRequest(req.Query)
	if err != nil {
		return nil, err
	}
	var out []Pair
	group := 0
	for _, g := range groups {
		if g.Alias == "" && g.RepsVar == "" {
			if !repMembers && pred(0, "", -1, nil, nil) {
				for _, f := range g.Fields[""] {
					out = append(out, Pair{cfg.Super.Query, "", f})
				}
			}
			continue
		}
		var reps []*fedlab.J
		if req.Variables != nil {
			if rv := req.Variables.Get(g.RepsVar); rv != nil {
				reps = rv.Items
			}
		}
		if len(reps) == 0 {
			continue
		}
		for i, rep := range reps {
			e := FindEntity(u, rep)
			if e == nil || !pred(group, g.Alias, i, rep, e) {
				continue
			}
			for tc, fields := range g.Fields {
				ok := tc == e.Type
				if !ok {
					for _, pt := range cfg.Super.PossibleTypes(tc) {
						if pt == e.Type {
							ok = true
						}
					}
				}
				if !ok {
					continue
				}
				for _, f := range fields {
					if (rep.Get(f) != nil) != repMembers {
						continue
					}
					out = append(out, Pair{e.Type, e.Key, f})
				}
			}
		}
		group++
	}
	return out, nil
}

// CloseOverRequires extends the marked pairs along the data flow of the fault-free run: when a
// representation of a request carries a member (a @requires input) that is marked for its
// entity, the request cannot be sent for that entity, so everything it was to deliver for that
// entity is marked too.
func CloseOverRequires(cfg *fedlab.Config, u *fedlab.Universe, base []*fedlab.Request, pairs []Pair) []Pair {
	marked := map[Pair]bool{}
	for _, p := range pairs {
		marked[p] = true
	}
	for changed := true; changed; {
		changed = false
		for _, r := range base {
			ps, err := DeliverablesWhere(cfg, u, r, func(_ int, _ string, i int, rep *fedlab.J, e *fedlab.Entity) bool {
				if rep == nil || e == nil {
					return false
				}
				for _, m := range rep.Members {
					if m.Key != "__typename" && marked[Pair{e.Type, e.Key, m.Key}] {
						return true
					}
				}
				return false
			})
			if err != nil {
				continue
			}
			for _, p := range ps {
				if !marked[p] {
					marked[p] = true
					pairs = append(pairs, p)
					changed = true
				}
			}
		}
	}
	return pairs
}

// MarkUniverse returns a copy of u in which the pairs resolve to (err), and so do the @requires
// fields computed from them.
func MarkUniverse(u *fedlab.Universe, pairs []Pair) *fedlab.Universe {
	marked := map[Pair]bool{}
	for _, p := range pairs {
		marked[p] = true
	}
	out := &fedlab.Universe{}
	for _, e := range u.Ents {
		ne := &fedlab.Entity{Type: e.Type, Key: e.Key}
		for _, f := range e.Fields {
			v := f.Val
			if marked[Pair{e.Type, e.Key, f.Name}] {
				v = &fedlab.FVal{Kind: fedlab.FErr}
			} else if v.Kind == fedlab.FReq {
				for _, in := range v.Req {
					if marked[Pair{e.Type, e.Key, in}] {
						v = &fedlab.FVal{Kind: fedlab.FErr}
						break
					}
				}
			}
			ne.Fields = append(ne.Fields, fedlab.FV{Name: f.Name, Val: v})
		}
		out.Ents = append(out.Ents, ne)
	}
	return out
}

func PairsKey(pairs []Pair) string {
	s := make([]string, len(pairs))
	for i, p := range pairs {
		s[i] = p.Type + "\x00" + p.Key + "\x00" + p.Field
	}
	sort.Strings(s)
	// de-duplicate
	out := s[:0]
	for i, x := range s {
		if i == 0 || x != s[i-1] {
			out = append(out, x)
		}
	}
	return strings.Join(out, "\x01")
}

// SelectedPairs: every (type, field) a subgraph query can deliver at any depth, by walking the
// query with the subgraph's schema (possible types of abstract positions included).
func SelectedPairs(sch *fedlab.Schema, query string) (map[[2]string]bool, error) {
	all, _, err := SelectedPairsNested(sch, query)
	return all, err
}

// SelectedPairsNested also returns the pairs selected BELOW a top-level field of the request
// (nested objects an entity or root field brings along).
func SelectedPairsNested(sch *fedlab.Schema, query string) (map[[2]string]bool, map[[2]string]bool, error) {
	doc, report := astparser.ParseGraphqlDocumentString(query)
	if report.HasErrors() {
		return nil, nil, errors.New(report.Error())
	}
	out := map[[2]string]bool{}
	nested := map[[2]string]bool{}
	named := func(t *fedlab.TypeRef) string {
		for t != nil && t.Of != nil {
			t = t.Of
		}
		if t == nil {
			return ""
		}
		return t.Name
	}
	var walk func(typ string, set int, depth int)
	walk = func(typ string, set int, depth int) {
		if depth > 60 {
			return
		}
		for _, sref := range doc.SelectionSets[set].SelectionRefs {
			sel := doc.Selections[sref]
			switch sel.Kind {
			case ast.SelectionKindField:
				name := doc.FieldNameString(sel.Ref)
				if name == "__typename" {
					continue
				}
				if name == "_entities" {
					if doc.Fields[sel.Ref].HasSelections {
						walk("_Entity", doc.Fields[sel.Ref].SelectionSet, 0)
					}
					continue
				}
				types := sch.PossibleTypes(typ)
				if len(types) == 0 {
					types = []string{typ}
				}
				next := ""
				for _, t := range append(types, typ) {
					td := sch.Type(t)
					if td == nil {
						continue
					}
					if fd := td.Field(name); fd != nil {
						out[[2]string{t, name}] = true
						if depth >= 10 {
							nested[[2]string{t, name}] = true
						}
						next = named(fd.Type)
					}
				}
				if next != "" && doc.Fields[sel.Ref].HasSelections {
					walk(next, doc.Fields[sel.Ref].SelectionSet, depth+10)
				}
			case ast.SelectionKindInlineFragment:
				tc := doc.InlineFragmentTypeConditionNameString(sel.Ref)
				if tc == "" {
					tc = typ
				}
				if doc.InlineFragments[sel.Ref].HasSelections {
					walk(tc, doc.InlineFragments[sel.Ref].SelectionSet, depth+1)
				}
			}
		}
	}
	for _, n := range doc.RootNodes {
		if n.Kind == ast.NodeKindOperationDefinition && doc.OperationDefinitions[n.Ref].HasSelections {
			walk(sch.Query, doc.OperationDefinitions[n.Ref].SelectionSet, 0)
		}
	}
	return out, nested, nil
}

// Leq: a equals b except that sub-trees of b may be null in a ("a is b with parts nulled").
func Leq(a, b *fedlab.J) bool {
	if a == nil || a.Kind == fedlab.JNull {
		return true
	}
	if b == nil || a.Kind != b.Kind {
		return false
	}
	switch a.Kind {
	case fedlab.JObj:
		if len(a.Members) != len(b.Members) {
			return false
		}
		for _, m := range a.Members {
			if !Leq(m.Val, b.Get(m.Key)) {
				return false
			}
		}
		return true
	case fedlab.JArr:
		if len(a.Items) != len(b.Items) {
			return false
		}
		for i := range a.Items {
			if !Leq(a.Items[i], b.Items[i]) {
				return false
			}
		}
		return true
	default:
		return a.Equal(b)
	}
}

// LeqDiff: a path where Leq fails ("" when it holds).
func LeqDiff(a, b *fedlab.J, path string) string {
	if a == nil || a.Kind == fedlab.JNull {
		return ""
	}
	if b == nil || a.Kind != b.Kind {
		bs := "absent"
		if b != nil {
			bs = fedlab.Trunc(b.String(), 60)
		}
		return path + ": " + fedlab.Trunc(a.String(), 60) + " vs " + bs
	}
	switch a.Kind {
	case fedlab.JObj:
		if len(a.Members) != len(b.Members) {
			return path + ": different members"
		}
		for _, m := range a.Members {
			if d := LeqDiff(m.Val, b.Get(m.Key), path+"."+m.Key); d != "" {
				return d
			}
		}
	case fedlab.JArr:
		if len(a.Items) != len(b.Items) {
			return path + ": list length"
		}
		for i := range a.Items {
			if d := LeqDiff(a.Items[i], b.Items[i], fmt.Sprintf("%s[%d]", path, i)); d != "" {
				return d
			}
		}
	default:
		if !a.Equal(b) {
			return path + ": " + fedlab.Trunc(a.String(), 60) + " vs " + fedlab.Trunc(b.String(), 60)
		}
	}
	return ""
}
