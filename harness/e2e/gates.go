package e2e

import (
	"sort"
	"strings"
	"sync"
	"time"

	"gvh/fedlab"
)

// GateEvent is the log entry of one gated request.
type GateEvent struct {
	Key      string
	Req      *fedlab.Request
	Held     time.Time // the hook was entered (the semantic answer is ready)
	Released time.Time // just before the gate was opened (zero: never released by the controller)
	Step     int       // position in the release order
	gate     chan struct{}
}

// Choice is one release decision.
type Choice struct {
	Chosen string
	Alts   []string // distinct held keys at the decision (sorted); includes Chosen
	Free   bool     // decided by the picker (not dictated by the prefix)
}

// GateRun is one run of an operation with every subgraph response held until released.
type GateRun struct {
	Order    []string // keys in release order
	Events   []*GateEvent
	Choices  []Choice
	Diverged bool // a key dictated by the prefix never showed up (the run went on in free mode)
	Result   *fedlab.Result
}

func (g *GateRun) Signature() string { return strings.Join(g.Order, "\x01") }

// Picker chooses among the distinct held keys at a free decision.
type Picker func(step int, alts []string) int

// GateOptions of RunGatedOpts.  Fault, when set, may replace the answer of a held request (the
// request is still held and released by the controller; only what is returned changes).
// AfterRelease is slept after a release while other responses are still held, so that the released
// response is merged before the next one is let go (merge order = release order).
type GateOptions struct {
	Settle       time.Duration
	ExpectTotal  int
	AfterRelease time.Duration
	Fault        func(key string, req *fedlab.Request) *fedlab.Action
}

type gateCtl struct {
	fault   func(key string, req *fedlab.Request) *fedlab.Action
	mu      sync.Mutex
	held    map[string][]*GateEvent
	nHeld   int
	events  []*GateEvent
	lastArr time.Time
	notify  chan struct{}
	open    bool // after the run: let everything through
}

func (c *gateCtl) hook(_ int, req *fedlab.Request) fedlab.Action {
	ev := &GateEvent{Key: ReqKey(req), Req: req, Held: time.Now(), gate: make(chan struct{})}
	c.mu.Lock()
	if c.open {
		c.mu.Unlock()
		return fedlab.Action{}
	}
	c.held[ev.Key] = append(c.held[ev.Key], ev)
	c.nHeld++
	c.events = append(c.events, ev)
	c.lastArr = ev.Held
	c.mu.Unlock()
	select {
	case c.notify <- struct{}{}:
	default:
	}
	if c.fault != nil {
		if a := c.fault(ev.Key, req); a != nil {
			act := *a
			act.Wait = ev.gate
			return act
		}
	}
	return fedlab.Action{Wait: ev.gate}
}

func (c *gateCtl) heldKeys() []string {
	ks := make([]string, 0, len(c.held))
	for k, v := range c.held {
		if len(v) > 0 {
			ks = append(ks, k)
		}
	}
	sort.Strings(ks)
	return ks
}

// RunGated runs the operation holding every subgraph response; responses are released one at a
// time: first the keys of prefix in that order (waiting for each to show up), then whatever pick
// chooses among the held requests once the gateway has gone quiet (no arrival for settle, or all
// expectTotal requests seen).  A request that arrives after a release joins the pool.
func RunGated(lab *fedlab.Lab, op, opName string, vars []byte, prefix []string, pick Picker, settle time.Duration, expectTotal int) *GateRun {
	return RunGatedOpts(lab, op, opName, vars, prefix, pick, GateOptions{Settle: settle, ExpectTotal: expectTotal})
}

// RunGatedOpts is RunGated with fault injection on held requests and a pause after each release.
func RunGatedOpts(lab *fedlab.Lab, op, opName string, vars []byte, prefix []string, pick Picker, gopts GateOptions) *GateRun {
	settle, expectTotal := gopts.Settle, gopts.ExpectTotal
	c := &gateCtl{held: map[string][]*GateEvent{}, notify: make(chan struct{}, 1), fault: gopts.Fault}
	run := &GateRun{}
	done := make(chan *fedlab.Result, 1)
	go func() {
		done <- lab.Run(op, vars, &fedlab.RunOptions{OperationName: opName, BeforeRespond: c.hook})
	}()
	released := 0
	finished := false
	release := func(key string, alts []string, free bool) {
		c.mu.Lock()
		q := c.held[key]
		ev := q[0]
		c.held[key] = q[1:]
		c.nHeld--
		still := c.nHeld
		c.mu.Unlock()
		ev.Step = released
		ev.Released = time.Now()
		close(ev.gate)
		released++
		run.Order = append(run.Order, key)
		run.Choices = append(run.Choices, Choice{Chosen: key, Alts: alts, Free: free})
		if gopts.AfterRelease > 0 && still > 0 {
			time.Sleep(gopts.AfterRelease)
		}
	}
	wait := func(d time.Duration) {
		t := time.NewTimer(d)
		defer t.Stop()
		select {
		case <-c.notify:
		case r := <-done:
			run.Result = r
			finished = true
		case <-t.C:
		}
	}
	step := 0
	for !finished {
		if step < len(prefix) && !run.Diverged {
			want := prefix[step]
			deadline := time.Now().Add(250 * time.Millisecond)
			for !finished {
				c.mu.Lock()
				have := len(c.held[want]) > 0
				alts := c.heldKeys()
				c.mu.Unlock()
				if have {
					release(want, alts, false)
					step++
					break
				}
				if time.Now().After(deadline) {
					run.Diverged = true
					break
				}
				wait(5 * time.Millisecond)
			}
			continue
		}
		// free decision: wait until quiet
		c.mu.Lock()
		n, last := c.nHeld, c.lastArr
		c.mu.Unlock()
		if n == 0 {
			wait(20 * time.Millisecond)
			continue
		}
		if n+released < expectTotal {
			if since := time.Since(last); since < settle {
				wait(settle - since)
				continue
			}
		}
		c.mu.Lock()
		alts := c.heldKeys()
		c.mu.Unlock()
		if len(alts) == 0 {
			continue
		}
		i := 0
		if pick != nil {
			i = pick(step, alts)
		}
		if i < 0 || i >= len(alts) {
			i = 0
		}
		release(alts[i], alts, true)
		step++
	}
	// the run is over: nothing should still be held, but never leave a goroutine blocked
	c.mu.Lock()
	c.open = true
	for _, q := range c.held {
		for _, ev := range q {
			close(ev.gate)
		}
	}
	run.Events = c.events
	c.mu.Unlock()
	return run
}

// Explore enumerates completion orders depth-first over the free decisions (stateless search:
// every order is a fresh run whose prefix is dictated).  It stops after max runs; exhaustive tells
// whether the decision tree was exhausted.  visit is called for every run.
func Explore(max int, runWith func(prefix []string, pick Picker) *GateRun, visit func(*GateRun)) (runs int, exhaustive bool) {
	type todo struct{ prefix []string }
	stack := []todo{{nil}}
	seen := map[string]bool{}
	for len(stack) > 0 {
		if runs >= max {
			return runs, false
		}
		t := stack[len(stack)-1]
		stack = stack[:len(stack)-1]
		r := runWith(t.prefix, nil)
		runs++
		if !seen[r.Signature()] {
			seen[r.Signature()] = true
			visit(r)
		}
		if r.Diverged {
			continue
		}
		// alternatives at the free decisions beyond the dictated prefix
		for j := len(r.Choices) - 1; j >= len(t.prefix); j-- {
			ch := r.Choices[j]
			if !ch.Free {
				continue
			}
			for k := len(ch.Alts) - 1; k >= 0; k-- {
				if ch.Alts[k] == ch.Chosen {
					continue
				}
				p := append(append([]string(nil), r.Order[:j]...), ch.Alts[k])
				stack = append(stack, todo{p})
			}
		}
	}
	return runs, true
}
