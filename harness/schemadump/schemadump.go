// Package schemadump holds a tree form of a GraphQL type system (mirroring coq/lib/Gql.v
// `schema`), a dumper from ast.Document into it, its S-expression form (the interchange format
// read by the extracted models) and an SDL emitter.  Descriptions are not represented.
package schemadump

import (
	"strings"

	"gvh/common"

	"github.com/wundergraph/graphql-go-tools/v2/pkg/ast"
)

type Ty struct {
	Kind int // 0 named, 1 list, 2 non-null
	Name string
	Of   *Ty
}

func Named(n string) *Ty { return &Ty{Kind: 0, Name: n} }
func List(t *Ty) *Ty     { return &Ty{Kind: 1, Of: t} }
func NonNull(t *Ty) *Ty  { return &Ty{Kind: 2, Of: t} }

func (t *Ty) NamedOf() string {
	for t.Kind != 0 {
		t = t.Of
	}
	return t.Name
}
func (t *Ty) Depth() int {
	d := 0
	for t.Kind != 0 {
		t = t.Of
		d++
	}
	return d
}

type ObjField struct {
	Name string
	Val  *Val
}

// Val: Kind one of var int float str bool null enum list obj. Raw: name / raw token (numbers with sign) / string content.
type Val struct {
	Kind   string
	Raw    string
	Block  bool
	B      bool
	Items  []*Val
	Fields []ObjField
}

type Arg struct {
	Name string
	Val  *Val
}
type Dir struct {
	Name string
	Args []Arg
}
type IV struct {
	Name    string
	Type    *Ty
	Default *Val
	Dirs    []Dir
}
type FD struct {
	Name string
	Args []IV
	Type *Ty
	Dirs []Dir
}
type EV struct {
	Name string
	Dirs []Dir
}
type TD struct {
	Kind        string // scalar object interface union enum input
	Name        string
	Implements  []string
	Fields      []FD
	Members     []string
	EnumValues  []EV
	InputFields []IV
	Dirs        []Dir
}
type DD struct {
	Name       string
	Args       []IV
	Locations  []string
	Repeatable bool
}
type Schema struct {
	Query, Mutation, Subscription string // "" = absent
	Types                         []TD
	Directives                    []DD
}

// ---------------------------------------------------------------- S-expressions
var q = common.QS
var l = common.L

func (t *Ty) Sexp() string {
	switch t.Kind {
	case 1:
		return l("list", t.Of.Sexp())
	case 2:
		return l("nn", t.Of.Sexp())
	}
	return l("named", q(t.Name))
}

func (v *Val) Sexp() string {
	switch v.Kind {
	case "var", "int", "float", "enum":
		return l(v.Kind, q(v.Raw))
	case "str":
		return l("str", q(v.Raw), common.B(v.Block))
	case "bool":
		return l("bool", common.B(v.B))
	case "null":
		return "(null)"
	case "list":
		items := []string{"list"}
		for _, i := range v.Items {
			items = append(items, i.Sexp())
		}
		return l(items...)
	case "obj":
		items := []string{"obj"}
		for _, f := range v.Fields {
			items = append(items, l(q(f.Name), f.Val.Sexp()))
		}
		return l(items...)
	}
	return l("unknown", q(v.Kind))
}

func dirsSexp(ds []Dir) string {
	items := []string{"dirs"}
	for _, d := range ds {
		di := []string{"dir", q(d.Name)}
		for _, a := range d.Args {
			di = append(di, l("arg", q(a.Name), a.Val.Sexp()))
		}
		items = append(items, l(di...))
	}
	return l(items...)
}

func ivSexp(tag string, ivs []IV) string {
	items := []string{tag}
	for _, iv := range ivs {
		def := "()"
		if iv.Default != nil {
			def = l("default", iv.Default.Sexp())
		}
		items = append(items, l("iv", q(iv.Name), iv.Type.Sexp(), def, dirsSexp(iv.Dirs)))
	}
	return l(items...)
}

func namesSexp(tag string, ns []string) string {
	items := []string{tag}
	for _, n := range ns {
		items = append(items, q(n))
	}
	return l(items...)
}

func (t *TD) Sexp() string {
	fs := []string{"fields"}
	for _, f := range t.Fields {
		fs = append(fs, l("field", q(f.Name), ivSexp("args", f.Args), f.Type.Sexp(), dirsSexp(f.Dirs)))
	}
	evs := []string{"values"}
	for _, e := range t.EnumValues {
		evs = append(evs, l("ev", q(e.Name), dirsSexp(e.Dirs)))
	}
	return l("type", t.Kind, q(t.Name), namesSexp("implements", t.Implements), l(fs...),
		namesSexp("members", t.Members), l(evs...), ivSexp("inputs", t.InputFields), dirsSexp(t.Dirs))
}

func opt(s string) string {
	if s == "" {
		return "()"
	}
	return l(q(s))
}

func (s *Schema) Sexp() string {
	ts := []string{"types"}
	for i := range s.Types {
		ts = append(ts, s.Types[i].Sexp())
	}
	ds := []string{"directives"}
	for _, d := range s.Directives {
		ds = append(ds, l("directive", q(d.Name), ivSexp("args", d.Args), namesSexp("locs", d.Locations), common.B(d.Repeatable)))
	}
	return l("schema", l("roots", q(s.Query), opt(s.Mutation), opt(s.Subscription)), l(ts...), l(ds...))
}

// ---------------------------------------------------------------- SDL
// SDLOpts lets a generator vary the surface form without changing the tree.
type SDLOpts struct {
	R           *common.Rand // may be nil: canonical form
	SchemaBlock bool         // emit `schema { ... }`
}

func (o *SDLOpts) chance(n, d int) bool { return o.R != nil && o.R.Chance(n, d) }

func (t *Ty) SDL() string {
	switch t.Kind {
	case 1:
		return "[" + t.Of.SDL() + "]"
	case 2:
		return t.Of.SDL() + "!"
	}
	return t.Name
}

func (v *Val) SDL(o *SDLOpts) string {
	switch v.Kind {
	case "var":
		return "$" + v.Raw
	case "int", "float", "enum":
		return v.Raw
	case "str":
		if v.Block {
			// the lexer trims white space around block string content; content ending in a quote or a
			// backslash needs padding
			pad := ""
			if strings.HasSuffix(v.Raw, `"`) || strings.HasSuffix(v.Raw, `\`) || o.chance(1, 3) {
				pad = " "
			}
			lead := ""
			if !strings.HasPrefix(v.Raw, `"`) && o.chance(1, 4) {
				lead = "\n  "
			}
			return `"""` + lead + v.Raw + pad + `"""`
		}
		return `"` + v.Raw + `"`
	case "bool":
		if v.B {
			return "true"
		}
		return "false"
	case "null":
		return "null"
	case "list":
		parts := make([]string, len(v.Items))
		for i, it := range v.Items {
			parts[i] = it.SDL(o)
		}
		sep := ", "
		if o.chance(1, 3) {
			sep = " "
		}
		return "[" + strings.Join(parts, sep) + "]"
	case "obj":
		parts := make([]string, len(v.Fields))
		for i, f := range v.Fields {
			parts[i] = f.Name + ": " + f.Val.SDL(o)
		}
		return "{" + strings.Join(parts, ", ") + "}"
	}
	return "?"
}

func dirsSDL(ds []Dir, o *SDLOpts) string {
	var sb strings.Builder
	for _, d := range ds {
		sb.WriteString(" @" + d.Name)
		if len(d.Args) > 0 {
			parts := make([]string, len(d.Args))
			for i, a := range d.Args {
				parts[i] = a.Name + ": " + a.Val.SDL(o)
			}
			sb.WriteString("(" + strings.Join(parts, ", ") + ")")
		}
	}
	return sb.String()
}

func ivSDL(iv *IV, o *SDLOpts) string {
	s := iv.Name + ": " + iv.Type.SDL()
	if iv.Default != nil {
		s += " = " + iv.Default.SDL(o)
	}
	return s + dirsSDL(iv.Dirs, o)
}

func argsSDL(args []IV, o *SDLOpts) string {
	if len(args) == 0 {
		return ""
	}
	parts := make([]string, len(args))
	for i := range args {
		parts[i] = ivSDL(&args[i], o)
	}
	return "(" + strings.Join(parts, ", ") + ")"
}

func (t *TD) SDL(o *SDLOpts) string {
	var sb strings.Builder
	impl := ""
	if len(t.Implements) > 0 {
		impl = " implements " + strings.Join(t.Implements, " & ")
	}
	switch t.Kind {
	case "scalar":
		sb.WriteString("scalar " + t.Name + dirsSDL(t.Dirs, o) + "\n")
	case "object", "interface":
		kw := "type"
		if t.Kind == "interface" {
			kw = "interface"
		}
		sb.WriteString(kw + " " + t.Name + impl + dirsSDL(t.Dirs, o))
		if len(t.Fields) > 0 {
			sb.WriteString(" {\n")
			for i := range t.Fields {
				f := &t.Fields[i]
				sb.WriteString("  " + f.Name + argsSDL(f.Args, o) + ": " + f.Type.SDL() + dirsSDL(f.Dirs, o) + "\n")
			}
			sb.WriteString("}")
		}
		sb.WriteString("\n")
	case "union":
		sb.WriteString("union " + t.Name + dirsSDL(t.Dirs, o))
		if len(t.Members) > 0 {
			sb.WriteString(" = " + strings.Join(t.Members, " | "))
		}
		sb.WriteString("\n")
	case "enum":
		sb.WriteString("enum " + t.Name + dirsSDL(t.Dirs, o) + " {\n")
		for _, e := range t.EnumValues {
			sb.WriteString("  " + e.Name + dirsSDL(e.Dirs, o) + "\n")
		}
		sb.WriteString("}\n")
	case "input":
		sb.WriteString("input " + t.Name + dirsSDL(t.Dirs, o) + " {\n")
		for i := range t.InputFields {
			sb.WriteString("  " + ivSDL(&t.InputFields[i], o) + "\n")
		}
		sb.WriteString("}\n")
	}
	return sb.String()
}

// SDL prints: schema block (optional), directive definitions, then types — this document order
// is the one the C17 model assumes (the name index is first-node-wins across both).
func (s *Schema) SDL(o *SDLOpts) string {
	var sb strings.Builder
	if o.SchemaBlock {
		sb.WriteString("schema {\n")
		if s.Query != "" {
			sb.WriteString("  query: " + s.Query + "\n")
		}
		if s.Mutation != "" {
			sb.WriteString("  mutation: " + s.Mutation + "\n")
		}
		if s.Subscription != "" {
			sb.WriteString("  subscription: " + s.Subscription + "\n")
		}
		sb.WriteString("}\n")
	}
	for i := range s.Directives {
		d := &s.Directives[i]
		locs := append([]string(nil), d.Locations...)
		if o.R != nil {
			o.R.Shuffle(len(locs), func(a, b int) { locs[a], locs[b] = locs[b], locs[a] })
		}
		rep := ""
		if d.Repeatable {
			rep = " repeatable"
		}
		sb.WriteString("directive @" + d.Name + argsSDL(d.Args, o) + rep + " on " + strings.Join(locs, " | ") + "\n")
	}
	for i := range s.Types {
		sb.WriteString(s.Types[i].SDL(o))
	}
	return sb.String()
}

// ---------------------------------------------------------------- ast.Document -> tree
func tyOf(doc *ast.Document, ref int) *Ty {
	if ref < 0 || ref >= len(doc.Types) {
		return Named("?invalid")
	}
	t := doc.Types[ref]
	switch t.TypeKind {
	case ast.TypeKindList:
		return List(tyOf(doc, t.OfType))
	case ast.TypeKindNonNull:
		return NonNull(tyOf(doc, t.OfType))
	}
	return Named(string(doc.Input.ByteSlice(t.Name)))
}

func valOf(doc *ast.Document, v ast.Value) *Val {
	switch v.Kind {
	case ast.ValueKindString:
		return &Val{Kind: "str", Raw: string(doc.Input.ByteSlice(doc.StringValues[v.Ref].Content)), Block: doc.StringValues[v.Ref].BlockString}
	case ast.ValueKindBoolean:
		return &Val{Kind: "bool", B: bool(doc.BooleanValues[v.Ref])}
	case ast.ValueKindInteger:
		raw := string(doc.Input.ByteSlice(doc.IntValues[v.Ref].Raw))
		if doc.IntValues[v.Ref].Negative {
			raw = "-" + raw
		}
		return &Val{Kind: "int", Raw: raw}
	case ast.ValueKindFloat:
		raw := string(doc.Input.ByteSlice(doc.FloatValues[v.Ref].Raw))
		if doc.FloatValues[v.Ref].Negative {
			raw = "-" + raw
		}
		return &Val{Kind: "float", Raw: raw}
	case ast.ValueKindVariable:
		return &Val{Kind: "var", Raw: string(doc.Input.ByteSlice(doc.VariableValues[v.Ref].Name))}
	case ast.ValueKindNull:
		return &Val{Kind: "null"}
	case ast.ValueKindEnum:
		return &Val{Kind: "enum", Raw: string(doc.Input.ByteSlice(doc.EnumValues[v.Ref].Name))}
	case ast.ValueKindList:
		r := &Val{Kind: "list"}
		for _, i := range doc.ListValues[v.Ref].Refs {
			r.Items = append(r.Items, valOf(doc, doc.Values[i]))
		}
		return r
	case ast.ValueKindObject:
		r := &Val{Kind: "obj"}
		for _, i := range doc.ObjectValues[v.Ref].Refs {
			r.Fields = append(r.Fields, ObjField{string(doc.Input.ByteSlice(doc.ObjectFields[i].Name)), valOf(doc, doc.ObjectFields[i].Value)})
		}
		return r
	}
	return &Val{Kind: "unknown"}
}

func dirsOf(doc *ast.Document, has bool, refs []int) []Dir {
	if !has {
		return nil
	}
	var out []Dir
	for _, r := range refs {
		d := Dir{Name: doc.DirectiveNameString(r)}
		if doc.Directives[r].HasArguments {
			for _, a := range doc.Directives[r].Arguments.Refs {
				d.Args = append(d.Args, Arg{doc.ArgumentNameString(a), valOf(doc, doc.Arguments[a].Value)})
			}
		}
		out = append(out, d)
	}
	return out
}

func ivsOf(doc *ast.Document, has bool, refs []int) []IV {
	if !has {
		return nil
	}
	var out []IV
	for _, r := range refs {
		d := doc.InputValueDefinitions[r]
		iv := IV{Name: doc.InputValueDefinitionNameString(r), Type: tyOf(doc, d.Type), Dirs: dirsOf(doc, d.HasDirectives, d.Directives.Refs)}
		if d.DefaultValue.IsDefined {
			iv.Default = valOf(doc, d.DefaultValue.Value)
		}
		out = append(out, iv)
	}
	return out
}

func fieldsOf(doc *ast.Document, has bool, refs []int) []FD {
	if !has {
		return nil
	}
	var out []FD
	for _, r := range refs {
		d := doc.FieldDefinitions[r]
		out = append(out, FD{Name: doc.FieldDefinitionNameString(r), Args: ivsOf(doc, d.HasArgumentsDefinitions, d.ArgumentsDefinition.Refs),
			Type: tyOf(doc, d.Type), Dirs: dirsOf(doc, d.HasDirectives, d.Directives.Refs)})
	}
	return out
}

func typeNames(doc *ast.Document, refs []int) []string {
	var out []string
	for _, r := range refs {
		out = append(out, tyOf(doc, r).SDL())
	}
	return out
}

// FromDocument dumps the type system definitions of doc in root node order (type extensions are
// not represented; callers get Extensions>0 reported through the second result).
func FromDocument(doc *ast.Document) (*Schema, int) {
	s := &Schema{}
	ext := 0
	for _, n := range doc.RootNodes {
		switch n.Kind {
		case ast.NodeKindSchemaDefinition:
			for _, r := range doc.SchemaDefinitions[n.Ref].RootOperationTypeDefinitions.Refs {
				d := doc.RootOperationTypeDefinitions[r]
				name := string(doc.Input.ByteSlice(d.NamedType.Name))
				switch d.OperationType {
				case ast.OperationTypeQuery:
					s.Query = name
				case ast.OperationTypeMutation:
					s.Mutation = name
				case ast.OperationTypeSubscription:
					s.Subscription = name
				}
			}
		case ast.NodeKindScalarTypeDefinition:
			d := doc.ScalarTypeDefinitions[n.Ref]
			s.Types = append(s.Types, TD{Kind: "scalar", Name: doc.ScalarTypeDefinitionNameString(n.Ref), Dirs: dirsOf(doc, d.HasDirectives, d.Directives.Refs)})
		case ast.NodeKindObjectTypeDefinition:
			d := doc.ObjectTypeDefinitions[n.Ref]
			s.Types = append(s.Types, TD{Kind: "object", Name: doc.ObjectTypeDefinitionNameString(n.Ref), Implements: typeNames(doc, d.ImplementsInterfaces.Refs),
				Fields: fieldsOf(doc, d.HasFieldDefinitions, d.FieldsDefinition.Refs), Dirs: dirsOf(doc, d.HasDirectives, d.Directives.Refs)})
		case ast.NodeKindInterfaceTypeDefinition:
			d := doc.InterfaceTypeDefinitions[n.Ref]
			s.Types = append(s.Types, TD{Kind: "interface", Name: doc.InterfaceTypeDefinitionNameString(n.Ref), Implements: typeNames(doc, d.ImplementsInterfaces.Refs),
				Fields: fieldsOf(doc, d.HasFieldDefinitions, d.FieldsDefinition.Refs), Dirs: dirsOf(doc, d.HasDirectives, d.Directives.Refs)})
		case ast.NodeKindUnionTypeDefinition:
			d := doc.UnionTypeDefinitions[n.Ref]
			t := TD{Kind: "union", Name: doc.UnionTypeDefinitionNameString(n.Ref), Fields: fieldsOf(doc, d.HasFieldDefinitions, d.FieldsDefinition.Refs),
				Dirs: dirsOf(doc, d.HasDirectives, d.Directives.Refs)}
			if d.HasUnionMemberTypes {
				t.Members = typeNames(doc, d.UnionMemberTypes.Refs)
			}
			s.Types = append(s.Types, t)
		case ast.NodeKindEnumTypeDefinition:
			d := doc.EnumTypeDefinitions[n.Ref]
			t := TD{Kind: "enum", Name: doc.EnumTypeDefinitionNameString(n.Ref), Dirs: dirsOf(doc, d.HasDirectives, d.Directives.Refs)}
			if d.HasEnumValuesDefinition {
				for _, r := range d.EnumValuesDefinition.Refs {
					e := doc.EnumValueDefinitions[r]
					t.EnumValues = append(t.EnumValues, EV{doc.EnumValueDefinitionNameString(r), dirsOf(doc, e.HasDirectives, e.Directives.Refs)})
				}
			}
			s.Types = append(s.Types, t)
		case ast.NodeKindInputObjectTypeDefinition:
			d := doc.InputObjectTypeDefinitions[n.Ref]
			s.Types = append(s.Types, TD{Kind: "input", Name: doc.InputObjectTypeDefinitionNameString(n.Ref),
				InputFields: ivsOf(doc, d.HasInputFieldsDefinition, d.InputFieldsDefinition.Refs), Dirs: dirsOf(doc, d.HasDirectives, d.Directives.Refs)})
		case ast.NodeKindDirectiveDefinition:
			d := doc.DirectiveDefinitions[n.Ref]
			dd := DD{Name: doc.DirectiveDefinitionNameString(n.Ref), Args: ivsOf(doc, d.HasArgumentsDefinitions, d.ArgumentsDefinition.Refs), Repeatable: d.Repeatable.IsRepeatable}
			it := d.DirectiveLocations.Iterable()
			for it.Next() {
				dd.Locations = append(dd.Locations, it.Value().LiteralString())
			}
			s.Directives = append(s.Directives, dd)
		default:
			ext++
		}
	}
	return s, ext
}
