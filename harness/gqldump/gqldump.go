// Package gqldump renders a parsed ast.Document (index based) as the tree S-expression of
// DESIGN.md Appendix B, the form the extracted Coq models (coq/lib/Gql.v) read.
//
// Executable documents:
//
//	(doc def…)
//	def  = (op query|mutation|subscription (none)|(some "name") (vardef…) (dir…) (sel…))
//	     | (frag "name" "type" (dir…) (sel…))
//	     | (described (desc "raw" t|f) def)            -- a definition carrying a description
//	vardef = (vd "name" type (none)|(some value) (dir…))   | (described (desc …) (vd …))
//	dir  = (d "name" (arg…))        arg = ("name" value)
//	sel  = (f (none)|(some "alias") "name" (arg…) (dir…) (sel…))
//	     | (i (none)|(some "type") (dir…) (sel…))
//	     | (sp "name" (dir…))
//	value = (var "n") (int "raw") (float "raw") (str "raw" t|f) (bool t|f) (null) (enum "n")
//	        (list v…) (obj ("k" v)…)          -- raw of a negative number carries the leading '-'
//	type = (named "n") (list t) (nn t)
//
// Type-system definitions (only shape needed for round-trip comparison; every name, value,
// description and directive is kept, positions are not):
//
//	(schemadef ext (desc?) (dir…) ((query|mutation|subscription|unknown "Type")…))
//	(typedef kind ext (desc?) "name" (implements "I"…) (dir…) (fielddef…) (members "T"…)
//	         (enumvals…) (inputfields…))
//	(dirdef (desc?) "name" (ivd…) repeatable (locations n…))
//	fielddef = (fd (desc?) "name" (ivd…) type (dir…))
//	ivd      = (ivd (desc?) "name" type (none)|(some value) (dir…))
//	enumval  = (ev (desc?) "name" (dir…))
//	desc?    = (nodesc) | (desc "raw" t|f)
//
// Names and raw values are the bytes the AST references in the input; nothing is re-formatted.
package gqldump

import (
	"strconv"
	"strings"

	"gvh/common"

	"github.com/wundergraph/graphql-go-tools/v2/pkg/ast"
)

type dumper struct {
	d     *ast.Document
	sb    strings.Builder
	canon bool // block-string descriptions by BlockStringValue() (common indent and blank edge lines removed)
}

// DumpDocumentCanon is DumpDocument with the content of block-string DESCRIPTIONS replaced by its
// GraphQL BlockStringValue() (the printer re-indents descriptions on purpose, so their raw bytes are
// not a round-trip invariant, their value is).  String values are left raw: the printer emits them raw.
func DumpDocumentCanon(doc *ast.Document) string {
	x := &dumper{d: doc, canon: true}
	x.sb.WriteString("(doc")
	for _, n := range doc.RootNodes {
		x.sb.WriteByte(' ')
		x.root(n)
	}
	x.sb.WriteByte(')')
	return x.sb.String()
}

// BlockStringValue implements https://spec.graphql.org/October2021/#BlockStringValue() on raw bytes.
func BlockStringValue(raw []byte) []byte {
	var lines [][]byte
	start := 0
	for i := 0; i < len(raw); i++ {
		if raw[i] == '\n' {
			lines = append(lines, raw[start:i])
			start = i + 1
		} else if raw[i] == '\r' {
			lines = append(lines, raw[start:i])
			if i+1 < len(raw) && raw[i+1] == '\n' {
				i++
			}
			start = i + 1
		}
	}
	lines = append(lines, raw[start:])
	indentOf := func(l []byte) int {
		n := 0
		for n < len(l) && (l[n] == ' ' || l[n] == '\t') {
			n++
		}
		return n
	}
	common := -1
	for i := 1; i < len(lines); i++ {
		ind := indentOf(lines[i])
		if ind < len(lines[i]) && (common == -1 || ind < common) {
			common = ind
		}
	}
	if common > 0 {
		for i := 1; i < len(lines); i++ {
			if len(lines[i]) >= common {
				lines[i] = lines[i][common:]
			} else {
				lines[i] = lines[i][len(lines[i]):]
			}
		}
	}
	for len(lines) > 0 && indentOf(lines[0]) == len(lines[0]) {
		lines = lines[1:]
	}
	for len(lines) > 0 && indentOf(lines[len(lines)-1]) == len(lines[len(lines)-1]) {
		lines = lines[:len(lines)-1]
	}
	var out []byte
	for i, l := range lines {
		if i > 0 {
			out = append(out, '\n')
		}
		out = append(out, l...)
	}
	return out
}

// DumpDocument renders doc as one S-expression line (no newline).
func DumpDocument(doc *ast.Document) string {
	x := &dumper{d: doc}
	x.sb.WriteString("(doc")
	for _, n := range doc.RootNodes {
		x.sb.WriteByte(' ')
		x.root(n)
	}
	x.sb.WriteByte(')')
	return x.sb.String()
}

func (x *dumper) w(s string)  { x.sb.WriteString(s) }
func (x *dumper) q(b []byte)  { x.sb.WriteString(common.Q(b)) }
func (x *dumper) ref(r ast.ByteSliceReference) {
	// defensive: a reference outside the input is rendered as an error atom, never a panic
	if int(r.Start) > len(x.d.Input.RawBytes) || int(r.End) > len(x.d.Input.RawBytes) || r.Start > r.End {
		x.w("(badref " + strconv.Itoa(int(r.Start)) + " " + strconv.Itoa(int(r.End)) + ")")
		return
	}
	x.q(x.d.Input.RawBytes[r.Start:r.End])
}

func (x *dumper) optRef(defined bool, r ast.ByteSliceReference) {
	if !defined {
		x.w("(none)")
		return
	}
	x.w("(some ")
	x.ref(r)
	x.w(")")
}

func (x *dumper) desc(ds ast.Description) {
	if !ds.IsDefined {
		x.w("(nodesc)")
		return
	}
	x.w("(desc ")
	if x.canon && ds.IsBlockString && int(ds.Content.End) <= len(x.d.Input.RawBytes) && ds.Content.Start <= ds.Content.End {
		x.q(BlockStringValue(x.d.Input.RawBytes[ds.Content.Start:ds.Content.End]))
	} else {
		x.ref(ds.Content)
	}
	x.w(" " + common.B(ds.IsBlockString) + ")")
}

func (x *dumper) described(ds ast.Description, body func()) {
	if !ds.IsDefined {
		body()
		return
	}
	x.w("(described ")
	x.desc(ds)
	x.w(" ")
	body()
	x.w(")")
}

func (x *dumper) typ(ref int) {
	if ref < 0 || ref >= len(x.d.Types) {
		x.w("(badtype)")
		return
	}
	t := x.d.Types[ref]
	switch t.TypeKind {
	case ast.TypeKindNamed:
		x.w("(named ")
		x.ref(t.Name)
		x.w(")")
	case ast.TypeKindList:
		x.w("(list ")
		x.typ(t.OfType)
		x.w(")")
	case ast.TypeKindNonNull:
		x.w("(nn ")
		x.typ(t.OfType)
		x.w(")")
	default:
		x.w("(badtype)")
	}
}

func (x *dumper) value(v ast.Value) {
	d := x.d
	switch v.Kind {
	case ast.ValueKindVariable:
		x.w("(var ")
		x.ref(d.VariableValues[v.Ref].Name)
		x.w(")")
	case ast.ValueKindInteger:
		x.w("(int ")
		iv := d.IntValues[v.Ref]
		x.signed(iv.Negative, iv.Raw)
		x.w(")")
	case ast.ValueKindFloat:
		x.w("(float ")
		fv := d.FloatValues[v.Ref]
		x.signed(fv.Negative, fv.Raw)
		x.w(")")
	case ast.ValueKindString:
		sv := d.StringValues[v.Ref]
		x.w("(str ")
		x.ref(sv.Content)
		x.w(" " + common.B(sv.BlockString) + ")")
	case ast.ValueKindBoolean:
		x.w("(bool " + common.B(bool(d.BooleanValues[v.Ref])) + ")")
	case ast.ValueKindNull:
		x.w("(null)")
	case ast.ValueKindEnum:
		x.w("(enum ")
		x.ref(d.EnumValues[v.Ref].Name)
		x.w(")")
	case ast.ValueKindList:
		x.w("(list")
		for _, r := range d.ListValues[v.Ref].Refs {
			x.w(" ")
			x.value(d.Values[r])
		}
		x.w(")")
	case ast.ValueKindObject:
		x.w("(obj")
		for _, r := range d.ObjectValues[v.Ref].Refs {
			x.w(" (")
			x.ref(d.ObjectFields[r].Name)
			x.w(" ")
			x.value(d.ObjectFields[r].Value)
			x.w(")")
		}
		x.w(")")
	default:
		x.w("(badvalue " + strconv.Itoa(int(v.Kind)) + ")")
	}
}

func (x *dumper) signed(neg bool, raw ast.ByteSliceReference) {
	if int(raw.Start) > len(x.d.Input.RawBytes) || int(raw.End) > len(x.d.Input.RawBytes) || raw.Start > raw.End {
		x.ref(raw)
		return
	}
	b := x.d.Input.RawBytes[raw.Start:raw.End]
	if neg {
		b = append([]byte{'-'}, b...)
	}
	x.q(b)
}

func (x *dumper) args(refs []int) {
	x.w("(")
	for i, r := range refs {
		if i > 0 {
			x.w(" ")
		}
		x.w("(")
		x.ref(x.d.Arguments[r].Name)
		x.w(" ")
		x.value(x.d.Arguments[r].Value)
		x.w(")")
	}
	x.w(")")
}

func (x *dumper) dirs(has bool, refs []int) {
	// HasDirectives is the flag the printer and walker trust; Refs is what the parser filled
	x.w("(")
	if has {
		for i, r := range refs {
			if i > 0 {
				x.w(" ")
			}
			dr := x.d.Directives[r]
			x.w("(d ")
			x.ref(dr.Name)
			x.w(" ")
			if dr.HasArguments {
				x.args(dr.Arguments.Refs)
			} else {
				x.w("()")
			}
			x.w(")")
		}
	}
	x.w(")")
}

func (x *dumper) selset(has bool, ref int) {
	x.w("(")
	if has && ref >= 0 && ref < len(x.d.SelectionSets) {
		for i, s := range x.d.SelectionSets[ref].SelectionRefs {
			if i > 0 {
				x.w(" ")
			}
			x.selection(x.d.Selections[s])
		}
	}
	x.w(")")
}

func (x *dumper) selection(s ast.Selection) {
	d := x.d
	switch s.Kind {
	case ast.SelectionKindField:
		f := d.Fields[s.Ref]
		x.w("(f ")
		x.optRef(f.Alias.IsDefined, f.Alias.Name)
		x.w(" ")
		x.ref(f.Name)
		x.w(" ")
		if f.HasArguments {
			x.args(f.Arguments.Refs)
		} else {
			x.w("()")
		}
		x.w(" ")
		x.dirs(f.HasDirectives, f.Directives.Refs)
		x.w(" ")
		x.selset(f.HasSelections, f.SelectionSet)
		x.w(")")
	case ast.SelectionKindInlineFragment:
		f := d.InlineFragments[s.Ref]
		x.w("(i ")
		if f.TypeCondition.Type == ast.InvalidRef {
			x.w("(none)")
		} else {
			x.w("(some ")
			x.ref(d.Types[f.TypeCondition.Type].Name)
			x.w(")")
		}
		x.w(" ")
		x.dirs(f.HasDirectives, f.Directives.Refs)
		x.w(" ")
		x.selset(f.HasSelections, f.SelectionSet)
		x.w(")")
	case ast.SelectionKindFragmentSpread:
		f := d.FragmentSpreads[s.Ref]
		x.w("(sp ")
		x.ref(f.FragmentName)
		x.w(" ")
		x.dirs(f.HasDirectives, f.Directives.Refs)
		x.w(")")
	default:
		x.w("(badsel)")
	}
}

func opKind(t ast.OperationType) string {
	switch t {
	case ast.OperationTypeQuery:
		return "query"
	case ast.OperationTypeMutation:
		return "mutation"
	case ast.OperationTypeSubscription:
		return "subscription"
	}
	return "unknown"
}

func (x *dumper) vardef(ref int) {
	vd := x.d.VariableDefinitions[ref]
	x.described(vd.Description, func() {
		x.w("(vd ")
		if vd.VariableValue.Kind == ast.ValueKindVariable && vd.VariableValue.Ref >= 0 && vd.VariableValue.Ref < len(x.d.VariableValues) {
			x.ref(x.d.VariableValues[vd.VariableValue.Ref].Name)
		} else {
			x.w("(badvar)")
		}
		x.w(" ")
		x.typ(vd.Type)
		x.w(" ")
		if vd.DefaultValue.IsDefined {
			x.w("(some ")
			x.value(vd.DefaultValue.Value)
			x.w(")")
		} else {
			x.w("(none)")
		}
		x.w(" ")
		x.dirs(vd.HasDirectives, vd.Directives.Refs)
		x.w(")")
	})
}

func (x *dumper) ivds(has bool, refs []int) {
	x.w("(")
	if has {
		for i, r := range refs {
			if i > 0 {
				x.w(" ")
			}
			iv := x.d.InputValueDefinitions[r]
			x.w("(ivd ")
			x.desc(iv.Description)
			x.w(" ")
			x.ref(iv.Name)
			x.w(" ")
			x.typ(iv.Type)
			x.w(" ")
			if iv.DefaultValue.IsDefined {
				x.w("(some ")
				x.value(iv.DefaultValue.Value)
				x.w(")")
			} else {
				x.w("(none)")
			}
			x.w(" ")
			x.dirs(iv.HasDirectives, iv.Directives.Refs)
			x.w(")")
		}
	}
	x.w(")")
}

func (x *dumper) fielddefs(has bool, refs []int) {
	x.w("(")
	if has {
		for i, r := range refs {
			if i > 0 {
				x.w(" ")
			}
			fd := x.d.FieldDefinitions[r]
			x.w("(fd ")
			x.desc(fd.Description)
			x.w(" ")
			x.ref(fd.Name)
			x.w(" ")
			x.ivds(fd.HasArgumentsDefinitions, fd.ArgumentsDefinition.Refs)
			x.w(" ")
			x.typ(fd.Type)
			x.w(" ")
			x.dirs(fd.HasDirectives, fd.Directives.Refs)
			x.w(")")
		}
	}
	x.w(")")
}

func (x *dumper) typeNames(tag string, refs []int) {
	x.w("(" + tag)
	for _, r := range refs {
		x.w(" ")
		if r >= 0 && r < len(x.d.Types) {
			x.ref(x.d.Types[r].Name)
		} else {
			x.w("(badtype)")
		}
	}
	x.w(")")
}

func (x *dumper) schemaDef(ext bool, sd ast.SchemaDefinition) {
	x.w("(schemadef " + common.B(ext) + " ")
	x.desc(sd.Description)
	x.w(" ")
	x.dirs(sd.HasDirectives, sd.Directives.Refs)
	x.w(" (")
	for i, r := range sd.RootOperationTypeDefinitions.Refs {
		if i > 0 {
			x.w(" ")
		}
		ro := x.d.RootOperationTypeDefinitions[r]
		x.w("(" + opKind(ro.OperationType) + " ")
		x.ref(ro.NamedType.Name)
		x.w(")")
	}
	x.w("))")
}

type typeDef struct {
	kind        string
	ext         bool
	desc        ast.Description
	name        ast.ByteSliceReference
	implements  []int
	hasDirs     bool
	dirs        []int
	hasFields   bool
	fields      []int
	hasMembers  bool
	members     []int
	hasEnumVals bool
	enumVals    []int
	hasInputs   bool
	inputs      []int
}

func (x *dumper) typeDef(t typeDef) {
	x.w("(typedef " + t.kind + " " + common.B(t.ext) + " ")
	x.desc(t.desc)
	x.w(" ")
	x.ref(t.name)
	x.w(" ")
	x.typeNames("implements", t.implements)
	x.w(" ")
	x.dirs(t.hasDirs, t.dirs)
	x.w(" ")
	x.fielddefs(t.hasFields, t.fields)
	x.w(" ")
	if t.hasMembers {
		x.typeNames("members", t.members)
	} else {
		x.w("(members)")
	}
	x.w(" (")
	if t.hasEnumVals {
		for i, r := range t.enumVals {
			if i > 0 {
				x.w(" ")
			}
			ev := x.d.EnumValueDefinitions[r]
			x.w("(ev ")
			x.desc(ev.Description)
			x.w(" ")
			x.ref(ev.EnumValue)
			x.w(" ")
			x.dirs(ev.HasDirectives, ev.Directives.Refs)
			x.w(")")
		}
	}
	x.w(") ")
	x.ivds(t.hasInputs, t.inputs)
	x.w(")")
}

func (x *dumper) objectDef(ext bool, o ast.ObjectTypeDefinition) {
	x.typeDef(typeDef{kind: "object", ext: ext, desc: o.Description, name: o.Name, implements: o.ImplementsInterfaces.Refs,
		hasDirs: o.HasDirectives, dirs: o.Directives.Refs, hasFields: o.HasFieldDefinitions, fields: o.FieldsDefinition.Refs})
}
func (x *dumper) interfaceDef(ext bool, o ast.InterfaceTypeDefinition) {
	x.typeDef(typeDef{kind: "interface", ext: ext, desc: o.Description, name: o.Name, implements: o.ImplementsInterfaces.Refs,
		hasDirs: o.HasDirectives, dirs: o.Directives.Refs, hasFields: o.HasFieldDefinitions, fields: o.FieldsDefinition.Refs})
}
func (x *dumper) scalarDef(ext bool, o ast.ScalarTypeDefinition) {
	x.typeDef(typeDef{kind: "scalar", ext: ext, desc: o.Description, name: o.Name, hasDirs: o.HasDirectives, dirs: o.Directives.Refs})
}
func (x *dumper) unionDef(ext bool, o ast.UnionTypeDefinition) {
	x.typeDef(typeDef{kind: "union", ext: ext, desc: o.Description, name: o.Name, hasDirs: o.HasDirectives, dirs: o.Directives.Refs,
		hasMembers: o.HasUnionMemberTypes, members: o.UnionMemberTypes.Refs})
}
func (x *dumper) enumDef(ext bool, o ast.EnumTypeDefinition) {
	x.typeDef(typeDef{kind: "enum", ext: ext, desc: o.Description, name: o.Name, hasDirs: o.HasDirectives, dirs: o.Directives.Refs,
		hasEnumVals: o.HasEnumValuesDefinition, enumVals: o.EnumValuesDefinition.Refs})
}
func (x *dumper) inputDef(ext bool, o ast.InputObjectTypeDefinition) {
	x.typeDef(typeDef{kind: "input", ext: ext, desc: o.Description, name: o.Name, hasDirs: o.HasDirectives, dirs: o.Directives.Refs,
		hasInputs: o.HasInputFieldsDefinition, inputs: o.InputFieldsDefinition.Refs})
}

func (x *dumper) root(n ast.Node) {
	d := x.d
	switch n.Kind {
	case ast.NodeKindOperationDefinition:
		o := d.OperationDefinitions[n.Ref]
		x.described(o.Description, func() {
			x.w("(op " + opKind(o.OperationType) + " ")
			x.optRef(o.Name.Length() > 0, o.Name)
			x.w(" (")
			if o.HasVariableDefinitions {
				for i, r := range o.VariableDefinitions.Refs {
					if i > 0 {
						x.w(" ")
					}
					x.vardef(r)
				}
			}
			x.w(") ")
			x.dirs(o.HasDirectives, o.Directives.Refs)
			x.w(" ")
			x.selset(o.HasSelections, o.SelectionSet)
			x.w(")")
		})
	case ast.NodeKindFragmentDefinition:
		f := d.FragmentDefinitions[n.Ref]
		x.described(f.Description, func() {
			x.w("(frag ")
			x.ref(f.Name)
			x.w(" ")
			if f.TypeCondition.Type >= 0 && f.TypeCondition.Type < len(d.Types) {
				x.ref(d.Types[f.TypeCondition.Type].Name)
			} else {
				x.w("(badtype)")
			}
			x.w(" ")
			x.dirs(f.HasDirectives, f.Directives.Refs)
			x.w(" ")
			x.selset(f.HasSelections, f.SelectionSet)
			x.w(")")
		})
	case ast.NodeKindSchemaDefinition:
		x.schemaDef(false, d.SchemaDefinitions[n.Ref])
	case ast.NodeKindSchemaExtension:
		x.schemaDef(true, d.SchemaExtensions[n.Ref].SchemaDefinition)
	case ast.NodeKindObjectTypeDefinition:
		x.objectDef(false, d.ObjectTypeDefinitions[n.Ref])
	case ast.NodeKindObjectTypeExtension:
		x.objectDef(true, d.ObjectTypeExtensions[n.Ref].ObjectTypeDefinition)
	case ast.NodeKindInterfaceTypeDefinition:
		x.interfaceDef(false, d.InterfaceTypeDefinitions[n.Ref])
	case ast.NodeKindInterfaceTypeExtension:
		x.interfaceDef(true, d.InterfaceTypeExtensions[n.Ref].InterfaceTypeDefinition)
	case ast.NodeKindScalarTypeDefinition:
		x.scalarDef(false, d.ScalarTypeDefinitions[n.Ref])
	case ast.NodeKindScalarTypeExtension:
		x.scalarDef(true, d.ScalarTypeExtensions[n.Ref].ScalarTypeDefinition)
	case ast.NodeKindUnionTypeDefinition:
		x.unionDef(false, d.UnionTypeDefinitions[n.Ref])
	case ast.NodeKindUnionTypeExtension:
		x.unionDef(true, d.UnionTypeExtensions[n.Ref].UnionTypeDefinition)
	case ast.NodeKindEnumTypeDefinition:
		x.enumDef(false, d.EnumTypeDefinitions[n.Ref])
	case ast.NodeKindEnumTypeExtension:
		x.enumDef(true, d.EnumTypeExtensions[n.Ref].EnumTypeDefinition)
	case ast.NodeKindInputObjectTypeDefinition:
		x.inputDef(false, d.InputObjectTypeDefinitions[n.Ref])
	case ast.NodeKindInputObjectTypeExtension:
		x.inputDef(true, d.InputObjectTypeExtensions[n.Ref].InputObjectTypeDefinition)
	case ast.NodeKindDirectiveDefinition:
		dd := d.DirectiveDefinitions[n.Ref]
		x.w("(dirdef ")
		x.desc(dd.Description)
		x.w(" ")
		x.ref(dd.Name)
		x.w(" ")
		x.ivds(dd.HasArgumentsDefinitions, dd.ArgumentsDefinition.Refs)
		x.w(" " + common.B(dd.Repeatable.IsRepeatable) + " (locations")
		for i := 0; i < 20; i++ {
			if dd.DirectiveLocations.Get(ast.DirectiveLocation(i)) {
				x.w(" " + strconv.Itoa(i))
			}
		}
		x.w("))")
	default:
		x.w("(badroot " + strconv.Itoa(int(n.Kind)) + ")")
	}
}
