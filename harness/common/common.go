// Package common holds what every property harness shares: the seeded PRNG, the
// S-expression writer used to talk to the extracted Coq models, and small helpers.
package common

import (
	"bufio"
	"fmt"
	"math/rand/v2"
	"os"
	"strconv"
	"strings"
)

// Rand is a deterministic PRNG; every random choice of a harness derives from one seed.
type Rand struct{ *rand.Rand }

func NewRand(seed uint64) *Rand {
	return &Rand{rand.New(rand.NewPCG(seed, seed^0x9e3779b97f4a7c15))}
}

func (r *Rand) Pick(n int) int {
	if n <= 0 {
		return 0
	}
	return r.IntN(n)
}
func (r *Rand) Chance(num, den int) bool { return r.IntN(den) < num }
func PickOf[T any](r *Rand, xs []T) T   { return xs[r.IntN(len(xs))] }

// Q renders a byte string as an S-expression string atom: printable ASCII verbatim
// (except '"' and '\\'), everything else as \xx.
func Q(b []byte) string {
	var sb strings.Builder
	sb.WriteByte('"')
	for _, c := range b {
		if c >= 0x20 && c < 0x7f && c != '"' && c != '\\' {
			sb.WriteByte(c)
		} else {
			fmt.Fprintf(&sb, "\\%02x", c)
		}
	}
	sb.WriteByte('"')
	return sb.String()
}
func QS(s string) string { return Q([]byte(s)) }

// L builds "(a b c)".
func L(items ...string) string { return "(" + strings.Join(items, " ") + ")" }
func I(n int) string           { return strconv.Itoa(n) }
func I64(n int64) string       { return strconv.FormatInt(n, 10) }
func B(b bool) string {
	if b {
		return "t"
	}
	return "f"
}

// Out is a buffered line writer to a file or stdout.
type Out struct {
	w *bufio.Writer
	f *os.File
}

func NewOut(path string) *Out {
	if path == "" || path == "-" {
		return &Out{w: bufio.NewWriterSize(os.Stdout, 1<<20)}
	}
	f, err := os.Create(path)
	if err != nil {
		panic(err)
	}
	return &Out{w: bufio.NewWriterSize(f, 1<<20), f: f}
}
func (o *Out) Line(s string) { o.w.WriteString(s); o.w.WriteByte('\n') }
func (o *Out) Close() {
	o.w.Flush()
	if o.f != nil {
		o.f.Close()
	}
}

// Args parses "-k v" pairs.
func Args(args []string) map[string]string {
	m := map[string]string{}
	for i := 0; i+1 < len(args); i += 2 {
		m[strings.TrimLeft(args[i], "-")] = args[i+1]
	}
	return m
}
func ArgInt(m map[string]string, k string, def int) int {
	if v, ok := m[k]; ok {
		n, err := strconv.Atoi(v)
		if err == nil {
			return n
		}
	}
	return def
}
func ArgU64(m map[string]string, k string, def uint64) uint64 {
	if v, ok := m[k]; ok {
		n, err := strconv.ParseUint(v, 10, 64)
		if err == nil {
			return n
		}
	}
	return def
}
