package common

import (
	"fmt"
	"strconv"
	"strings"
)

// Sexp is a parsed S-expression: exactly one of Atom / Str (IsStr) / List is meaningful.
type Sexp struct {
	Atom  string
	Str   []byte
	IsStr bool
	List  []*Sexp
	IsLst bool
}

func ParseSexp(s string) (*Sexp, error) {
	pos := 0
	var item func() (*Sexp, error)
	skip := func() {
		for pos < len(s) && (s[pos] == ' ' || s[pos] == '\t' || s[pos] == '\n' || s[pos] == '\r') {
			pos++
		}
	}
	item = func() (*Sexp, error) {
		skip()
		if pos >= len(s) {
			return nil, fmt.Errorf("eof")
		}
		switch s[pos] {
		case '(':
			pos++
			out := &Sexp{IsLst: true}
			for {
				skip()
				if pos >= len(s) {
					return nil, fmt.Errorf("eof in list")
				}
				if s[pos] == ')' {
					pos++
					return out, nil
				}
				it, err := item()
				if err != nil {
					return nil, err
				}
				out.List = append(out.List, it)
			}
		case '"':
			pos++
			var b []byte
			for pos < len(s) && s[pos] != '"' {
				if s[pos] == '\\' {
					v, err := strconv.ParseUint(s[pos+1:pos+3], 16, 8)
					if err != nil {
						return nil, err
					}
					b = append(b, byte(v))
					pos += 3
				} else {
					b = append(b, s[pos])
					pos++
				}
			}
			pos++
			return &Sexp{Str: b, IsStr: true}, nil
		default:
			st := pos
			for pos < len(s) && !strings.ContainsRune(" \t\r\n()\"", rune(s[pos])) {
				pos++
			}
			return &Sexp{Atom: s[st:pos]}, nil
		}
	}
	return item()
}

func (x *Sexp) Head() string {
	if x.IsLst && len(x.List) > 0 && !x.List[0].IsLst && !x.List[0].IsStr {
		return x.List[0].Atom
	}
	return ""
}
func (x *Sexp) Strs() []string {
	var out []string
	for _, it := range x.List {
		out = append(out, string(it.Str))
	}
	return out
}
func (x *Sexp) Bool() bool { return x.Atom == "t" }
