package c09lab

import (
	"fmt"
	"os"
	"runtime/debug"

	"github.com/wundergraph/graphql-go-tools/execution/graphql"
	"github.com/wundergraph/graphql-go-tools/v2/pkg/astnormalization"
	"github.com/wundergraph/graphql-go-tools/v2/pkg/astparser"
	"github.com/wundergraph/graphql-go-tools/v2/pkg/astprinter"
	"github.com/wundergraph/graphql-go-tools/v2/pkg/astvalidation"
	"github.com/wundergraph/graphql-go-tools/v2/pkg/engine/plan"
	"github.com/wundergraph/graphql-go-tools/v2/pkg/engine/postprocess"
	"github.com/wundergraph/graphql-go-tools/v2/pkg/operationreport"
	"github.com/wundergraph/graphql-go-tools/v2/pkg/variablesvalidation"
)

// Prepared is a request after exactly the steps ExecutionEngine.Execute performs before
// planning: normalisation, validation, variable extraction, variables mapper.
type Prepared struct {
	Req          *graphql.Request
	BeforeMapper string            // printed operation after extraction, before the variables mapper
	VarsBefore   string            // variables JSON after extraction
	Normalized   string            // printed normalised operation = the plan-cache key before hashing
	Remap        map[string]string // new name -> old name
	VarsErr      string            // ValidateWithRemap rejected the variables
	Collision    bool              // two variable definitions of the normalised operation share a name
}

// hasCollision: the printed operation declares one variable name twice.
func hasCollision(text string) bool {
	doc, rep := astparser.ParseGraphqlDocumentString(text)
	if rep.HasErrors() {
		return false
	}
	seen := map[string]bool{}
	for i := range doc.VariableDefinitions {
		n := doc.VariableValueNameString(doc.VariableDefinitions[i].VariableValue.Ref)
		if seen[n] {
			return true
		}
		seen[n] = true
	}
	return false
}

// Prepare mirrors execution/engine/execution_engine.go Execute up to getCachedPlan.
func Prepare(schema *graphql.Schema, sp *Spelled) (*Prepared, error) {
	req := &graphql.Request{OperationName: sp.OpName, Query: sp.Text}
	if sp.Variables != "" {
		req.Variables = []byte(sp.Variables)
	}
	result, err := req.Normalize(schema,
		astnormalization.WithRemoveFragmentDefinitions(),
		astnormalization.WithRemoveUnusedVariables(),
		astnormalization.WithInlineFragmentSpreads(),
		astnormalization.WithEnableDefer(),
		astnormalization.WithPrevalidationRules(
			astvalidation.DeferStreamOnValidOperations(),
			astvalidation.DeferStreamHaveUniqueLabels(),
			astvalidation.DirectivesAreDefined(),
			astvalidation.DirectivesAreInValidLocations(),
			astvalidation.DirectivesAreUniquePerLocation(),
			astvalidation.StreamAppliedToListFieldsOnly()),
	)
	if err != nil {
		return nil, err
	} else if !result.Successful {
		return nil, result.Errors
	}
	if vr, err := req.ValidateForSchema(schema); err != nil {
		return nil, err
	} else if !vr.Valid {
		return nil, vr.Errors
	}
	result, err = req.Normalize(schema, astnormalization.WithExtractVariables())
	if err != nil {
		return nil, err
	} else if !result.Successful {
		return nil, result.Errors
	}
	p := &Prepared{Req: req}
	p.BeforeMapper, err = astprinter.PrintString(req.Document())
	if err != nil {
		return nil, err
	}
	p.VarsBefore = string(req.Variables)
	var rep operationreport.Report
	p.Remap = astnormalization.NewVariablesMapper().NormalizeOperation(req.Document(), schema.Document(), &rep)
	if rep.HasErrors() {
		return nil, rep
	}
	p.Normalized, err = astprinter.PrintString(req.Document())
	if err != nil {
		return nil, err
	}
	p.Collision = hasCollision(p.Normalized)
	if len(req.Variables) > 0 && req.Variables[0] == '{' {
		validator := variablesvalidation.NewVariablesValidator(variablesvalidation.VariablesValidatorOptions{})
		if err := validator.ValidateWithRemap(req.Document(), schema.Document(), req.Variables, p.Remap); err != nil {
			p.VarsErr = err.Error()
		}
	}
	return p, nil
}

// PlanWith plans a prepared request with the given planner (the operation document is consumed:
// the planner edits it) and post-processes the plan.
func PlanWith(planner *plan.Planner, schema *graphql.Schema, p *Prepared, ppo []postprocess.ProcessorOption) (pl plan.Plan, err error) {
	defer func() {
		if x := recover(); x != nil {
			err = fmt.Errorf("panic while planning: %v", x)
			if os.Getenv("C09_STACK") != "" {
				fmt.Fprintf(os.Stderr, "%s\n", debug.Stack())
			}
		}
	}()
	var report operationreport.Report
	pl = planner.Plan(p.Req.Document(), schema.Document(), p.Req.OperationName, &report)
	if report.HasErrors() {
		return nil, report
	}
	postprocess.NewProcessor(ppo...).Process(pl)
	return pl, nil
}

// PlanRaw plans without post-processing: the plan still carries the flat RawFetches list.
func PlanRaw(planner *plan.Planner, schema *graphql.Schema, p *Prepared) (pl plan.Plan, err error) {
	defer func() {
		if x := recover(); x != nil {
			err = fmt.Errorf("panic while planning: %v", x)
		}
	}()
	var report operationreport.Report
	pl = planner.Plan(p.Req.Document(), schema.Document(), p.Req.OperationName, &report)
	if report.HasErrors() {
		return nil, report
	}
	return pl, nil
}
