package c09lab

import (
	"strings"
	"sync"
	"time"

	"gvh/fedlab"
)

// RunSpec: an option set and, optionally, a gated completion order.  Order is a priority list of subgraph
// names: every subgraph response is held (fedlab's BeforeRespond hook; the semantic answer is already computed)
// and, whenever the gateway has gone quiet, the held response whose subgraph comes first in Order is released --
// so a subgraph late in the list answers only after everything else that could be answered has been.
type RunSpec struct {
	Opt   OptionSet
	Order []string
}

func (s RunSpec) String() string {
	if len(s.Order) == 0 {
		return s.Opt.String()
	}
	return s.Opt.String() + " order=" + strings.Join(s.Order, ">")
}

func SpecsOf(sets []OptionSet) []RunSpec {
	out := make([]RunSpec, len(sets))
	for i, o := range sets {
		out[i] = RunSpec{Opt: o}
	}
	return out
}

// ParseRunSpec reads what RunSpec.String prints.
func ParseRunSpec(s string) RunSpec {
	sp := RunSpec{Opt: ParseOptionSet(s)}
	if i := strings.Index(s, "order="); i >= 0 {
		sp.Order = strings.Split(strings.TrimSpace(s[i+len("order="):]), ">")
	}
	return sp
}

// GateSettle: how long the gateway must have sent nothing before the next held response is released.  Releasing
// "too early" only yields another completion order (never a wrong verdict: the response must not depend on it).
var GateSettle = 3 * time.Millisecond

type gateHeld struct {
	sub  string
	gate chan struct{}
}

type gateCtl struct {
	mu      sync.Mutex
	held    []*gateHeld
	lastArr time.Time
	open    bool
	notify  chan struct{}
}

func (c *gateCtl) hook(_ int, req *fedlab.Request) fedlab.Action {
	c.mu.Lock()
	if c.open {
		c.mu.Unlock()
		return fedlab.Action{}
	}
	h := &gateHeld{sub: req.Subgraph, gate: make(chan struct{})}
	c.held = append(c.held, h)
	c.lastArr = time.Now()
	c.mu.Unlock()
	select {
	case c.notify <- struct{}{}:
	default:
	}
	return fedlab.Action{Wait: h.gate}
}

// RunGated sends one request with every subgraph response held and released by priority.
func RunGated(lab *fedlab.Lab, sp *Spelled, order []string) *Obs {
	prio := map[string]int{}
	for i, s := range order {
		prio[s] = i + 1
	}
	rank := func(s string) int {
		if p, ok := prio[s]; ok {
			return p
		}
		return 0 // subgraphs the order does not mention answer first
	}
	c := &gateCtl{notify: make(chan struct{}, 1)}
	done := make(chan *Obs, 1)
	go func() { done <- runHook(lab, sp, c.hook) }()
	var res *Obs
	for res == nil {
		c.mu.Lock()
		n, last := len(c.held), c.lastArr
		c.mu.Unlock()
		wait := 20 * time.Millisecond
		if n > 0 {
			since := time.Since(last)
			if since >= GateSettle {
				c.mu.Lock()
				best := 0
				for i, h := range c.held {
					if rank(h.sub) < rank(c.held[best].sub) {
						best = i
					}
				}
				h := c.held[best]
				c.held = append(c.held[:best:best], c.held[best+1:]...)
				c.lastArr = time.Now()
				c.mu.Unlock()
				close(h.gate)
				continue
			}
			wait = GateSettle - since
		}
		t := time.NewTimer(wait)
		select {
		case res = <-done:
		case <-c.notify:
		case <-t.C:
		}
		t.Stop()
	}
	c.mu.Lock()
	c.open = true
	for _, h := range c.held {
		close(h.gate)
	}
	c.held = nil
	c.mu.Unlock()
	return res
}

// RunSpecd: Run or RunGated.
func RunSpecd(lab *fedlab.Lab, sp *Spelled, s RunSpec) *Obs {
	if len(s.Order) == 0 {
		return Run(lab, sp)
	}
	return RunGated(lab, sp, s.Order)
}
