package c09lab

import (
	"crypto/sha1"
	"encoding/hex"
	"fmt"
	"reflect"
	"sort"
	"strings"
	"unsafe"

	lru "github.com/hashicorp/golang-lru"

	"github.com/wundergraph/graphql-go-tools/execution/engine"
	"github.com/wundergraph/graphql-go-tools/v2/pkg/engine/plan"
	"github.com/wundergraph/graphql-go-tools/v2/pkg/engine/postprocess"
	"github.com/wundergraph/graphql-go-tools/v2/pkg/engine/resolve"

	"gvh/fedlab"
)

// OptionSet: the plan optimisations of the property.  The zero value is NOT the default; use
// DefaultOptions (de-duplication on, everything else off -- what NewExecutionEngine gives).
type OptionSet struct {
	Dedup  bool // postprocess de-duplication of single fetches (engine default: on)
	Multi  bool // engine.Configuration.EnableMultiFetch
	Sched  bool // engine.Configuration.EnableScheduleFetches
	Minify bool // plan.Configuration.MinifySubgraphOperations
}

var DefaultOptions = OptionSet{Dedup: true}

func (o OptionSet) String() string {
	f := func(b bool, c string) string {
		if b {
			return c + "+"
		}
		return c + "-"
	}
	return f(o.Dedup, "d") + f(o.Multi, "m") + f(o.Sched, "s") + f(o.Minify, "z")
}

// AllOptionSets: the 16 combinations.
func AllOptionSets() []OptionSet {
	var out []OptionSet
	for i := 0; i < 16; i++ {
		out = append(out, OptionSet{Dedup: i&1 == 0, Multi: i&2 != 0, Sched: i&4 != 0, Minify: i&8 != 0})
	}
	return out
}

func ParseOptionSet(s string) OptionSet {
	return OptionSet{Dedup: strings.Contains(s, "d+"), Multi: strings.Contains(s, "m+"),
		Sched: strings.Contains(s, "s+"), Minify: strings.Contains(s, "z+")}
}

// field returns a settable view of an unexported struct field (the engine exposes switches for
// MultiFetch and the scheduler only; minification lives in the planner configuration and
// de-duplication in the processor options, both private to the engine).
func field(v reflect.Value, name string) reflect.Value {
	f := v.FieldByName(name)
	if !f.IsValid() {
		panic("c09lab: no field " + name + " in " + v.Type().String())
	}
	return reflect.NewAt(f.Type(), unsafe.Pointer(f.UnsafeAddr())).Elem()
}

// NewLab builds a lab over (cfg, u) whose engine runs with option set o.
func NewLab(cfg *fedlab.Config, u *fedlab.Universe, exec *fedlab.ExecServer, o OptionSet) (*fedlab.Lab, error) {
	lab, err := fedlab.NewLab(cfg, u, exec, fedlab.EngineOptions{
		MultiFetch:      o.Multi,
		ScheduleFetches: o.Sched,
		Configure: func(conf *engine.Configuration) {
			if o.Minify {
				pc := field(reflect.ValueOf(conf).Elem(), "plannerConfig")
				pc.FieldByName("MinifySubgraphOperations").SetBool(true)
			}
		},
	})
	if err != nil {
		return nil, err
	}
	if !o.Dedup {
		ppo := field(reflect.ValueOf(lab.Engine).Elem(), "postProcessorOptions")
		cur := ppo.Interface().([]postprocess.ProcessorOption)
		cur = append(append([]postprocess.ProcessorOption(nil), cur...), postprocess.DisableDeduplicateSingleFetches())
		ppo.Set(reflect.ValueOf(cur))
	}
	return lab, nil
}

// PlannerConfig is the plan.Configuration the engine plans with (including the introspection
// data sources NewExecutionEngine adds).
func PlannerConfig(eng *engine.ExecutionEngine) plan.Configuration {
	conf := field(reflect.ValueOf(eng).Elem(), "config")
	return field(conf, "plannerConfig").Interface().(plan.Configuration)
}

// ProcessorOptions the engine post-processes with.
func ProcessorOptions(eng *engine.ExecutionEngine) []postprocess.ProcessorOption {
	return field(reflect.ValueOf(eng).Elem(), "postProcessorOptions").Interface().([]postprocess.ProcessorOption)
}

// PlanCache of the engine.
func PlanCache(eng *engine.ExecutionEngine) *lru.Cache {
	return field(reflect.ValueOf(eng).Elem(), "executionPlanCache").Interface().(*lru.Cache)
}

// ---------------------------------------------------------------- plan observers

type FetchDep struct {
	ID   int
	Deps []int
	Kind string
	DS   string
}

// FetchDeps lists the fetches of an organised tree.
func FetchDeps(n *resolve.FetchTreeNode) []FetchDep {
	var out []FetchDep
	var walk func(n *resolve.FetchTreeNode)
	walk = func(n *resolve.FetchTreeNode) {
		if n == nil {
			return
		}
		if n.Kind == resolve.FetchTreeNodeKindSingle && n.Item != nil && n.Item.Fetch != nil {
			d := n.Item.Fetch.Dependencies()
			fd := FetchDep{ID: d.FetchID, Deps: append([]int(nil), d.DependsOnFetchIDs...), Kind: fmt.Sprintf("%T", n.Item.Fetch)}
			if info := n.Item.Fetch.FetchInfo(); info != nil {
				fd.DS = info.DataSourceName
			}
			out = append(out, fd)
		}
		for _, c := range n.ChildNodes {
			walk(c)
		}
	}
	walk(n)
	return out
}

// ForkJoin: a fetch that two fetches depend on, and a fetch with two distinct in-plan dependencies.
func ForkJoin(fs []FetchDep) (fork, join bool) {
	have := map[int]bool{}
	for _, f := range fs {
		have[f.ID] = true
	}
	dependants := map[int]int{}
	for _, f := range fs {
		seen := map[int]bool{}
		for _, d := range f.Deps {
			if have[d] && !seen[d] {
				seen[d] = true
				dependants[d]++
			}
		}
		if len(seen) >= 2 {
			join = true
		}
	}
	for _, n := range dependants {
		if n >= 2 {
			fork = true
		}
	}
	return
}

func PlanResponse(p plan.Plan) *resolve.GraphQLResponse {
	switch t := p.(type) {
	case *plan.SynchronousResponsePlan:
		return t.Response
	}
	return nil
}

// Dump renders any plan value deterministically: structs field by field (unexported ones too),
// pointers by content, maps with sorted keys; data sources, functions and channels by type name
// only.  No addresses, so two structurally equal plans print equally.
func Dump(v any) string {
	var sb strings.Builder
	d := &dumper{sb: &sb, onStack: map[uintptr]bool{}}
	d.val(reflect.ValueOf(v), 0)
	return sb.String()
}

func Digest(s string) string {
	h := sha1.Sum([]byte(s))
	return hex.EncodeToString(h[:8])
}

type dumper struct {
	sb      *strings.Builder
	onStack map[uintptr]bool
}

var skipFieldNames = map[string]bool{
	"DataSource": true, // the transport (http client, factories): identity of the configuration, not of the plan
}

func (d *dumper) val(v reflect.Value, depth int) {
	if !v.IsValid() {
		d.sb.WriteString("nil")
		return
	}
	if depth > 200 {
		d.sb.WriteString("<deep>")
		return
	}
	switch v.Kind() {
	case reflect.Bool:
		fmt.Fprintf(d.sb, "%v", v.Bool())
	case reflect.Int, reflect.Int8, reflect.Int16, reflect.Int32, reflect.Int64:
		fmt.Fprintf(d.sb, "%d", v.Int())
	case reflect.Uint, reflect.Uint8, reflect.Uint16, reflect.Uint32, reflect.Uint64, reflect.Uintptr:
		fmt.Fprintf(d.sb, "%d", v.Uint())
	case reflect.Float32, reflect.Float64:
		fmt.Fprintf(d.sb, "%v", v.Float())
	case reflect.String:
		fmt.Fprintf(d.sb, "%q", v.String())
	case reflect.Slice:
		if v.IsNil() {
			d.sb.WriteString("nil")
			return
		}
		if v.Type().Elem().Kind() == reflect.Uint8 {
			fmt.Fprintf(d.sb, "b%q", string(v.Bytes()))
			return
		}
		fallthrough
	case reflect.Array:
		d.sb.WriteString("[")
		for i := 0; i < v.Len(); i++ {
			if i > 0 {
				d.sb.WriteString(" ")
			}
			d.val(v.Index(i), depth+1)
		}
		d.sb.WriteString("]")
	case reflect.Map:
		if v.IsNil() {
			d.sb.WriteString("nil")
			return
		}
		type kv struct{ k, v string }
		var items []kv
		it := v.MapRange()
		for it.Next() {
			var kb, vb strings.Builder
			(&dumper{sb: &kb, onStack: d.onStack}).val(it.Key(), depth+1)
			(&dumper{sb: &vb, onStack: d.onStack}).val(it.Value(), depth+1)
			items = append(items, kv{kb.String(), vb.String()})
		}
		sort.Slice(items, func(a, b int) bool { return items[a].k < items[b].k })
		d.sb.WriteString("map{")
		for i, x := range items {
			if i > 0 {
				d.sb.WriteString(" ")
			}
			d.sb.WriteString(x.k + ":" + x.v)
		}
		d.sb.WriteString("}")
	case reflect.Pointer:
		if v.IsNil() {
			d.sb.WriteString("nil")
			return
		}
		p := v.Pointer()
		if d.onStack[p] {
			d.sb.WriteString("<cycle>")
			return
		}
		d.onStack[p] = true
		d.sb.WriteString("&")
		d.val(v.Elem(), depth+1)
		delete(d.onStack, p)
	case reflect.Interface:
		if v.IsNil() {
			d.sb.WriteString("nil")
			return
		}
		d.sb.WriteString("(" + v.Elem().Type().String() + ")")
		d.val(v.Elem(), depth+1)
	case reflect.Struct:
		t := v.Type()
		if t.PkgPath() == "sync" || t.PkgPath() == "sync/atomic" {
			d.sb.WriteString("<" + t.String() + ">")
			return
		}
		d.sb.WriteString(t.Name() + "{")
		for i := 0; i < v.NumField(); i++ {
			f := t.Field(i)
			if i > 0 {
				d.sb.WriteString(" ")
			}
			d.sb.WriteString(f.Name + ":")
			if skipFieldNames[f.Name] {
				fv := v.Field(i)
				if fv.Kind() == reflect.Interface && !fv.IsNil() {
					d.sb.WriteString("<" + fv.Elem().Type().String() + ">")
				} else {
					d.sb.WriteString("<skipped>")
				}
				continue
			}
			d.val(v.Field(i), depth+1)
		}
		d.sb.WriteString("}")
	case reflect.Func:
		if v.IsNil() {
			d.sb.WriteString("nil")
		} else {
			d.sb.WriteString("<func>")
		}
	case reflect.Chan, reflect.UnsafePointer:
		d.sb.WriteString("<" + v.Type().String() + ">")
	default:
		d.sb.WriteString("<?" + v.Kind().String() + ">")
	}
}
