package c09lab

import (
	"sort"
	"strings"

	"gvh/common"
	"gvh/fedlab"
)

// HReq is one request of a history.  Requests of one Group are spellings of the same template
// with the same argument values: one meaning, so one expected response.
type HReq struct {
	Group int
	Sp    *Spelled
}

type History struct {
	CfgName string
	Config  *fedlab.Config
	U       *fedlab.Universe
	Reqs    []HReq
	NGroups int
	NTempl  int
}

// GenHistory: 5-30 requests over 1-4 templates: repeats of one request (plan-cache hits), the
// same operation in other spellings (renamed variables, literal <-> variable forms, fragments),
// the same shape with other argument values, other operations in between.
func GenHistory(r *common.Rand, name string, cfg *fedlab.Config, u *fedlab.Universe, minLen, maxLen int) *History {
	return GenHistoryFx(r, &Fixed{Name: name, Config: cfg}, u, minLen, maxLen)
}

// GenHistoryFx: fx.IHops / fx.Directed (fixture families) steer the templates.
func GenHistoryFx(r *common.Rand, fx *Fixed, u *fedlab.Universe, minLen, maxLen int) *History {
	name, cfg := fx.Name, fx.Config
	h := &History{CfgName: name, Config: cfg, U: u}
	nt := 1 + r.Pick(4)
	h.NTempl = nt
	type grp struct{ t *Template }
	var groups []grp
	for i := 0; i < nt; i++ {
		var t *Template
		if fx.Directed != nil && i == 0 {
			t = fx.Directed(r)
		} else {
			t = GenTemplateX(r, cfg, u, fx.IHops)
		}
		groups = append(groups, grp{t})
		if t.HasArgs() {
			for k := r.Pick(3); k > 0; k-- {
				groups = append(groups, grp{Revalue(r, cfg, u, t)})
			}
		}
	}
	h.NGroups = len(groups)
	n := minLen + r.Pick(maxLen-minLen+1)
	prev := -1
	next := len(groups) // fresh meaning classes (flipped conditions, operations of a multi-operation document)
	var multi [2]*Spelled
	var multiGroup [2]int
	for len(h.Reqs) < n {
		switch {
		case len(h.Reqs) > 0 && r.Chance(1, 4):
			// exact repeat of an earlier request
			h.Reqs = append(h.Reqs, h.Reqs[r.Pick(len(h.Reqs))])
			continue
		case len(h.Reqs) > 0 && r.Chance(1, 5):
			// the same text as an earlier request with @skip/@include conditions flipped
			var cands []*Spelled
			for _, q := range h.Reqs {
				if len(q.Sp.BoolVars) > 0 {
					cands = append(cands, q.Sp)
				}
			}
			if len(cands) > 0 {
				if f := FlipBools(r, cands[r.Pick(len(cands))]); f != nil {
					h.Reqs = append(h.Reqs, HReq{Group: next, Sp: f})
					next++
					continue
				}
			}
		case r.Chance(1, 7):
			// one document with two operations, sent under either name
			if multi[0] == nil {
				multi[0], multi[1] = MultiOp(r, cfg, u, r.Chance(2, 3))
				multiGroup[0], multiGroup[1] = next, next+1
				next += 2
			}
			k := r.Pick(2)
			h.Reqs = append(h.Reqs, HReq{Group: multiGroup[k], Sp: multi[k]})
			if r.Chance(1, 2) && len(h.Reqs) < n {
				h.Reqs = append(h.Reqs, HReq{Group: multiGroup[1-k], Sp: multi[1-k]})
			}
			continue
		case prev >= 0 && r.Chance(1, 2):
			// same meaning, another spelling
		default:
			prev = r.Pick(len(groups))
		}
		if prev < 0 {
			prev = r.Pick(len(groups))
		}
		st := Styles[r.Pick(len(Styles))]
		h.Reqs = append(h.Reqs, HReq{Group: prev, Sp: Spell(r, cfg, groups[prev].t, st)})
	}
	h.NGroups = next
	return h
}

// BaseObs: what does not depend on the option set.
type BaseObs struct {
	Fresh     *Obs // a fresh default-option engine executing only this request
	Mono      *fedlab.ExecResult
	MonoErr   string
	Collision bool // the engine's own normalisation gave two variables one name (Prepare)
}

// RunObs: request i of the history on the one engine built with the option set, and the same
// request alone on a fresh engine with the same option set.
type RunObs struct {
	O         *Obs
	FreshSame *Obs
}

type HistoryObs struct {
	Base []BaseObs
	Runs map[string][]RunObs // option set string -> per request
	Fork bool
	Join bool
}

// Observe runs the history under every option set.
func Observe(h *History, exec *fedlab.ExecServer, sets []OptionSet) (*HistoryObs, error) {
	return ObserveSpecs(h, exec, SpecsOf(sets))
}

// ObserveSpecs runs the history under every run specification (option set + optional gated completion order).
func ObserveSpecs(h *History, exec *fedlab.ExecServer, sets []RunSpec) (*HistoryObs, error) {
	ho := &HistoryObs{Runs: map[string][]RunObs{}}
	fresh := func(o RunSpec, sp *Spelled) (*Obs, error) {
		lab, err := NewLab(h.Config, h.U, exec, o.Opt)
		if err != nil {
			return nil, err
		}
		defer lab.Close()
		return RunSpecd(lab, sp, o), nil
	}
	memo := map[*Spelled]*BaseObs{}
	var monoLab *fedlab.Lab
	monoLab, err := NewLab(h.Config, h.U, exec, DefaultOptions)
	if err != nil {
		return nil, err
	}
	defer monoLab.Close()
	for _, rq := range h.Reqs {
		if b, ok := memo[rq.Sp]; ok {
			ho.Base = append(ho.Base, *b)
			continue
		}
		f, err := fresh(RunSpec{Opt: DefaultOptions}, rq.Sp)
		if err != nil {
			return nil, err
		}
		b := &BaseObs{Fresh: f}
		if pp, perr := Prepare(monoLab.Schema, rq.Sp); perr == nil && pp != nil {
			b.Collision = pp.Collision
		}
		m, merr := monoLab.Mono(rq.Sp.Text, rq.Sp.OpName, []byte(rq.Sp.Variables))
		if merr != nil {
			b.MonoErr = merr.Error()
		} else {
			b.Mono = m
		}
		if f.NewPlan != nil {
			if resp := PlanResponse(f.NewPlan); resp != nil {
				fk, jn := ForkJoin(FetchDeps(resp.Fetches))
				ho.Fork = ho.Fork || fk
				ho.Join = ho.Join || jn
			}
		}
		memo[rq.Sp] = b
		ho.Base = append(ho.Base, *b)
	}
	for _, o := range sets {
		lab, err := NewLab(h.Config, h.U, exec, o.Opt)
		if err != nil {
			return nil, err
		}
		fm := map[*Spelled]*Obs{}
		var runs []RunObs
		for _, rq := range h.Reqs {
			ro := RunObs{O: RunSpecd(lab, rq.Sp, o)}
			if f, ok := fm[rq.Sp]; ok {
				ro.FreshSame = f
			} else {
				f, err := fresh(o, rq.Sp)
				if err != nil {
					lab.Close()
					return nil, err
				}
				fm[rq.Sp] = f
				ro.FreshSame = f
			}
			runs = append(runs, ro)
		}
		lab.Close()
		ho.Runs[o.String()] = runs
	}
	return ho, nil
}

// RespTree is the response as compared: an Execute error is one opaque outcome (wording and
// planner ids vary); otherwise data exactly, and the errors projected to (message, path) and
// sorted (parallel fetches complete in any order).
func RespTree(o *Obs) *fedlab.J {
	if o.Err != "" {
		return fedlab.JO(fedlab.Member{Key: "execute_error", Val: fedlab.JB(true)})
	}
	if o.Response == nil {
		return fedlab.JO(fedlab.Member{Key: "no_response", Val: fedlab.JB(true)})
	}
	out := fedlab.JO()
	if e := o.Response.Get("errors"); e != nil {
		var items []string
		keep := map[string]*fedlab.J{}
		if e.Kind == fedlab.JArr {
			for _, x := range e.Items {
				p := fedlab.JO(fedlab.Member{Key: "message", Val: orNull(x.Get("message"))}, fedlab.Member{Key: "path", Val: orNull(x.Get("path"))})
				k := p.String()
				for keep[k] != nil {
					k += "'"
				}
				keep[k] = p
				items = append(items, k)
			}
		}
		sort.Strings(items)
		arr := fedlab.JA()
		for _, k := range items {
			arr.Items = append(arr.Items, keep[k])
		}
		out.Members = append(out.Members, fedlab.Member{Key: "errors", Val: arr})
	}
	out.Members = append(out.Members, fedlab.Member{Key: "data", Val: orNull(o.Response.Get("data"))})
	if x := o.Response.Get("extensions"); x != nil {
		out.Members = append(out.Members, fedlab.Member{Key: "extensions", Val: x})
	}
	return out
}

func orNull(j *fedlab.J) *fedlab.J {
	if j == nil {
		return fedlab.JN()
	}
	return j
}

func digests(xs []string) string {
	parts := make([]string, len(xs))
	for i, x := range xs {
		parts[i] = common.QS(Digest(x))
	}
	return "(" + strings.Join(parts, " ") + ")"
}

// Sexp of one observed history (the hist case line; format in ocaml/c09/driver.ml).
func (ho *HistoryObs) Sexp(h *History, useed uint64, sets []OptionSet) string {
	return ho.SexpSpecs(h, useed, SpecsOf(sets))
}

func (ho *HistoryObs) SexpSpecs(h *History, useed uint64, sets []RunSpec) string {
	var sb strings.Builder
	sb.WriteString("(c09 hist " + h.CfgName + " " + common.I64(int64(useed)) + " (flags " + common.B(ho.Fork) + " " + common.B(ho.Join) + ") (base")
	for i, b := range ho.Base {
		rq := h.Reqs[i]
		mono := "(none)"
		if b.Mono != nil && b.Mono.Invalid == "" {
			mono = "(some " + orNull(b.Mono.Data).Sexp() + " " + common.I(b.Mono.NErrors) + ")"
		}
		sb.WriteString(" (rq " + common.I(rq.Group) + " " + string(rq.Sp.Style) + " " + common.QS(rq.Sp.Text) + " " + common.QS(rq.Sp.Variables) + " " +
			RespTree(b.Fresh).Sexp() + " " + mono + " " + digests(b.Fresh.Pairs) + " " + common.I(len(b.Fresh.Reqs)) + " " + common.B(b.Collision) + ")")
	}
	sb.WriteString(")")
	for _, o := range sets {
		runs := ho.Runs[o.String()]
		sb.WriteString(" (run " + common.QS(o.String()))
		for _, r := range runs {
			sb.WriteString(" (rs " + common.B(r.O.CacheHit) + " " + RespTree(r.O).Sexp() + " " + digests(r.O.SortedReqKeys()) + " " +
				digests(r.FreshSame.SortedReqKeys()) + " " + digests(r.O.Pairs) + " " + RespTree(r.FreshSame).Sexp() + " " +
				digests(r.O.SortedExpandedReqKeys()) + " " + digests(r.FreshSame.SortedExpandedReqKeys()) + ")")
		}
		sb.WriteString(")")
	}
	sb.WriteString(")")
	return sb.String()
}
