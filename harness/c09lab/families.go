package c09lab

import (
	"fmt"

	"gvh/common"
	"gvh/fedlab"
)

// Two c09-local, seed-parametrised fixture FAMILIES (classes of configurations, not single demos).
// A member is rebuilt from its name (<family>-<seed>-<index>), so a history line is a replay.
//
//	ifh-S-I  "interface hop": a home subgraph owns `nodes: [Node]` / `node: Node`, an interface Node with 2-3
//	         implementers and an entity hop `hop: E` / `[E]` declared on the interface; 1-2 other subgraphs own leaves
//	         of E.  Operations (opGen.ihops) select the hop on the interface-typed field AND again under
//	         `... on Impl` (one or two implementers, equal nested selections): the planner emits identical entity
//	         fetches, one unscoped and one scoped by type name, that de-duplication folds.  The universe holds every
//	         implementer, so a fold that keeps a type scope loses entities.
//
//	rq2-S-I  "two @requires fed by different providers": a root subgraph owns 2-3 root fields (single / list
//	         parents) of 1-2 entity types; 2-3 provider subgraphs own one plain leaf each; subgraph `calc` has one
//	         @requires field per provider (`rK @requires(pK)`).  Directed operations select, below DIFFERENT parents,
//	         requires fields fed by DIFFERENT providers: with multi-fetch the calc fetches (dependency lists
//	         [root, provider_i] and [root, provider_j]) form one merge group, and with the scheduler the merged fetch
//	         is placed by its DependsOnFetchIDs alone.  Run under gated completion orders (Fixed.GateSubs: each
//	         provider is held back until everything else has been answered, in turn).
type famParams struct {
	Seed uint64
	Idx  int
}

func famRand(p famParams, salt uint64) *common.Rand {
	return common.NewRand(p.Seed*1000003 + uint64(p.Idx)*7919 + salt)
}

// ---------------------------------------------------------------- ifh

type ifhShape struct {
	nImpl    int
	rootList bool
	hopList  bool
	nFar     int  // subgraphs owning leaves of E besides home
	nonNull  bool // far leaf non-null
	two      bool // a second interface-typed root field (single) next to the list
}

func ifhShapeOf(p famParams) ifhShape {
	r := famRand(p, 11)
	return ifhShape{nImpl: 2 + r.Pick(2), rootList: !r.Chance(1, 4), hopList: r.Chance(1, 3), nFar: 1 + r.Pick(2),
		nonNull: r.Chance(1, 4), two: r.Chance(1, 2)}
}

func cfgIFH(p famParams) *fedlab.Config {
	s := ifhShapeOf(p)
	id := func() *FieldDef { return fd("id", nonNull(named("ID"))) }
	hopT := named("E")
	if s.hopList {
		hopT = listOf(named("E"))
	}
	rootT := named("Node")
	if s.rootList {
		rootT = listOf(named("Node"))
	}
	q := &TypeDef{Kind: fedlab.KObject, Name: "Query", Fields: []*FieldDef{fd("nodes", rootT)}}
	if s.two {
		q.Fields = append(q.Fields, fd("first", named("Node")))
	}
	farT := named("String")
	if s.nonNull {
		farT = nonNull(named("String"))
	}
	e := &TypeDef{Kind: fedlab.KObject, Name: "E", Fields: []*FieldDef{id(), fd("local", named("String")), fd("far0", farT)}}
	if s.nFar > 1 {
		e.Fields = append(e.Fields, fd("far1", named("String")))
	}
	types := []*TypeDef{q, {Kind: fedlab.KInterface, Name: "Node", Fields: []*FieldDef{id(), fd("hop", hopT)}}}
	home := &Subgraph{Name: "home", Types: []*SubType{
		{Name: "Query", Fields: sf(fieldNames(q)...)},
		{Name: "Node", Fields: sf("id", "hop")},
		{Name: "E", Keys: []string{"id"}, Fields: sf("id", "local")},
	}}
	for i := 0; i < s.nImpl; i++ {
		n := fmt.Sprintf("T%d", i)
		own := fmt.Sprintf("own%d", i)
		types = append(types, &TypeDef{Kind: fedlab.KObject, Name: n, Implements: []string{"Node"},
			Fields: []*FieldDef{id(), fd("hop", hopT), fd(own, named("String"))}})
		home.Types = append(home.Types, &SubType{Name: n, Fields: sf("id", "hop", own)})
	}
	types = append(types, e)
	subs := []*Subgraph{home}
	for i := 0; i < s.nFar; i++ {
		subs = append(subs, &Subgraph{Name: fmt.Sprintf("far%d", i), Types: []*SubType{
			{Name: "E", Keys: []string{"id"}, Fields: sf("id", fmt.Sprintf("far%d", i))}}})
	}
	return &fedlab.Config{Super: &fedlab.Schema{Query: "Query", Types: types}, Subgraphs: subs}
}

func fieldNames(t *TypeDef) []string {
	var out []string
	for _, f := range t.Fields {
		out = append(out, f.Name)
	}
	return out
}

func uniIFH(p famParams) func(r *common.Rand) *fedlab.Universe {
	s := ifhShapeOf(p)
	return func(r *common.Rand) *fedlab.Universe {
		u := &fedlab.Universe{}
		ne := 3 + r.Pick(3)
		for i := 0; i < ne; i++ {
			k := fmt.Sprintf("e%d", i)
			fs := []FV{{"id", str(k)}, {"local", str("l" + k)}, {"far0", str("f0" + k)}}
			if s.nFar > 1 {
				v := str("f1" + k)
				if r.Chance(1, 6) {
					v = null()
				}
				fs = append(fs, FV{"far1", v})
			}
			u.Ents = append(u.Ents, &Entity{Type: "E", Key: k, Fields: fs})
		}
		hopVal := func() *FVal {
			if s.hopList {
				var xs []*FVal
				for n := 1 + r.Pick(2); n > 0; n-- {
					xs = append(xs, ref("E", fmt.Sprintf("e%d", r.Pick(ne))))
				}
				return lst(xs...)
			}
			return ref("E", fmt.Sprintf("e%d", r.Pick(ne)))
		}
		// every implementer occurs, in a drawn order, with a few repeats
		var nodes []*FVal
		mk := func(impl, i int) *FVal {
			k := fmt.Sprintf("n%d_%d", impl, i)
			t := fmt.Sprintf("T%d", impl)
			u.Ents = append(u.Ents, &Entity{Type: t, Key: k, Fields: []FV{
				{"id", str(k)}, {"hop", hopVal()}, {fmt.Sprintf("own%d", impl), str("o" + k)}}})
			return ref(t, k)
		}
		for impl := 0; impl < s.nImpl; impl++ {
			nodes = append(nodes, mk(impl, 0))
		}
		for n := r.Pick(3); n > 0; n-- {
			nodes = append(nodes, mk(r.Pick(s.nImpl), len(nodes)))
		}
		r.Shuffle(len(nodes), func(a, b int) { nodes[a], nodes[b] = nodes[b], nodes[a] })
		var nv *FVal
		if s.rootList {
			nv = lst(nodes...)
		} else {
			nv = nodes[r.Pick(len(nodes))]
		}
		qf := []FV{{"nodes", nv}}
		if s.two {
			qf = append(qf, FV{"first", nodes[r.Pick(len(nodes))]})
		}
		u.Ents = append(u.Ents, &Entity{Type: "Query", Key: "", Fields: qf})
		return u
	}
}

// ---------------------------------------------------------------- rq2

type rq2Member struct {
	Root   string // root field
	Type   string // entity type of the root field
	List   bool
	Prov   int // the provider feeding this member's requires field
	ReqFld string
}

type rq2Shape struct {
	nProv   int
	nTypes  int
	members []rq2Member
}

func rq2ShapeOf(p famParams) rq2Shape {
	r := famRand(p, 23)
	s := rq2Shape{nProv: 2 + r.Pick(2), nTypes: 1 + r.Pick(2)}
	nm := s.nProv
	if r.Chance(1, 2) {
		nm++ // one provider feeds two members (a shared provider)
	}
	perm := r.Perm(s.nProv)
	for i := 0; i < nm; i++ {
		m := rq2Member{Root: string(rune('a' + i)), List: r.Chance(1, 3)}
		m.Type = "A"
		if s.nTypes == 2 && i%2 == 1 {
			m.Type = "B"
		}
		if i < s.nProv {
			m.Prov = perm[i]
		} else {
			m.Prov = r.Pick(s.nProv)
		}
		m.ReqFld = fmt.Sprintf("r%d", m.Prov)
		s.members = append(s.members, m)
	}
	return s
}

func rq2Types(s rq2Shape) []string {
	if s.nTypes == 2 {
		return []string{"A", "B"}
	}
	return []string{"A"}
}

func cfgRQ2(p famParams) *fedlab.Config {
	s := rq2ShapeOf(p)
	id := func() *FieldDef { return fd("id", nonNull(named("ID"))) }
	q := &TypeDef{Kind: fedlab.KObject, Name: "Query"}
	rootSub := &SubType{Name: "Query"}
	for _, m := range s.members {
		t := named(m.Type)
		if m.List {
			t = listOf(named(m.Type))
		}
		q.Fields = append(q.Fields, fd(m.Root, t))
		rootSub.Fields = append(rootSub.Fields, &SubField{Name: m.Root})
	}
	types := []*TypeDef{q}
	root := &Subgraph{Name: "root", Types: []*SubType{rootSub}}
	provs := make([]*Subgraph, s.nProv)
	for i := range provs {
		provs[i] = &Subgraph{Name: fmt.Sprintf("prov%d", i)}
	}
	calc := &Subgraph{Name: "calc"}
	for _, tn := range rq2Types(s) {
		td := &TypeDef{Kind: fedlab.KObject, Name: tn, Fields: []*FieldDef{id(), fd("own", named("String"))}}
		root.Types = append(root.Types, &SubType{Name: tn, Keys: []string{"id"}, Fields: sf("id", "own")})
		ct := &SubType{Name: tn, Keys: []string{"id"}, Fields: []*SubField{{Name: "id"}}}
		for i := 0; i < s.nProv; i++ {
			pf, rf := fmt.Sprintf("p%d", i), fmt.Sprintf("r%d", i)
			td.Fields = append(td.Fields, fd(pf, named("String")), fd(rf, named("String")))
			provs[i].Types = append(provs[i].Types, &SubType{Name: tn, Keys: []string{"id"}, Fields: sf("id", pf)})
			ct.Fields = append(ct.Fields, &SubField{Name: pf, External: true}, &SubField{Name: rf, Requires: pf})
		}
		calc.Types = append(calc.Types, ct)
		types = append(types, td)
	}
	subs := append([]*Subgraph{root}, provs...)
	subs = append(subs, calc)
	return &fedlab.Config{Super: &fedlab.Schema{Query: "Query", Types: types}, Subgraphs: subs}
}

func uniRQ2(p famParams) func(r *common.Rand) *fedlab.Universe {
	s := rq2ShapeOf(p)
	return func(r *common.Rand) *fedlab.Universe {
		u := &fedlab.Universe{}
		n := 2 + r.Pick(3)
		for _, tn := range rq2Types(s) {
			for i := 0; i < n; i++ {
				k := fmt.Sprintf("%s%d", tn, i)
				fs := []FV{{"id", str(k)}, {"own", str("own" + k)}}
				for j := 0; j < s.nProv; j++ {
					pf, rf := fmt.Sprintf("p%d", j), fmt.Sprintf("r%d", j)
					fs = append(fs, FV{pf, str(pf + "-" + k)}, FV{rf, req(pf)})
				}
				u.Ents = append(u.Ents, &Entity{Type: tn, Key: k, Fields: fs})
			}
		}
		var qf []FV
		for _, m := range s.members {
			if m.List {
				var xs []*FVal
				for c := 1 + r.Pick(3); c > 0; c-- {
					xs = append(xs, ref(m.Type, fmt.Sprintf("%s%d", m.Type, r.Pick(n))))
				}
				qf = append(qf, FV{m.Root, lst(xs...)})
			} else {
				qf = append(qf, FV{m.Root, ref(m.Type, fmt.Sprintf("%s%d", m.Type, r.Pick(n)))})
			}
		}
		u.Ents = append(u.Ents, &Entity{Type: "Query", Key: "", Fields: qf})
		return u
	}
}

// rq2Directed: requires fields fed by different providers below different parents (at least two members, in a
// drawn order, sometimes with the provider's own field, `own` or a second requires field next to it).
func rq2Directed(p famParams) func(r *common.Rand) *Template {
	s := rq2ShapeOf(p)
	return func(r *common.Rand) *Template {
		idx := r.Perm(len(s.members))
		k := 2 + r.Pick(len(idx)-1)
		t := &Template{}
		if r.Chance(1, 2) {
			t.Name = "D"
		}
		for _, i := range idx[:k] {
			m := s.members[i]
			sel := &TSel{Name: m.Root, Sels: []*TSel{{Name: m.ReqFld}}}
			switch r.Pick(5) {
			case 0:
				sel.Sels = append(sel.Sels, &TSel{Name: "own"})
			case 1:
				sel.Sels = append([]*TSel{{Name: "id"}}, sel.Sels...)
			case 2:
				sel.Sels = append(sel.Sels, &TSel{Name: fmt.Sprintf("p%d", m.Prov)})
			}
			t.Sels = append(t.Sels, sel)
		}
		return t
	}
}

// GateOrders of an rq2 member: every provider is the LAST one to be answered once (rotations of the provider
// list); root and calc are answered as soon as they are held.
func rq2GateOrders(p famParams) [][]string {
	s := rq2ShapeOf(p)
	var out [][]string
	for k := 0; k < s.nProv; k++ {
		o := []string{"root", "calc"}
		for i := 0; i < s.nProv; i++ {
			o = append(o, fmt.Sprintf("prov%d", (k+1+i)%s.nProv))
		}
		out = append(out, o)
	}
	return out
}

// Family builds member (seed, idx) of a family, or nil for an unknown family name.
func Family(fam string, seed uint64, idx int) *Fixed {
	p := famParams{Seed: seed, Idx: idx}
	name := fmt.Sprintf("%s-%d-%d", fam, seed, idx)
	switch fam {
	case "ifh":
		return &Fixed{Name: name, Config: cfgIFH(p), Universe: uniIFH(p), IHops: true}
	case "rq2":
		return &Fixed{Name: name, Config: cfgRQ2(p), Universe: uniRQ2(p), Directed: rq2Directed(p), GateOrders: rq2GateOrders(p)}
	case "genh":
		// the shared generator with the later knobs (AllKnobsV2), `interfaces` and `scopedhops` always on
		k := fedlab.KnobsFor(seed, idx, fedlab.KnobsAllV2())
		k["interfaces"], k["scopedhops"] = true, true
		cfg := fedlab.BuildConfig(seed, idx, k)
		return &Fixed{Name: name, Config: cfg, IHops: true,
			Universe: func(r *common.Rand) *fedlab.Universe { return fedlab.GenUniverse(r, k, cfg) }}
	}
	return nil
}

var Families = []string{"ifh", "rq2", "genh"}
