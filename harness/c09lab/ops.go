package c09lab

import (
	"fmt"
	"sort"
	"strings"

	"gvh/common"
	"gvh/fedlab"
)

// ---------------------------------------------------------------- operation templates

// TArg is one argument of a template field: its declared type and a variable-free literal.
type TArg struct {
	Name string
	Type *fedlab.TypeRef
	Val  *fedlab.Value
}

// TDir is @skip / @include with a boolean.
type TDir struct {
	Name string // "skip" | "include"
	If   bool
}

// TSel is a field (Name != "") or an inline fragment (Name == "", On = type condition).
type TSel struct {
	Alias string
	Name  string
	Args  []TArg
	Dir   *TDir
	On    string
	Sels  []*TSel
}

// Template is a client operation with concrete argument values; Spell turns it into text in one
// of several equivalent spellings.
type Template struct {
	Name string // operation name ("" = anonymous)
	Sels []*TSel
}

type opGen struct {
	r   *common.Rand
	cfg *fedlab.Config
	u   *fedlab.Universe
	n   int // fields emitted
	max int
	// sub-selections generated so far, per type: re-used now and then so that one operation holds
	// equal selection sets in several places (what de-duplication and minification act on)
	seen map[string][][]*TSel
	// repetitive mode: wide selection sets, always re-used (long subgraph operations with repeated
	// selection sets: what the minifier rewrites)
	rep bool
	// no arguments at all (fields with required arguments are left out)
	noargs bool
	// composite fields an interface declares are selected on the interface-typed position AND again under some
	// implementers, with equal sub-selections (fixture families only: the flag off draws nothing)
	ihops bool
}

func cloneT(ts []*TSel) []*TSel {
	out := make([]*TSel, len(ts))
	for i, s := range ts {
		c := *s
		c.Sels = cloneT(s.Sels)
		out[i] = &c
	}
	return out
}

// GenTemplate generates a valid query over the supergraph of cfg; argument values that select
// entities are drawn from the universe.
func GenTemplate(r *common.Rand, cfg *fedlab.Config, u *fedlab.Universe) *Template {
	return GenTemplateX(r, cfg, u, false)
}

// GenTemplateX: ihops = see opGen.ihops.
func GenTemplateX(r *common.Rand, cfg *fedlab.Config, u *fedlab.Universe, ihops bool) *Template {
	g := &opGen{r: r, cfg: cfg, u: u, max: 6 + r.Pick(18), seen: map[string][][]*TSel{}, ihops: ihops}
	if r.Chance(1, 4) {
		g.max = 25 + r.Pick(30)
	}
	if r.Chance(1, 8) {
		g.rep = true
		g.max = 40 + r.Pick(30)
	}
	t := &Template{}
	if r.Chance(2, 3) {
		t.Name = fmt.Sprintf("Q%d", r.Pick(4))
	}
	depth := 2 + r.Pick(4)
	for len(t.Sels) == 0 {
		t.Sels = g.sels(cfg.Super.Query, depth, true)
	}
	return t
}

func (g *opGen) keysOf(typ string) []string {
	var out []string
	for _, e := range g.u.OfType(typ) {
		out = append(out, e.Key)
	}
	return out
}

func (g *opGen) scalarLit(typ, field, argName string, base string) *fedlab.Value {
	r := g.r
	switch base {
	case "ID":
		// a key of the entity type a lookup field resolves to, sometimes a missing one
		if lk, ok := g.lookupTarget(typ, field, argName); ok {
			ks := g.keysOf(lk)
			if len(ks) > 0 && !r.Chance(1, 8) {
				return &fedlab.Value{Kind: fedlab.VStr, Raw: ks[r.Pick(len(ks))]}
			}
		}
		return &fedlab.Value{Kind: fedlab.VStr, Raw: fmt.Sprintf("k%d", r.Pick(5))}
	case "String":
		return &fedlab.Value{Kind: fedlab.VStr, Raw: common.PickOf(r, []string{"x", "yo", "a b", "", "zz9", "hi"})}
	case "Int":
		return &fedlab.Value{Kind: fedlab.VInt, Raw: fmt.Sprint(r.Pick(7))}
	case "Float":
		return &fedlab.Value{Kind: fedlab.VFloat, Raw: common.PickOf(r, []string{"1.5", "0.25", "2.0"})}
	case "Boolean":
		if r.Chance(1, 2) {
			return &fedlab.Value{Kind: fedlab.VBool, Raw: "true"}
		}
		return &fedlab.Value{Kind: fedlab.VBool, Raw: "false"}
	}
	td := g.cfg.Super.Type(base)
	if td == nil {
		return &fedlab.Value{Kind: fedlab.VNull}
	}
	switch td.Kind {
	case fedlab.KEnum:
		return &fedlab.Value{Kind: fedlab.VEnum, Raw: td.Values[r.Pick(len(td.Values))]}
	case fedlab.KScalar: // custom scalar (Upload): any JSON; a string keeps literal and variable forms equal
		return &fedlab.Value{Kind: fedlab.VStr, Raw: common.PickOf(r, []string{"file1", "up"})}
	case fedlab.KInput:
		v := &fedlab.Value{Kind: fedlab.VObj}
		for _, iv := range td.Inputs {
			if iv.Type.IsNonNull() || r.Chance(2, 3) {
				v.Fields = append(v.Fields, fedlab.ObjField{Name: iv.Name, Val: g.lit(typ, field, iv.Name, iv.Type, 1)})
			}
		}
		return v
	}
	return &fedlab.Value{Kind: fedlab.VNull}
}

func (g *opGen) lookupTarget(typ, field, argName string) (string, bool) {
	if lk, ok := g.cfg.Lookups[typ+"."+field]; ok && lk.Arg == argName {
		return lk.Type, true
	}
	// fixed configurations: read it off the universe
	for _, e := range g.u.OfType(typ) {
		if fv := e.Field(field); fv != nil && fv.Kind == fedlab.FLookup && fv.Arg == argName {
			return fv.Type, true
		}
	}
	return "", false
}

func (g *opGen) lit(typ, field, argName string, t *fedlab.TypeRef, depth int) *fedlab.Value {
	switch t.Kind {
	case fedlab.TNonNull:
		return g.lit(typ, field, argName, t.Of, depth)
	case fedlab.TList:
		v := &fedlab.Value{Kind: fedlab.VList}
		for k := g.r.Pick(3); k > 0; k-- {
			v.Items = append(v.Items, g.lit(typ, field, argName, t.Of, depth+1))
		}
		return v
	}
	return g.scalarLit(typ, field, argName, t.Name)
}

func hasRequiredArg(f *fedlab.FieldDef) bool {
	for _, a := range f.Args {
		if a.Type.IsNonNull() && a.Default == nil {
			return true
		}
	}
	return false
}

func (g *opGen) args(typ string, f *fedlab.FieldDef) []TArg {
	if g.noargs {
		return nil
	}
	var out []TArg
	for _, a := range f.Args {
		required := a.Type.IsNonNull() && a.Default == nil
		num, den := 3, 5
		if td := g.cfg.Super.Type(a.Type.Base()); td != nil && td.Kind == fedlab.KScalar {
			num, den = 1, 8 // custom scalars (Upload) seldom: they trip a known defect of the variables mapper
		}
		if required || g.r.Chance(num, den) {
			out = append(out, TArg{Name: a.Name, Type: a.Type, Val: g.lit(typ, f.Name, a.Name, a.Type, 0)})
		}
	}
	return out
}

// sels generates a selection set on (composite) type typ.
func (g *opGen) sels(typ string, depth int, root bool) []*TSel {
	if !root && g.seen != nil {
		if prev := g.seen[typ]; len(prev) > 0 && (g.rep || g.r.Chance(2, 5)) {
			return cloneT(prev[g.r.Pick(len(prev))])
		}
	}
	out := g.sels1(typ, depth, root)
	if !root && g.seen != nil && len(out) > 0 {
		g.seen[typ] = append(g.seen[typ], out)
	}
	return out
}

func (g *opGen) sels1(typ string, depth int, root bool) []*TSel {
	r := g.r
	td := g.cfg.Super.Type(typ)
	if td == nil {
		return nil
	}
	var out []*TSel
	used := map[string]bool{}
	add := func(s *TSel) {
		key := s.Alias
		if key == "" {
			key = s.Name
		}
		if used[key] {
			return
		}
		used[key] = true
		out = append(out, s)
		g.n++
	}
	if td.Kind == fedlab.KUnion || td.Kind == fedlab.KInterface {
		add(&TSel{Name: "__typename"})
		if td.Kind == fedlab.KInterface {
			for _, f := range td.Fields {
				if g.cfg.Super.IsLeaf(f.Type.Base()) && len(f.Args) == 0 && r.Chance(1, 2) {
					add(&TSel{Name: f.Name})
				}
			}
		}
		// composite fields under one response key in sibling fragments are merged by the executor and
		// must agree (same field, same arguments, same sub-selection): later fragments copy the first
		prev := map[string]*TSel{}
		// the same composite field of the interface on the interface itself and under implementers: the planner
		// emits one fetch per occurrence for what lies below (unscoped / scoped by type name); equal ones are
		// what de-duplication folds
		var hops []*TSel
		if g.ihops && td.Kind == fedlab.KInterface && depth > 0 {
			for _, f := range td.Fields {
				if g.cfg.Super.IsLeaf(f.Type.Base()) || hasRequiredArg(f) || !r.Chance(2, 3) {
					continue
				}
				sub := g.sels(f.Type.Base(), depth-1, false)
				if len(sub) == 0 {
					continue
				}
				h := &TSel{Name: f.Name, Args: g.args(typ, f), Sels: sub}
				if r.Chance(3, 4) {
					add(h)
				}
				prev[f.Name] = h
				hops = append(hops, h)
			}
		}
		for _, pt := range g.cfg.Super.PossibleTypes(typ) {
			if r.Chance(3, 4) {
				sub := g.sels(pt, depth-1, false)
				for _, h := range hops {
					if r.Chance(1, 2) {
						c := *h
						c.Sels = cloneT(h.Sels)
						if r.Chance(1, 2) {
							sub = append(sub, &c)
						} else {
							sub = append([]*TSel{&c}, sub...)
						}
					}
				}
				var kept []*TSel
				for _, x := range sub {
					key := x.Alias
					if key == "" {
						key = x.Name
					}
					if len(x.Sels) > 0 && x.Name != "" {
						if p, ok := prev[key]; ok {
							if p.Name != x.Name {
								continue
							}
							c := *p
							c.Sels = cloneT(p.Sels)
							c.Dir = x.Dir
							x = &c
						} else {
							prev[key] = x
						}
					}
					kept = append(kept, x)
				}
				if len(kept) > 0 {
					out = append(out, &TSel{On: pt, Sels: kept})
				}
			}
		}
		return out
	}
	fields := append([]*fedlab.FieldDef(nil), td.Fields...)
	r.Shuffle(len(fields), func(a, b int) { fields[a], fields[b] = fields[b], fields[a] })
	want := 1 + r.Pick(4)
	if root {
		want = 1 + r.Pick(3)
	}
	if g.rep {
		want = 4 + r.Pick(4)
	}
	for _, f := range fields {
		if len(out) >= want || g.n >= g.max {
			break
		}
		leaf := g.cfg.Super.IsLeaf(f.Type.Base())
		if !leaf && depth <= 0 {
			continue
		}
		if g.noargs && hasRequiredArg(f) {
			continue
		}
		s := &TSel{Name: f.Name, Args: g.args(typ, f)}
		if r.Chance(1, 6) {
			s.Alias = fmt.Sprintf("%s_%d", f.Name, r.Pick(3))
		}
		if !leaf {
			s.Sels = g.sels(f.Type.Base(), depth-1, false)
			if len(s.Sels) == 0 {
				continue
			}
		}
		if r.Chance(1, 9) && !root {
			s.Dir = &TDir{Name: common.PickOf(r, []string{"skip", "include"}), If: r.Chance(1, 2)}
		}
		add(s)
		if g.rep && leaf && len(f.Args) == 0 && !root {
			for k := 1 + r.Pick(3); k > 0; k-- {
				add(&TSel{Alias: fmt.Sprintf("%s_r%d", f.Name, k), Name: f.Name})
			}
		}
		// the same field again under another alias with other arguments
		if leaf && len(f.Args) > 0 && r.Chance(1, 3) {
			add(&TSel{Alias: fmt.Sprintf("%s_b", f.Name), Name: f.Name, Args: g.args(typ, f)})
		}
	}
	if len(out) == 0 {
		// fall back to any leaf
		for _, f := range td.Fields {
			if g.cfg.Super.IsLeaf(f.Type.Base()) {
				ok := true
				for _, a := range f.Args {
					if a.Type.IsNonNull() && a.Default == nil {
						ok = false
					}
				}
				if ok {
					add(&TSel{Name: f.Name})
					break
				}
			}
		}
	}
	if r.Chance(1, 5) && len(out) > 0 && !root {
		add(&TSel{Name: "__typename"})
	}
	// @skip / @include on an inline fragment that holds some of the leaf fields
	if r.Chance(1, 10) && !root && td.Kind == fedlab.KObject {
		var leaves, rest []*TSel
		for _, x := range out {
			if x.Name != "" && len(x.Sels) == 0 && r.Chance(1, 2) {
				leaves = append(leaves, x)
			} else {
				rest = append(rest, x)
			}
		}
		if len(leaves) > 0 {
			on := typ
			if r.Chance(1, 3) {
				on = ""
			}
			out = append(rest, &TSel{On: on, Sels: leaves,
				Dir: &TDir{Name: common.PickOf(r, []string{"skip", "include"}), If: r.Chance(1, 2)}})
		}
	}
	return out
}

// GenTemplateNoArgs: like GenTemplate without any argument.
func GenTemplateNoArgs(r *common.Rand, cfg *fedlab.Config, u *fedlab.Universe, name string) *Template {
	g := &opGen{r: r, cfg: cfg, u: u, max: 5 + r.Pick(10), seen: map[string][][]*TSel{}, noargs: true}
	t := &Template{Name: name}
	for tries := 0; len(t.Sels) == 0 && tries < 20; tries++ {
		t.Sels = g.sels(cfg.Super.Query, 2+r.Pick(3), true)
	}
	return t
}

// Revalue keeps the shape of t and draws new argument values ("varying variable values").
func Revalue(r *common.Rand, cfg *fedlab.Config, u *fedlab.Universe, t *Template) *Template {
	g := &opGen{r: r, cfg: cfg, u: u}
	memo := map[*fedlab.Value]*fedlab.Value{}
	var walk func(typ string, sels []*TSel) []*TSel
	walk = func(typ string, sels []*TSel) []*TSel {
		td := cfg.Super.Type(typ)
		out := make([]*TSel, len(sels))
		for i, s := range sels {
			c := *s
			if s.Name == "" {
				c.Sels = walk(s.On, s.Sels)
			} else if s.Name != "__typename" && td != nil {
				f := td.Field(s.Name)
				c.Args = nil
				for _, a := range s.Args {
					nv, ok := memo[a.Val]
					if !ok {
						nv = g.lit(typ, s.Name, a.Name, a.Type, 0)
						memo[a.Val] = nv
					}
					c.Args = append(c.Args, TArg{Name: a.Name, Type: a.Type, Val: nv})
				}
				if f != nil {
					c.Sels = walk(f.Type.Base(), s.Sels)
				}
			}
			out[i] = &c
		}
		return out
	}
	return &Template{Name: t.Name, Sels: walk(cfg.Super.Query, t.Sels)}
}

// ---------------------------------------------------------------- spellings

// Style of a spelling.
type Style string

const (
	StyleLit   Style = "lit"   // every argument a literal
	StyleVar   Style = "var"   // every argument a variable v0, v1, ...
	StyleRen   Style = "ren"   // variables with other names, declared in another order
	StyleMix   Style = "mix"   // some arguments literal, some variables, variables inside list/object literals
	StyleFrag  Style = "frag"  // literals; sub-selections through named / inline fragments
	StyleShort Style = "short" // variables named from the mapper's own alphabet (a, b, c, aa ...), shuffled
)

var Styles = []Style{StyleLit, StyleVar, StyleRen, StyleMix, StyleFrag, StyleShort}

// Spelled is one concrete request.
type Spelled struct {
	Style     Style
	Text      string
	Variables string // JSON object text
	OpName    string
	NVars     int
	BoolVars  []string // variables that are @skip/@include conditions
}

func valueJSON(v *fedlab.Value) *fedlab.J {
	switch v.Kind {
	case fedlab.VInt, fedlab.VFloat:
		return fedlab.JNumRaw(v.Raw)
	case fedlab.VStr, fedlab.VEnum:
		return fedlab.JS(v.Raw)
	case fedlab.VBool:
		return fedlab.JB(v.Raw == "true")
	case fedlab.VList:
		a := fedlab.JA()
		for _, x := range v.Items {
			a.Items = append(a.Items, valueJSON(x))
		}
		return a
	case fedlab.VObj:
		o := fedlab.JO()
		for _, f := range v.Fields {
			o.Members = append(o.Members, fedlab.Member{Key: f.Name, Val: valueJSON(f.Val)})
		}
		return o
	}
	return fedlab.JN()
}

type speller struct {
	boolVars []string
	memo     map[*fedlab.Value]*fedlab.Value // one spelling per template value (copied sub-selections must stay identical)
	r        *common.Rand
	cfg      *fedlab.Config
	style    Style
	names    []string
	vars     []*fedlab.VarDef
	vals     []fedlab.Member
	frags    []*fedlab.FragDef
	nfrag    int
	next     int
}

var renPool = []string{"id", "zz", "q", "input", "x1", "first", "B", "_v", "arg", "w", "k9", "val", "AA", "m", "n2", "o_o"}
var shortPool = []string{"a", "b", "c", "d", "e", "aa", "bb", "f", "g"}

func (s *speller) varName() string {
	i := s.next
	s.next++
	switch s.style {
	case StyleRen:
		if i < len(s.names) {
			return s.names[i]
		}
		return fmt.Sprintf("r%d", i)
	case StyleShort:
		if i < len(s.names) {
			return s.names[i]
		}
		return fmt.Sprintf("s%d", i)
	case StyleMix:
		if len(s.names) > 0 {
			if i < len(s.names) {
				return s.names[i]
			}
			return fmt.Sprintf("s%d", i)
		}
	}
	return fmt.Sprintf("v%d", i)
}

// elemType of a list type (through non-null).
func elemType(t *fedlab.TypeRef) *fedlab.TypeRef {
	t = t.Nullable()
	if t.Kind == fedlab.TList {
		return t.Of
	}
	return nil
}

func (s *speller) asVar(t *fedlab.TypeRef, v *fedlab.Value) *fedlab.Value {
	return s.asVarD(t, v, true)
}

// asVarD: mayDefault = the variable may carry its value as a default instead of in the JSON.
// (Variables used INSIDE a list / object literal never do: the engine's extraction of the
// enclosing literal drops such defaults -- a normalisation defect outside this property,
// reported separately; see corpus/C09.)
func (s *speller) asVarD(t *fedlab.TypeRef, v *fedlab.Value, mayDefault bool) *fedlab.Value {
	name := s.varName()
	vd := &fedlab.VarDef{Name: name, Type: t}
	// a variable with a default value and no supplied value (nullable positions only keep the
	// literal and the variable form equivalent)
	if mayDefault && !t.IsNonNull() && v.Kind != fedlab.VNull && s.r.Chance(1, 8) {
		vd.Default = v
	} else {
		s.vals = append(s.vals, fedlab.Member{Key: name, Val: valueJSON(v)})
	}
	s.vars = append(s.vars, vd)
	return &fedlab.Value{Kind: fedlab.VVar, Raw: name}
}

// nested: variables inside a list / input object literal
func (s *speller) nested(t *fedlab.TypeRef, v *fedlab.Value) *fedlab.Value {
	switch v.Kind {
	case fedlab.VList:
		et := elemType(t)
		if et == nil {
			return v
		}
		out := &fedlab.Value{Kind: fedlab.VList}
		for _, x := range v.Items {
			if s.r.Chance(1, 2) {
				out.Items = append(out.Items, s.asVarD(et, x, false))
			} else {
				out.Items = append(out.Items, s.nested(et, x))
			}
		}
		return out
	case fedlab.VObj:
		td := s.cfg.Super.Type(t.Base())
		if td == nil {
			return v
		}
		out := &fedlab.Value{Kind: fedlab.VObj}
		for _, f := range v.Fields {
			var ft *fedlab.TypeRef
			for _, iv := range td.Inputs {
				if iv.Name == f.Name {
					ft = iv.Type
				}
			}
			if ft != nil && s.r.Chance(1, 2) {
				out.Fields = append(out.Fields, fedlab.ObjField{Name: f.Name, Val: s.asVarD(ft, f.Val, false)})
			} else if ft != nil {
				out.Fields = append(out.Fields, fedlab.ObjField{Name: f.Name, Val: s.nested(ft, f.Val)})
			} else {
				out.Fields = append(out.Fields, f)
			}
		}
		return out
	}
	return v
}

func (s *speller) argVal(a TArg) *fedlab.Value {
	if v, ok := s.memo[a.Val]; ok {
		return v
	}
	v := s.argVal1(a)
	s.memo[a.Val] = v
	return v
}

func (s *speller) argVal1(a TArg) *fedlab.Value {
	switch s.style {
	case StyleVar, StyleRen, StyleShort:
		return s.asVar(a.Type, a.Val)
	case StyleMix:
		switch s.r.Pick(3) {
		case 0:
			return a.Val
		case 1:
			return s.asVar(a.Type, a.Val)
		default:
			return s.nested(a.Type, a.Val)
		}
	}
	return a.Val
}

func boolVal(b bool) *fedlab.Value {
	if b {
		return &fedlab.Value{Kind: fedlab.VBool, Raw: "true"}
	}
	return &fedlab.Value{Kind: fedlab.VBool, Raw: "false"}
}

// dir spells @skip / @include; in the variable styles the condition is a Boolean! variable whose
// name is remembered (FlipBools sends the same text with other conditions)
func (s *speller) dir(d *TDir) fedlab.Dir {
	v := boolVal(d.If)
	if s.style != StyleLit && s.style != StyleFrag {
		v = s.asVar(fedlab.NonNull(fedlab.Named("Boolean")), v)
		s.boolVars = append(s.boolVars, v.Raw)
	}
	return fedlab.Dir{Name: d.Name, Args: []fedlab.Arg{{Name: "if", Val: v}}}
}

func (s *speller) sels(typ string, ts []*TSel) []*fedlab.Sel {
	var out []*fedlab.Sel
	for _, t := range ts {
		if t.Name == "" {
			on := t.On
			if on == "" {
				on = typ
			}
			x := &fedlab.Sel{Kind: fedlab.SInline, On: t.On, Sels: s.sels(on, t.Sels)}
			if t.Dir != nil {
				x.Dirs = append(x.Dirs, s.dir(t.Dir))
			}
			out = append(out, x)
			continue
		}
		x := &fedlab.Sel{Kind: fedlab.SField, Alias: t.Alias, Name: t.Name}
		for _, a := range t.Args {
			x.Args = append(x.Args, fedlab.Arg{Name: a.Name, Val: s.argVal(a)})
		}
		if t.Dir != nil {
			x.Dirs = append(x.Dirs, s.dir(t.Dir))
		}
		if len(t.Sels) > 0 {
			sub := ""
			if td := s.cfg.Super.Type(typ); td != nil {
				if f := td.Field(t.Name); f != nil {
					sub = f.Type.Base()
				}
			}
			x.Sels = s.sels(sub, t.Sels)
			// wrap (part of) the sub-selection in a fragment; only on object types
			if s.style == StyleFrag && sub != "" && len(x.Sels) > 0 {
				if td := s.cfg.Super.Type(sub); td != nil && td.Kind == fedlab.KObject {
					k := 1 + s.r.Pick(len(x.Sels))
					inner := x.Sels[:k]
					rest := x.Sels[k:]
					if s.r.Chance(1, 2) {
						s.nfrag++
						name := fmt.Sprintf("F%d", s.nfrag)
						s.frags = append(s.frags, &fedlab.FragDef{Name: name, On: sub, Sels: inner})
						x.Sels = append([]*fedlab.Sel{{Kind: fedlab.SSpread, Name: name}}, rest...)
					} else {
						on := sub
						if s.r.Chance(1, 3) {
							on = ""
						}
						x.Sels = append([]*fedlab.Sel{{Kind: fedlab.SInline, On: on, Sels: inner}}, rest...)
					}
				}
			}
		}
		out = append(out, x)
	}
	return out
}

// Spell renders t in the given style.
func Spell(r *common.Rand, cfg *fedlab.Config, t *Template, style Style) *Spelled {
	s := &speller{r: r, cfg: cfg, style: style, memo: map[*fedlab.Value]*fedlab.Value{}}
	switch style {
	case StyleRen:
		s.names = append([]string(nil), renPool...)
		r.Shuffle(len(s.names), func(a, b int) { s.names[a], s.names[b] = s.names[b], s.names[a] })
	case StyleShort:
		s.names = append([]string(nil), shortPool...)
		r.Shuffle(len(s.names), func(a, b int) { s.names[a], s.names[b] = s.names[b], s.names[a] })
	case StyleMix:
		// now and then the client's names come from the mapper's own alphabet
		if r.Chance(1, 5) {
			s.names = append([]string(nil), shortPool...)
			r.Shuffle(len(s.names), func(a, b int) { s.names[a], s.names[b] = s.names[b], s.names[a] })
		}
	}
	op := &fedlab.Operation{Name: t.Name}
	op.Sels = s.sels(cfg.Super.Query, t.Sels)
	op.Vars = s.vars
	op.Frags = s.frags
	if style == StyleRen || style == StyleShort {
		// declaration order differs from first use
		r.Shuffle(len(op.Vars), func(a, b int) { op.Vars[a], op.Vars[b] = op.Vars[b], op.Vars[a] })
		r.Shuffle(len(s.vals), func(a, b int) { s.vals[a], s.vals[b] = s.vals[b], s.vals[a] })
	}
	op.Variables = fedlab.JO(s.vals...)
	return &Spelled{Style: style, Text: op.Text(), Variables: op.VariablesJSON(), OpName: t.Name, NVars: len(op.Vars), BoolVars: s.boolVars}
}

// FlipBools: the SAME text with some @skip/@include conditions flipped in the variables object
// (what survives normalisation changes, the bytes of the query do not).
func FlipBools(r *common.Rand, sp *Spelled) *Spelled {
	if len(sp.BoolVars) == 0 {
		return nil
	}
	j, err := fedlab.ParseJSON([]byte(sp.Variables))
	if err != nil || j.Kind != fedlab.JObj {
		return nil
	}
	must := sp.BoolVars[r.Pick(len(sp.BoolVars))]
	isBool := map[string]bool{}
	for _, n := range sp.BoolVars {
		isBool[n] = true
	}
	out := fedlab.JO()
	for _, m := range j.Members {
		v := m.Val
		if isBool[m.Key] && (m.Key == must || r.Chance(1, 3)) {
			v = fedlab.JB(v.Kind != fedlab.JTrue)
		}
		out.Members = append(out.Members, fedlab.Member{Key: m.Key, Val: v})
	}
	c := *sp
	c.Variables = out.String()
	c.Style = "flip"
	return &c
}

// MultiOp: one document with two operations (OpA, OpB); the two requests differ in operationName
// only.  noargs: neither operation has arguments or variables (then nothing distinguishes the two
// requests but the name).
func MultiOp(r *common.Rand, cfg *fedlab.Config, u *fedlab.Universe, noargs bool) (*Spelled, *Spelled) {
	var ta, tb *Template
	sa, sb := StyleLit, StyleLit
	if noargs {
		ta, tb = GenTemplateNoArgs(r, cfg, u, "OpA"), GenTemplateNoArgs(r, cfg, u, "OpB")
	} else {
		ta, tb = GenTemplate(r, cfg, u), GenTemplate(r, cfg, u)
		ta.Name, tb.Name = "OpA", "OpB"
		sa, sb = StyleVar, StyleRen // disjoint variable names
	}
	a, b := Spell(r, cfg, ta, sa), Spell(r, cfg, tb, sb)
	ja, _ := fedlab.ParseJSON([]byte(a.Variables))
	jb, _ := fedlab.ParseJSON([]byte(b.Variables))
	vars := fedlab.JO()
	if ja != nil {
		vars.Members = append(vars.Members, ja.Members...)
	}
	if jb != nil {
		vars.Members = append(vars.Members, jb.Members...)
	}
	text := a.Text + " " + b.Text
	return &Spelled{Style: "multiop", Text: text, Variables: vars.String(), OpName: "OpA"},
		&Spelled{Style: "multiop", Text: text, Variables: vars.String(), OpName: "OpB"}
}

// HasArgs reports whether any field of the template carries arguments or directives (only then
// do the variable spellings differ from the literal one).
func (t *Template) HasArgs() bool {
	var walk func(ts []*TSel) bool
	walk = func(ts []*TSel) bool {
		for _, s := range ts {
			if len(s.Args) > 0 || s.Dir != nil || walk(s.Sels) {
				return true
			}
		}
		return false
	}
	return walk(t.Sels)
}

// Shape is a short description for distributions.
func (t *Template) Shape() string {
	depth, fields := 0, 0
	var walk func(ts []*TSel, d int)
	walk = func(ts []*TSel, d int) {
		if d > depth {
			depth = d
		}
		for _, s := range ts {
			fields++
			walk(s.Sels, d+1)
		}
	}
	walk(t.Sels, 1)
	return fmt.Sprintf("d%d", depth)
}

func sortedStrings(m map[string]int) []string {
	var ks []string
	for k := range m {
		ks = append(ks, k)
	}
	sort.Strings(ks)
	return ks
}

var _ = strings.Join
