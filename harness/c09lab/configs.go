// Package c09lab: fixed federation configurations (taken from the repo's engine tests and
// extended with arguments / deeper entity chains), an operation generator with equivalent
// spellings (literals, variables, renamed variables, fragments), option sets of the engine and
// the observers used by harness/cmd/c09.
package c09lab

import (
	"fmt"

	"gvh/common"
	"gvh/fedlab"
)

type (
	TypeDef    = fedlab.TypeDef
	FieldDef   = fedlab.FieldDef
	InputValue = fedlab.InputValue
	SubType    = fedlab.SubType
	SubField   = fedlab.SubField
	Subgraph   = fedlab.Subgraph
	FVal       = fedlab.FVal
	FV         = fedlab.FV
	Entity     = fedlab.Entity
)

var (
	named   = fedlab.Named
	listOf  = fedlab.ListOf
	nonNull = fedlab.NonNull
)

func fd(name string, t *fedlab.TypeRef, args ...*InputValue) *FieldDef {
	return &FieldDef{Name: name, Type: t, Args: args}
}
func arg(name string, t *fedlab.TypeRef) *InputValue { return &InputValue{Name: name, Type: t} }
func argd(name string, t *fedlab.TypeRef, d *fedlab.Value) *InputValue {
	return &InputValue{Name: name, Type: t, Default: d}
}
func sf(names ...string) []*SubField {
	var out []*SubField
	for _, n := range names {
		out = append(out, &SubField{Name: n})
	}
	return out
}
func sc(j *fedlab.J) *FVal        { return &FVal{Kind: fedlab.FSc, JSON: j} }
func ref(t, k string) *FVal       { return &FVal{Kind: fedlab.FRef, Type: t, Key: k} }
func lst(xs ...*FVal) *FVal       { return &FVal{Kind: fedlab.FLst, Items: xs} }
func echo() *FVal                 { return &FVal{Kind: fedlab.FEcho} }
func nullref() *FVal              { return &FVal{Kind: fedlab.FNullRef} }
func lookup(t, a string) *FVal    { return &FVal{Kind: fedlab.FLookup, Type: t, Arg: a} }
func req(fs ...string) *FVal      { return &FVal{Kind: fedlab.FReq, Req: fs} }
func str(s string) *FVal          { return sc(fedlab.JS(s)) }
func num(n int) *FVal             { return sc(fedlab.JNumRaw(fmt.Sprint(n))) }
func null() *FVal                 { return sc(fedlab.JN()) }
func vstr(s string) *fedlab.Value { return &fedlab.Value{Kind: fedlab.VStr, Raw: s} }
func vint(n int) *fedlab.Value    { return &fedlab.Value{Kind: fedlab.VInt, Raw: fmt.Sprint(n)} }

// Fixed is one fixed configuration with a universe generator.
type Fixed struct {
	Name     string
	Config   *fedlab.Config
	Universe func(r *common.Rand) *fedlab.Universe
	// fixture families (families.go) only; the zero values draw nothing from the history's random stream
	IHops      bool                           // operations select interface-declared composite fields bare AND under implementers
	Directed   func(r *common.Rand) *Template // the first template of every history
	GateOrders [][]string                     // completion orders (subgraph priority lists) the multi-fetch x scheduler runs are gated with
}

// ---------------------------------------------------------------- "arp"
// accounts / reviews / products (execution/federationtesting, federation_integration_test.go)
// with argument-carrying fields: scalars with defaults, an input object, lists, an enum and an
// Upload scalar (the variables mapper treats Upload-typed variables specially).
func cfgARP() *fedlab.Config {
	id := func() *FieldDef { return fd("id", nonNull(named("ID"))) }
	in := named("In")
	super := &fedlab.Schema{Query: "Query", Types: []*TypeDef{
		{Kind: fedlab.KObject, Name: "Query", Fields: []*FieldDef{
			fd("me", named("User")),
			fd("users", nonNull(listOf(nonNull(named("User"))))),
			fd("user", named("User"), arg("id", nonNull(named("ID")))),
			fd("topProducts", listOf(named("Product"))),
			fd("product", named("Product"), arg("upc", nonNull(named("ID")))),
			fd("latestReview", named("Review")),
			fd("media", listOf(named("Media"))),
			fd("echo", named("String"), arg("o", in), arg("l", listOf(named("Int"))), arg("e", named("Color")),
				argd("s", named("String"), vstr("d")), arg("f", named("Upload"))),
		}},
		{Kind: fedlab.KObject, Name: "User", Fields: []*FieldDef{
			id(), fd("name", named("String")),
			fd("greet", named("String"), argd("p", named("String"), vstr("hi"))),
			fd("reviews", listOf(named("Review"))),
		}},
		{Kind: fedlab.KObject, Name: "Review", Fields: []*FieldDef{
			id(), fd("body", named("String")), fd("author", named("User")), fd("product", named("Product")),
			fd("stars", named("String"), argd("scale", named("Int"), vint(5))),
		}},
		{Kind: fedlab.KObject, Name: "Product", Fields: []*FieldDef{
			fd("upc", nonNull(named("ID"))), fd("title", named("String")), fd("price", named("Int")),
			fd("reviews", listOf(named("Review"))),
			fd("fmt", named("String"), arg("o", in), arg("n", named("Int")), arg("tags", listOf(named("String")))),
		}},
		{Kind: fedlab.KInterface, Name: "Media", Fields: []*FieldDef{id(), fd("title", named("String"))}},
		{Kind: fedlab.KObject, Name: "Book", Implements: []string{"Media"}, Fields: []*FieldDef{
			id(), fd("title", named("String")), fd("author", named("User")), fd("pages", named("Int"))}},
		{Kind: fedlab.KObject, Name: "Movie", Implements: []string{"Media"}, Fields: []*FieldDef{
			id(), fd("title", named("String")), fd("author", named("User")), fd("minutes", named("Int"))}},
		{Kind: fedlab.KInput, Name: "In", Inputs: []*InputValue{
			{Name: "k", Type: named("String")}, {Name: "n", Type: named("Int"), Default: vint(3)},
			{Name: "l", Type: listOf(named("String"))},
		}},
		{Kind: fedlab.KEnum, Name: "Color", Values: []string{"RED", "GREEN"}},
		{Kind: fedlab.KScalar, Name: "Upload"},
	}}
	return &fedlab.Config{Super: super, Subgraphs: []*Subgraph{
		{Name: "accounts", Types: []*SubType{
			{Name: "Query", Fields: sf("me", "users", "user", "echo")},
			{Name: "User", Keys: []string{"id"}, Fields: sf("id", "name", "greet")},
		}},
		{Name: "reviews", Types: []*SubType{
			{Name: "Query", Fields: sf("latestReview")},
			{Name: "User", Keys: []string{"id"}, Fields: sf("id", "reviews")},
			{Name: "Review", Keys: []string{"id"}, Fields: sf("id", "body", "author", "product", "stars")},
			{Name: "Product", Keys: []string{"upc"}, Fields: sf("upc", "reviews")},
		}},
		{Name: "products", Types: []*SubType{
			{Name: "Query", Fields: sf("topProducts", "product", "media")},
			{Name: "Product", Keys: []string{"upc"}, Fields: sf("upc", "title", "price", "fmt")},
			{Name: "Media", Fields: sf("id", "title")},
			{Name: "Book", Keys: []string{"id"}, Fields: sf("id", "title", "author", "pages")},
			{Name: "Movie", Keys: []string{"id"}, Fields: sf("id", "title", "author", "minutes")},
			{Name: "User", Keys: []string{"id"}, Fields: sf("id")},
		}},
	}}
}

func uniARP(r *common.Rand) *fedlab.Universe {
	nu, nr, np := 2+r.Pick(3), 2+r.Pick(4), 2+r.Pick(3)
	uk := func(i int) string { return fmt.Sprintf("u%d", i) }
	rk := func(i int) string { return fmt.Sprintf("r%d", i) }
	pk := func(i int) string { return fmt.Sprintf("p%d", i) }
	maybeNull := func(v *FVal) *FVal {
		if r.Chance(1, 6) {
			return null()
		}
		return v
	}
	u := &fedlab.Universe{}
	var users, prods []*FVal
	for i := 0; i < nu; i++ {
		users = append(users, ref("User", uk(i)))
	}
	for i := 0; i < np; i++ {
		if r.Chance(1, 5) {
			prods = append(prods, nullref())
		}
		prods = append(prods, ref("Product", pk(i)))
	}
	u.Ents = append(u.Ents, &Entity{Type: "Query", Key: "", Fields: []FV{
		{"me", ref("User", uk(r.Pick(nu)))}, {"users", lst(users...)}, {"user", lookup("User", "id")},
		{"topProducts", lst(prods...)}, {"product", lookup("Product", "upc")},
		{"latestReview", ref("Review", rk(r.Pick(nr)))}, {"echo", echo()}, {"media", nil},
	}})
	var media []*FVal
	for i, nm := 0, 2+r.Pick(4); i < nm; i++ {
		if r.Chance(1, 2) {
			k := fmt.Sprintf("bk%d", i)
			media = append(media, ref("Book", k))
			u.Ents = append(u.Ents, &Entity{Type: "Book", Key: k, Fields: []FV{
				{"id", str(k)}, {"title", maybeNull(str("book" + k))}, {"author", ref("User", uk(r.Pick(nu)))}, {"pages", num(100 + i)}}})
		} else {
			k := fmt.Sprintf("mv%d", i)
			media = append(media, ref("Movie", k))
			u.Ents = append(u.Ents, &Entity{Type: "Movie", Key: k, Fields: []FV{
				{"id", str(k)}, {"title", maybeNull(str("movie" + k))}, {"author", ref("User", uk(r.Pick(nu)))}, {"minutes", num(90 + i)}}})
		}
	}
	for i := range u.Ents[0].Fields {
		if u.Ents[0].Fields[i].Name == "media" {
			u.Ents[0].Fields[i].Val = lst(media...)
		}
	}
	revOf := map[string][]*FVal{}
	for i := 0; i < nr; i++ {
		a, p := uk(r.Pick(nu)), pk(r.Pick(np))
		revOf[a] = append(revOf[a], ref("Review", rk(i)))
		revOf[p] = append(revOf[p], ref("Review", rk(i)))
		body := maybeNull(str(fmt.Sprintf("body%d", i)))
		if r.Chance(1, 10) {
			body = &FVal{Kind: fedlab.FErr}
		}
		u.Ents = append(u.Ents, &Entity{Type: "Review", Key: rk(i), Fields: []FV{
			{"id", str(rk(i))}, {"body", body}, {"author", ref("User", a)}, {"product", ref("Product", p)}, {"stars", echo()},
		}})
	}
	for i := 0; i < nu; i++ {
		rv := lst(revOf[uk(i)]...)
		if len(revOf[uk(i)]) == 0 && r.Chance(1, 2) {
			rv = nullref()
		}
		u.Ents = append(u.Ents, &Entity{Type: "User", Key: uk(i), Fields: []FV{
			{"id", str(uk(i))}, {"name", maybeNull(str(fmt.Sprintf("name%d", i)))}, {"greet", echo()}, {"reviews", rv},
		}})
	}
	for i := 0; i < np; i++ {
		u.Ents = append(u.Ents, &Entity{Type: "Product", Key: pk(i), Fields: []FV{
			{"upc", str(pk(i))}, {"title", maybeNull(str(fmt.Sprintf("title%d", i)))}, {"price", maybeNull(num(100 + 7*i))},
			{"reviews", lst(revOf[pk(i)]...)}, {"fmt", echo()},
		}})
	}
	return u
}

// ---------------------------------------------------------------- "emp"
// execution_engine_multi_fetch_test.go: accounts owns the Query roots and Employee.id, products
// extends Employee; a third subgraph (hr) extends Employee as well so that one wave holds entity
// fetches to two subgraphs, and Employee.boss gives a second hop.
func cfgEMP() *fedlab.Config {
	super := &fedlab.Schema{Query: "Query", Types: []*TypeDef{
		{Kind: fedlab.KObject, Name: "Query", Fields: []*FieldDef{
			fd("employees", nonNull(listOf(nonNull(named("Employee"))))),
			fd("topEmployee", named("Employee")),
			fd("employee", named("Employee"), arg("id", nonNull(named("ID")))),
			fd("second", named("Employee")),
		}},
		{Kind: fedlab.KObject, Name: "Employee", Fields: []*FieldDef{
			fd("id", nonNull(named("ID"))),
			fd("products", listOf(nonNull(named("Product")))),
			fd("notes", named("String")),
			fd("note", named("String"), arg("x", named("String")), argd("n", named("Int"), vint(1))),
			fd("salary", named("Int")),
			fd("boss", named("Employee")),
			fd("badge", named("String")),
		}},
		{Kind: fedlab.KObject, Name: "Product", Fields: []*FieldDef{fd("upc", nonNull(named("String"))), fd("label", named("String"))}},
	}}
	return &fedlab.Config{Super: super, Subgraphs: []*Subgraph{
		{Name: "accounts", Types: []*SubType{
			{Name: "Query", Fields: sf("employees", "topEmployee", "employee", "second")},
			{Name: "Employee", Keys: []string{"id"}, Fields: sf("id")},
		}},
		{Name: "products", Types: []*SubType{
			{Name: "Employee", Keys: []string{"id"}, Fields: sf("id", "products", "notes", "note")},
			{Name: "Product", Fields: sf("upc", "label")},
		}},
		{Name: "hr", Types: []*SubType{
			{Name: "Employee", Keys: []string{"id"}, Fields: sf("id", "salary", "boss", "badge")},
		}},
	}}
}

func uniEMP(r *common.Rand) *fedlab.Universe {
	n := 3 + r.Pick(3)
	ek := func(i int) string { return fmt.Sprintf("e%d", i) }
	u := &fedlab.Universe{}
	var all []*FVal
	for i := 0; i < n; i++ {
		all = append(all, ref("Employee", ek(i)))
	}
	u.Ents = append(u.Ents, &Entity{Type: "Query", Key: "", Fields: []FV{
		{"employees", lst(all...)}, {"topEmployee", ref("Employee", ek(r.Pick(n)))},
		{"employee", lookup("Employee", "id")}, {"second", ref("Employee", ek(r.Pick(n)))},
	}})
	np := 0
	for i := 0; i < n; i++ {
		var ps []*FVal
		for k := r.Pick(3); k > 0; k-- {
			key := fmt.Sprintf("pr%d", np)
			np++
			ps = append(ps, ref("Product", key))
			u.Ents = append(u.Ents, &Entity{Type: "Product", Key: key, Fields: []FV{{"upc", str(key)}, {"label", str("l" + key)}}})
		}
		products := lst(ps...)
		if r.Chance(1, 6) {
			products = nullref()
		}
		boss := nullref()
		if i > 0 {
			boss = ref("Employee", ek(r.Pick(i)))
		}
		notes := str(fmt.Sprintf("notes%d", i))
		if r.Chance(1, 6) {
			notes = null()
		}
		u.Ents = append(u.Ents, &Entity{Type: "Employee", Key: ek(i), Fields: []FV{
			{"id", str(ek(i))}, {"products", products}, {"notes", notes}, {"note", echo()},
			{"salary", num(1000 + 10*i)}, {"boss", boss}, {"badge", str("b" + ek(i))},
		}})
	}
	return u
}

// ---------------------------------------------------------------- "abc"
// execution_engine_schedule_fetches_test.go (two independent chains alpha->beta, beta->alpha),
// extended by a third subgraph whose field @requires one field of each of the others: its fetch
// joins two chains (a fetch with two dependencies), and the roots fork.
func cfgABC() *fedlab.Config {
	id := func() *FieldDef { return fd("id", nonNull(named("ID"))) }
	super := &fedlab.Schema{Query: "Query", Types: []*TypeDef{
		{Kind: fedlab.KObject, Name: "Query", Fields: []*FieldDef{
			fd("a", named("A")), fd("aTwo", named("A")), fd("b", named("B")), fd("as", listOf(named("A"))),
			fd("aById", named("A"), arg("id", nonNull(named("ID")))),
		}},
		{Kind: fedlab.KObject, Name: "A", Fields: []*FieldDef{
			id(), fd("bField", named("String")), fd("toB", named("B")), fd("gField", named("String")),
			fd("combo", named("String")), fd("alphaOwn", named("String")),
		}},
		{Kind: fedlab.KObject, Name: "B", Fields: []*FieldDef{
			id(), fd("aField", named("String")), fd("toA", named("A")), fd("gField2", named("String")),
			fd("tag", named("String"), argd("t", named("String"), vstr("z"))),
		}},
	}}
	return &fedlab.Config{Super: super, Subgraphs: []*Subgraph{
		{Name: "alpha", Types: []*SubType{
			{Name: "Query", Fields: sf("a", "aTwo", "as", "aById")},
			{Name: "A", Keys: []string{"id"}, Fields: sf("id", "alphaOwn")},
			{Name: "B", Keys: []string{"id"}, Fields: sf("id", "aField", "toA", "tag")},
		}},
		{Name: "beta", Types: []*SubType{
			{Name: "Query", Fields: sf("b")},
			{Name: "B", Keys: []string{"id"}, Fields: sf("id")},
			{Name: "A", Keys: []string{"id"}, Fields: sf("id", "bField", "toB")},
		}},
		{Name: "gamma", Types: []*SubType{
			{Name: "A", Keys: []string{"id"}, Fields: []*SubField{
				{Name: "id"}, {Name: "gField"},
				{Name: "bField", External: true}, {Name: "alphaOwn", External: true},
				{Name: "combo", Requires: "bField alphaOwn"},
			}},
			{Name: "B", Keys: []string{"id"}, Fields: sf("id", "gField2")},
		}},
	}}
}

func uniABC(r *common.Rand) *fedlab.Universe {
	na, nb := 2+r.Pick(3), 2+r.Pick(3)
	ak := func(i int) string { return fmt.Sprintf("a%d", i) }
	bk := func(i int) string { return fmt.Sprintf("b%d", i) }
	u := &fedlab.Universe{}
	var as []*FVal
	for i := 0; i < na; i++ {
		as = append(as, ref("A", ak(i)))
	}
	u.Ents = append(u.Ents, &Entity{Type: "Query", Key: "", Fields: []FV{
		{"a", ref("A", ak(r.Pick(na)))}, {"aTwo", ref("A", ak(r.Pick(na)))}, {"b", ref("B", bk(r.Pick(nb)))},
		{"as", lst(as...)}, {"aById", lookup("A", "id")},
	}})
	for i := 0; i < na; i++ {
		toB := ref("B", bk(r.Pick(nb)))
		if r.Chance(1, 6) {
			toB = nullref()
		}
		u.Ents = append(u.Ents, &Entity{Type: "A", Key: ak(i), Fields: []FV{
			{"id", str(ak(i))}, {"bField", str("bf" + ak(i))}, {"toB", toB}, {"gField", str("g" + ak(i))},
			{"combo", req("bField", "alphaOwn")}, {"alphaOwn", str("own" + ak(i))},
		}})
	}
	for i := 0; i < nb; i++ {
		toA := ref("A", ak(r.Pick(na)))
		if r.Chance(1, 6) {
			toA = nullref()
		}
		u.Ents = append(u.Ents, &Entity{Type: "B", Key: bk(i), Fields: []FV{
			{"id", str(bk(i))}, {"aField", str("af" + bk(i))}, {"toA", toA}, {"gField2", str("g2" + bk(i))}, {"tag", echo()},
		}})
	}
	return u
}

// ---------------------------------------------------------------- "hop"
// A key translation with TWO equally good intermediate hops: Item.price lives in "pricing" (key
// upc), the root fields in "catalog" (key id); "bridge1" and "bridge2" know both keys.  Which
// bridge the planner takes is a convention (configuration order) -- but it has to be the same one
// every time the operation is planned.
func cfgHOP() *fedlab.Config {
	super := &fedlab.Schema{Query: "Query", Types: []*TypeDef{
		{Kind: fedlab.KObject, Name: "Query", Fields: []*FieldDef{
			fd("item", named("Item")), fd("items", listOf(named("Item"))),
			fd("itemById", named("Item"), arg("id", nonNull(named("ID")))),
		}},
		{Kind: fedlab.KObject, Name: "Item", Fields: []*FieldDef{
			fd("id", nonNull(named("ID"))), fd("upc", nonNull(named("String"))), fd("price", named("Int")),
			fd("label", named("String")), fd("stock", named("String"), argd("unit", named("String"), vstr("pcs"))),
		}},
	}}
	bridge := func(name string) *Subgraph {
		return &Subgraph{Name: name, Types: []*SubType{{Name: "Item", Keys: []string{"id", "upc"}, Fields: sf("id", "upc")}}}
	}
	return &fedlab.Config{Super: super, Subgraphs: []*Subgraph{
		{Name: "catalog", Types: []*SubType{
			{Name: "Query", Fields: sf("item", "items", "itemById")},
			{Name: "Item", Keys: []string{"id"}, Fields: sf("id", "label")},
		}},
		bridge("bridge1"), bridge("bridge2"),
		{Name: "pricing", Types: []*SubType{{Name: "Item", Keys: []string{"upc"}, Fields: sf("upc", "price", "stock")}}},
	}}
}

func uniHOP(r *common.Rand) *fedlab.Universe {
	n := 2 + r.Pick(3)
	ik := func(i int) string { return fmt.Sprintf("i%d", i) }
	u := &fedlab.Universe{}
	var all []*FVal
	for i := 0; i < n; i++ {
		all = append(all, ref("Item", ik(i)))
	}
	u.Ents = append(u.Ents, &Entity{Type: "Query", Key: "", Fields: []FV{
		{"item", ref("Item", ik(r.Pick(n)))}, {"items", lst(all...)}, {"itemById", lookup("Item", "id")},
	}})
	for i := 0; i < n; i++ {
		price := num(10 + 3*i)
		if r.Chance(1, 6) {
			price = null()
		}
		u.Ents = append(u.Ents, &Entity{Type: "Item", Key: ik(i), Fields: []FV{
			{"id", str(ik(i))}, {"upc", str("upc-" + ik(i))}, {"price", price}, {"label", str("l" + ik(i))}, {"stock", echo()},
		}})
	}
	return u
}

// AllFixed lists the fixed configurations.
func AllFixed() []*Fixed {
	return []*Fixed{
		{Name: "arp", Config: cfgARP(), Universe: uniARP},
		{Name: "emp", Config: cfgEMP(), Universe: uniEMP},
		{Name: "abc", Config: cfgABC(), Universe: uniABC},
		{Name: "hop", Config: cfgHOP(), Universe: uniHOP},
	}
}

func FixedByName(n string) *Fixed {
	for _, f := range AllFixed() {
		if f.Name == n {
			return f
		}
	}
	var seed uint64
	var idx int
	if k, _ := fmt.Sscanf(n, "gen-%d-%d", &seed, &idx); k == 2 {
		return Generated(seed, idx)
	}
	for _, fam := range Families {
		if k, _ := fmt.Sscanf(n, fam+"-%d-%d", &seed, &idx); k == 2 {
			return Family(fam, seed, idx)
		}
	}
	return nil
}

// Generated: a configuration of the shared federation generator (harness/fedlab), named so that it
// can be rebuilt from its name: gen-<seed>-<index>.
func Generated(seed uint64, idx int) *Fixed {
	k := fedlab.KnobsFor(seed, idx, fedlab.KnobsAll())
	cfg := fedlab.BuildConfig(seed, idx, k)
	return &Fixed{
		Name:   fmt.Sprintf("gen-%d-%d", seed, idx),
		Config: cfg,
		Universe: func(r *common.Rand) *fedlab.Universe {
			return fedlab.GenUniverse(r, k, cfg)
		},
	}
}
