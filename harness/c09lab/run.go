package c09lab

import (
	"sort"
	"strings"

	"github.com/wundergraph/graphql-go-tools/v2/pkg/ast"
	"github.com/wundergraph/graphql-go-tools/v2/pkg/astparser"
	"github.com/wundergraph/graphql-go-tools/v2/pkg/astprinter"
	"github.com/wundergraph/graphql-go-tools/v2/pkg/engine/plan"

	"gvh/fedlab"
)

// ReqObs is one subgraph request, projected: subgraph, the operation after parsing and
// re-printing (white space normalised), the variables object.
type ReqObs struct {
	Sub   string
	Query string
	Vars  string
}

func (r ReqObs) Key() string { return r.Sub + "|" + r.Query + "|" + r.Vars }

// Obs is what one request through one engine shows.
type Obs struct {
	Err      string // Execute returned an error (validation / planning)
	Response *fedlab.J
	Data     *fedlab.J
	Errors   *fedlab.J
	Raw      string
	Reqs     []ReqObs // in arrival order
	Pairs    []string // sorted set of fetched (subgraph, entity, field path) tuples
	CacheHit bool
	NewPlan  plan.Plan // the plan that was added to the cache by this request (nil on a hit)
	SubFail  int       // subgraph requests that failed to parse / execute in the reference executor
}

func canonQuery(q string) string {
	doc, rep := astparser.ParseGraphqlDocumentString(q)
	if rep.HasErrors() {
		return "UNPARSABLE:" + q
	}
	s, err := astprinter.PrintString(&doc)
	if err != nil {
		return "UNPRINTABLE:" + q
	}
	return s
}

// Run sends one spelled request through the lab's engine.
func Run(lab *fedlab.Lab, sp *Spelled) *Obs { return runHook(lab, sp, nil) }

func runHook(lab *fedlab.Lab, sp *Spelled, hook fedlab.Hook) *Obs {
	cache := PlanCache(lab.Engine)
	before := map[any]bool{}
	for _, k := range cache.Keys() {
		before[k] = true
	}
	res := lab.Run(sp.Text, []byte(sp.Variables), &fedlab.RunOptions{OperationName: sp.OpName, BeforeRespond: hook})
	o := &Obs{Raw: string(res.Response), Data: res.Data, Errors: res.Errors}
	if res.Err != nil {
		o.Err = res.Err.Error()
	}
	if len(res.Response) > 0 {
		o.Response, _ = fedlab.ParseJSON(res.Response)
	}
	o.CacheHit = true
	for _, k := range cache.Keys() {
		if !before[k] {
			o.CacheHit = false
			if v, ok := cache.Peek(k); ok {
				if p, ok := v.(plan.Plan); ok {
					o.NewPlan = p
				}
			}
		}
	}
	if o.Err != "" {
		o.CacheHit = false
	}
	pairs := map[string]bool{}
	for _, q := range res.Requests {
		vars := "null"
		if q.Variables != nil {
			vars = q.Variables.String()
		}
		o.Reqs = append(o.Reqs, ReqObs{Sub: q.Subgraph, Query: canonQuery(q.Query), Vars: vars})
		if q.ParseError != "" || q.ExecError != "" {
			o.SubFail++
		}
		for _, p := range FetchedPairs(lab.Config, q) {
			pairs[p] = true
		}
	}
	for p := range pairs {
		o.Pairs = append(o.Pairs, p)
	}
	sort.Strings(o.Pairs)
	return o
}

// SortedReqKeys: the SET of distinct requests as a sorted list.  (Identical subgraph requests
// that are in flight at the same time are coalesced by the loader's single-flight -- property
// C11 --, so how many copies of one request arrive depends on timing; which requests arrive
// does not.)
func (o *Obs) SortedReqKeys() []string {
	seen := map[string]bool{}
	var out []string
	for _, r := range o.Reqs {
		k := r.Key()
		if !seen[k] {
			seen[k] = true
			out = append(out, k)
		}
	}
	sort.Strings(out)
	return out
}

// ---------------------------------------------------------------- fetched (entity, field) pairs

func canonJSON(j *fedlab.J) string {
	if j == nil {
		return "null"
	}
	switch j.Kind {
	case fedlab.JArr:
		parts := make([]string, len(j.Items))
		for i, x := range j.Items {
			parts[i] = canonJSON(x)
		}
		return "[" + strings.Join(parts, ",") + "]"
	case fedlab.JObj:
		ms := append([]fedlab.Member(nil), j.Members...)
		sort.SliceStable(ms, func(a, b int) bool { return ms[a].Key < ms[b].Key })
		parts := make([]string, len(ms))
		for i, m := range ms {
			parts[i] = fedlab.JS(m.Key).String() + ":" + canonJSON(m.Val)
		}
		return "{" + strings.Join(parts, ",") + "}"
	}
	return j.String()
}

type pairWalker struct {
	cfg  *fedlab.Config
	doc  *ast.Document
	vars *fedlab.J
	out  []string
}

// valueCanon renders an argument value with variables replaced by their values.
func (w *pairWalker) valueCanon(v ast.Value) string {
	switch v.Kind {
	case ast.ValueKindVariable:
		name := w.doc.VariableValueNameString(v.Ref)
		if w.vars != nil {
			if x := w.vars.Get(name); x != nil {
				return canonJSON(x)
			}
		}
		return "undefined"
	case ast.ValueKindList:
		var parts []string
		for _, r := range w.doc.ListValues[v.Ref].Refs {
			parts = append(parts, w.valueCanon(w.doc.Values[r]))
		}
		return "[" + strings.Join(parts, ",") + "]"
	case ast.ValueKindObject:
		type kv struct{ k, v string }
		var items []kv
		for _, r := range w.doc.ObjectValues[v.Ref].Refs {
			f := w.doc.ObjectFields[r]
			items = append(items, kv{w.doc.Input.ByteSliceString(f.Name), w.valueCanon(f.Value)})
		}
		sort.SliceStable(items, func(a, b int) bool { return items[a].k < items[b].k })
		var parts []string
		for _, x := range items {
			parts = append(parts, fedlab.JS(x.k).String()+":"+x.v)
		}
		return "{" + strings.Join(parts, ",") + "}"
	case ast.ValueKindString:
		return fedlab.JS(w.doc.StringValueContentString(v.Ref)).String()
	case ast.ValueKindEnum:
		return fedlab.JS(w.doc.EnumValueNameString(v.Ref)).String()
	case ast.ValueKindNull:
		return "null"
	case ast.ValueKindBoolean:
		if bool(w.doc.BooleanValues[v.Ref]) {
			return "true"
		}
		return "false"
	case ast.ValueKindInteger:
		s := w.doc.IntValueRaw(v.Ref)
		if w.doc.IntValues[v.Ref].Negative {
			return "-" + string(s)
		}
		return string(s)
	case ast.ValueKindFloat:
		s := w.doc.FloatValueRaw(v.Ref)
		if w.doc.FloatValues[v.Ref].Negative {
			return "-" + string(s)
		}
		return string(s)
	}
	return "?"
}

func (w *pairWalker) included(dirRefs []int) bool {
	for _, d := range dirRefs {
		name := w.doc.DirectiveNameString(d)
		if name != "skip" && name != "include" {
			continue
		}
		v, ok := w.doc.DirectiveArgumentValueByName(d, []byte("if"))
		if !ok {
			continue
		}
		val := w.valueCanon(v)
		if name == "skip" && val == "true" {
			return false
		}
		if name == "include" && val == "false" {
			return false
		}
	}
	return true
}

func (w *pairWalker) fieldLabel(ref int) string {
	name := w.doc.FieldNameString(ref)
	if !w.doc.FieldHasArguments(ref) {
		return name
	}
	type kv struct{ k, v string }
	var items []kv
	for _, a := range w.doc.FieldArguments(ref) {
		items = append(items, kv{w.doc.ArgumentNameString(a), w.valueCanon(w.doc.ArgumentValue(a))})
	}
	sort.SliceStable(items, func(a, b int) bool { return items[a].k < items[b].k })
	var parts []string
	for _, x := range items {
		parts = append(parts, x.k+":"+x.v)
	}
	return name + "(" + strings.Join(parts, ",") + ")"
}

func (w *pairWalker) typeApplies(objType, cond string) bool {
	if cond == "" || cond == objType || objType == "" {
		return true
	}
	for _, pt := range w.cfg.Super.PossibleTypes(cond) {
		if pt == objType {
			return true
		}
	}
	return false
}

// leaves collects the leaf paths of a selection set applied to an object whose static type is
// staticType and whose runtime type is runtimeType ("" = not known from the request alone).  A
// type condition that only repeats the static type adds nothing to the path (the minifier moves
// selection sets into fragments on the static type).
func (w *pairWalker) leaves(setRef int, staticType, runtimeType string, prefix string, emit func(path string)) {
	cur := runtimeType
	if cur == "" {
		cur = staticType
	}
	frag := func(cond string, set int) {
		if runtimeType != "" {
			if w.typeApplies(runtimeType, cond) {
				w.leaves(set, staticType, runtimeType, prefix, emit)
			}
			return
		}
		if cond == "" || cond == staticType {
			w.leaves(set, staticType, "", prefix, emit)
			return
		}
		w.leaves(set, cond, "", prefix+"/on:"+cond, emit)
	}
	for _, sref := range w.doc.SelectionSets[setRef].SelectionRefs {
		sel := w.doc.Selections[sref]
		switch sel.Kind {
		case ast.SelectionKindField:
			f := sel.Ref
			if w.doc.FieldHasDirectives(f) && !w.included(w.doc.Fields[f].Directives.Refs) {
				continue
			}
			label := prefix + "/" + w.fieldLabel(f)
			if w.doc.FieldHasSelections(f) {
				sub := ""
				if td := w.cfg.Super.Type(cur); td != nil {
					if fd := td.Field(w.doc.FieldNameString(f)); fd != nil {
						sub = fd.Type.Base()
					}
				}
				w.leaves(w.doc.Fields[f].SelectionSet, sub, "", label, emit)
			} else {
				emit(label)
			}
		case ast.SelectionKindInlineFragment:
			fr := sel.Ref
			if w.doc.InlineFragmentHasDirectives(fr) && !w.included(w.doc.InlineFragments[fr].Directives.Refs) {
				continue
			}
			cond := ""
			if w.doc.InlineFragmentHasTypeCondition(fr) {
				cond = w.doc.InlineFragmentTypeConditionNameString(fr)
			}
			frag(cond, w.doc.InlineFragments[fr].SelectionSet)
		case ast.SelectionKindFragmentSpread:
			name := w.doc.FragmentSpreadNameBytes(sel.Ref)
			if w.doc.FragmentSpreadHasDirectives(sel.Ref) && !w.included(w.doc.FragmentSpreads[sel.Ref].Directives.Refs) {
				continue
			}
			fd, ok := w.doc.FragmentDefinitionRef(name)
			if !ok {
				continue
			}
			frag(w.doc.FragmentDefinitionTypeNameString(fd), w.doc.FragmentDefinitions[fd].SelectionSet)
		}
	}
}

// FetchedPairs lists "subgraph|entity|field path" for every leaf a request selects: entity is
// "root" or the canonical JSON of the representation the selection is applied to.
func FetchedPairs(cfg *fedlab.Config, q *fedlab.Request) []string {
	doc, rep := astparser.ParseGraphqlDocumentString(q.Query)
	if rep.HasErrors() {
		return []string{q.Subgraph + "|unparsable|" + q.Query}
	}
	w := &pairWalker{cfg: cfg, doc: &doc, vars: q.Variables}
	var out []string
	for _, rn := range doc.RootNodes {
		if rn.Kind != ast.NodeKindOperationDefinition {
			continue
		}
		op := doc.OperationDefinitions[rn.Ref]
		if !op.HasSelections {
			continue
		}
		var rootSels func(setRef int)
		rootSels = func(setRef int) {
			for _, sref := range doc.SelectionSets[setRef].SelectionRefs {
				sel := doc.Selections[sref]
				switch sel.Kind {
				case ast.SelectionKindInlineFragment:
					rootSels(doc.InlineFragments[sel.Ref].SelectionSet)
					continue
				case ast.SelectionKindFragmentSpread:
					if fd, ok := doc.FragmentDefinitionRef(doc.FragmentSpreadNameBytes(sel.Ref)); ok {
						rootSels(doc.FragmentDefinitions[fd].SelectionSet)
					}
					continue
				}
				f := sel.Ref
				if doc.FieldHasDirectives(f) && !w.included(doc.Fields[f].Directives.Refs) {
					continue
				}
				if doc.FieldNameString(f) == "_entities" && doc.FieldHasSelections(f) {
					v, ok := doc.FieldArgument(f, []byte("representations"))
					if !ok {
						continue
					}
					val := doc.ArgumentValue(v)
					var reps []*fedlab.J
					if val.Kind == ast.ValueKindVariable && q.Variables != nil {
						if x := q.Variables.Get(doc.VariableValueNameString(val.Ref)); x != nil && x.Kind == fedlab.JArr {
							reps = x.Items
						}
					}
					for _, r := range reps {
						tn := ""
						if t := r.Get("__typename"); t != nil {
							tn = t.Raw
						}
						ent := canonJSON(r)
						w.leaves(doc.Fields[f].SelectionSet, "_Entity", tn, "", func(p string) {
							out = append(out, q.Subgraph+"|"+ent+"|"+p)
						})
					}
					continue
				}
				label := "/" + w.fieldLabel(f)
				if doc.FieldHasSelections(f) {
					sub := ""
					if td := cfg.Super.Type(cfg.Super.Query); td != nil {
						if fd := td.Field(doc.FieldNameString(f)); fd != nil {
							sub = fd.Type.Base()
						}
					}
					w.leaves(doc.Fields[f].SelectionSet, sub, "", label, func(p string) {
						out = append(out, q.Subgraph+"|root|"+p)
					})
				} else {
					out = append(out, q.Subgraph+"|root|"+label)
				}
			}
		}
		rootSels(op.SelectionSet)
	}
	return out
}

// ---------------------------------------------------------------- fragment-free canonical form

// ExpandQuery prints the operation of a (subgraph) query with every fragment spread replaced by an
// inline fragment on the fragment's type and no fragment definitions: two minified forms of one
// operation that differ only in how fragments are named and ordered expand to the same text.
func ExpandQuery(q string) string {
	doc, rep := astparser.ParseGraphqlDocumentString(q)
	if rep.HasErrors() {
		return "UNPARSABLE:" + q
	}
	var sb strings.Builder
	var sels func(setRef int)
	dirs := func(refs []int) {
		for _, d := range refs {
			sb.WriteString(" ")
			doc.PrintDirective(d, &sb)
		}
	}
	sels = func(setRef int) {
		sb.WriteString("{")
		for i, sref := range doc.SelectionSets[setRef].SelectionRefs {
			if i > 0 {
				sb.WriteString(" ")
			}
			sel := doc.Selections[sref]
			switch sel.Kind {
			case ast.SelectionKindField:
				f := sel.Ref
				if doc.FieldAliasIsDefined(f) {
					sb.WriteString(doc.FieldAliasString(f) + ": ")
				}
				sb.WriteString(doc.FieldNameString(f))
				if doc.FieldHasArguments(f) {
					sb.WriteString("(")
					doc.PrintArguments(doc.FieldArguments(f), &sb)
					sb.WriteString(")")
				}
				if doc.FieldHasDirectives(f) {
					dirs(doc.Fields[f].Directives.Refs)
				}
				if doc.FieldHasSelections(f) {
					sb.WriteString(" ")
					sels(doc.Fields[f].SelectionSet)
				}
			case ast.SelectionKindInlineFragment:
				fr := sel.Ref
				sb.WriteString("...")
				if doc.InlineFragmentHasTypeCondition(fr) {
					sb.WriteString(" on " + doc.InlineFragmentTypeConditionNameString(fr))
				}
				if doc.InlineFragmentHasDirectives(fr) {
					dirs(doc.InlineFragments[fr].Directives.Refs)
				}
				sb.WriteString(" ")
				sels(doc.InlineFragments[fr].SelectionSet)
			case ast.SelectionKindFragmentSpread:
				name := doc.FragmentSpreadNameBytes(sel.Ref)
				fd, ok := doc.FragmentDefinitionRef(name)
				if !ok {
					sb.WriteString("...UNDEFINED")
					continue
				}
				sb.WriteString("... on " + doc.FragmentDefinitionTypeNameString(fd))
				if doc.FragmentSpreadHasDirectives(sel.Ref) {
					dirs(doc.FragmentSpreads[sel.Ref].Directives.Refs)
				}
				sb.WriteString(" ")
				sels(doc.FragmentDefinitions[fd].SelectionSet)
			}
		}
		sb.WriteString("}")
	}
	for _, rn := range doc.RootNodes {
		if rn.Kind != ast.NodeKindOperationDefinition {
			continue
		}
		op := doc.OperationDefinitions[rn.Ref]
		sb.WriteString(op.OperationType.Name())
		if op.HasVariableDefinitions {
			sb.WriteString("(")
			for i, v := range op.VariableDefinitions.Refs {
				if i > 0 {
					sb.WriteString(", ")
				}
				sb.WriteString("$" + doc.VariableValueNameString(doc.VariableDefinitions[v].VariableValue.Ref) + ": ")
				doc.PrintType(doc.VariableDefinitions[v].Type, &sb)
			}
			sb.WriteString(")")
		}
		if op.HasSelections {
			sels(op.SelectionSet)
		}
	}
	return sb.String()
}

// SortedExpandedReqKeys: like SortedReqKeys with fragment-free queries.
func (o *Obs) SortedExpandedReqKeys() []string {
	seen := map[string]bool{}
	var out []string
	for _, r := range o.Reqs {
		k := r.Sub + "|" + ExpandQuery(r.Query) + "|" + r.Vars
		if !seen[k] {
			seen[k] = true
			out = append(out, k)
		}
	}
	sort.Strings(out)
	return out
}
