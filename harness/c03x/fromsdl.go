package c03x

import (
	"fmt"

	"github.com/wundergraph/graphql-go-tools/v2/pkg/ast"
	"github.com/wundergraph/graphql-go-tools/v2/pkg/astparser"
)

// SchemaFromSDL reads hand-written SDL (corpus cases) into the harness' schema form.
func SchemaFromSDL(sdl string) (*Schema, error) {
	doc, rep := astparser.ParseGraphqlDocumentString(sdl)
	if rep.HasErrors() {
		return nil, fmt.Errorf("%s", rep.Error())
	}
	d := &doc
	var ty func(ref int) *Ty
	ty = func(ref int) *Ty {
		t := d.Types[ref]
		switch t.TypeKind {
		case ast.TypeKindList:
			return List(ty(t.OfType))
		case ast.TypeKindNonNull:
			return NN(ty(t.OfType))
		}
		return Named(string(d.Input.ByteSlice(t.Name)))
	}
	var val func(v ast.Value) *Val
	val = func(v ast.Value) *Val {
		switch v.Kind {
		case ast.ValueKindInteger:
			s := string(d.IntValueRaw(v.Ref))
			if d.IntValueIsNegative(v.Ref) {
				s = "-" + s
			}
			return &Val{K: "int", S: s}
		case ast.ValueKindFloat:
			s := string(d.FloatValueRaw(v.Ref))
			if d.FloatValueIsNegative(v.Ref) {
				s = "-" + s
			}
			return &Val{K: "float", S: s}
		case ast.ValueKindString:
			return &Val{K: "str", S: string(d.StringValueContentBytes(v.Ref))}
		case ast.ValueKindBoolean:
			return &Val{K: "bool", B: bool(d.BooleanValues[v.Ref])}
		case ast.ValueKindEnum:
			return &Val{K: "enum", S: string(d.EnumValueNameBytes(v.Ref))}
		case ast.ValueKindList:
			out := &Val{K: "list"}
			for _, r := range d.ListValues[v.Ref].Refs {
				out.L = append(out.L, val(d.Values[r]))
			}
			return out
		case ast.ValueKindObject:
			out := &Val{K: "obj"}
			for _, r := range d.ObjectValues[v.Ref].Refs {
				out.O = append(out.O, VKV{string(d.ObjectFieldNameBytes(r)), val(d.ObjectFields[r].Value)})
			}
			return out
		}
		return &Val{K: "null"}
	}
	ivs := func(has bool, refs []int) []IV {
		var out []IV
		if !has {
			return nil
		}
		for _, r := range refs {
			iv := d.InputValueDefinitions[r]
			x := IV{Name: string(d.Input.ByteSlice(iv.Name)), T: ty(iv.Type)}
			if iv.DefaultValue.IsDefined {
				x.Def = val(iv.DefaultValue.Value)
			}
			out = append(out, x)
		}
		return out
	}
	fds := func(has bool, refs []int) []FD {
		var out []FD
		if !has {
			return nil
		}
		for _, r := range refs {
			f := d.FieldDefinitions[r]
			out = append(out, FD{Name: string(d.Input.ByteSlice(f.Name)), Args: ivs(f.HasArgumentsDefinitions, f.ArgumentsDefinition.Refs), T: ty(f.Type)})
		}
		return out
	}
	tnames := func(refs []int) []string {
		var out []string
		for _, r := range refs {
			out = append(out, string(d.Input.ByteSlice(d.Types[r].Name)))
		}
		return out
	}
	s := &Schema{}
	for _, n := range d.RootNodes {
		switch n.Kind {
		case ast.NodeKindObjectTypeDefinition:
			o := d.ObjectTypeDefinitions[n.Ref]
			s.Types = append(s.Types, &TD{Kind: "object", Name: string(d.Input.ByteSlice(o.Name)), Impl: tnames(o.ImplementsInterfaces.Refs), Fields: fds(o.HasFieldDefinitions, o.FieldsDefinition.Refs)})
		case ast.NodeKindInterfaceTypeDefinition:
			o := d.InterfaceTypeDefinitions[n.Ref]
			s.Types = append(s.Types, &TD{Kind: "interface", Name: string(d.Input.ByteSlice(o.Name)), Impl: tnames(o.ImplementsInterfaces.Refs), Fields: fds(o.HasFieldDefinitions, o.FieldsDefinition.Refs)})
		case ast.NodeKindUnionTypeDefinition:
			o := d.UnionTypeDefinitions[n.Ref]
			s.Types = append(s.Types, &TD{Kind: "union", Name: string(d.Input.ByteSlice(o.Name)), Members: tnames(o.UnionMemberTypes.Refs)})
		case ast.NodeKindEnumTypeDefinition:
			o := d.EnumTypeDefinitions[n.Ref]
			t := &TD{Kind: "enum", Name: string(d.Input.ByteSlice(o.Name))}
			for _, r := range o.EnumValuesDefinition.Refs {
				t.Values = append(t.Values, string(d.Input.ByteSlice(d.EnumValueDefinitions[r].EnumValue)))
			}
			s.Types = append(s.Types, t)
		case ast.NodeKindInputObjectTypeDefinition:
			o := d.InputObjectTypeDefinitions[n.Ref]
			s.Types = append(s.Types, &TD{Kind: "input", Name: string(d.Input.ByteSlice(o.Name)), Inputs: ivs(o.HasInputFieldsDefinition, o.InputFieldsDefinition.Refs)})
		case ast.NodeKindScalarTypeDefinition:
			o := d.ScalarTypeDefinitions[n.Ref]
			s.Types = append(s.Types, &TD{Kind: "scalar", Name: string(d.Input.ByteSlice(o.Name))})
		}
	}
	return s, nil
}
