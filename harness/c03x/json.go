package c03x

import (
	"fmt"
	"sort"
	"strconv"
	"strings"
	"unicode/utf8"

	"gvh/common"
)

// J is a JSON tree that keeps object member order and the raw text of numbers (the shape of
// coq/lib/Json.v).
type J struct {
	K byte // 'n' null, 't' true, 'f' false, '#' number, 's' string, 'a' array, 'o' object
	S string
	A []*J
	O []JKV
}
type JKV struct {
	K string
	V *J
}

func JNull() *J          { return &J{K: 'n'} }
func JBool(b bool) *J    { return &J{K: map[bool]byte{true: 't', false: 'f'}[b]} }
func JNum(raw string) *J { return &J{K: '#', S: raw} }
func JStr(s string) *J   { return &J{K: 's', S: s} }
func JArr(a ...*J) *J    { return &J{K: 'a', A: a} }
func JObj(o ...JKV) *J   { return &J{K: 'o', O: o} }
func (j *J) Get(k string) *J {
	for _, kv := range j.O {
		if kv.K == k {
			return kv.V
		}
	}
	return nil
}

func jsonString(s string) string {
	var sb strings.Builder
	sb.WriteByte('"')
	for i := 0; i < len(s); i++ {
		c := s[i]
		switch {
		case c == '"':
			sb.WriteString(`\"`)
		case c == '\\':
			sb.WriteString(`\\`)
		case c < 0x20:
			fmt.Fprintf(&sb, `\u%04x`, c)
		default:
			sb.WriteByte(c)
		}
	}
	sb.WriteByte('"')
	return sb.String()
}

// Text renders compact JSON text.
func (j *J) Text() string {
	switch j.K {
	case 'n':
		return "null"
	case 't':
		return "true"
	case 'f':
		return "false"
	case '#':
		return j.S
	case 's':
		return jsonString(j.S)
	case 'a':
		p := make([]string, len(j.A))
		for i, x := range j.A {
			p[i] = x.Text()
		}
		return "[" + strings.Join(p, ",") + "]"
	case 'o':
		p := make([]string, len(j.O))
		for i, kv := range j.O {
			p[i] = jsonString(kv.K) + ":" + kv.V.Text()
		}
		return "{" + strings.Join(p, ",") + "}"
	}
	return "null"
}

// Sexp renders the FEDLAB.md form.
func (j *J) Sexp() string {
	switch j.K {
	case 'n':
		return "(n)"
	case 't':
		return "(t)"
	case 'f':
		return "(f)"
	case '#':
		return "(num " + common.QS(j.S) + ")"
	case 's':
		return "(s " + common.QS(j.S) + ")"
	case 'a':
		p := []string{"a"}
		for _, x := range j.A {
			p = append(p, x.Sexp())
		}
		return "(" + strings.Join(p, " ") + ")"
	case 'o':
		p := []string{"o"}
		for _, kv := range j.O {
			p = append(p, "("+common.QS(kv.K)+" "+kv.V.Sexp()+")")
		}
		return "(" + strings.Join(p, " ") + ")"
	}
	return "(n)"
}

// SortedTop returns a copy whose top-level members are sorted by key (used where the
// implementation's member order is an artefact, e.g. the order variables were extracted in).
func (j *J) SortedTop() *J {
	if j.K != 'o' {
		return j
	}
	o := append([]JKV(nil), j.O...)
	sort.SliceStable(o, func(a, b int) bool { return o[a].K < o[b].K })
	return &J{K: 'o', O: o}
}

type jparser struct {
	s   []byte
	pos int
}

// ParseJSON parses JSON text (RFC 8259) keeping member order, duplicate members and raw numbers.
func ParseJSON(b []byte) (*J, error) {
	p := &jparser{s: b}
	p.ws()
	v, err := p.value()
	if err != nil {
		return nil, err
	}
	p.ws()
	if p.pos != len(p.s) {
		return nil, fmt.Errorf("trailing data at %d", p.pos)
	}
	return v, nil
}

func (p *jparser) ws() {
	for p.pos < len(p.s) && (p.s[p.pos] == ' ' || p.s[p.pos] == '\t' || p.s[p.pos] == '\n' || p.s[p.pos] == '\r') {
		p.pos++
	}
}

func (p *jparser) lit(w string, j *J) (*J, error) {
	if strings.HasPrefix(string(p.s[p.pos:]), w) {
		p.pos += len(w)
		return j, nil
	}
	return nil, fmt.Errorf("bad literal at %d", p.pos)
}

func (p *jparser) value() (*J, error) {
	if p.pos >= len(p.s) {
		return nil, fmt.Errorf("eof")
	}
	switch c := p.s[p.pos]; {
	case c == 'n':
		return p.lit("null", JNull())
	case c == 't':
		return p.lit("true", JBool(true))
	case c == 'f':
		return p.lit("false", JBool(false))
	case c == '"':
		s, err := p.str()
		if err != nil {
			return nil, err
		}
		return JStr(s), nil
	case c == '[':
		p.pos++
		out := &J{K: 'a'}
		p.ws()
		if p.pos < len(p.s) && p.s[p.pos] == ']' {
			p.pos++
			return out, nil
		}
		for {
			p.ws()
			v, err := p.value()
			if err != nil {
				return nil, err
			}
			out.A = append(out.A, v)
			p.ws()
			if p.pos >= len(p.s) {
				return nil, fmt.Errorf("eof in array")
			}
			if p.s[p.pos] == ',' {
				p.pos++
				continue
			}
			if p.s[p.pos] == ']' {
				p.pos++
				return out, nil
			}
			return nil, fmt.Errorf("bad array at %d", p.pos)
		}
	case c == '{':
		p.pos++
		out := &J{K: 'o'}
		p.ws()
		if p.pos < len(p.s) && p.s[p.pos] == '}' {
			p.pos++
			return out, nil
		}
		for {
			p.ws()
			if p.pos >= len(p.s) || p.s[p.pos] != '"' {
				return nil, fmt.Errorf("bad member at %d", p.pos)
			}
			k, err := p.str()
			if err != nil {
				return nil, err
			}
			p.ws()
			if p.pos >= len(p.s) || p.s[p.pos] != ':' {
				return nil, fmt.Errorf("missing colon at %d", p.pos)
			}
			p.pos++
			p.ws()
			v, err := p.value()
			if err != nil {
				return nil, err
			}
			out.O = append(out.O, JKV{k, v})
			p.ws()
			if p.pos >= len(p.s) {
				return nil, fmt.Errorf("eof in object")
			}
			if p.s[p.pos] == ',' {
				p.pos++
				continue
			}
			if p.s[p.pos] == '}' {
				p.pos++
				return out, nil
			}
			return nil, fmt.Errorf("bad object at %d", p.pos)
		}
	case c == '-' || (c >= '0' && c <= '9'):
		st := p.pos
		for p.pos < len(p.s) && strings.IndexByte("+-0123456789.eE", p.s[p.pos]) >= 0 {
			p.pos++
		}
		return JNum(string(p.s[st:p.pos])), nil
	}
	return nil, fmt.Errorf("unexpected byte %q at %d", p.s[p.pos], p.pos)
}

func (p *jparser) str() (string, error) {
	p.pos++ // opening quote
	var sb strings.Builder
	for p.pos < len(p.s) {
		c := p.s[p.pos]
		switch {
		case c == '"':
			p.pos++
			return sb.String(), nil
		case c == '\\':
			if p.pos+1 >= len(p.s) {
				return "", fmt.Errorf("bad escape")
			}
			e := p.s[p.pos+1]
			p.pos += 2
			switch e {
			case '"', '\\', '/':
				sb.WriteByte(e)
			case 'b':
				sb.WriteByte(8)
			case 'f':
				sb.WriteByte(12)
			case 'n':
				sb.WriteByte(10)
			case 'r':
				sb.WriteByte(13)
			case 't':
				sb.WriteByte(9)
			case 'u':
				if p.pos+4 > len(p.s) {
					return "", fmt.Errorf("bad \\u")
				}
				n, err := strconv.ParseUint(string(p.s[p.pos:p.pos+4]), 16, 32)
				if err != nil {
					return "", err
				}
				p.pos += 4
				var buf [4]byte
				k := utf8.EncodeRune(buf[:], rune(n))
				sb.Write(buf[:k])
			default:
				return "", fmt.Errorf("bad escape %q", e)
			}
		default:
			sb.WriteByte(c)
			p.pos++
		}
	}
	return "", fmt.Errorf("eof in string")
}
