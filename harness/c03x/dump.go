package c03x

import (
	"strings"

	"gvh/common"

	"github.com/wundergraph/graphql-go-tools/v2/pkg/ast"
)

// DumpDocument renders an executable ast.Document in the FEDLAB.md tree form
//
//	(doc (op kind name|(none) (vardefs (vd ..)..) (dirs ..) (sels ..)) (frag "n" "T" (dirs) (sels)) ..)
//
// Root nodes whose kind was set to NodeKindUnknown (removed fragment / operation definitions) are
// left out, exactly as the printer and the walker leave them out.
func DumpDocument(doc *ast.Document) string {
	x := &dumper{d: doc}
	x.w("(doc")
	for _, n := range doc.RootNodes {
		switch n.Kind {
		case ast.NodeKindOperationDefinition:
			x.w(" ")
			x.op(n.Ref)
		case ast.NodeKindFragmentDefinition:
			x.w(" ")
			x.frag(n.Ref)
		}
	}
	x.w(")")
	return x.sb.String()
}

type dumper struct {
	d  *ast.Document
	sb strings.Builder
}

func (x *dumper) w(s string) { x.sb.WriteString(s) }
func (x *dumper) ref(r ast.ByteSliceReference) {
	x.w(common.Q(x.d.Input.ByteSlice(r)))
}

func (x *dumper) typ(ref int) {
	if ref < 0 || ref >= len(x.d.Types) {
		x.w("(badtype)")
		return
	}
	t := x.d.Types[ref]
	switch t.TypeKind {
	case ast.TypeKindNamed:
		x.w("(named ")
		x.ref(t.Name)
		x.w(")")
	case ast.TypeKindList:
		x.w("(list ")
		x.typ(t.OfType)
		x.w(")")
	case ast.TypeKindNonNull:
		x.w("(nn ")
		x.typ(t.OfType)
		x.w(")")
	default:
		x.w("(badtype)")
	}
}

func (x *dumper) signed(neg bool, raw ast.ByteSliceReference) {
	b := x.d.Input.ByteSlice(raw)
	if neg {
		b = append([]byte{'-'}, b...)
	}
	x.w(common.Q(b))
}

func (x *dumper) value(v ast.Value) {
	d := x.d
	switch v.Kind {
	case ast.ValueKindVariable:
		x.w("(var ")
		x.ref(d.VariableValues[v.Ref].Name)
		x.w(")")
	case ast.ValueKindInteger:
		x.w("(int ")
		x.signed(d.IntValues[v.Ref].Negative, d.IntValues[v.Ref].Raw)
		x.w(")")
	case ast.ValueKindFloat:
		x.w("(float ")
		x.signed(d.FloatValues[v.Ref].Negative, d.FloatValues[v.Ref].Raw)
		x.w(")")
	case ast.ValueKindString:
		sv := d.StringValues[v.Ref]
		x.w("(str ")
		x.ref(sv.Content)
		x.w(" " + common.B(sv.BlockString) + ")")
	case ast.ValueKindBoolean:
		x.w("(bool " + common.B(bool(d.BooleanValues[v.Ref])) + ")")
	case ast.ValueKindNull:
		x.w("(null)")
	case ast.ValueKindEnum:
		x.w("(enum ")
		x.ref(d.EnumValues[v.Ref].Name)
		x.w(")")
	case ast.ValueKindList:
		x.w("(list")
		for _, r := range d.ListValues[v.Ref].Refs {
			x.w(" ")
			x.value(d.Values[r])
		}
		x.w(")")
	case ast.ValueKindObject:
		x.w("(obj")
		for _, r := range d.ObjectValues[v.Ref].Refs {
			x.w(" (")
			x.ref(d.ObjectFields[r].Name)
			x.w(" ")
			x.value(d.ObjectFields[r].Value)
			x.w(")")
		}
		x.w(")")
	default:
		x.w("(badvalue)")
	}
}

func (x *dumper) args(has bool, refs []int) {
	x.w("(args")
	if has {
		for _, r := range refs {
			x.w(" (")
			x.ref(x.d.Arguments[r].Name)
			x.w(" ")
			x.value(x.d.Arguments[r].Value)
			x.w(")")
		}
	}
	x.w(")")
}

func (x *dumper) dirs(has bool, refs []int) {
	x.w("(dirs")
	if has {
		for _, r := range refs {
			dr := x.d.Directives[r]
			x.w(" (d ")
			x.ref(dr.Name)
			x.w(" ")
			x.args(dr.HasArguments, dr.Arguments.Refs)
			x.w(")")
		}
	}
	x.w(")")
}

func (x *dumper) sels(has bool, ref int) {
	x.w("(sels")
	if has && ref >= 0 && ref < len(x.d.SelectionSets) {
		for _, s := range x.d.SelectionSets[ref].SelectionRefs {
			x.w(" ")
			x.selection(x.d.Selections[s])
		}
	}
	x.w(")")
}

func (x *dumper) selection(s ast.Selection) {
	d := x.d
	switch s.Kind {
	case ast.SelectionKindField:
		f := d.Fields[s.Ref]
		x.w("(f ")
		if f.Alias.IsDefined {
			x.ref(f.Alias.Name)
		} else {
			x.w("(none)")
		}
		x.w(" ")
		x.ref(f.Name)
		x.w(" ")
		x.args(f.HasArguments, f.Arguments.Refs)
		x.w(" ")
		x.dirs(f.HasDirectives, f.Directives.Refs)
		x.w(" ")
		x.sels(f.HasSelections, f.SelectionSet)
		x.w(")")
	case ast.SelectionKindInlineFragment:
		f := d.InlineFragments[s.Ref]
		x.w("(i ")
		if f.TypeCondition.Type == ast.InvalidRef {
			x.w("(none)")
		} else {
			x.ref(d.Types[f.TypeCondition.Type].Name)
		}
		x.w(" ")
		x.dirs(f.HasDirectives, f.Directives.Refs)
		x.w(" ")
		x.sels(f.HasSelections, f.SelectionSet)
		x.w(")")
	case ast.SelectionKindFragmentSpread:
		f := d.FragmentSpreads[s.Ref]
		x.w("(sp ")
		x.ref(f.FragmentName)
		x.w(" ")
		x.dirs(f.HasDirectives, f.Directives.Refs)
		x.w(")")
	default:
		x.w("(badsel)")
	}
}

func (x *dumper) op(ref int) {
	d := x.d
	o := d.OperationDefinitions[ref]
	switch o.OperationType {
	case ast.OperationTypeQuery:
		x.w("(op query ")
	case ast.OperationTypeMutation:
		x.w("(op mutation ")
	case ast.OperationTypeSubscription:
		x.w("(op subscription ")
	default:
		x.w("(op unknown ")
	}
	if o.Name.Length() > 0 {
		x.ref(o.Name)
	} else {
		x.w("(none)")
	}
	x.w(" (vardefs")
	if o.HasVariableDefinitions {
		for _, r := range o.VariableDefinitions.Refs {
			vd := d.VariableDefinitions[r]
			x.w(" (vd ")
			x.ref(d.VariableValues[vd.VariableValue.Ref].Name)
			x.w(" ")
			x.typ(vd.Type)
			x.w(" ")
			if vd.DefaultValue.IsDefined {
				x.w("(some ")
				x.value(vd.DefaultValue.Value)
				x.w(")")
			} else {
				x.w("(none)")
			}
			x.w(" ")
			x.dirs(vd.HasDirectives, vd.Directives.Refs)
			x.w(")")
		}
	}
	x.w(") ")
	x.dirs(o.HasDirectives, o.Directives.Refs)
	x.w(" ")
	x.sels(o.HasSelections, o.SelectionSet)
	x.w(")")
}

func (x *dumper) frag(ref int) {
	d := x.d
	f := d.FragmentDefinitions[ref]
	x.w("(frag ")
	x.ref(f.Name)
	x.w(" ")
	if f.TypeCondition.Type >= 0 && f.TypeCondition.Type < len(d.Types) {
		x.ref(d.Types[f.TypeCondition.Type].Name)
	} else {
		x.w("\"\"")
	}
	x.w(" ")
	x.dirs(f.HasDirectives, f.Directives.Refs)
	x.w(" ")
	x.sels(f.HasSelections, f.SelectionSet)
	x.w(")")
}
