package c03x

import (
	"strings"

	"gvh/common"
)

// ---------------------------------------------------------------- types

type Ty struct {
	K  int // 0 named, 1 list, 2 non-null
	N  string
	Of *Ty
}

func Named(n string) *Ty { return &Ty{K: 0, N: n} }
func List(t *Ty) *Ty     { return &Ty{K: 1, Of: t} }
func NN(t *Ty) *Ty       { return &Ty{K: 2, Of: t} }

func (t *Ty) SDL() string {
	switch t.K {
	case 1:
		return "[" + t.Of.SDL() + "]"
	case 2:
		return t.Of.SDL() + "!"
	}
	return t.N
}
func (t *Ty) Sexp() string {
	switch t.K {
	case 1:
		return "(list " + t.Of.Sexp() + ")"
	case 2:
		return "(nn " + t.Of.Sexp() + ")"
	}
	return "(named " + common.QS(t.N) + ")"
}
func (t *Ty) Base() string {
	for t.K != 0 {
		t = t.Of
	}
	return t.N
}
func (t *Ty) Nullable() bool { return t.K != 2 }
func (t *Ty) StripNN() *Ty {
	if t.K == 2 {
		return t.Of
	}
	return t
}

// ---------------------------------------------------------------- values (literals)

type Val struct {
	K string // var int float str bool null enum list obj
	S string
	B bool
	L []*Val
	O []VKV
}
type VKV struct {
	K string
	V *Val
}

func (v *Val) GQL() string {
	switch v.K {
	case "var":
		return "$" + v.S
	case "int", "float", "enum":
		return v.S
	case "str":
		return `"` + v.S + `"`
	case "bool":
		if v.B {
			return "true"
		}
		return "false"
	case "null":
		return "null"
	case "list":
		p := make([]string, len(v.L))
		for i, x := range v.L {
			p[i] = x.GQL()
		}
		return "[" + strings.Join(p, ", ") + "]"
	case "obj":
		p := make([]string, len(v.O))
		for i, kv := range v.O {
			p[i] = kv.K + ": " + kv.V.GQL()
		}
		return "{" + strings.Join(p, ", ") + "}"
	}
	return "null"
}

func (v *Val) Sexp() string {
	switch v.K {
	case "var":
		return "(var " + common.QS(v.S) + ")"
	case "int":
		return "(int " + common.QS(v.S) + ")"
	case "float":
		return "(float " + common.QS(v.S) + ")"
	case "enum":
		return "(enum " + common.QS(v.S) + ")"
	case "str":
		return "(str " + common.QS(v.S) + " f)"
	case "bool":
		return "(bool " + common.B(v.B) + ")"
	case "null":
		return "(null)"
	case "list":
		p := []string{"list"}
		for _, x := range v.L {
			p = append(p, x.Sexp())
		}
		return "(" + strings.Join(p, " ") + ")"
	case "obj":
		p := []string{"obj"}
		for _, kv := range v.O {
			p = append(p, "("+common.QS(kv.K)+" "+kv.V.Sexp()+")")
		}
		return "(" + strings.Join(p, " ") + ")"
	}
	return "(null)"
}

// HasVar reports whether a variable occurs anywhere in the value.
func (v *Val) HasVar() bool {
	switch v.K {
	case "var":
		return true
	case "list":
		for _, x := range v.L {
			if x.HasVar() {
				return true
			}
		}
	case "obj":
		for _, kv := range v.O {
			if kv.V.HasVar() {
				return true
			}
		}
	}
	return false
}

// JSON of a variable-free literal (enums as strings), the way a client would put the same
// value into the variables object.
func (v *Val) JSON() *J {
	switch v.K {
	case "int", "float":
		return JNum(v.S)
	case "str", "enum":
		return JStr(v.S)
	case "bool":
		return JBool(v.B)
	case "list":
		out := &J{K: 'a'}
		for _, x := range v.L {
			out.A = append(out.A, x.JSON())
		}
		return out
	case "obj":
		out := &J{K: 'o'}
		for _, kv := range v.O {
			out.O = append(out.O, JKV{kv.K, kv.V.JSON()})
		}
		return out
	}
	return JNull()
}

func (v *Val) Clone() *Val {
	c := *v
	c.L = nil
	c.O = nil
	for _, x := range v.L {
		c.L = append(c.L, x.Clone())
	}
	for _, kv := range v.O {
		c.O = append(c.O, VKV{kv.K, kv.V.Clone()})
	}
	return &c
}

// RenameVars applies a variable renaming in place.
func (v *Val) RenameVars(m map[string]string) {
	switch v.K {
	case "var":
		if n, ok := m[v.S]; ok {
			v.S = n
		}
	case "list":
		for _, x := range v.L {
			x.RenameVars(m)
		}
	case "obj":
		for _, kv := range v.O {
			kv.V.RenameVars(m)
		}
	}
}

// ---------------------------------------------------------------- schema

type IV struct {
	Name string
	T    *Ty
	Def  *Val
}
type FD struct {
	Name string
	Args []IV
	T    *Ty
}
type TD struct {
	Kind    string // scalar object interface union enum input
	Name    string
	Impl    []string
	Fields  []FD
	Members []string
	Values  []string
	Inputs  []IV
}
type Schema struct {
	Types []*TD
}

// CustomDirectiveSDL is declared in every generated schema; the reference executor ignores it.
const CustomDirectiveSDL = "directive @tag(name: String, n: Int) on FIELD | INLINE_FRAGMENT | FRAGMENT_SPREAD"

// RepeatableDirectiveSDL: a repeatable executable directive (several applications per node)
const RepeatableDirectiveSDL = "directive @rtag(k: Int, s: String) repeatable on FIELD | INLINE_FRAGMENT | FRAGMENT_SPREAD"

func (s *Schema) Type(n string) *TD {
	for _, t := range s.Types {
		if t.Name == n {
			return t
		}
	}
	return nil
}
func (t *TD) Field(n string) *FD {
	for i := range t.Fields {
		if t.Fields[i].Name == n {
			return &t.Fields[i]
		}
	}
	return nil
}

func ivSDL(iv IV) string {
	s := iv.Name + ": " + iv.T.SDL()
	if iv.Def != nil {
		s += " = " + iv.Def.GQL()
	}
	return s
}
func ivSexp(iv IV) string {
	d := "(none)"
	if iv.Def != nil {
		d = "(some " + iv.Def.Sexp() + ")"
	}
	return "(iv " + common.QS(iv.Name) + " " + iv.T.Sexp() + " " + d + ")"
}

func (s *Schema) SDL() string {
	var sb strings.Builder
	sb.WriteString("schema { query: Query }\n")
	// a custom executable directive with arguments (it survives normalisation, unlike @skip/@include)
	sb.WriteString(CustomDirectiveSDL + "\n")
	sb.WriteString(RepeatableDirectiveSDL + "\n")
	for _, t := range s.Types {
		switch t.Kind {
		case "scalar":
			sb.WriteString("scalar " + t.Name + "\n")
		case "enum":
			sb.WriteString("enum " + t.Name + " { " + strings.Join(t.Values, " ") + " }\n")
		case "union":
			sb.WriteString("union " + t.Name + " = " + strings.Join(t.Members, " | ") + "\n")
		case "input":
			sb.WriteString("input " + t.Name + " {\n")
			for _, iv := range t.Inputs {
				sb.WriteString("  " + ivSDL(iv) + "\n")
			}
			sb.WriteString("}\n")
		case "object", "interface":
			kw := "type"
			if t.Kind == "interface" {
				kw = "interface"
			}
			sb.WriteString(kw + " " + t.Name)
			if len(t.Impl) > 0 {
				sb.WriteString(" implements " + strings.Join(t.Impl, " & "))
			}
			sb.WriteString(" {\n")
			for _, f := range t.Fields {
				sb.WriteString("  " + f.Name)
				if len(f.Args) > 0 {
					p := make([]string, len(f.Args))
					for i, a := range f.Args {
						p[i] = ivSDL(a)
					}
					sb.WriteString("(" + strings.Join(p, ", ") + ")")
				}
				sb.WriteString(": " + f.T.SDL() + "\n")
			}
			sb.WriteString("}\n")
		}
	}
	return sb.String()
}

func names(tag string, ns []string) string {
	p := []string{tag}
	for _, n := range ns {
		p = append(p, common.QS(n))
	}
	return "(" + strings.Join(p, " ") + ")"
}

func (s *Schema) Sexp() string {
	p := []string{"types"}
	for _, t := range s.Types {
		fs := []string{"fields"}
		for _, f := range t.Fields {
			as := []string{"args"}
			for _, a := range f.Args {
				as = append(as, ivSexp(a))
			}
			fs = append(fs, "(fd "+common.QS(f.Name)+" ("+strings.Join(as, " ")+") "+f.T.Sexp()+")")
		}
		is := []string{"inputs"}
		for _, iv := range t.Inputs {
			is = append(is, ivSexp(iv))
		}
		p = append(p, "(type "+t.Kind+" "+common.QS(t.Name)+" "+names("implements", t.Impl)+" ("+strings.Join(fs, " ")+") "+
			names("members", t.Members)+" "+names("values", t.Values)+" ("+strings.Join(is, " ")+"))")
	}
	return "(schema \"Query\" (none) (none) (" + strings.Join(p, " ") + ") (directives))"
}

// PossibleTypes: the concrete object types a value of (composite) type n can have at run time.
func (s *Schema) PossibleTypes(n string) []string {
	t := s.Type(n)
	if t == nil {
		return nil
	}
	switch t.Kind {
	case "object":
		return []string{n}
	case "union":
		return t.Members
	case "interface":
		var out []string
		for _, o := range s.Types {
			if o.Kind == "object" {
				for _, i := range o.Impl {
					if i == n {
						out = append(out, o.Name)
					}
				}
			}
		}
		return out
	}
	return nil
}

func (s *Schema) Intersects(a, b string) bool {
	pa, pb := s.PossibleTypes(a), s.PossibleTypes(b)
	for _, x := range pa {
		for _, y := range pb {
			if x == y {
				return true
			}
		}
	}
	return false
}

func (s *Schema) IsComposite(n string) bool {
	t := s.Type(n)
	return t != nil && (t.Kind == "object" || t.Kind == "interface" || t.Kind == "union")
}

// ---------------------------------------------------------------- universe

type FV struct {
	K    string // sc ref nullref lst err echo lookup
	J    *J
	T, S string
	L    []*FV
}

func (f *FV) Sexp() string {
	switch f.K {
	case "sc":
		return "(sc " + f.J.Sexp() + ")"
	case "ref":
		return "(ref " + common.QS(f.T) + " " + common.QS(f.S) + ")"
	case "nullref":
		return "(nullref)"
	case "err":
		return "(err)"
	case "echo":
		return "(echo)"
	case "lookup":
		return "(lookup " + common.QS(f.T) + " " + common.QS(f.S) + ")"
	case "lst":
		p := []string{"lst"}
		for _, x := range f.L {
			p = append(p, x.Sexp())
		}
		return "(" + strings.Join(p, " ") + ")"
	}
	return "(nullref)"
}

type Ent struct {
	T, Key string
	F      []EntF
}
type EntF struct {
	Name string
	V    *FV
}
type Universe struct{ Ents []*Ent }

func (u *Universe) Sexp() string {
	p := []string{"universe"}
	for _, e := range u.Ents {
		q := []string{"ent", common.QS(e.T), common.QS(e.Key)}
		for _, f := range e.F {
			q = append(q, "(fv "+common.QS(f.Name)+" "+f.V.Sexp()+")")
		}
		p = append(p, "("+strings.Join(q, " ")+")")
	}
	return "(" + strings.Join(p, " ") + ")"
}

// ---------------------------------------------------------------- operations

type Arg struct {
	Name string
	V    *Val
}
type Dir struct {
	Name string
	Args []Arg
}
type Sel struct {
	K     int // 0 field, 1 inline fragment, 2 spread
	Alias string
	Name  string // field name / fragment name
	Args  []Arg
	Dirs  []Dir
	Sels  []*Sel
	Cond  string // inline fragment type condition ("" = none)
}
type VarDef struct {
	Name string
	T    *Ty
	Def  *Val
}
type Frag struct {
	Name, On string
	Sels     []*Sel
}
type Op struct {
	Name string // "" = anonymous
	Vars []*VarDef
	Sels []*Sel
}
type Doc struct {
	Ops   []*Op
	Frags []*Frag
	Order []int // interleaving: >=0 index into Ops, <0: -(i+1) index into Frags
}

func argsGQL(a []Arg) string {
	if len(a) == 0 {
		return ""
	}
	p := make([]string, len(a))
	for i, x := range a {
		p[i] = x.Name + ": " + x.V.GQL()
	}
	return "(" + strings.Join(p, ", ") + ")"
}
func dirsGQL(ds []Dir) string {
	s := ""
	for _, d := range ds {
		s += " @" + d.Name + argsGQL(d.Args)
	}
	return s
}
func selsGQL(ss []*Sel) string {
	p := make([]string, len(ss))
	for i, s := range ss {
		p[i] = s.GQL()
	}
	return "{" + strings.Join(p, " ") + "}"
}
func (s *Sel) GQL() string {
	switch s.K {
	case 0:
		out := ""
		if s.Alias != "" {
			out = s.Alias + ": "
		}
		out += s.Name + argsGQL(s.Args) + dirsGQL(s.Dirs)
		if len(s.Sels) > 0 {
			out += " " + selsGQL(s.Sels)
		}
		return out
	case 1:
		out := "..."
		if s.Cond != "" {
			out += " on " + s.Cond
		}
		return out + dirsGQL(s.Dirs) + " " + selsGQL(s.Sels)
	}
	return "..." + s.Name + dirsGQL(s.Dirs)
}
func (o *Op) GQL() string {
	out := "query"
	if o.Name != "" {
		out += " " + o.Name
	}
	if len(o.Vars) > 0 {
		p := make([]string, len(o.Vars))
		for i, v := range o.Vars {
			p[i] = "$" + v.Name + ": " + v.T.SDL()
			if v.Def != nil {
				p[i] += " = " + v.Def.GQL()
			}
		}
		out += "(" + strings.Join(p, ", ") + ")"
	}
	return out + " " + selsGQL(o.Sels)
}
func (f *Frag) GQL() string {
	return "fragment " + f.Name + " on " + f.On + " " + selsGQL(f.Sels)
}
func (d *Doc) order() []int {
	if len(d.Order) == len(d.Ops)+len(d.Frags) {
		return d.Order
	}
	var o []int
	for i := range d.Ops {
		o = append(o, i)
	}
	for i := range d.Frags {
		o = append(o, -(i + 1))
	}
	return o
}
func (d *Doc) GQL() string {
	var p []string
	for _, i := range d.order() {
		if i >= 0 {
			p = append(p, d.Ops[i].GQL())
		} else {
			p = append(p, d.Frags[-i-1].GQL())
		}
	}
	return strings.Join(p, "\n")
}

func argsSexp(a []Arg) string {
	p := []string{"args"}
	for _, x := range a {
		p = append(p, "("+common.QS(x.Name)+" "+x.V.Sexp()+")")
	}
	return "(" + strings.Join(p, " ") + ")"
}
func dirsSexp(ds []Dir) string {
	p := []string{"dirs"}
	for _, d := range ds {
		p = append(p, "(d "+common.QS(d.Name)+" "+argsSexp(d.Args)+")")
	}
	return "(" + strings.Join(p, " ") + ")"
}
func selsSexp(ss []*Sel) string {
	p := []string{"sels"}
	for _, s := range ss {
		p = append(p, s.Sexp())
	}
	return "(" + strings.Join(p, " ") + ")"
}
func optName(s string) string {
	if s == "" {
		return "(none)"
	}
	return common.QS(s)
}
func (s *Sel) Sexp() string {
	switch s.K {
	case 0:
		return "(f " + optName(s.Alias) + " " + common.QS(s.Name) + " " + argsSexp(s.Args) + " " + dirsSexp(s.Dirs) + " " + selsSexp(s.Sels) + ")"
	case 1:
		return "(i " + optName(s.Cond) + " " + dirsSexp(s.Dirs) + " " + selsSexp(s.Sels) + ")"
	}
	return "(sp " + common.QS(s.Name) + " " + dirsSexp(s.Dirs) + ")"
}
func (d *Doc) Sexp() string {
	p := []string{"doc"}
	for _, i := range d.order() {
		if i >= 0 {
			o := d.Ops[i]
			vs := []string{"vardefs"}
			for _, v := range o.Vars {
				dv := "(none)"
				if v.Def != nil {
					dv = "(some " + v.Def.Sexp() + ")"
				}
				vs = append(vs, "(vd "+common.QS(v.Name)+" "+v.T.Sexp()+" "+dv+" (dirs))")
			}
			p = append(p, "(op query "+optName(o.Name)+" ("+strings.Join(vs, " ")+") (dirs) "+selsSexp(o.Sels)+")")
		} else {
			f := d.Frags[-i-1]
			p = append(p, "(frag "+common.QS(f.Name)+" "+common.QS(f.On)+" (dirs) "+selsSexp(f.Sels)+")")
		}
	}
	return "(" + strings.Join(p, " ") + ")"
}

func (s *Sel) Clone() *Sel {
	c := *s
	c.Args = cloneArgs(s.Args)
	c.Dirs = nil
	for _, d := range s.Dirs {
		c.Dirs = append(c.Dirs, Dir{d.Name, cloneArgs(d.Args)})
	}
	c.Sels = CloneSels(s.Sels)
	return &c
}
func cloneArgs(a []Arg) []Arg {
	var out []Arg
	for _, x := range a {
		out = append(out, Arg{x.Name, x.V.Clone()})
	}
	return out
}
func CloneSels(ss []*Sel) []*Sel {
	var out []*Sel
	for _, s := range ss {
		out = append(out, s.Clone())
	}
	return out
}
func (d *Doc) Clone() *Doc {
	c := &Doc{Order: append([]int(nil), d.Order...)}
	for _, o := range d.Ops {
		no := &Op{Name: o.Name, Sels: CloneSels(o.Sels)}
		for _, v := range o.Vars {
			nv := &VarDef{Name: v.Name, T: v.T}
			if v.Def != nil {
				nv.Def = v.Def.Clone()
			}
			no.Vars = append(no.Vars, nv)
		}
		c.Ops = append(c.Ops, no)
	}
	for _, f := range d.Frags {
		c.Frags = append(c.Frags, &Frag{Name: f.Name, On: f.On, Sels: CloneSels(f.Sels)})
	}
	return c
}
