// Package c03x gives the C03 harness access to the individual normalisation passes of
// astnormalization.  The passes are unexported registration functions; they are reached with
// go:linkname (pull), which needs no change of /repo.  Nothing here alters their behaviour.
package c03x

import (
	_ "unsafe"

	_ "github.com/wundergraph/graphql-go-tools/v2/pkg/astnormalization"
	"github.com/wundergraph/graphql-go-tools/v2/pkg/astvisitor"
)

//go:linkname removeSelfAliasing github.com/wundergraph/graphql-go-tools/v2/pkg/astnormalization.removeSelfAliasing
func removeSelfAliasing(walker *astvisitor.Walker)

func RemoveSelfAliasing(w *astvisitor.Walker) { removeSelfAliasing(w) }
