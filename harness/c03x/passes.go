// Package c03x: helpers of the C03 harness (tree forms, dumps, JSON) and access to the individual
// normalisation passes of astnormalization.  The passes are unexported registration functions;
// they are reached with go:linkname (pull), which needs no change of /repo and does not alter
// their behaviour: each function registers the pass' visitor on the walker it is given.
package c03x

import (
	"unsafe"

	"github.com/wundergraph/graphql-go-tools/v2/pkg/ast"
	_ "github.com/wundergraph/graphql-go-tools/v2/pkg/astnormalization"
	"github.com/wundergraph/graphql-go-tools/v2/pkg/astvisitor"
	"github.com/wundergraph/graphql-go-tools/v2/pkg/operationreport"
)

//go:linkname directiveIncludeSkip github.com/wundergraph/graphql-go-tools/v2/pkg/astnormalization.directiveIncludeSkip
func directiveIncludeSkip(walker *astvisitor.Walker)

//go:linkname fragmentSpreadInline github.com/wundergraph/graphql-go-tools/v2/pkg/astnormalization.fragmentSpreadInline
func fragmentSpreadInline(walker *astvisitor.Walker)

//go:linkname removeSelfAliasing github.com/wundergraph/graphql-go-tools/v2/pkg/astnormalization.removeSelfAliasing
func removeSelfAliasing(walker *astvisitor.Walker)

//go:linkname inlineSelectionsFromInlineFragments github.com/wundergraph/graphql-go-tools/v2/pkg/astnormalization.inlineSelectionsFromInlineFragments
func inlineSelectionsFromInlineFragments(walker *astvisitor.Walker)

//go:linkname mergeInlineFragmentSelections github.com/wundergraph/graphql-go-tools/v2/pkg/astnormalization.mergeInlineFragmentSelections
func mergeInlineFragmentSelections(walker *astvisitor.Walker)

//go:linkname removeFragmentDefinitions github.com/wundergraph/graphql-go-tools/v2/pkg/astnormalization.removeFragmentDefinitions
func removeFragmentDefinitions(walker *astvisitor.Walker)

//go:linkname deduplicateFields github.com/wundergraph/graphql-go-tools/v2/pkg/astnormalization.deduplicateFields
func deduplicateFields(walker *astvisitor.Walker)

//go:linkname deleteUnusedVariables github.com/wundergraph/graphql-go-tools/v2/pkg/astnormalization.deleteUnusedVariables
func deleteUnusedVariables(walker *astvisitor.Walker) unsafe.Pointer

//go:linkname detectVariableUsage github.com/wundergraph/graphql-go-tools/v2/pkg/astnormalization.detectVariableUsage
func detectVariableUsage(walker *astvisitor.Walker, deletion unsafe.Pointer) unsafe.Pointer

// Pass is one normalisation pass run on its own walker, as setupOperationWalkers would
// register it (same walker constructor, only this visitor on it).
type Pass struct {
	Name string
	reg  func(w *astvisitor.Walker)
}

// SelectionPasses lists the selection-set passes in the order of setupOperationWalkers.
var SelectionPasses = []Pass{
	{"include_skip", directiveIncludeSkip},
	{"fragment_inline", fragmentSpreadInline},
	{"self_alias", removeSelfAliasing},
	{"inline_selections", inlineSelectionsFromInlineFragments},
	{"merge_selections", mergeInlineFragmentSelections},
	{"remove_fragment_defs", removeFragmentDefinitions},
	{"dedup_fields", deduplicateFields},
}

// Run applies the pass to operation in place.
func (p Pass) Run(operation, definition *ast.Document, report *operationreport.Report) {
	w := astvisitor.NewWalkerWithID(8, p.Name)
	p.reg(&w)
	w.Walk(operation, definition, report)
}

// RunUnusedVariables runs detectVariableUsage (on the document as it is) followed by `between`
// and then deleteUnusedVariables, the way the first and the cleanup stage share the deletion visitor.
func RunUnusedVariables(operation, definition *ast.Document, report *operationreport.Report, between func()) {
	w2 := astvisitor.NewWalkerWithID(8, "Cleanup")
	del := deleteUnusedVariables(&w2)
	w1 := astvisitor.NewWalkerWithID(8, "Detect")
	detectVariableUsage(&w1, del)
	w1.Walk(operation, definition, report)
	if report.HasErrors() {
		return
	}
	if between != nil {
		between()
	}
	w2.Walk(operation, definition, report)
}
