(* include: gqlread *)
(* C09 driver.  Harness lines (harness/cmd/c09):
     (c09 det CFG USEED OPTS STYLE TEXT VARS NAME (plans (p LABEL DIGEST)...) (reqs (r LABEL DIGEST)...) (xreqs (r LABEL DIGEST)...) (nreq N) (planerr B) (note S))
     (c09 hist CFG USEED (flags FORK JOIN) (base (rq GROUP STYLE TEXT VARS RESP MONO PAIRS NREQ COLL)...)
               (run OPTS (rs HIT RESP REQS FRESHREQS PAIRS FRESHRESP XREQS XFRESHREQS)...)...)
       OPTS is the option set ("d+m-s-z-"), for a gated run followed by " order=sub>sub>..." (the subgraph priority
       list the held subgraph responses were released by: harness/c09lab/gate.go); CFG names a fixed federation, a
       configuration of the shared generator (gen-SEED-INDEX) or a member of a fixture family (ifh-/rq2-/genh-SEED-INDEX)
     (c09 dedup KIND (in LF...) (out LF...)|(panic MSG))
     (c09 rename CFG STYLE TEXT VARS NAME BEFORE AFTER (mapping (NEW OLD)...) VARSB VARSA MB MA MO (varserr S))
   The spec checkers extracted from coq/C09/Spec.v are evaluated on the IMPLEMENTATION's outputs;
   the models (dedup, map_variables) are compared with the implementation (corr:C09/...). *)
let nat i = nat_of_int i
let bs = bytes_of_string

(* ------------------------------------------------------------------ det *)
let labelled tag = function
  | L (A t :: items) when t = tag ->
    List.map (function L [A _; S label; S dg] -> (label, dg) | x -> raise (Sexp_error ("labelled: " ^ print_sexp x))) items
  | x -> raise (Sexp_error (tag ^ ": " ^ print_sexp x))

let starts_with p s = String.length s >= String.length p && String.sub s 0 (String.length p) = p

let contains (s : string) (sub : string) : bool =
  let n = String.length s and m = String.length sub in
  let rec go i = i + m <= n && (String.sub s i m = sub || go (i + 1)) in go 0

let handle_det cfg opts style text vars plans reqs xreqs nreq planerr note : (string * string) list =
  let plans = labelled "plans" plans and reqs = labelled "reqs" reqs and xreqs = labelled "xreqs" xreqs in
  (* with minification on: do the runs still agree once fragments are expanded again? *)
  let minify = contains opts "z+" in
  let xeq = plan_deterministic_b (List.map (fun (_, d) -> bs d) xreqs) in
  let tag = Printf.sprintf "minify=%s expanded_equal=%s" (if minify then "t" else "f") (if xeq then "t" else "f") in
  let fresh = List.filter (fun (l, _) -> starts_with "fresh" l || starts_with "proc" l) plans in
  let res = ref [] in
  let add st d = res := (st, d) :: !res in
  let ctx = Printf.sprintf "cfg=%s opts=%s style=%s op=%s vars=%s" cfg opts style (quote_string text) (quote_string vars) in
  let show l = String.concat " " (List.map (fun (a, b) -> a ^ "=" ^ b) l) in
  if not (plan_deterministic_b (List.map (fun (_, d) -> bs d) fresh)) then
    add "specfail" (Printf.sprintf "plan_deterministic/fresh %s %s runs: %s note=%s" tag ctx (show fresh) (quote_string note))
  else if not (plan_deterministic_b (List.map (fun (_, d) -> bs d) plans)) then
    add "specfail" (Printf.sprintf "plan_deterministic/reused %s runs: %s note=%s" ctx (show plans) (quote_string note));
  if not (plan_deterministic_b (List.map (fun (_, d) -> bs d) reqs)) then
    add "specfail" (Printf.sprintf "requests_deterministic %s %s runs: %s" tag ctx (show reqs));
  (* the fresh-planner / fresh-process part is a result of its own: a failure of the reused
     planner does not hide whether fresh planning was deterministic *)
  let fresh_ok = not (List.exists (fun (_, d) -> starts_with "plan_deterministic/fresh" d || starts_with "requests_deterministic" d) !res) in
  (if fresh_ok then [("ok", if nreq >= 2 && not planerr then "nt" else "tr")] else []) @ List.rev !res

(* ------------------------------------------------------------------ hist *)
let digest_list = function
  | L items -> List.map (fun x -> bs (str x)) items
  | x -> raise (Sexp_error ("digests: " ^ print_sexp x))

type brq = { b : hbase; style : string; text : string; vars : string; coll : bool; nreq : int }

let base_of = function
  | L [A "rq"; A g; A style; S text; S vars; resp; mono; pairs; A nreq; coll] ->
    let m = match mono with
      | L [A "none"] -> None
      | L [A "some"; j; _] -> Some (json_of j)
      | x -> raise (Sexp_error ("mono: " ^ print_sexp x)) in
    { b = { hb_group = n_of_int (int_of_string g); hb_fresh = json_of resp; hb_mono = m; hb_pairs = digest_list pairs };
      style; text; vars; coll = sbool coll; nreq = int_of_string nreq }
  | x -> raise (Sexp_error ("rq: " ^ print_sexp x))

(* the last two lists (requests with fragments expanded again) only serve to tell the known
   fragment-naming defect of the minifier from anything else *)
let run_of = function
  | L [A "rs"; hit; resp; reqs; freqs; pairs; fresp; xreqs; xfreqs] ->
    ({ hr_hit = sbool hit; hr_resp = json_of resp; hr_reqs = digest_list reqs; hr_fresh_reqs = digest_list freqs;
       hr_pairs = digest_list pairs; hr_fresh_resp = json_of fresp }, print_sexp xreqs = print_sexp xfreqs)
  | x -> raise (Sexp_error ("rs: " ^ print_sexp x))

(* the response tree with identical error entries collapsed (errors are already sorted) *)
let collapse_errors (j : json) : json =
  match j with
  | JObj ms ->
    JObj (List.map (fun (k, v) ->
      if string_of_bytes k = "errors" then
        (k, match v with
            | JArr items ->
              let rec uniq = function
                | a :: (b :: _ as rest) -> if json_eqb a b then uniq rest else a :: uniq rest
                | l -> l in
              JArr (uniq items)
            | x -> x)
      else (k, v)) ms)
  | x -> x

let is_exec_error (j : json) = match j with JObj [(k, _)] -> string_of_bytes k = "execute_error" | _ -> false

let short s = if String.length s > 400 then String.sub s 0 400 ^ "..." else s

let handle_hist cfg useed fork join base runs : (string * string) list =
  let base = List.map base_of base in
  let hb = List.map (fun x -> x.b) base in
  let res = ref [] in
  let add st d = res := (st, d) :: !res in
  let ctx = Printf.sprintf "cfg=%s useed=%s" cfg useed in
  let show (x : brq) = Printf.sprintf "style=%s coll=%s op=%s vars=%s resp=%s" x.style (if x.coll then "t" else "f")
      (quote_string x.text) (quote_string x.vars) (short (sexp_of_json x.b.hb_fresh)) in
  (* renaming / literal <-> variable forms *)
  if not (spelling_transparent_b hb) then begin
    (* name the offending pairs: a deviating spelling against the first of its group *)
    let reported = ref 0 in
    List.iter (fun (x : brq) ->
      if !reported < 3 then
        match List.find_opt (fun (y : brq) -> y.b.hb_group = x.b.hb_group) base with
        | Some y when not (json_eqb x.b.hb_fresh y.b.hb_fresh) ->
          incr reported;
          let dev, other = if is_exec_error x.b.hb_fresh || x.coll then x, y else y, x in
          add "specfail" (Printf.sprintf "spelling_transparent %s exec_error=%s || deviating: %s || other: %s" ctx
                            (if is_exec_error dev.b.hb_fresh then "t" else "f") (show dev) (show other))
        | _ -> ()) base
  end;
  (* the monolithic reference *)
  (* on configurations of the shared generator "federated = monolithic" is property C01's business
     (it has findings of its own there); here it is checked on the fixed federations only *)
  if not (starts_with "gen-" cfg || starts_with "genh-" cfg) && not (mono_agrees_b hb) then begin
    let reported = ref 0 in
    List.iter (fun (x : brq) ->
      if !reported < 3 && not (mono_agrees_b [x.b]) then begin
        incr reported;
        add "specfail" (Printf.sprintf "mono_agrees %s exec_error=%s || %s || mono=%s" ctx
                          (if is_exec_error x.b.hb_fresh then "t" else "f") (show x)
                          (match x.b.hb_mono with Some m -> short (sexp_of_json m) | None -> "none"))
      end) base
  end;
  let any_hit = ref false in
  let sigs = ref [] in
  List.iter (function
    | L (A "run" :: S opts :: rs) ->
      let runx = List.map run_of rs in
      let run = List.map fst runx in
      if List.exists (fun r -> r.hr_hit) run then any_hit := true;
      sigs := List.map (fun r -> r.hr_reqs) run :: !sigs;
      let nth_info i = (try show (List.nth base i) with _ -> "?") in
      let first_bad p =
        let rec go i = function [] -> -1 | r :: rest -> if p i r then i else go (i + 1) rest in go 0 run in
      if not (history_transparent_b hb run) then begin
        let i = first_bad (fun i r -> not (json_eqb r.hr_resp (List.nth hb i).hb_fresh)) in
        (* classification aid only: do ALL deviating requests of this run differ from the fresh default
           engine in nothing but the number of identical error entries? *)
        let dup_only =
          List.length hb = List.length run &&
          List.for_all2 (fun (b : hbase) r -> json_eqb r.hr_resp b.hb_fresh || json_eqb (collapse_errors r.hr_resp) (collapse_errors b.hb_fresh)) hb run in
        add "specfail" (Printf.sprintf "history_transparent dup_error_only=%s dedup_off=%s %s opts=%s request=%d hit=%s || %s || got=%s"
                          (if dup_only then "t" else "f") (if contains opts "d-" then "t" else "f") ctx opts i
                          (if i >= 0 && (List.nth run i).hr_hit then "t" else "f") (nth_info i)
                          (if i >= 0 then short (sexp_of_json (List.nth run i).hr_resp) else "length mismatch"))
      end;
      if not (cache_hit_same_plan_b run) then begin
        let i = first_bad (fun _ r -> not (cache_hit_same_plan_b [r])) in
        let resp_same = i >= 0 && json_eqb (List.nth run i).hr_resp (List.nth run i).hr_fresh_resp in
        add "specfail" (Printf.sprintf "cache_hit_same_plan %s opts=%s request=%d hit=%s minify=%s expanded_equal=%s || %s" ctx opts i
                          (if i >= 0 && (List.nth run i).hr_hit then "t" else "f")
                          (if contains opts "z+" then "t" else "f")
                          (if i >= 0 && snd (List.nth runx i) && resp_same then "t" else "f") (nth_info i))
      end;
      if not (requests_semantically_covered_b hb run) then begin
        let i = first_bad (fun i r -> not (requests_semantically_covered_b [List.nth hb i] [r])) in
        add "specfail" (Printf.sprintf "requests_semantically_covered %s opts=%s request=%d || %s" ctx opts i (nth_info i))
      end
    | x -> raise (Sexp_error ("run: " ^ print_sexp x))) runs;
  let distinct_sigs = List.length (List.sort_uniq compare !sigs) in
  if !res = [] then
    [("ok", if (!any_hit && distinct_sigs >= 2) || (fork && join) then "nt" else "tr")]
  else List.rev !res

(* ------------------------------------------------------------------ dedup *)
let pel_of = function
  | L [A "pe"; A k; L path; L types] ->
    { pe_kind = (if k = "a" then n_of_int 1 else N0); pe_path = List.map (fun x -> bs (str x)) path;
      pe_types = List.map (fun x -> bs (str x)) types }
  | x -> raise (Sexp_error ("pe: " ^ print_sexp x))
let lf_of = function
  | L [A "lf"; A id; L deps; A ds; A req; L (A "path" :: pes)] ->
    { lf_id = nat (int_of_string id); lf_deps = List.map (fun d -> nat (int_of_string (atom d))) deps;
      lf_ds = n_of_int (int_of_string ds); lf_req = n_of_int (int_of_string req); lf_path = List.map pel_of pes }
  | x -> raise (Sexp_error ("lf: " ^ print_sexp x))
let show_lf (f : lfetch) =
  Printf.sprintf "(lf %d (%s) %d %d (path%s))" (int_of_nat f.lf_id)
    (String.concat " " (List.map (fun d -> string_of_int (int_of_nat d)) f.lf_deps)) (int_of_n f.lf_ds) (int_of_n f.lf_req)
    (String.concat "" (List.map (fun e -> Printf.sprintf " (pe %s (%s) (%s))" (if int_of_n e.pe_kind = 1 then "a" else "o")
                                     (String.concat " " (List.map (fun x -> quote_string (string_of_bytes x)) e.pe_path))
                                     (String.concat " " (List.map (fun x -> quote_string (string_of_bytes x)) e.pe_types))) f.lf_path))
let show_lfs l = "(" ^ String.concat " " (List.map show_lf l) ^ ")"

let handle_dedup kind inp out : (string * string) list =
  let l = match inp with L (A "in" :: fs) -> List.map lf_of fs | x -> raise (Sexp_error ("in: " ^ print_sexp x)) in
  let res = ref [] in
  let add st d = res := (st, d) :: !res in
  let model = dedup l in
  (match out with
   | L [A "panic"; S msg] -> add "specfail" (Printf.sprintf "dedup_total kind=%s panic=%s in=%s" kind (quote_string msg) (show_lfs l))
   | L (A "out" :: fs) ->
     let o = List.map lf_of fs in
     if not (List.length o = List.length model && List.for_all2 lfetch_eqb o model) then
       add "mismatch" (Printf.sprintf "corr:C09/dedup kind=%s in=%s impl=%s model=%s" kind (show_lfs l) (show_lfs o) (show_lfs model));
     let unique = unique_ids_b (List.map strip l) in
     if unique && not (dedup_spec_b l o) then
       add "specfail" (Printf.sprintf "dedup_spec kind=%s in=%s out=%s" kind (show_lfs l) (show_lfs o));
     if kind = "real" then begin
       if not unique then add "specfail" (Printf.sprintf "real_plan_unique_ids in=%s" (show_lfs l));
       if not (acyclic_b (List.map strip l)) then add "specfail" (Printf.sprintf "real_plan_acyclic in=%s" (show_lfs l));
       if unique && not (dups_agree_b l) then add "specfail" (Printf.sprintf "dups_agree in=%s" (show_lfs l));
       if unique && not (acyclic_b (List.map strip o)) then add "specfail" (Printf.sprintf "dedup_keeps_acyclic in=%s out=%s" (show_lfs l) (show_lfs o))
     end;
     if !res = [] then begin
       let removed = List.filter (fun f -> not (List.exists (fun g -> g.lf_id = f.lf_id) o)) l in
       let redirected = List.exists (fun r -> List.exists (fun f -> List.mem r.lf_id f.lf_deps) l) removed in
       add "ok" (if removed <> [] && (redirected || kind = "real") then "nt" else "tr")
     end
   | x -> add "error" ("dedup out: " ^ print_sexp x));
  List.rev !res

(* ------------------------------------------------------------------ rename *)
let single_op (d : document) : operation option =
  match List.filter_map (function DOp o -> Some o | DFrag _ -> None) d with
  | [o] -> Some o
  | _ -> None

let show_vars (o : operation) = String.concat "," (List.map (fun vd -> string_of_bytes vd.vd_name) o.op_vars)

let handle_rename cfg style text vars rest : (string * string) list =
  let ctx = Printf.sprintf "cfg=%s style=%s op=%s vars=%s" cfg style (quote_string text) (quote_string vars) in
  match rest with
  | [L [A "prepare-error"; S msg]] ->
    [("specfail", Printf.sprintf "prepare_accepts_valid %s error=%s" ctx (quote_string msg))]
  | [before; after; L (A "mapping" :: mp); _varsb; _varsa; mb; ma; mo; L [A "varserr"; S varserr]] ->
    let res = ref [] in
    let add st d = res := (st, d) :: !res in
    let bd = doc_of before and ad = doc_of after in
    let mapping = List.map (function L [S nw; S old] -> (bs nw, bs old) | x -> raise (Sexp_error ("mapping: " ^ print_sexp x))) mp in
    (match single_op bd, single_op ad with
     | Some bo, Some ao ->
       let (mo', mmp) = map_variables bo in
       (* slices.SortFunc is not stable: definitions that ended up with ONE name (the collision
          defect) may come in either order; compare those modulo the order of equal names *)
       let norm (o : operation) = if mapper_no_collision_b o then o else { o with op_vars = List.sort compare o.op_vars } in
       let mo' = norm mo' and ao = norm ao in
       let sort_mp l = List.sort compare (List.map (fun (a, b) -> (string_of_bytes a, string_of_bytes b)) l) in
       if not (mo' = ao && sort_mp mmp = sort_mp mapping) then
         add "mismatch" (Printf.sprintf "corr:C09/rename %s impl_vars=%s model_vars=%s impl_mapping=%s model_mapping=%s same_op=%b" ctx
                           (show_vars ao) (show_vars mo')
                           (String.concat "," (List.map (fun (a, b) -> a ^ "<-" ^ b) (sort_mp mapping)))
                           (String.concat "," (List.map (fun (a, b) -> a ^ "<-" ^ b) (sort_mp mmp))) (mo' = ao));
       if not (mapper_spec_b bo ao mapping) then
         add "specfail" (Printf.sprintf "mapper_spec collision=%b uses_defined=%b one_to_one=%b %s after_vars=%s"
                           (not (mapper_no_collision_b ao)) (uses_defined_b ao) (mapping_one_to_one_b mapping) ctx (show_vars ao))
       else begin
         (* semantic equality through the reference executor: before vs after the mapper, and the
            original text vs the normalised operation *)
         if print_sexp mb <> print_sexp ma then
           add "specfail" (Printf.sprintf "rename_semantic %s before=%s after=%s" ctx (short (print_sexp mb)) (short (print_sexp ma)));
         if varserr <> "" then
           add "specfail" (Printf.sprintf "variables_accepted %s error=%s" ctx (quote_string varserr))
       end;
       if print_sexp mo <> print_sexp mb then
         add "specfail" (Printf.sprintf "normalize_semantic %s original=%s normalised=%s" ctx (short (print_sexp mo)) (short (print_sexp mb)));
       if !res = [] then
         add "ok" (if List.length mapping >= 2 && List.exists (fun (a, b) -> a <> b) mapping then "nt" else "tr")
     | _ -> add "error" "rename: document without exactly one operation");
    List.rev !res
  | _ -> [("error", "rename: unrecognised fields")]

let handle (x : sexp) : (string * string) list =
  match x with
  | L [A "c09"; A "det"; A cfg; A _useed; S opts; S style; S text; S vars; S _name; plans; reqs; xreqs; L [A "nreq"; A nreq]; L [A "planerr"; pe]; L [A "note"; S note]] ->
    handle_det cfg opts style text vars plans reqs xreqs (int_of_string nreq) (sbool pe) note
  | L (A "c09" :: A "hist" :: A cfg :: A useed :: L [A "flags"; fk; jn] :: L (A "base" :: base) :: runs) ->
    handle_hist cfg useed (sbool fk) (sbool jn) base runs
  | L [A "c09"; A "dedup"; A kind; inp; out] -> handle_dedup kind inp out
  | L (A "c09" :: A "rename" :: A cfg :: A style :: S text :: S vars :: S _name :: rest) -> handle_rename cfg style text vars rest
  | _ -> [("error", "unrecognised case")]

let () = run_lines Sys.argv.(1) Sys.argv.(2) handle
