(* C16 driver: reads harness lines
     (c16 (hdr "v"...) default (ttl t ns | ttl f | ttl panic msg) (cc ok ma sma ns nc pub priv | cc err | cc panic msg))
   and reports: correspondence of TTL verdict and parse result with the model, and the
   storability spec evaluated directly on the implementation's verdict (dialect and RFC reading). *)
let show_opt_n = function None -> "(none)" | Some v -> "(some " ^ decimal_of_n v ^ ")"
let show_fields = function
  | None -> "(none)"
  | Some f ->
    let names = if f.fn_locked then [] else List.sort compare (List.map string_of_bytes f.fn_names) in
    "(" ^ String.concat " " ("some" :: List.map quote_string names) ^ ")"
let show_cc = function
  | None -> "(cc err)"
  | Some c ->
    Printf.sprintf "(cc ok %s %s %s %s %s %s)" (show_opt_n c.max_age) (show_opt_n c.s_maxage)
      (if c.no_store then "t" else "f") (show_fields c.no_cache) (if c.is_public then "t" else "f")
      (show_fields c.is_private)
let show_ttl = function None -> "(ttl f)" | Some z -> "(ttl t " ^ decimal_of_z z ^ ")"

let handle (x : sexp) : (string * string) list =
  match x with
  | L [A "c16"; L (A "hdr" :: vals); A def; ttl_i; cc_i] ->
    let h = List.map sbytes vals in
    let d = z_of_decimal def in
    let impl_ttl = print_sexp ttl_i and impl_cc = print_sexp cc_i in
    let m_ttl = show_ttl (ttl h d) and m_cc = show_cc (parse_cache_control h) in
    let res = ref [] in
    if impl_ttl <> m_ttl then res := ("mismatch", Printf.sprintf "corr:C16/ttl impl=%s model=%s" impl_ttl m_ttl) :: !res;
    if impl_cc <> m_cc then res := ("mismatch", Printf.sprintf "corr:C16/parse impl=%s model=%s" impl_cc m_cc) :: !res;
    (* spec on the implementation's own verdict *)
    let verdict = match ttl_i with
      | L [A "ttl"; A "t"; A ns] -> Some (Some (z_of_decimal ns))
      | L [A "ttl"; A "f"] -> Some None
      | _ -> None in
    (match verdict with
     | None -> res := ("specfail", "total: implementation panicked " ^ impl_ttl) :: !res
     | Some v ->
       if not (storable_ok_b false h d v) then res := ("specfail", "storable_ok/dialect " ^ impl_ttl) :: !res
       else if not (storable_ok_b true h d v) then res := ("specfail", "storable_ok/rfc " ^ impl_ttl) :: !res);
    (match cc_i with L (A "cc" :: A "panic" :: _) -> res := ("specfail", "total: parser panicked") :: !res | _ -> ());
    let nontrivial =
      (match verdict with Some (Some _) -> true | _ -> false)
      || List.exists (fun v -> List.length (List.filter (fun b -> int_of_n b = 44) v) >= 1) h in
    if !res = [] then [("ok", if nontrivial then "nt" else "tr")] else List.rev !res
  | _ -> [("error", "unrecognised case")]

let () = run_lines Sys.argv.(1) Sys.argv.(2) handle
