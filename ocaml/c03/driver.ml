(* include: gqlread *)
(* C03 driver: one case per line (written by harness/cmd/c03), see that file for the format.
   For every case: the extracted reference executor runs the ORIGINAL request and Go's NORMALISED
   request (before and after variable canonicalisation) over each universe [exec_preserved]; Go's
   second normalisation of its own output is compared with the first [idempotent]; the validator's
   verdict on the final document [valid_preserved]; the canonical forms of two requests with the
   same meaning [canonical]; and every selection pass of the model is compared with the Go pass on
   the same input tree [corr:C03/<pass>]. *)
let rec fval_of (x : sexp) : fval =
  match x with
  | L [A "sc"; j] -> FSc (json_of j)
  | L [A "ref"; S t; S k] -> FRef (b t, b k)
  | L [A "nullref"] -> FNullRef
  | L (A "lst" :: l) -> FLst (List.map fval_of l)
  | L [A "err"] -> FErr
  | L [A "echo"] -> FEcho
  | L [A "lookup"; S t; S a] -> FLookup (b t, b a)
  | L (A "req" :: fs) -> FReq (List.map (fun f -> b (str f)) fs)
  | _ -> raise (Sexp_error ("fval: " ^ print_sexp x))
let universe_of = function
  | L (A "universe" :: es) ->
    List.map (function
        | L (A "ent" :: S t :: S k :: fvs) ->
          { en_type = b t; en_key = b k;
            en_fields = List.map (function L [A "fv"; S f; v] -> (b f, fval_of v) | x -> raise (Sexp_error ("fv: " ^ print_sexp x))) fvs }
        | x -> raise (Sexp_error ("entity: " ^ print_sexp x))) es
  | x -> raise (Sexp_error ("universe: " ^ print_sexp x))

let show_err = function
  | XErr p -> "(path " ^ String.concat " " (List.map (function PN n -> quote_string (string_of_bytes n) | PI i -> decimal_of_n i) p) ^ ")"
  | XInvalid r -> "(invalid " ^ quote_string (string_of_bytes r) ^ ")"
  | XOutOfFuel -> "(outoffuel)"
let show_resp (r : response) =
  let s = sexp_of_json r.rs_data in
  let s = if String.length s > 1500 then String.sub s 0 1500 ^ "..." else s in
  "(resp " ^ s ^ " (errs " ^ String.concat " " (List.map show_err r.rs_errs) ^ "))"

(* the first place where two response trees differ (member order ignored): path and both subtrees *)
let rec first_diff (path : string) (a : json) (bb : json) : (string * string * string) option =
  let show j = let s = sexp_of_json j in if String.length s > 2500 then String.sub s 0 2500 ^ "..." else s in
  match a, bb with
  | JObj x, JObj y ->
    let rec go = function
      | [] -> (match List.find_opt (fun (k, _) -> not (List.mem_assoc k x)) y with
          | Some (k, v) -> Some (path ^ "/" ^ string_of_bytes k, "(absent)", show v)
          | None -> None)
      | (k, v) :: r ->
        (match List.assoc_opt k y with
         | None -> Some (path ^ "/" ^ string_of_bytes k, show v, "(absent)")
         | Some v' -> (match first_diff (path ^ "/" ^ string_of_bytes k) v v' with Some d -> Some d | None -> go r)) in
    go x
  | JArr x, JArr y ->
    if List.length x <> List.length y then Some (path, show a, show bb)
    else
      let rec go i = function
        | [], [] -> None
        | u :: x', v :: y' -> (match first_diff (path ^ "/" ^ string_of_int i) u v with Some d -> Some d | None -> go (i + 1) (x', y'))
        | _ -> None in
      go 0 (x, y)
  | _ -> if a = bb then None else Some (path, show a, show bb)

let find tag (l : sexp list) : sexp list option =
  let rec go = function
    | [] -> None
    | L (A t :: rest) :: _ when t = tag -> Some rest
    | _ :: r -> go r in
  go l

(* schema parsing is the expensive part of a line and schemas repeat: cache the last one *)
let last_schema : (sexp * schema) option ref = ref None
let schema_cached (x : sexp) : schema =
  match !last_schema with
  | Some (y, s) when y = x -> s
  | _ -> let s = schema_of x in last_schema := Some (x, s); s

let clean (s : string) : string = String.map (fun c -> if c = '\n' || c = '\t' || c = '\r' then ' ' else c) s

let handle (x : sexp) : (string * string) list =
  match x with
  | L [A "bad"; S id; S msg] -> [("error", "harness: " ^ id ^ ": " ^ msg)]
  | L (A "case" :: S id :: L (A "flags" :: flags) :: sch :: L (A "universes" :: unis) :: rest) ->
    let s = schema_cached sch in
    let us = List.map universe_of unis in
    let out = ref [] in
    let reordered = ref false in
    let fail st d = out := (st, clean d) :: !out in
    let (odoc, oname, ovars) = match find "orig" rest with
      | Some [d; n; v] -> (doc_of d, opt_name n, json_of v)
      | _ -> raise (Sexp_error "orig") in
    let nestedvar = List.exists (fun f -> f = S "nestedvar") flags in
    let malformed = List.exists (fun f -> f = S "malformed") flags in
    let tagsfx = if nestedvar then " [nestedvar]" else "" in
    let go = match find "go" rest with Some g -> g | None -> raise (Sexp_error "go") in
    let stage, smsg = match find "stage" go with Some [S st; S m] -> (st, m) | _ -> raise (Sexp_error "stage") in
    (* the generator's operations are valid and executable: check the second on the model *)
    if not malformed then List.iteri (fun i u ->
        if not (orig_executable_b s u odoc oname ovars) then
          fail "error" (Printf.sprintf "generator: original not executable by the reference executor: %s universe %d %s" id i
                          (show_resp (execute (big_fuel odoc odoc) s u Mono odoc oname ovars)))) us;
    if malformed then ()
    else if stage <> "" then
      fail "specfail" (Printf.sprintf "valid_preserved/%s %s the engine sequence rejects a valid request: %s%s" stage id smsg tagsfx)
    else begin
      let get3 tag = match find tag go with
        | Some [d; v; S pr] -> (doc_of d, json_of v, pr)
        | _ -> raise (Sexp_error tag) in
      let (ndoc, nvars, npr) = get3 "norm" in
      let (mdoc, mvars, mpr) = get3 "mapped" in
      (* exec_preserved *)
      let check_exec what d' v' =
        List.iteri (fun i u ->
            if exec_preserved_b s u odoc oname ovars d' oname v' && not (exec_ordered_b s u odoc oname ovars d' oname v') then reordered := true;
            if not (exec_preserved_b s u odoc oname ovars d' oname v') then begin
              let f = big_fuel odoc d' in
              let r1 = execute f s u Mono odoc oname ovars and r2 = execute f s u Mono d' oname v' in
              let (pth, x1, x2) = match first_diff "" (strip_internal r1.rs_data) (strip_internal r2.rs_data) with
                | Some d -> d
                | None -> ("(data equal)", "", "") in
              fail "specfail" (Printf.sprintf "exec_preserved%s %s universe %d at=%s errs=%d/%d orig=%s norm=%s%s" what id i pth
                                 (List.length r1.rs_errs) (List.length r2.rs_errs) x1 x2 tagsfx)
            end) us in
      check_exec "" ndoc nvars;
      check_exec "/mapped" mdoc mvars;
      (* valid_preserved *)
      (match find "validfinal" go with
       | Some [v; S m] -> if not (valid_preserved_b true (sbool v)) then
           fail "specfail" (Printf.sprintf "valid_preserved/final %s the validator rejects the normal form: %s%s" id m tagsfx)
       | _ -> raise (Sexp_error "validfinal"));
      (* idempotent *)
      (match find "again_norm" go with
       | Some [S st; S m; S pr; v] ->
         if st <> "" then fail "specfail" (Printf.sprintf "idempotent/norm %s second run rejected at %s: %s%s" id st m tagsfx)
         else if not (idempotent_b (b npr) (b pr) nvars (json_of v)) then
           fail "specfail" (Printf.sprintf "idempotent/norm %s first=%s second=%s vars1=%s vars2=%s%s" id (quote_string npr) (quote_string pr)
                              (sexp_of_json nvars) (print_sexp v) tagsfx)
       | _ -> raise (Sexp_error "again_norm"));
      (match find "again_mapped" go with
       | Some [S st; S m; S pr; v] ->
         if st <> "" then fail "specfail" (Printf.sprintf "idempotent/mapped %s second run rejected at %s: %s%s" id st m tagsfx)
         else if not (idempotent_b (b mpr) (b pr) mvars (json_of v)) then
           fail "specfail" (Printf.sprintf "idempotent/mapped %s first=%s second=%s vars1=%s vars2=%s%s" id (quote_string mpr) (quote_string pr)
                              (sexp_of_json mvars) (print_sexp v) tagsfx)
       | _ -> raise (Sexp_error "again_mapped"))
    end;
    (* canonical *)
    (match find "canon" rest with
     | Some (L (A "kinds" :: kinds) :: L [A "stages"; S st1; S st2; S m2] :: more) ->
       let ks = String.concat "+" (List.map str kinds) in
       if st1 = "" && st2 <> "" then
         fail "specfail" (Printf.sprintf "canonical/rejected %s kinds=%s the variant is rejected at %s: %s%s" id ks st2 m2 tagsfx)
       else (match more with
           | [S p1; S p2; v1; v2; S q2; _] ->
             if not (canonical_b (b p1) (b p2) (json_of v1) (json_of v2)) then
               fail "specfail" (Printf.sprintf "canonical %s kinds=%s A=%s B=%s varsA=%s varsB=%s variant=%s%s" id ks (quote_string p1) (quote_string p2)
                                  (print_sexp v1) (print_sexp v2) (quote_string q2) tagsfx)
           | _ -> ())
     | _ -> ());
    (* model correspondence, pass by pass on Go's own intermediate trees *)
    (match find "chain" rest with
     | Some [L [A "failed"; S p; S m]] -> if not malformed then fail "error" (Printf.sprintf "chain: pass %s failed on %s: %s" p id m)
     | Some (d0 :: v0 :: steps) ->
       let vars = vars_of_json (json_of v0) in
       let cur = ref (doc_of d0) in
       let first = !cur in
       List.iter (function
           | L [A "step"; S p; d] ->
             let want = doc_of d in
             let got = match p with
               | "include_skip" -> include_skip vars !cur
               | "fragment_inline" -> frag_inline s !cur
               | "self_alias" -> self_alias !cur
               | "inline_selections" -> inline_sel s !cur
               | "merge_selections" -> merge_sel !cur
               | "remove_fragment_defs" -> remove_frag_defs !cur
               | "dedup_fields" -> dedup !cur
               | _ -> raise (Sexp_error ("unknown pass " ^ p)) in
             if got <> want then
               fail "mismatch" (Printf.sprintf "corr:C03/%s %s input=%s go=%s" p id "(see case)" (print_sexp d));
             cur := want
           | L [A "failed"; S p; S m] -> if not malformed then fail "error" (Printf.sprintf "chain: pass %s failed on %s: %s" p id m)
           | y -> raise (Sexp_error ("step: " ^ print_sexp y))) steps;
       (* and the composition *)
       if List.for_all (function L (A "step" :: _) -> true | _ -> false) steps && steps <> [] then
         if norm_selections s vars first <> !cur then
           fail "mismatch" (Printf.sprintf "corr:C03/composition %s" id)
     | _ -> raise (Sexp_error "chain"));
    if !out = [] then [("ok", (if doc_has_redex odoc then "nt " else "tr ") ^ id ^ (if malformed then " malformed" else "") ^ (if !reordered then " reordered" else ""))] else List.rev !out
  | _ -> raise (Sexp_error "case")

let () =
  if Array.length Sys.argv < 3 then (prerr_endline "usage: model_c03 <cases> <results>"; exit 2);
  run_lines Sys.argv.(1) Sys.argv.(2) handle
