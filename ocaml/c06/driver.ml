(* C06 driver.  Reads the harness' case lines

     (c06 (schema T..) (vars V..) (json J) (direct R) (pipe STAGE J' R') (modes same|differ) (note "..."))

   builds the Coq schema / variable definitions / JSON tree, runs the extracted model with the
   quirks of the Go code, and reports
     - correspondence: bare validator verdict + message, pipeline stage, normalised variables, verdict;
     - the spec checkers evaluated on the IMPLEMENTATION's observables:
         accept_iff_coercible (Spec.coercible_all std, against Go's accept/reject),
         error_names_offender (Spec.offending on Go's reported variable/path, over Go's normalised JSON),
         no_echo (every name in Go's message is a schema/operation name),
       each failure attributed to the smallest set of model quirks whose removal makes the model agree
       with the specification on this very case (cause=...). *)

let b = bytes_of_string
let s_of = string_of_bytes

(* ---- S-expression -> Coq values ---- *)
let rec ty_of = function
  | L [A "n"; S n] -> TNamed (b n)
  | L [A "l"; t] -> TList (ty_of t)
  | L [A "nn"; t] -> TNonNull (ty_of t)
  | x -> raise (Sexp_error ("type: " ^ print_sexp x))

let rec value_of = function
  | L [A "vnull"] -> VNull
  | L [A "vbool"; x] -> VBool (sbool x)
  | L [A "vint"; S r] -> VInt (b r)
  | L [A "vfloat"; S r] -> VFloat (b r)
  | L [A "vstr"; S r] -> VStr (b r, false)
  | L [A "venum"; S r] -> VEnum (b r)
  | L (A "vlist" :: xs) -> VList (List.map value_of xs)
  | L (A "vobj" :: ms) -> VObj (List.map (function L [S k; v] -> (b k, value_of v) | x -> raise (Sexp_error "vobj member")) ms)
  | x -> raise (Sexp_error ("value: " ^ print_sexp x))

let default_of = function
  | L [A "none"] -> None
  | L [A "some"; v] -> Some (value_of v)
  | x -> raise (Sexp_error ("default: " ^ print_sexp x))

let rec json_of = function
  | L [A "null"] -> JNull
  | L [A "b"; x] -> JBool (sbool x)
  | L [A "num"; S r] -> JNum (b r)
  | L [A "str"; S r] -> JStr (b r)
  | L (A "arr" :: xs) -> JArr (List.map json_of xs)
  | L (A "obj" :: ms) -> JObj (List.map (function L [S k; v] -> (b k, json_of v) | x -> raise (Sexp_error "obj member")) ms)
  | x -> raise (Sexp_error ("json: " ^ print_sexp x))

let rec show_json = function
  | JNull -> "null"
  | JBool true -> "true" | JBool false -> "false"
  | JNum r -> s_of r
  | JStr r -> quote_string (s_of r)
  | JArr l -> "[" ^ String.concat "," (List.map show_json l) ^ "]"
  | JObj m -> "{" ^ String.concat "," (List.map (fun (k, v) -> quote_string (s_of k) ^ ":" ^ show_json v) m) ^ "}"

let dir n = { d_name = b n; d_args = [] }
let mk_type kind name = { td_kind = kind; td_name = b name; td_implements = []; td_fields = []; td_members = [];
                          td_enum_values = []; td_input_fields = []; td_dirs = [] }
let type_of = function
  | L [A "scalar"; S n] -> mk_type KScalar n
  | L (A "enum" :: S n :: vs) ->
    { (mk_type KEnum n) with td_enum_values =
        List.map (function L [S v; inacc] -> { ev_name = b v; ev_dirs = if sbool inacc then [dir "inaccessible"] else [] }
                         | x -> raise (Sexp_error "enum value")) vs }
  | L (A "input" :: S n :: oneof :: fs) ->
    { (mk_type KInputObject n) with
      td_dirs = (if sbool oneof then [dir "oneOf"] else []);
      td_input_fields = List.map (function L [S f; t; d] -> { iv_name = b f; iv_type = ty_of t; iv_default = default_of d; iv_dirs = [] }
                                         | x -> raise (Sexp_error "input field")) fs }
  | x -> raise (Sexp_error ("type def: " ^ print_sexp x))

let schema_of = function
  | L (A "schema" :: ts) -> { s_query = b "Query"; s_mutation = None; s_subscription = None;
                              s_types = List.map type_of ts; s_directives = [] }
  | x -> raise (Sexp_error "schema")
let vars_of = function
  | L (A "vars" :: vs) -> List.map (function L [S n; t; d] -> { vd_name = b n; vd_type = ty_of t; vd_default = default_of d; vd_dirs = [] }
                                           | x -> raise (Sexp_error "vardef")) vs
  | x -> raise (Sexp_error "vars")

(* ---- the re-parse oracle: jsonparser.Get on the unquoted content of a JSON string.  Implemented for
   the token shapes the generator and the corpus use; everything else does not read as a value. ---- *)
let reparse (content : bytes) : json option =
  let s = s_of content in
  let is_num s = s <> "" && (try ignore (float_of_string s); true with _ -> false)
                 && String.for_all (fun c -> (c >= '0' && c <= '9') || c = '-' || c = '.' || c = 'e' || c = 'E' || c = '+') s in
  match s with
  | "{}" -> Some (JObj [])
  | "[]" -> Some (JArr [])
  | "null" -> Some JNull
  | "true" -> Some (JBool true)
  | "false" -> Some (JBool false)
  | _ -> if is_num s then Some (JNum content) else None

(* ---- projection of a model error to the harness' classification ---- *)
let shown_path (e : verr) : string =
  match e.e_kind with
  | EVarRequired _ | EVarNull _ | ENotObject _ | EFieldRequired _ | EOutOfFuel -> ""
  | EUnknownField _ -> s_of (render_path e.e_path)
  | _ -> (match e.e_path with _ :: _ :: _ -> s_of (render_path e.e_path) | _ -> "")

let project (e : verr) : string =
  let pt t = s_of (print_type t) in
  let kind, a1, a2 = match e.e_kind with
    | EVarRequired t -> "var_required", pt t, ""
    | EVarNull t -> "var_null", pt t, ""
    | ENotObject tn -> "not_object", s_of tn, ""
    | EFieldRequired (fn, t) -> "field_required", s_of fn, pt t
    | EScalar tn -> "scalar", s_of tn, ""
    | EWantList tn -> "want_list", s_of tn, ""
    | EEnumNonString tn -> "enum_nonstring", s_of tn, ""
    | EUnknownField (k, tn) -> "unknown_field", s_of k, s_of tn
    | EEnumValue (tn, _) -> "enum_value", s_of tn, ""
    | EOneOfCount (tn, n) -> "oneof_count", s_of tn, string_of_int (int_of_nat n)
    | EOneOfNull (tn, fn) -> "oneof_null", s_of tn, s_of fn
    | EOutOfFuel -> "out_of_fuel", "", "" in
  Printf.sprintf "(err %s %s %s %s %s)" kind (quote_string (s_of e.e_var)) (quote_string (shown_path e)) (quote_string a1) (quote_string a2)

let show_vstate = function None -> "(ok)" | Some e -> project e

(* the harness' R without its message *)
let impl_verdict = function
  | L [A "ok"] -> "(ok)", None
  | L [A "err"; A kind; S v; S p; S a1; S a2; L [A "msg"; S m]] ->
    Printf.sprintf "(err %s %s %s %s %s)" kind (quote_string v) (quote_string p) (quote_string a1) (quote_string a2), Some (kind, v, p, a1, a2, m)
  | x -> raise (Sexp_error ("verdict: " ^ print_sexp x))

(* ---- quirks and causes ---- *)
(* int-accepts-non-int32 and id-accepts-non-integer-number were here until their repair in /repo: their flags are
   off in go_quirks, so a non-integral / out-of-range number accepted again for Int or ID is a model mismatch and an
   unexplained specification failure (a VIOLATION), not a known finding *)
let quirk_keys = [
  "upload-exempt-from-non-null", (fun q -> { q with q_upload_exempt = false });
]

(* C06_QUIRKS_OFF=key,key : the quirk setting the implementation under test is expected to have (used to
   try a repaired copy of the Go code against the corresponding repaired model); default: the code as it is *)
let base_quirks : quirks =
  match Sys.getenv_opt "C06_QUIRKS_OFF" with
  | None | Some "" -> go_quirks
  | Some s ->
    List.fold_left (fun q k -> match List.assoc_opt k quirk_keys with Some f -> f q | None -> failwith ("unknown quirk " ^ k))
      go_quirks (String.split_on_char ',' s)

let rec subsets k l =
  if k = 0 then [[]] else match l with
    | [] -> []
    | x :: r -> List.map (fun s -> x :: s) (subsets (k - 1) r) @ subsets k r

(* smallest set of causes whose repair makes the model give [want] (true = accept, false = reject) *)
let find_causes (sch : schema) (vds : vardef list) (j : json) (want : bool) : string list option =
  let try_set set =
    let q = List.fold_left (fun q (_, f) -> f q) base_quirks set in
    match pipeline q sch reparse vds j with
    | PDone (_, None) -> want
    | PDone (_, Some _) | PNormErr -> not want
    | PPanic | PFuel -> false in
  let rec go k =
    if k > 3 then None
    else match List.find_opt try_set (subsets k quirk_keys) with
      | Some set -> Some (List.map fst set)
      | None -> go (k + 1) in
  (* when the faithful model already gives the wanted verdict the implementation has left the model:
     no recorded cause explains that *)
  if try_set [] then None else go 1

(* ---- paths as printed by renderPath:  x.a.[0].b ---- *)
let steps_of_path (p : string) : step list option =
  if p = "" then Some [] else
  match String.split_on_char '.' p with
  | [] -> Some []
  | _ :: rest ->
    (try Some (List.map (fun it ->
       let n = String.length it in
       if n >= 3 && it.[0] = '[' && it.[n - 1] = ']' then StIndex (n_of_int (int_of_string (String.sub it 1 (n - 2))))
       else StField (b it)) rest)
     with _ -> None)

let base_type_name (printed : string) : string =
  String.concat "" (List.filter (fun s -> s <> "") (String.split_on_char '[' (String.concat "" (String.split_on_char ']' (String.concat "" (String.split_on_char '!' printed))))))

let handle (x : sexp) : (string * string) list =
  match x with
  | L [A "c06"; sch_s; vars_s; L [A "json"; j_s]; L [A "direct"; d_s]; L [A "pipe"; A stage; norm_s; pv_s]; L [A "modes"; A modes]; L [A "note"; S note]] ->
    let sch = schema_of sch_s and vds = vars_of vars_s and j = json_of j_s in
    let res = ref [] in
    let add st d = res := (st, d) :: !res in
    if modes <> "same" then add "mismatch" "corr:C06/modes verdict depends on DisableExposingVariablesContent";
    (* --- bare validator --- *)
    let m_direct = validate base_quirks sch vds j in
    let i_direct, i_dinfo = impl_verdict d_s in
    if show_vstate m_direct <> i_direct then
      add "mismatch" (Printf.sprintf "corr:C06/verdict direct impl=%s model=%s" i_direct (show_vstate m_direct))
    else (match m_direct, i_dinfo with
        | Some e, Some (_, _, _, _, _, msg) ->
          if s_of (render_msg e) <> msg then
            add "mismatch" (Printf.sprintf "corr:C06/message direct impl=%s model=%s" (quote_string msg) (quote_string (s_of (render_msg e))))
        | _ -> ());
    (* --- pipeline --- *)
    let m_pipe = pipeline base_quirks sch reparse vds j in
    let m_stage, m_norm, m_v = match m_pipe with
      | PDone (n, None) -> "ok", Some n, None
      | PDone (n, Some e) -> "vars", Some n, Some e
      | PNormErr -> "norm", None, None
      | PPanic -> "panic", None, None
      | PFuel -> "fuel", None, None in
    if m_stage <> stage then
      add "mismatch" (Printf.sprintf "corr:C06/verdict pipeline stage impl=%s model=%s%s" stage m_stage
                        (match m_v with Some e -> " " ^ project e | None -> ""))
    else begin
      (match m_norm with
       | Some n ->
         let i_norm = (match norm_s with L [A "none"] -> "(none)" | L [A "unparsed"; S s] -> "unparsed " ^ s | t -> show_json (json_of t)) in
         if show_json n <> i_norm then
           add "mismatch" (Printf.sprintf "corr:C06/normalised impl=%s model=%s" i_norm (show_json n))
       | None -> ());
      if stage = "vars" then begin
        let i_v, i_info = impl_verdict pv_s in
        if show_vstate m_v <> i_v then
          add "mismatch" (Printf.sprintf "corr:C06/verdict pipeline impl=%s model=%s" i_v (show_vstate m_v))
        else (match m_v, i_info with
            | Some e, Some (_, _, _, _, _, msg) ->
              if s_of (render_msg e) <> msg then
                add "mismatch" (Printf.sprintf "corr:C06/message pipeline impl=%s model=%s" (quote_string msg) (quote_string (s_of (render_msg e))))
            | _ -> ())
      end
    end;
    (* --- specification on the implementation's verdict --- *)
    (* the specification takes a variable's default to be valid (operation validation's job): a generated
       default that is not a value of its type is a generator error, not a finding *)
    List.iter (fun vd -> match vd.vd_default with
        | Some dv when not (coercible std sch vd.vd_type false (Some (value_to_json dv))) ->
          add "error" ("generator: the default of $" ^ s_of vd.vd_name ^ " is not a value of its type")
        | _ -> ()) vds;
    let spec = coercible_all std sch vds j in
    (match stage with
     | "panic" ->
       (match find_causes sch vds j spec with
        | Some cs -> List.iter (fun c -> add "specfail" (Printf.sprintf "total cause=%s implementation panicked; spec=%s" c (if spec then "coercible" else "not-coercible"))) cs
        | None -> add "specfail" "total cause=unexplained implementation panicked")
     | "ok" | "vars" | "norm" ->
       let go_accept = (stage = "ok") in
       if go_accept <> spec then begin
         let what = Printf.sprintf "go=%s spec=%s" (if go_accept then "accept" else "reject") (if spec then "coercible" else "not-coercible") in
         match find_causes sch vds j spec with
         | Some cs -> List.iter (fun c -> add "specfail" (Printf.sprintf "accept_iff_coercible cause=%s %s" c what)) cs
         | None -> add "specfail" (Printf.sprintf "accept_iff_coercible cause=unexplained %s" what)
       end
     | _ -> ());
    (* --- the reported position and the names in the message (Go's own verdict over Go's own normalised JSON) --- *)
    (if stage = "vars" then
       match impl_verdict pv_s, norm_s with
       | (_, Some (kind, v, p, a1, a2, _)), nj when kind <> "unclassified" && (match nj with L [A "none"] | L [A "unparsed"; _] -> false | _ -> true) ->
         let nj = json_of nj in
         (* after default extraction the variable's default is part of the JSON *)
         let vds' = List.map (fun vd -> { vd with vd_default = None }) vds in
         (match steps_of_path p with
          | None -> add "specfail" ("error_names_offender cause=unexplained unreadable path " ^ quote_string p)
          | Some steps ->
            if not (offending std sch vds' nj (b v) steps) then begin
              add "specfail" (Printf.sprintf "error_names_offender cause=unexplained %s at %s is not an offending position" v (quote_string p))
            end);
         let known n = known_name sch vds (b n) in
         let bad = ref [] in
         let chk what n = if not (known n) then bad := (what ^ "=" ^ n) :: !bad in
         chk "variable" v;
         (match steps_of_path p with Some st -> List.iter (function StField n -> chk "path" (s_of n) | StIndex _ -> ()) st | None -> ());
         (match kind with
          | "var_required" | "var_null" -> chk "type" (base_type_name a1)
          | "field_required" -> chk "field" a1; chk "type" (base_type_name a2)
          | "unknown_field" -> chk "type" a2
          | "oneof_null" -> chk "type" a1; chk "field" a2
          | "unclassified" -> ()
          | _ -> chk "type" a1);
         if !bad <> [] then add "specfail" ("no_echo cause=unexplained " ^ String.concat "," !bad);
         if kind = "unknown_field" && not (known a1) then
           add "specfail" (Printf.sprintf "no_echo cause=unknown-field-echo client key %s printed with content exposure disabled" (quote_string a1))
       | _ -> ());
    let nontrivial = note <> "" || int_of_nat (jdepth j) >= 3 in
    if !res = [] then [("ok", if nontrivial then "nt" else "tr")] else List.rev !res
  | _ -> [("error", "unrecognised case")]

let () = run_lines Sys.argv.(1) Sys.argv.(2) handle
