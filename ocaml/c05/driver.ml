(* C05 driver, stage 1: token stream correspondence *)
let show_tok (t : token) =
  Printf.sprintf "(%s %s %s %s %s %s %s)" (decimal_of_n (kind_code t.t_kind)) (decimal_of_n t.t_start) (decimal_of_n t.t_end)
    (decimal_of_n t.t_ls) (decimal_of_n t.t_cs) (decimal_of_n t.t_le) (decimal_of_n t.t_ce)

let handle (x : sexp) : (string * string) list =
  match x with
  | L (A "c05" :: A cls :: S input :: A l :: A f :: toks :: _) ->
    let b = bytes_of_string input in
    let res = ref [] in
    let m_toks = match tokenize b with
      | None -> "(toks outoffuel)"
      | Some ts -> print_sexp (L (A "toks" :: List.map (fun t -> parse_sexp (show_tok t)) ts)) in
    let i_toks = print_sexp toks in
    if m_toks <> i_toks then res := ("mismatch", Printf.sprintf "corr:C05/tokens impl=%s model=%s" i_toks m_toks) :: !res;
    if !res = [] then [("ok", "nt")] else List.rev !res
  | _ -> [("error", "unrecognised case")]

let () = run_lines Sys.argv.(1) Sys.argv.(2) handle
