(* C05 driver.  One harness line per case:
     (c05 class "input" L F (toks (k s e ls cs le ce)...) (lim v depth fields) (parse v) (dump "sexp")
          (rt c (p1 "..") (acc v) (dump2 "..") (p2 "..")) (rt i ...))
   Correspondence (model vs implementation): token stream, limits verdict + stats, accept/reject, tree,
   compact and indented print.  Spec checkers (extracted from Coq) on the implementation's OWN outputs:
   token ranges inside the input and increasing, no panic, references inside the input, limits
   soundness against the real depth / field count of the dumped tree, print/parse round trip. *)

let b2s = string_of_bytes
let q b = quote_string (b2s b)

(* ---- model tree -> dump format of harness/gqldump ---- *)
let rec show_ty = function
  | TNamed n -> "(named " ^ q n ^ ")"
  | TList t -> "(list " ^ show_ty t ^ ")"
  | TNonNull t -> "(nn " ^ show_ty t ^ ")"
let rec show_value = function
  | VVar n -> "(var " ^ q n ^ ")"
  | VInt r -> "(int " ^ q r ^ ")"
  | VFloat r -> "(float " ^ q r ^ ")"
  | VStr (r, blk) -> "(str " ^ q r ^ (if blk then " t)" else " f)")
  | VBool b -> if b then "(bool t)" else "(bool f)"
  | VNull -> "(null)"
  | VEnum n -> "(enum " ^ q n ^ ")"
  | VList l -> "(list" ^ String.concat "" (List.map (fun v -> " " ^ show_value v) l) ^ ")"
  | VObj l -> "(obj" ^ String.concat "" (List.map (fun (k, v) -> " (" ^ q k ^ " " ^ show_value v ^ ")") l) ^ ")"
let show_args l = "(" ^ String.concat " " (List.map (fun (k, v) -> "(" ^ q k ^ " " ^ show_value v ^ ")") l) ^ ")"
let show_dirs l = "(" ^ String.concat " " (List.map (fun d -> "(d " ^ q d.d_name ^ " " ^ show_args d.d_args ^ ")") l) ^ ")"
let show_opt = function None -> "(none)" | Some n -> "(some " ^ q n ^ ")"
let rec show_sel = function
  | SField (al, n, args, dirs, sels) ->
    "(f " ^ show_opt al ^ " " ^ q n ^ " " ^ show_args args ^ " " ^ show_dirs dirs ^ " " ^ show_sels sels ^ ")"
  | SInline (tc, dirs, sels) -> "(i " ^ show_opt tc ^ " " ^ show_dirs dirs ^ " " ^ show_sels sels ^ ")"
  | SSpread (n, dirs) -> "(sp " ^ q n ^ " " ^ show_dirs dirs ^ ")"
and show_sels l = "(" ^ String.concat " " (List.map show_sel l) ^ ")"
let show_vd v =
  "(vd " ^ q v.vd_name ^ " " ^ show_ty v.vd_type ^ " "
  ^ (match v.vd_default with None -> "(none)" | Some d -> "(some " ^ show_value d ^ ")") ^ " " ^ show_dirs v.vd_dirs ^ ")"
let show_def = function
  | DOp o ->
    "(op " ^ (match o.op_kind with OpQuery -> "query" | OpMutation -> "mutation" | OpSubscription -> "subscription")
    ^ " " ^ show_opt o.op_name ^ " (" ^ String.concat " " (List.map show_vd o.op_vars) ^ ") " ^ show_dirs o.op_dirs
    ^ " " ^ show_sels o.op_sels ^ ")"
  | DFrag f -> "(frag " ^ q f.fr_name ^ " " ^ q f.fr_type ^ " " ^ show_dirs f.fr_dirs ^ " " ^ show_sels f.fr_sels ^ ")"
let show_doc d = "(doc" ^ String.concat "" (List.map (fun x -> " " ^ show_def x) d) ^ ")"

(* ---- implementation dump -> Coq tree (for the limit spec; non-executable definitions are skipped,
        descriptions dropped) ---- *)
exception Not_exec
let rec ty_of = function
  | L [A "named"; S n] -> TNamed (bytes_of_string n)
  | L [A "list"; t] -> TList (ty_of t)
  | L [A "nn"; t] -> TNonNull (ty_of t)
  | x -> raise (Sexp_error ("type: " ^ print_sexp x))
let rec value_of = function
  | L [A "var"; S n] -> VVar (bytes_of_string n)
  | L [A "int"; S n] -> VInt (bytes_of_string n)
  | L [A "float"; S n] -> VFloat (bytes_of_string n)
  | L [A "str"; S n; A b] -> VStr (bytes_of_string n, b = "t")
  | L [A "bool"; A b] -> VBool (b = "t")
  | L [A "null"] -> VNull
  | L [A "enum"; S n] -> VEnum (bytes_of_string n)
  | L (A "list" :: vs) -> VList (List.map value_of vs)
  | L (A "obj" :: fs) -> VObj (List.map (function L [S k; v] -> (bytes_of_string k, value_of v) | x -> raise (Sexp_error "objfield")) fs)
  | x -> raise (Sexp_error ("value: " ^ print_sexp x))
let args_of x = List.map (function L [S k; v] -> (bytes_of_string k, value_of v) | _ -> raise (Sexp_error "arg")) (lst x)
let dirs_of x = List.map (function L [A "d"; S n; a] -> { d_name = bytes_of_string n; d_args = args_of a } | _ -> raise (Sexp_error "dir")) (lst x)
let opt_of = function L [A "none"] -> None | L [A "some"; S n] -> Some (bytes_of_string n) | _ -> raise (Sexp_error "opt")
let rec sel_of = function
  | L [A "f"; al; S n; args; dirs; sels] -> SField (opt_of al, bytes_of_string n, args_of args, dirs_of dirs, List.map sel_of (lst sels))
  | L [A "i"; tc; dirs; sels] -> SInline (opt_of tc, dirs_of dirs, List.map sel_of (lst sels))
  | L [A "sp"; S n; dirs] -> SSpread (bytes_of_string n, dirs_of dirs)
  | x -> raise (Sexp_error ("sel: " ^ print_sexp x))
let rec vd_of = function
  | L [A "described"; _; v] -> vd_of v
  | L [A "vd"; S n; t; dv; dirs] ->
    { vd_name = bytes_of_string n; vd_type = ty_of t;
      vd_default = (match dv with L [A "none"] -> None | L [A "some"; v] -> Some (value_of v) | _ -> raise (Sexp_error "default"));
      vd_dirs = dirs_of dirs }
  | x -> raise (Sexp_error ("vardef: " ^ print_sexp x))
let rec def_of = function
  | L [A "described"; _; d] -> def_of d
  | L [A "op"; A k; nm; vds; dirs; sels] ->
    Some (DOp { op_kind = (match k with "mutation" -> OpMutation | "subscription" -> OpSubscription | _ -> OpQuery);
                op_name = opt_of nm; op_vars = List.map vd_of (lst vds); op_dirs = dirs_of dirs; op_sels = List.map sel_of (lst sels) })
  | L [A "frag"; S n; S t; dirs; sels] ->
    Some (DFrag { fr_name = bytes_of_string n; fr_type = bytes_of_string t; fr_dirs = dirs_of dirs; fr_sels = List.map sel_of (lst sels) })
  | _ -> None
let doc_of = function
  | L (A "doc" :: defs) -> List.filter_map def_of defs
  | x -> raise (Sexp_error ("doc: " ^ print_sexp x))

let contains s sub =
  let n = String.length s and m = String.length sub in
  let rec go i = i + m <= n && (String.sub s i m = sub || go (i + 1)) in go 0

(* ---- a round-trip failure of the implementation is never attributed to a known defect any more: the four
        causes this check used to recognise (rt-nul-in-string, rt-block-string-edge, rt-sdl-empty-body-dropped,
        rt-string-line-continuation) are repaired, so whatever fails to round-trip is a VIOLATION.  What is
        left is a diagnostic: does the implementation's tree hold a string that does not survive re-quoting
        (extracted string_stable_b / description_stable_b)? ---- *)
let rec exists_node (p : sexp -> bool) (x : sexp) : bool =
  p x || (match x with L l -> List.exists (exists_node p) l | _ -> false)
let rt_diag (dump : sexp) : string =
  if exists_node (function
      | L [A "str"; S r; A b] -> not (string_stable_b (bytes_of_string r) (b = "t"))
      | L [A "desc"; S r; A b] -> not (description_stable_b (bytes_of_string r) (b = "t"))
      | _ -> false) dump then " [diag: a stored string is not re-quotable]" else ""

let show_tok (t : token) =
  Printf.sprintf "(%s %s %s %s %s %s %s)" (decimal_of_n (kind_code t.t_kind)) (decimal_of_n t.t_start) (decimal_of_n t.t_end)
    (decimal_of_n t.t_ls) (decimal_of_n t.t_cs) (decimal_of_n t.t_le) (decimal_of_n t.t_ce)

let show_verdict = function LOk -> "ok" | LDepth -> "depth" | LFields -> "fields"

let handle (x : sexp) : (string * string) list =
  match x with
  | L [A "c05"; A cls; S input; A l; A f; toks; lim; L [A "parse"; A pv]; L [A "dump"; S dump1]; L [A "cdump"; S cdump1]; rtc; rti] ->
    let b = bytes_of_string input in
    let lz = z_of_decimal l and fz = z_of_decimal f in
    let res = ref [] in
    let add st d = res := (st, d) :: !res in
    (* ---------------- tokens *)
    let m_toks = match tokenize b with
      | None -> "(toks outoffuel)"
      | Some ts -> "(toks" ^ String.concat "" (List.map (fun t -> " " ^ show_tok t) ts) ^ ")" in
    let i_toks = print_sexp toks in
    if m_toks <> i_toks then add "mismatch" (Printf.sprintf "corr:C05/tokens impl=%s model=%s" i_toks m_toks);
    let tok_items = match toks with L (A "toks" :: items) -> Some items | _ -> None in
    (match tok_items with
     | Some items when (match items with A _ :: _ -> false | _ -> true) ->
       let ranges = List.map (function L (_ :: A s :: A e :: _) -> (n_of_decimal s, n_of_decimal e) | _ -> raise (Sexp_error "tok")) items in
       if not (ranges_ok_b (n_of_int (String.length input)) N0 ranges) then add "specfail" ("tokens_in_range " ^ i_toks)
     | _ -> add "specfail" ("total: lexer " ^ i_toks));
    (* ---------------- block strings: C15's model of the lexer's trimming (the lexer side of the theorem
       c05_block_string_requotable) against every terminated block-string token of the implementation *)
    (match tok_items with
     | Some items ->
       let n = String.length input in
       let is_ws c = c = ' ' || c = '\t' || c = '\r' || c = '\n' in
       List.iter (function
           | L (A "21" :: A s :: A e :: _) ->
             let s = int_of_string s and e = int_of_string e in
             if s <= e && e <= n then begin
               let bs = ref s and be = ref e in
               while !bs > 0 && is_ws input.[!bs - 1] do decr bs done;
               while !be < n && is_ws input.[!be] do incr be done;
               if !bs >= 3 && String.sub input (!bs - 3) 3 = "\"\"\"" && !be + 3 <= n && String.sub input !be 3 = "\"\"\"" then begin
                 let body = bytes_of_string (String.sub input !bs (!be - !bs)) in
                 let content = String.sub input s (e - s) in
                 if not (go_block_lexable body) then
                   add "mismatch" (Printf.sprintf "corr:C05/block-trim the implementation delimits %s, the trimming model does not" (quote_string (b2s body)))
                 else if b2s (stored body) <> content then
                   add "mismatch" (Printf.sprintf "corr:C05/block-trim body=%s impl=%s model=%s" (quote_string (b2s body)) (quote_string content) (q (stored body)))
                 else if b2s (stored (printed (stored body))) <> content then
                   add "mismatch" (Printf.sprintf "corr:C05/block-requote body=%s" (quote_string (b2s body)))
               end
             end
           | _ -> ()) items
     | None -> ());
    (* ---------------- limits *)
    let i_lim = print_sexp lim in
    let m_lim = match tokenize_limits true true lz fz b with
      | None -> "(lim outoffuel)"
      | Some ((v, d), fl) -> Printf.sprintf "(lim %s %s %s)" (show_verdict v) (decimal_of_z d) (decimal_of_z fl) in
    if i_lim <> m_lim then add "mismatch" (Printf.sprintf "corr:C05/limits impl=%s model=%s" i_lim m_lim);
    let lim_accepted = (match lim with L (A "lim" :: A "ok" :: _) -> true | _ -> false) in
    (match lim with L (A "lim" :: A "panic" :: _) -> add "specfail" "total: ParseWithLimits panicked" | _ -> ());
    (* ---------------- parse, tree, print *)
    if pv = "panic" then add "specfail" "total: Parse panicked";
    let rt_p1 = function L [A "rt"; _; L [A "p1"; S p]; _; _; _] -> p | _ -> raise (Sexp_error "rt") in
    (match parse_bytes b with
     | Unsup -> ()
     | Oof -> add "mismatch" "corr:C05/parse model out of fuel"
     | Err -> if pv = "ok" then add "mismatch" "corr:C05/accept impl=ok model=err"
     | Ok (d, _) ->
       if pv <> "ok" then add "mismatch" ("corr:C05/accept impl=" ^ pv ^ " model=ok")
       else begin
         let md = print_sexp (parse_sexp (show_doc d)) and idmp = print_sexp (parse_sexp dump1) in
         if md <> idmp then add "mismatch" (Printf.sprintf "corr:C05/tree impl=%s model=%s" idmp md);
         let mc = b2s (print_doc None d) and mi = b2s (print_doc (Some (bytes_of_string "  ")) d) in
         if mc <> rt_p1 rtc then add "mismatch" (Printf.sprintf "corr:C05/print-compact impl=%s model=%s" (quote_string (rt_p1 rtc)) (quote_string mc));
         if mi <> rt_p1 rti then add "mismatch" (Printf.sprintf "corr:C05/print-indent impl=%s model=%s" (quote_string (rt_p1 rti)) (quote_string mi));
         (* hypotheses of the round-trip theorem, evaluated on the tree: parse_wf says wf_doc always holds;
            the lexical hypothesis may fail only through an unstable string *)
         if not (wf_doc d) then add "mismatch" "corr:C05/parse-wf wf_doc false on a parsed tree";
         let stable = doc_strings_stable_b d in
         let lc = lex_print_ok_b None d and li = lex_print_ok_b (Some (bytes_of_string "  ")) d in
         if stable && not (lc && li) then
           add "mismatch" (Printf.sprintf "corr:C05/lex-print strings stable but lexing the print does not give the token-level print (compact=%b indent=%b)" lc li);
         (* the theorem: under the hypotheses the MODEL round-trips; then the implementation must too (checked below) *)
         if lc then (match parse_bytes (print_doc None d) with
                     | Ok (d2, _) when d2 = d -> ()
                     | _ -> add "mismatch" "corr:C05/roundtrip-theorem model does not round-trip although hypotheses hold")
       end);
    (* ---------------- specs on the implementation's outputs *)
    if pv = "ok" then begin
      if contains dump1 "(bad" || contains dump1 "(dumppanic" then add "specfail" ("refs_in_input " ^ dump1);
      (* limits soundness against the real depth / fields of the dumped tree *)
      let d_impl = doc_of (parse_sexp dump1) in
      if not (limits_ok_b lz fz d_impl lim_accepted) then
        add "specfail" (Printf.sprintf "limits_sound L=%s F=%s depth_sum=%s depth_inlined=%s depth_per_definition=%s real_fields=%s impl=%s" l f
                          (decimal_of_z (depth_sum d_impl)) (decimal_of_z (max_depth_inlined d_impl d_impl))
                          (decimal_of_z (doc_depth d_impl)) (decimal_of_z (doc_fields d_impl)) i_lim);
      (* round trip, compact and indented *)
      List.iter (fun rt ->
        match rt with
        | L [A "rt"; A tag; L [A "p1"; S p1]; L [A "acc"; A acc]; L [A "dump2"; S dump2]; L [A "p2"; S p2]] ->
          if acc = "panic" || acc = "printpanic" then add "specfail" ("total: print/re-parse panicked (" ^ tag ^ ")")
          else if not (roundtrip_ok_b (acc = "ok") (bytes_of_string cdump1) (bytes_of_string dump2) (bytes_of_string p1) (bytes_of_string p2)) then
            add "specfail" (Printf.sprintf "roundtrip/%s acc=%s dump_equal=%b print_equal=%b%s p1=%s p2=%s" tag acc (cdump1 = dump2) (p1 = p2)
                              (rt_diag (parse_sexp dump1))
                              (quote_string p1) (quote_string p2))
        | _ -> raise (Sexp_error "rt")) [rtc; rti]
    end;
    let ntoks = match tok_items with Some items -> List.length items | None -> 0 in
    let has_lit = match tok_items with
      | Some items -> List.exists (function L (A k :: _) -> k = "20" || k = "21" || k = "22" || k = "23" | _ -> false) items
      | None -> false in
    if !res = [] then [("ok", if ntoks >= 5 || has_lit then "nt" else "tr")] else List.rev !res
  | _ -> [("error", "unrecognised case")]

let () = run_lines Sys.argv.(1) Sys.argv.(2) handle
