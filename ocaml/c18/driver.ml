(* C18 driver.  Case line (from harness/cmd/c18):
     (c18 ws (idle M) (keys (i e p h ip)...) (hdrs (h hid (name value...)...)...) (sched ev...) (wins (w ev obs...)...) (minus (i (wins ...))...))
     (c18 sse (idle M) (keys) (hdrs) (sched ...) (wins ...))
   h names a header multimap of the harness' table: (hdrs ..) spells it out (names and values interned as numbers, names in
   the order Header.Write enumerates them) together with hid, the first table entry that presents the SAME identity at the
   upgrade request (the upstream's net/http canonicalises the spelling of names and does not see a name without values).
   The model's key is Model.conn_key of the option tuple (every header line).  The upstream reports the identity it saw at
   each upgrade as (sdial d e p hid); the spec checkers compare identities: a subscribe frame of i may arrive on
   connection d only if i's option tuple presents, at an upgrade, exactly what the upstream saw when d was dialled.
   For every window the harness event is replayed on the extracted LTS (the external action, then
   the internal actions to quiescence), the model's observables are compared with the
   implementation's (corr:C18/ws, corr:C18/sse), and the spec checkers extracted from Spec.v
   (routing, cancel_isolated, shared_iff_same_key, conns_drain, SSE routing) are evaluated on the
   IMPLEMENTATION's log. *)
let ni = nat_of_int
let ii = int_of_nat
let nn = n_of_int

(* h -> (hid, multimap); filled per case from the (hdrs ..) element *)
let hdr_tbl : (int, int * (n * n list) list) Hashtbl.t = Hashtbl.create 16
let hdrs_of h = match Hashtbl.find_opt hdr_tbl h with
  | Some (_, m) -> m
  | None -> if h = 0 then [] else [(nn 9999, [nn h])]
let hid_of h = match Hashtbl.find_opt hdr_tbl h with Some (x, _) -> x | None -> h
let key_of_ints e p h ip : key = conn_key (((nn e, nn p), hdrs_of h), nn ip)
(* (e, p, IDENTITY presented at an upgrade, ip) *)
let ints_of_key (k : key) =
  let (((e, p), lines), ip) = k in
  let hs = List.sort compare (Hashtbl.fold (fun h (hid, m) acc -> if hdr_lines m = lines then hid :: acc else acc) hdr_tbl []) in
  let h = (match hs with x :: _ -> x | [] -> (match lines with [] -> 0 | [(_, v)] -> int_of_n v | _ -> 99)) in
  (int_of_n e, int_of_n p, h, int_of_n ip)
let ident_key (k : key) : key = let (e, p, h, ip) = ints_of_key k in key_of_ints e p h ip
let ident_eq (a : key) (b : key) = ints_of_key a = ints_of_key b

let cls_of_err = function
  | ECtx (_, _) -> "ctx" | EDial -> "dial" | EInit _ -> "init" | EClosed _ -> "closed"
  | EExists -> "exists" | EWrite _ -> "write"
let kind_str = function
  | KData t -> Printf.sprintf "d %d" (int_of_n t) | KDataNil -> "d -1" | KError -> "e" | KComplete -> "c"
  | KConnErr b -> Printf.sprintf "x %d" (if b then 1 else 0) | KUnknown -> "unknown"

(* frames: the harness' codes *)
let ftype_code = function
  | FNext -> 0 | FData -> 1 | FError -> 2 | FComplete -> 3 | FConnError -> 4 | FPing -> 5 | FPong -> 6 | FKa -> 7
  | FAck -> 8 | FOther -> 9 | FGarbage -> 10
let ftype_of_code = function
  | 0 -> FNext | 1 -> FData | 2 -> FError | 3 -> FComplete | 4 -> FConnError | 5 -> FPing | 6 -> FPong | 7 -> FKa
  | 8 -> FAck | 9 -> FOther | _ -> FGarbage
let proto_code = function PTws -> 0 | PGws -> 1
let proto_of_code = function 0 -> PTws | _ -> PGws
let pl_codes = function PNone -> (0, 0) | PObj t -> (1, int_of_n t) | PBad -> (2, 0)
let pl_of_codes pl tag = match pl with 0 -> PNone | 1 -> PObj (n_of_int tag) | _ -> PBad
(* (up conn proto type id payload tag): id -2 = the frame has no id, -1 = an id nobody was given *)
let up_str c p t w pl tag = Printf.sprintf "(up %d %d %d %d %d %d)" c p t w pl (if pl = 1 then tag else 0)
let setype_code = function SNext -> 0 | SError -> 1 | SComplete -> 2 | SNoType -> 3 | SOtherType -> 4
let setype_of_code = function 0 -> SNext | 1 -> SError | 2 -> SComplete | 3 -> SNoType | _ -> SOtherType
let sdata_codes = function DAbsent -> (0, 0) | DEmpty -> (1, 0) | DObj t -> (2, int_of_n t) | DBad -> (3, 0)
let sdata_of_codes d tag = match d with 0 -> DAbsent | 1 -> DEmpty | 2 -> DObj (n_of_int tag) | _ -> DBad
let sseup_str i t d tag = Printf.sprintf "(sseup %d %d %d %d)" i t d (if d = 2 then tag else 0)

(* model event -> canonical strings (wire ids replaced by their owner) *)
let show_model_ev (owner : int -> int) (e : ev) : string list =
  match e with
  | ORet (i, None) -> [Printf.sprintf "(ret %d ok)" (ii i)]
  | ORet (i, Some x) -> [Printf.sprintf "(ret %d %s)" (ii i) (cls_of_err x)]
  | ODeliver (i, k) -> [Printf.sprintf "(dlv %d %s)" (ii i) (kind_str k)]
  | OConnErr (i, _) -> [Printf.sprintf "(cerr %d)" (ii i)]
  | OCancel i -> [Printf.sprintf "(cancel %d)" (ii i)]
  | OSrvDial (d, k) -> let (e, p, h, _) = ints_of_key k in [Printf.sprintf "(sdial %d %d %d %d)" (ii d) e p h]
  | OSrvSub (c, w, i) -> [Printf.sprintf "(ssub %d %d %d)" (ii c) (ii i) (ii i)]
  | OSrvStop (c, w) -> [Printf.sprintf "(sstop %d %d)" (ii c) (owner (ii w))]
  | OSrvClosed c -> [Printf.sprintf "(sclosed %d)" (ii c)]
  | OUp (c, p, f) ->
    let (pl, tag) = pl_codes f.f_pl in
    [up_str (ii c) (proto_code p) (ftype_code f.f_type) (match f.f_id with None -> -2 | Some w -> owner (ii w)) pl tag]
  | OAccept d -> [Printf.sprintf "(accept %d)" (ii d)]
  | OReject d -> [Printf.sprintf "(reject %d)" (ii d)]
  | OAck d -> [Printf.sprintf "(ack %d)" (ii d)]
  | OInitFail (d, r) -> [Printf.sprintf "(initfail %d %d)" (ii d) (int_of_n r)]
  | ODrop c -> [Printf.sprintf "(drop %d)" (ii c)]
  | OPing c -> [Printf.sprintf "(ping %d)" (ii c)]
  | OTick -> []
  | OStats (a, b) -> [Printf.sprintf "(stats %d %d)" (ii a) (ii b)]
  | OSseReq i -> [Printf.sprintf "(ssereq %d)" (ii i)]
  | OSseRet (i, ok) -> [Printf.sprintf "(sseret %d %s)" (ii i) (if ok then "t" else "f")]
  | OSseUp (i, e) -> let (d, tag) = sdata_codes e.se_data in [sseup_str (ii i) (setype_code e.se_type) d tag]
  | OSseDeliver (i, k) -> [Printf.sprintf "(ssedlv %d %s)" (ii i) (kind_str k)]
  | OSseErr i -> [Printf.sprintf "(sseerr %d)" (ii i)]

let rank (x : sexp) : int =
  match x with
  | L (A h :: _) ->
    (match h with
     | "cancel" -> 0 | "accept" | "ack" | "reject" | "initfail" | "drop" -> 1 | "sseup" | "up" -> 2
     | "dlv" | "ssedlv" -> 3 | "sdial" | "ssereq" -> 4 | "ssub" -> 5 | "ret" | "sseret" -> 6 | "sstop" -> 7
     | "cerr" | "sseerr" -> 8 | "sclosed" -> 9 | _ -> 10)
  | _ -> 10

let atoi x = int_of_string (atom x)

(* implementation observable -> ev (for the checkers); wire ids stay the harness' numbering *)
let impl_ev (ipof : int -> int) (x : sexp) : ev list =
  match x with
  | L [A "ret"; i; A "ok"] -> [ORet (ni (atoi i), None)]
  | L [A "ret"; i; A c] ->
    let j = ni (atoi i) in
    let e = (match c with
        | "ctx" -> ECtx (j, false) | "dial" -> EDial | "init" -> EInit N0 | "closed" -> EClosed CUpstream
        | "exists" -> EExists | _ -> EWrite CUpstream) in
    [ORet (j, Some e)]
  | L [A "dlv"; i; A "d"; t] -> [ODeliver (ni (atoi i), if atoi t < 0 then KDataNil else KData (nn (atoi t)))]
  | L [A "dlv"; i; A "e"] -> [ODeliver (ni (atoi i), KError)]
  | L [A "dlv"; i; A "c"] -> [ODeliver (ni (atoi i), KComplete)]
  | L [A "dlv"; i; A "x"; b] -> [ODeliver (ni (atoi i), KConnErr (atoi b <> 0))]
  | L [A "dlv"; i; A _] -> [ODeliver (ni (atoi i), KUnknown)]
  | L [A "cerr"; i] -> [OConnErr (ni (atoi i), CUpstream)]
  | L [A "cancel"; i] -> [OCancel (ni (atoi i))]
  | L [A "sdial"; d; e; p; h] -> [OSrvDial (ni (atoi d), key_of_ints (atoi e) (atoi p) (atoi h) (ipof (atoi d)))]
  | L [A "ssub"; c; w; i] -> [OSrvSub (ni (atoi c), ni (atoi w), ni (atoi i))]
  | L [A "sstop"; c; w] -> [OSrvStop (ni (atoi c), ni (atoi w))]
  | L [A "sclosed"; c] -> [OSrvClosed (ni (atoi c))]
  | L [A "up"; c; p; t; w; pl; tag] ->
    [OUp (ni (atoi c), proto_of_code (atoi p),
          { f_type = ftype_of_code (atoi t); f_id = (if atoi w < 0 then None else Some (ni (atoi w)));
            f_pl = pl_of_codes (atoi pl) (atoi tag) })]
  | L [A "accept"; d] -> [OAccept (ni (atoi d))]
  | L [A "reject"; d] -> [OReject (ni (atoi d))]
  | L [A "ack"; d] -> [OAck (ni (atoi d))]
  | L [A "initfail"; d; r] -> [OInitFail (ni (atoi d), nn (atoi r))]
  | L [A "drop"; c] -> [ODrop (ni (atoi c))]
  | L [A "ssereq"; i] -> [OSseReq (ni (atoi i))]
  | L [A "sseret"; i; b] -> [OSseRet (ni (atoi i), sbool b)]
  | L [A "sseup"; i; t; d; tag] ->
    [OSseUp (ni (atoi i), { se_type = setype_of_code (atoi t); se_data = sdata_of_codes (atoi d) (atoi tag) })]
  | L [A "ssedlv"; i; A "d"; t] -> [OSseDeliver (ni (atoi i), if atoi t < 0 then KDataNil else KData (nn (atoi t)))]
  | L [A "ssedlv"; i; A "e"] -> [OSseDeliver (ni (atoi i), KError)]
  | L [A "ssedlv"; i; A "c"] -> [OSseDeliver (ni (atoi i), KComplete)]
  | L [A "ssedlv"; i; A "x"; b] -> [OSseDeliver (ni (atoi i), KConnErr (atoi b <> 0))]
  | L [A "ssedlv"; i; A _] -> [OSseDeliver (ni (atoi i), KUnknown)]
  | L [A "sseerr"; i] -> [OSseErr (ni (atoi i))]
  | _ -> []

(* implementation observable -> canonical string for the comparison (wire id -> owner) *)
let canon_impl (owner : int -> int) (x : sexp) : string option =
  match x with
  | L [A "ssub"; c; w; i] -> Some (Printf.sprintf "(ssub %s %s %s)" (atom c) (atom i) (atom i))
  | L [A "sstop"; c; w] -> Some (Printf.sprintf "(sstop %s %d)" (atom c) (owner (atoi w)))
  | L [A "up"; c; p; t; w; pl; tag] ->
    Some (up_str (atoi c) (atoi p) (atoi t) (if atoi w < 0 then -2 else owner (atoi w)) (atoi pl) (atoi tag))
  | L [A "sseup"; i; t; d; tag] -> Some (sseup_str (atoi i) (atoi t) (atoi d) (atoi tag))
  | L [A "upfail"; _] -> None
  | _ -> Some (print_sexp x)

let flatten_wins (wins : sexp list) : sexp list =
  List.concat_map (fun w -> match w with
      | L (A "w" :: _ :: obs) -> List.stable_sort (fun a b -> compare (rank a) (rank b)) obs
      | _ -> []) wins

let impl_log (keys_i : (int * key) list) (wins : sexp list) : ev list =
  let flat = flatten_wins wins in
  let ips = Hashtbl.create 8 in
  List.iter (fun x -> match x with L [A "sinit"; d; ip] -> Hashtbl.replace ips (atoi d) (atoi ip) | _ -> ()) flat;
  (* a dial that never reached connection_init: the upstream has not seen the init payload; it is
     the dialling subscriber's (the one whose (sub i) window shows the new upgrade request) *)
  List.iter (fun w -> match w with
      | L (A "w" :: L [A "sub"; i; _] :: obs) ->
        List.iter (fun x -> match x with
            | L [A "sdial"; d; _; _; _] when not (Hashtbl.mem ips (atoi d)) ->
              (match List.assoc_opt (atoi i) keys_i with
               | Some k -> let (_, _, _, ip) = ints_of_key k in Hashtbl.replace ips (atoi d) ip
               | None -> ())
            | _ -> ()) obs
      | _ -> ()) wins;
  (* otherwise (a dial started outside a subscribe window): any subscriber with that endpoint/subprotocol/headers *)
  List.iter (fun x -> match x with
      | L [A "sdial"; d; e; p; h] when not (Hashtbl.mem ips (atoi d)) ->
        (match List.find_opt (fun (_, k) -> let (e', p', h', _) = ints_of_key k in (e', p', h') = (atoi e, atoi p, atoi h)) keys_i with
         | Some (_, k) -> let (_, _, _, ip) = ints_of_key k in Hashtbl.replace ips (atoi d) ip
         | None -> ())
      | _ -> ()) flat;
  let ipof d = try Hashtbl.find ips d with Not_found -> 99 in
  List.concat_map (impl_ev ipof) flat

(* ---- model-side replay ---- *)
let fuel = ni 400
let nsub = ni 12

let dial_list (s : st) = List.filter_map (fun d -> match s.dials (ni d) with Some x -> Some (d, x) | None -> None)
    (List.init (ii s.next_c) (fun d -> d))
let ephm (k : key) = let (e, p, h, _) = ints_of_key k in (e, p, h)

let handle (x : sexp) : (string * string) list =
  match x with
  | L (A "c18" :: A "panic" :: _) -> [("specfail", "total: harness recovered a panic " ^ print_sexp x)]
  | L (A "c18" :: A "stress" :: _) -> [("ok", "tr")]
  | L (A "c18" :: A mode :: L [A "idle"; idl] :: L (A "keys" :: ks) :: L (A "hdrs" :: hs) :: L (A "sched" :: _) :: L (A "wins" :: wins) :: rest) ->
    let idle_mode = atoi idl in
    Hashtbl.reset hdr_tbl;
    List.iter (fun x -> match x with
        | L (h :: hid :: entries) ->
          Hashtbl.replace hdr_tbl (atoi h) (atoi hid, List.map (fun en -> match en with
              | L (name :: vs) -> (nn (atoi name), List.map (fun v -> nn (atoi v)) vs)
              | _ -> raise (Sexp_error "hdrs entry")) entries)
        | _ -> raise (Sexp_error "hdrs")) hs;
    let keys_i = List.map (fun k -> match k with
        | L [i; e; p; h; ip] -> (atoi i, key_of_ints (atoi e) (atoi p) (atoi h) (atoi ip))
        | _ -> raise (Sexp_error "key")) ks in
    let keys = List.map (fun (i, k) -> (ni i, k)) keys_i in
    (* for the spec checkers on the implementation's log: what each option tuple presents at an upgrade *)
    let keys_id = List.map (fun (i, k) -> (i, ident_key k)) keys in
    let keyof i = try List.assoc i keys_i with Not_found -> key_of_ints 9 9 9 9 in
    let res = ref [] in
    let add st d = res := (st, d) :: !res in
    (* wire id -> owner, implementation side *)
    let iown = Hashtbl.create 8 in
    List.iter (fun x -> match x with L [A "ssub"; _; w; i] -> Hashtbl.replace iown (atoi w) (atoi i) | _ -> ()) (flatten_wins wins);
    let iowner w = try Hashtbl.find iown w with Not_found -> -1 in
    (* model *)
    let s = ref (init (idle_mode <> 0)) in
    let mlog = ref [] in
    let overlap = ref false in
    let mown = Hashtbl.create 8 in
    let mowner w = try Hashtbl.find mown w with Not_found -> -1 in
    let record evs = List.iter (fun e -> (match e with OSrvSub (_, w, i) -> Hashtbl.replace mown (ii w) (ii i) | _ -> ()); mlog := e :: !mlog) evs in
    let do_step (a : action) : ev list option =
      match step !s a with
      | Some (s1, e1) -> let (s2, e2) = quiesce fuel nsub s1 in s := s2; record e1; record e2; Some (e1 @ e2)
      | None -> None in
    (* subscribers that cancel from inside their terminal callback: the upstream frame is dispatched
       (handler called), then the subscriber's ctx is cancelled and its cancel function runs to the
       end BEFORE the read loop's own removeSub (quiesce runs subscriber actions first) *)
    let armed = Hashtbl.create 4 in
    let do_msg (a : action) : ev list option =
      match step !s a with
      | Some (s1, e1) ->
        let hit = List.filter_map (fun e -> match e with
            | ODeliver (j, k) when terminal k && Hashtbl.mem armed (ii j) && not (s1.ctxc j) -> Some j | _ -> None) e1 in
        let (s1', e1') = List.fold_left (fun (x, evs) j ->
            overlap := true;
            match step x (ACtxCancel j) with Some (y, e) -> (y, evs @ e) | None -> (x, evs)) (s1, e1) hit in
        let (s2, e2) = quiesce fuel nsub s1' in s := s2; record e1'; record e2; Some (e1' @ e2)
      | None -> None in
    (* cancelack: dialler i is cancelled between connection_ack and its subscribe frame (the harness does it from
       the transport's "connected" log line).  Only for a dial started inside i's own (sub i) window. *)
    let own_dial = Hashtbl.create 4 in
    let armed_ack = Hashtbl.create 4 in
    let proto_for (k : key) = let (_, p, _, _) = ints_of_key k in if p = 2 then PGws else PTws in
    let do_ack (d : int) : ev list option =
      match !s.dials (ni d) with
      | None -> None
      | Some x ->
        let o = ii x.d_owner in
        let a = UpAck (ni d, proto_for x.d_key) in
        if Hashtbl.mem armed_ack o && Hashtbl.mem own_dial d then begin
          Hashtbl.remove armed_ack o;
          match step !s a with
          | Some (s1, e1) ->
            overlap := true;
            let (s1', e1') = (match step s1 (ACtxCancel (ni o)) with Some (y, e) -> (y, e1 @ e) | None -> (s1, e1)) in
            let (s2, e2) = quiesce fuel nsub s1' in s := s2; record e1'; record e2; Some (e1' @ e2)
          | None -> None end
        else do_step a in
    let cproto c = match !s.cns c with Some x -> x.c_proto | None -> PTws in
    let shared c = match !s.cns c with Some x -> List.length x.c_subs > 1 | None -> false in
    let conn_of i = (* latest connection on which i's subscribe frame was seen *)
      List.fold_left (fun acc e -> match e, acc with
          | OSrvSub (c, w, j), None when ii j = i -> Some (c, w) | _ -> acc) None !mlog in
    let apply (e : sexp) : string list =
      let strs evs = List.concat_map (show_model_ev mowner) evs in
      let opt = function Some evs -> strs evs | None -> ["(skip)"] in
      match e with
      | L [A "sub"; i; _] ->
        let i = atoi i in
        (match !s.dialing (keyof i) with Some _ -> overlap := true | None -> ());
        let r = opt (do_step (ASub (ni i, keyof i))) in
        (match !s.pc (ni i) with SDial d -> Hashtbl.replace own_dial (ii d) () | _ -> ());
        r
      | L [A "cancelack"; i] ->
        let i = atoi i in
        (match !s.pc (ni i) with
         | SDial d when Hashtbl.mem own_dial (ii d) && not (!s.ctxc (ni i)) -> Hashtbl.replace armed_ack i (); []
         | _ -> ["(skip)"])
      | L [A "cancel"; i] ->
        let i = atoi i in
        (match !s.dialing (keyof i) with Some _ -> overlap := true | None -> ());
        opt (do_step (ACtxCancel (ni i)))
      | L [A "presub"; i] ->
        (* Subscribe with an already cancelled ctx.  Only where it shares a connection or waits behind a
           pending dial: as a dialler its upgrade request would never reach the upstream *)
        let i = atoi i in
        let k = keyof i in
        let live = (match !s.conns k with
            | Some c -> (match !s.cns c with Some x -> not x.c_closed | None -> false)
            | None -> false) in
        (match !s.dialing k with Some _ -> overlap := true | None -> ());
        if not live && !s.dialing k = None then ["(presub-would-dial)"]
        else begin
          let a = (match do_step (ACtxCancel (ni i)) with Some evs -> strs evs | None -> ["(skip)"]) in
          a @ opt (do_step (ASub (ni i, k))) end
      | L [A "cancelin"; i] ->
        let i = atoi i in
        (match !s.pc (ni i) with
         | SIdle -> ["(skip)"]
         | _ -> if !s.ctxc (ni i) then ["(skip)"] else (Hashtbl.replace armed i (); []))
      | L [A "accept"; a] | L [A "reject"; a] ->
        let k = keyof (atoi a) in
        (match List.find_opt (fun (_, x) -> x.d_phase = DConnecting && ephm x.d_key = ephm k) (dial_list !s) with
         | Some (d, _) -> opt (do_step (if (match e with L [A "accept"; _] -> true | _ -> false) then UpAccept (ni d) else UpReject (ni d)))
                          @ (match e with L [A "accept"; _] -> (match !s.dials (ni d) with
                              | Some x -> let (_, _, _, ip) = ints_of_key x.d_key in [Printf.sprintf "(sinit %d %d)" d ip] | None -> []) | _ -> [])
         | None -> ["(skip)"])
      | L [A "ack"; a] ->
        let k = keyof (atoi a) in
        (match List.find_opt (fun (_, x) -> x.d_phase = DInit && ident_eq x.d_key k) (dial_list !s) with
         | Some (d, _) -> opt (do_ack d)
         | None -> ["(skip)"])
      | L [A "initfail"; a; r] ->
        let k = keyof (atoi a) in
        (match List.find_opt (fun (_, x) -> x.d_phase = DInit && ident_eq x.d_key k) (dial_list !s) with
         | Some (d, _) -> opt (do_step (UpInitFail (ni d, nn (atoi r))))
         | None -> ["(skip)"])
      | L [A ("next" | "complete" | "error" as op); i; _] | L [A ("complete" | "error" as op); i] ->
        let tag = (match e with L [_; _; t] -> atoi t | _ -> 0) in
        (match conn_of (atoi i) with
         | Some (c, w) ->
           let f = (match op with
               | "next" -> { f_type = (if cproto c = PGws then FData else FNext); f_id = Some w; f_pl = PObj (nn tag) }
               | "complete" -> { f_type = FComplete; f_id = Some w; f_pl = PNone }
               | _ -> { f_type = FError; f_id = Some w; f_pl = PObj N0 }) in
           opt (do_msg (UpMsg (c, f)))
         | None -> ["(skip)"])
      | L [A "nextx"; a; b; t] ->
        (match conn_of (atoi a), conn_of (atoi b) with
         | Some (c, _), Some (_, w) ->
           opt (do_step (UpMsg (c, { f_type = (if cproto c = PGws then FData else FNext); f_id = Some w; f_pl = PObj (nn (atoi t)) })))
         | _, _ -> ["(skip)"])
      | L [A "junk"; a] ->
        (match conn_of (atoi a) with
         | Some (c, _) -> opt (do_step (UpMsg (c, { f_type = (if cproto c = PGws then FData else FNext); f_id = Some (ni 5000); f_pl = PObj N0 })))
         | None -> ["(skip)"])
      | L [A "frame"; a; t; sel; pl; tag] ->
        (* on a's connection: any frame type of either sub-protocol, id of subscriber sel / none (-1) / junk (-2) *)
        (match conn_of (atoi a) with
         | Some (c, _) ->
           let id = (match atoi sel with
               | -1 -> Some None
               | -2 -> Some (Some (ni 5000))
               | k -> (match conn_of k with Some (_, w) -> Some (Some w) | None -> None)) in
           (match id with
            | Some fid when atoi t >= 0 && atoi t <= 10 ->
              if shared c then overlap := true;
              opt (do_msg (UpMsg (c, { f_type = ftype_of_code (atoi t); f_id = fid; f_pl = pl_of_codes (atoi pl) (atoi tag) })))
            | _ -> ["(skip)"])
         | None -> ["(skip)"])
      | L [A ("drop" | "bad"); a] ->
        let k = keyof (atoi a) in
        let live = List.filter (fun c -> match !s.cns (ni c) with
            | Some x -> x.c_dead = None && ident_eq x.c_key k | None -> false)
            (List.init (ii !s.next_c) (fun c -> c)) in
        (match List.rev live with
         | c :: _ -> opt (do_step (UpDrop (ni c)))
         | [] -> ["(skip)"])
      | L [A "tick"] ->
        if idle_mode = 1 then begin
          let (s2, e2) = tick fuel nsub !s in s := s2; record e2; strs e2 end
        else []
      | L [A "flush"] ->
        let out = ref [] in
        (try for _ = 1 to 8 do
            match List.find_opt (fun (_, x) -> x.d_phase = DConnecting || x.d_phase = DInit) (dial_list !s) with
            | None -> raise Exit
            | Some (d, x) ->
              if x.d_phase = DConnecting then begin
                (match do_step (UpAccept (ni d)) with Some evs -> out := !out @ strs evs | None -> ());
                let (_, _, _, ip) = ints_of_key x.d_key in out := !out @ [Printf.sprintf "(sinit %d %d)" d ip] end;
              (match !s.dials (ni d) with
               | Some y when y.d_phase = DInit ->
                 (match do_ack d with Some evs -> out := !out @ strs evs | None -> ())
               | _ -> ())
          done with Exit -> ());
        !out
      | L [A "stats"] ->
        let ks = List.sort_uniq compare (List.map snd keys) in
        let sse_n = List.length (List.filter (fun i -> !s.sse (ni i) = SseActive) (List.init 12 (fun i -> i))) in
        [Printf.sprintf "(stats %d %d)" (ii (ws_conn_count !s ks)) sse_n]
      | L [A "ssub"; i] -> opt (do_step (SseSub (ni (atoi i))))
      | L [A "sok"; i] -> opt (do_step (SseOk (ni (atoi i))))
      | L [A "sfail"; i] -> opt (do_step (SseFail (ni (atoi i))))
      | L [A "snext"; i; t] -> opt (do_step (SseMsg (ni (atoi i), { se_type = SNext; se_data = DObj (nn (atoi t)) })))
      | L [A "scomplete"; i] -> opt (do_step (SseMsg (ni (atoi i), { se_type = SComplete; se_data = DEmpty })))
      | L [A "serror"; i] -> opt (do_step (SseMsg (ni (atoi i), { se_type = SError; se_data = DObj N0 })))
      | L [A "sframe"; i; t; d; tag] ->
        opt (do_step (SseMsg (ni (atoi i), { se_type = setype_of_code (atoi t); se_data = sdata_of_codes (atoi d) (atoi tag) })))
      | L [A "sdrop"; i] -> opt (do_step (SseDrop (ni (atoi i))))
      | L [A "scancel"; i] -> opt (do_step (SseCancel (ni (atoi i))))
      | _ -> ["(unknown-event)"] in
    (* ---- correspondence, window by window ---- *)
    let tagc = "corr:C18/" ^ mode in
    let mism = ref false in
    List.iteri (fun n w ->
        match w with
        | L (A "w" :: e :: obs) when not !mism ->
          let m = List.sort compare (apply e) in
          let i = List.sort compare (List.filter_map (canon_impl iowner) obs) in
          if m <> i then begin
            mism := true;
            add "mismatch" (Printf.sprintf "%s window %d %s impl=(%s) model=(%s)" tagc n (print_sexp e)
                              (String.concat " " i) (String.concat " " m)) end
        | _ -> ()) wins;
    (* ---- spec checkers on the implementation's log ---- *)
    let ilog = impl_log keys_i wins in
    let model_log = List.rev !mlog in
    if mode = "sse" then begin
      if not (sse_routing_b ilog) then add "specfail" "routing/sse a stream's event reached another handler, was lost or duplicated"
    end else begin
      (* terminal_local, window by window: a frame addressed to ONE subscription reaches its holder only and nobody on
         the connection is told that it is gone (the windows of protocol violations / drops are not concerned) *)
      List.iter (fun w -> match w with
          | L (A "w" :: _ :: obs) ->
            let evs = List.concat_map (impl_ev (fun _ -> 0)) obs in
            (match List.filter_map (fun e -> match e with OUp (_, p, f) -> Some (spec_class p f) | _ -> None) evs with
             | [FcSub (wid, k)] when not (List.exists (fun e -> match e with ODrop _ | OPing _ -> true | _ -> false) evs) ->
               let holder = (match iowner (ii wid) with -1 -> None | i -> Some (ni i)) in
               if not (tlocal_b holder evs) then
                 add "specfail" (Printf.sprintf "terminal_local a frame addressed to one subscription (%s) ended or reached another subscription of the same connection"
                                   (if terminal k then "terminal" else "not terminal"))
             | _ -> ())
          | _ -> ()) wins;
      if not (routing_b ilog) then add "specfail" "routing an upstream frame was not delivered to exactly its live subscription in order";
      if not (shared_b keys_id ilog) then add "specfail" "shared_iff_same_key a subscribe frame arrived on a connection whose upgrade request carried another option tuple (endpoint / sub-protocol / header values / init payload)";
      if idle_mode <> 2 && not (drain_b ilog) then add "specfail" "conns_drain an acknowledged connection without live subscription is still open at quiescence";
      (* the model of the repaired code blames nobody (c18_cancel_isolated): a failure of this clause has no
         recorded cause; the model's own log must satisfy the ghost-tagged form too *)
      let model_ok = isolated_log_b model_log in
      let cause = if !mism then "cause=unattributed(model-disagrees)"
        else if model_ok then "cause=unattributed" else "cause=unattributed(model-log-not-isolated)" in
      if not (isolated_b keys_id ilog) then
        add "specfail" ("cancel_isolated a subscriber with a live ctx and a healthy upstream failed; " ^ cause);
      (* differential form, fault-free schedules only: j fails with i present, not without *)
      let faultfree = not (List.exists (fun e -> match e with
          | OReject _ | OInitFail _ | ODrop _ | OPing _ -> true
          | OUp (_, p, f) -> spec_class p f = FcFault
          | _ -> false) ilog) in
      (match rest with
       | [L (A "minus" :: ms)] when faultfree ->
         List.iter (fun m -> match m with
             | L [i; L (A "wins" :: mw)] ->
               let mlog2 = impl_log keys_i mw in
               List.iter (fun (j, _) ->
                   if j <> atoi i && failed_b (ni j) ilog && not (failed_b (ni j) mlog2)
                      && not (List.exists (fun e -> match e with OCancel c -> ii c = j | _ -> false) ilog) then
                     add "specfail" (Printf.sprintf "cancel_isolated/diff sub=%d fails in the schedule and succeeds in the same schedule without sub=%d; %s" j (atoi i) cause))
                 keys_i
             | _ -> ()) ms
       | _ -> ())
    end;
    if !res = [] then [("ok", if !overlap || mode = "sse" && List.length wins > 6 then "nt" else "tr")]
    else List.rev !res
  | _ -> [("error", "unrecognised case")]

let () = run_lines Sys.argv.(1) Sys.argv.(2) handle
