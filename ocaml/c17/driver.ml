(* C17 driver.  Case line (see harness/cmd/c17/main.go):
     (c17 mode (schema S) parse-check (merged M|(err)) (gen (json J)|(panic m)|(err m)|(skipped))
          (conv (schema C)|(error m)|(panic m)|(skipped)) (engine ok|(mismatch m)|(skipped m)) (features …))
   Correspondence: merge_base / generate (as JSON tree, member order = Go struct order) / convert.
   Spec checkers on the implementation's own outputs: roundtrip (schema_equiv_b between Go's converted
   schema and with_base S), complete_exact_b and typeref_faithful_b on Go's introspection JSON,
   engine_introspection (consistency verdict computed by the harness). *)

(* ---------- S-expression -> Coq trees ---------- *)
let bs s = bytes_of_string s
let rec ty_of = function
  | L [A "named"; S n] -> TNamed (bs n)
  | L [A "list"; t] -> TList (ty_of t)
  | L [A "nn"; t] -> TNonNull (ty_of t)
  | x -> raise (Sexp_error ("type: " ^ print_sexp x))
let rec value_of = function
  | L [A "var"; S n] -> VVar (bs n)
  | L [A "int"; S r] -> VInt (bs r)
  | L [A "float"; S r] -> VFloat (bs r)
  | L [A "str"; S r; blk] -> VStr (bs r, sbool blk)
  | L [A "bool"; b] -> VBool (sbool b)
  | L [A "null"] -> VNull
  | L [A "enum"; S n] -> VEnum (bs n)
  | L (A "list" :: items) -> VList (List.map value_of items)
  | L (A "obj" :: fs) -> VObj (List.map (function L [S k; v] -> (bs k, value_of v) | x -> raise (Sexp_error ("objfield: " ^ print_sexp x))) fs)
  | x -> raise (Sexp_error ("value: " ^ print_sexp x))
let dirs_of = function
  | L (A "dirs" :: ds) ->
    List.map (function
      | L (A "dir" :: S n :: args) ->
        { d_name = bs n; d_args = List.map (function L [A "arg"; S k; v] -> (bs k, value_of v) | x -> raise (Sexp_error ("arg: " ^ print_sexp x))) args }
      | x -> raise (Sexp_error ("dir: " ^ print_sexp x))) ds
  | x -> raise (Sexp_error ("dirs: " ^ print_sexp x))
let ivs_of = function
  | L (A _ :: ivs) ->
    List.map (function
      | L [A "iv"; S n; t; d; ds] ->
        { iv_name = bs n; iv_type = ty_of t;
          iv_default = (match d with L [] -> None | L [A "default"; v] -> Some (value_of v) | x -> raise (Sexp_error ("default: " ^ print_sexp x)));
          iv_dirs = dirs_of ds }
      | x -> raise (Sexp_error ("iv: " ^ print_sexp x))) ivs
  | x -> raise (Sexp_error ("ivs: " ^ print_sexp x))
let names_of = function
  | L (A _ :: ns) -> List.map (fun x -> bs (str x)) ns
  | x -> raise (Sexp_error ("names: " ^ print_sexp x))
let kind_of = function
  | "scalar" -> KScalar | "object" -> KObject | "interface" -> KInterface | "union" -> KUnion
  | "enum" -> KEnum | "input" -> KInputObject | k -> raise (Sexp_error ("kind: " ^ k))
let type_of = function
  | L [A "type"; A k; S n; impl; L (A "fields" :: fs); mem; L (A "values" :: evs); ins; ds] ->
    { td_kind = kind_of k; td_name = bs n; td_implements = names_of impl;
      td_fields = List.map (function
          | L [A "field"; S fn; args; t; fds] -> { fd_name = bs fn; fd_args = ivs_of args; fd_type = ty_of t; fd_dirs = dirs_of fds }
          | x -> raise (Sexp_error ("field: " ^ print_sexp x))) fs;
      td_members = names_of mem;
      td_enum_values = List.map (function
          | L [A "ev"; S en; eds] -> { ev_name = bs en; ev_dirs = dirs_of eds }
          | x -> raise (Sexp_error ("ev: " ^ print_sexp x))) evs;
      td_input_fields = ivs_of ins; td_dirs = dirs_of ds }
  | x -> raise (Sexp_error ("typedef: " ^ print_sexp x))
let optname = function L [] -> None | L [S n] -> Some (bs n) | x -> raise (Sexp_error ("optname: " ^ print_sexp x))
let schema_of = function
  | L [A "schema"; L [A "roots"; S q; m; s]; L (A "types" :: ts); L (A "directives" :: ds)] ->
    { s_query = bs q; s_mutation = optname m; s_subscription = optname s;
      s_types = List.map type_of ts;
      s_directives = List.map (function
          | L [A "directive"; S n; args; locs; rep] ->
            { dd_name = bs n; dd_args = ivs_of args; dd_locations = names_of locs; dd_repeatable = sbool rep }
          | x -> raise (Sexp_error ("directive: " ^ print_sexp x))) ds }
  | x -> raise (Sexp_error ("schema: " ^ print_sexp x))

(* ---------- Coq trees -> S-expression (same layout as schemadump.Sexp) ---------- *)
let sb b = S (string_of_bytes b)
let tf b = A (if b then "t" else "f")
let rec sx_ty = function
  | TNamed n -> L [A "named"; sb n] | TList t -> L [A "list"; sx_ty t] | TNonNull t -> L [A "nn"; sx_ty t]
let rec sx_value = function
  | VVar n -> L [A "var"; sb n] | VInt r -> L [A "int"; sb r] | VFloat r -> L [A "float"; sb r]
  | VStr (r, blk) -> L [A "str"; sb r; tf blk] | VBool b -> L [A "bool"; tf b] | VNull -> L [A "null"]
  | VEnum n -> L [A "enum"; sb n] | VList items -> L (A "list" :: List.map sx_value items)
  | VObj fs -> L (A "obj" :: List.map (fun (k, v) -> L [sb k; sx_value v]) fs)
let sx_dirs ds = L (A "dirs" :: List.map (fun d -> L (A "dir" :: sb d.d_name :: List.map (fun (k, v) -> L [A "arg"; sb k; sx_value v]) d.d_args)) ds)
let sx_ivs tag ivs =
  L (A tag :: List.map (fun iv ->
      L [A "iv"; sb iv.iv_name; sx_ty iv.iv_type; (match iv.iv_default with None -> L [] | Some v -> L [A "default"; sx_value v]); sx_dirs iv.iv_dirs]) ivs)
let sx_names tag ns = L (A tag :: List.map sb ns)
let kind_str = function
  | KScalar -> "scalar" | KObject -> "object" | KInterface -> "interface" | KUnion -> "union" | KEnum -> "enum" | KInputObject -> "input"
let sx_type t =
  L [A "type"; A (kind_str t.td_kind); sb t.td_name; sx_names "implements" t.td_implements;
     L (A "fields" :: List.map (fun f -> L [A "field"; sb f.fd_name; sx_ivs "args" f.fd_args; sx_ty f.fd_type; sx_dirs f.fd_dirs]) t.td_fields);
     sx_names "members" t.td_members;
     L (A "values" :: List.map (fun e -> L [A "ev"; sb e.ev_name; sx_dirs e.ev_dirs]) t.td_enum_values);
     sx_ivs "inputs" t.td_input_fields; sx_dirs t.td_dirs]
let sx_opt = function None -> L [] | Some n -> L [sb n]
let sx_schema s =
  L [A "schema"; L [A "roots"; sb s.s_query; sx_opt s.s_mutation; sx_opt s.s_subscription];
     L (A "types" :: List.map sx_type s.s_types);
     L (A "directives" :: List.map (fun d -> L [A "directive"; sb d.dd_name; sx_ivs "args" d.dd_args; sx_names "locs" d.dd_locations; tf d.dd_repeatable]) s.s_directives)]

(* ---------- JSON ---------- *)
let rec sx_json = function
  | JNull -> L [A "n"] | JBool true -> L [A "t"] | JBool false -> L [A "f"]
  | JNum r -> L [A "num"; sb r] | JStr s -> L [A "s"; sb s]
  | JArr items -> L (A "a" :: List.map sx_json items)
  | JObj ms -> L (A "o" :: List.map (fun (k, v) -> L [sb k; sx_json v]) ms)
let rec json_of = function
  | L [A "n"] -> JNull | L [A "t"] -> JBool true | L [A "f"] -> JBool false
  | L [A "num"; S r] -> JNum (bs r) | L [A "s"; S s] -> JStr (bs s)
  | L (A "a" :: items) -> JArr (List.map json_of items)
  | L (A "o" :: ms) -> JObj (List.map (function L [S k; v] -> (bs k, json_of v) | x -> raise (Sexp_error ("member: " ^ print_sexp x))) ms)
  | x -> raise (Sexp_error ("json: " ^ print_sexp x))

(* first difference of two strings, with context *)
let diff_at a b =
  let n = min (String.length a) (String.length b) in
  let i = ref 0 in
  while !i < n && a.[!i] = b.[!i] do incr i done;
  let ctx s = let st = max 0 (!i - 60) in String.sub s st (min (String.length s - st) 140) in
  Printf.sprintf "at %d impl=..%s.. model=..%s.." !i (ctx a) (ctx b)

let has_prefix p s = String.length s >= String.length p && String.sub s 0 (String.length p) = p

let handle (x : sexp) : (string * string) list =
  match x with
  | L (A "c17" :: A _ :: L [A "parse-error"] :: _) -> [("ok", "tr parse-error")]
  | L [A "c17"; A mode; s_x; parse_x; L [A "merged"; merged_x]; L [A "gen"; gen_x]; L [A "conv"; conv_x]; L (A "engine" :: eng_items); L (A "features" :: _)] ->
    let res = ref [] in
    let add st d = res := (st, d) :: !res in
    (* blk: the document has a schema definition; without one the model applies the default root operation type names *)
    let blk = (match parse_x with
     | L [A "parse"; A "ok"] -> true
     | L [A "parse"; A "no-block"] -> false
     | L (A "parse" :: A why :: _) -> add "error" ("harness: SDL does not parse to the generated tree: " ^ why); true
     | _ -> add "error" "harness: parse-check"; true) in
    let s = schema_of s_x in
    let merge_base = merge_base_doc blk and generate = generate_doc blk in
    (* --- merge --- *)
    (match merged_x with
     | L [A "err"; S m] -> add "error" ("merge failed in Go: " ^ m)
     | mx ->
       let impl = print_sexp mx and model = print_sexp (sx_schema (merge_base s)) in
       if impl <> model then add "mismatch" ("corr:C17/merge " ^ diff_at impl model));
    (* --- generate --- *)
    let g = generate s in
    let impl_data = ref None in
    (match gen_x, g with
     | L [A "skipped"], _ -> ()
     | L [A "json"; j], Some d ->
       let impl = print_sexp j and model = print_sexp (sx_json (idata_json d)) in
       if impl <> model then add "mismatch" ("corr:C17/generate " ^ diff_at impl model);
       impl_data := decode_data (json_of j)
     | L [A "json"; j], None ->
       add "mismatch" "corr:C17/generate impl=json model=panic";
       impl_data := decode_data (json_of j)
     | L [A "panic"; S m], Some _ -> add "mismatch" ("corr:C17/generate impl=panic(" ^ m ^ ") model=json")
     | L [A "panic"; _], None -> ()
     | L [A "err"; S m], _ -> add "mismatch" ("corr:C17/generate impl=error(" ^ m ^ ")")
     | _ -> add "error" "gen field");
    (* --- convert --- *)
    let impl_conv = ref None in
    (match conv_x, g with
     | L [A "skipped"], _ -> ()
     | _, None -> ()
     | cx, Some d ->
       let m = convert d in
       (match cx, m with
        | L [A "error"; _], CErr -> ()
        | L [A "panic"; _], CPanic -> ()
        | (L (A "schema" :: _) as sx), COk ms ->
          let impl = print_sexp sx and model = print_sexp (sx_schema ms) in
          if impl <> model then add "mismatch" ("corr:C17/convert " ^ diff_at impl model)
        | cx, m ->
          let ms = match m with COk _ -> "schema" | CErr -> "error" | CPanic -> "panic" in
          let is = match cx with L (A k :: _) -> k | _ -> "?" in
          add "mismatch" (Printf.sprintf "corr:C17/convert impl=%s model=%s" is ms));
       (match cx with L (A "schema" :: _) -> impl_conv := Some (schema_of cx) | _ -> ()));
    (* --- spec checkers on the implementation's outputs --- *)
    (* the schema the document describes: its declared roots, or the default ones when it has no schema definition *)
    let s = described blk s in
    let wf = wf_schema s in
    let viol = List.map string_of_bytes (lossy_clauses s) in
    let vs = String.concat "," viol in
    if wf then begin
      (match gen_x with
       | L [A "panic"; _] -> add "specfail" (Printf.sprintf "generate_total violated=[%s]" vs)
       | _ -> ());
      (match !impl_data with
       | Some d ->
         if not (complete_exact_b s d) then add "specfail" (Printf.sprintf "complete_exact violated=[%s] %s" vs (String.concat ";" (List.map string_of_bytes (complete_exact_diag s d))));
         if not (typeref_faithful_b s d) then add "specfail" (Printf.sprintf "typeref_faithful violated=[%s]" vs)
       | None -> (match gen_x with L [A "json"; _] -> add "error" "cannot decode implementation JSON" | _ -> ()));
      (match conv_x, !impl_conv with
       | L (A "schema" :: _), Some c ->
         if not (schema_equiv_b c (with_base s)) then add "specfail" (Printf.sprintf "roundtrip violated=[%s] %s" vs (String.concat ";" (List.map string_of_bytes (schema_equiv_diag c (with_base s)))))
       | L [A "error"; S m], _ -> add "specfail" (Printf.sprintf "roundtrip violated=[%s] converter-error %s" vs m)
       | L [A "panic"; S m], _ -> add "specfail" (Printf.sprintf "roundtrip violated=[%s] converter-panic %s" vs m)
       | _ -> ())
    end;
    List.iter (function
     | A "ok" | L [A "skipped"; _] -> ()
     | L [A "mismatch"; S m] -> add "specfail" ("engine_introspection " ^ m)
     | _ -> add "error" "engine field") eng_items;
    let nontrivial = wf && nontrivial_b s && mode <> "base" in
    if !res = [] then [("ok", (if nontrivial then "nt" else "tr") ^ (if viol = [] then " clean" else " lossy"))] else List.rev !res
  | _ -> [("error", "unrecognised case")]

let () = run_lines Sys.argv.(1) Sys.argv.(2) handle
