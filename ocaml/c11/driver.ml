(* C11 driver.  One case line = one executed schedule of the harness:
     (c11 MODE (reqs (key op dedup "ok" "fail" "can")...)
               (trace (CMD (actor STATUS)...)...)
               (final (actor RES shared cancelled ANS WR)...)
               (reg N))
   CMD: (start i) (rel i) (ans i ok|failbody|canbody|errup|errctx|panic) (wr i ok|fail|panic) (cancel i);
   RES: (wrote "d") | (wrerr j "d") | (err up j) | (err ctx j) | (err other "...") | (crash) | (panic "...") | none;
   N = keys of this schedule still registered in the table when nothing can move any more.
   The trace is replayed on the extracted transition system of the FIXED code ([Inb.step fixed] for
   MODE inb / inbe2e, [Sub.step fixed] for sube2e): every command must be a step the model allows,
   and after every command the visible status of every actor (parked where, blocked, returned with
   what) must agree, and at the end the number of registered keys.  The spec checker [spec_q_b]
   (per-actor clauses, then the registry) runs on the implementation's own outcomes. *)

type vstat = VNew | VAt of string | VBlocked | VRet of string | VHidden

let show_v = function
  | VNew -> "new" | VAt p -> "(at " ^ p ^ ")" | VBlocked -> "blocked" | VRet r -> "(ret " ^ r ^ ")"
  | VHidden -> "hidden"

let canon_res (x : sexp) : string =
  match x with
  | L (A "panic" :: _) -> "(panic)"
  | L [A "err"; A "other"; _] -> "(err other)"
  | _ -> print_sexp x

let parse_status (x : sexp) : vstat =
  match x with
  | A "new" -> VNew
  | A "blocked" -> VBlocked
  | L [A "at"; A p] -> VAt p
  | L [A "ret"; r] -> VRet (canon_res r)
  | L (A "stuck" :: _) -> VHidden
  | _ -> raise (Sexp_error ("status: " ^ print_sexp x))

let show_outcome (i : int) (wr : wans option) (o : outcome) : string =
  match o with
  | OWrote (_, d, _) when wr = Some WFail ->
    "(wrerr " ^ string_of_int i ^ " " ^ quote_string (string_of_bytes d) ^ ")"
  | OCrash None -> "(crash)"
  | OCrash (Some _) -> "(wrote \"\")"     (* subgraph: res.out = nil, err = nil *)
  | OWrote (_, d, _) -> "(wrote " ^ quote_string (string_of_bytes d) ^ ")"
  | OErr (EUp a) -> "(err up " ^ string_of_int (int_of_nat a) ^ ")"
  | OErr (ECtx a) -> "(err ctx " ^ string_of_int (int_of_nat a) ^ ")"
  | OPanic -> "(panic)"

let answer_of = function
  | "ok" -> AOk | "failbody" -> AFailBody | "canbody" -> ACanBody | "errup" -> AErrUp | "errctx" -> AErrCtx
  | "panic" -> APanic
  | a -> raise (Sexp_error ("answer: " ^ a))

let wans_of = function
  | "ok" -> WOk | "fail" -> WFail | "panic" -> WPanic
  | a -> raise (Sexp_error ("write answer: " ^ a))

(* a model, abstracted *)
type 's model = {
  init : 's;
  step : 's -> action -> 's option;
  vis : 's -> int -> vstat;
  waiting : 's -> int -> bool;
  shared : 's -> int -> bool;
  registered : 's -> int;     (* distinct keys in the table *)
}

let count_keys (reqs : req list) (reg : n -> bool) : int =
  let seen = ref [] in
  List.iter (fun r -> if reg r.rkey && not (List.mem r.rkey !seen) then seen := r.rkey :: !seen) reqs;
  List.length !seen

let inb_model (reqs : req list) : Inb.state model = {
  init = Inb.init;
  step = (fun s a -> Inb.step fixed reqs s a);
  vis = (fun s i ->
    let a = Inb.act s (nat_of_int i) in
    match Inb.a_pc a with
    | Inb.PStart -> VNew
    | Inb.PY1 -> VAt "y1"
    | Inb.PWait -> VBlocked
    | Inb.PWork -> VAt "work"
    | Inb.PWrite | Inb.PFWrite -> VAt "write"
    | Inb.PClose -> VAt "y2"
    | Inb.PDone -> (match Inb.a_out a with Some o -> VRet (show_outcome i (Inb.a_wr a) o) | None -> VRet "?")
    | _ -> VHidden);
  waiting = (fun s i -> Inb.a_pc (Inb.act s (nat_of_int i)) = Inb.PWait);
  shared = (fun s i -> match Inb.a_out (Inb.act s (nat_of_int i)) with Some (OWrote (_, _, Some _)) -> true | _ -> false);
  registered = (fun s -> count_keys reqs (fun k -> Inb.tbl s k <> None));
}

let sub_model (reqs : req list) : Sub.state model = {
  init = Sub.init;
  step = (fun s a -> Sub.step fixed reqs s a);
  vis = (fun s i ->
    let a = Sub.act s (nat_of_int i) in
    match Sub.a_pc a with
    | Sub.PStart -> VNew
    | Sub.PY1 -> VAt "y1"
    | Sub.PWait -> VBlocked
    | Sub.PLoad -> VAt "load"
    | Sub.PClose -> VAt "y3"
    | Sub.PDone -> (match Sub.a_out a with Some o -> VRet (show_outcome i None o) | None -> VRet "?")
    | _ -> VHidden);
  waiting = (fun s i -> Sub.a_pc (Sub.act s (nat_of_int i)) = Sub.PWait);
  shared = (fun s i -> match Sub.a_out (Sub.act s (nat_of_int i)) with
    | Some (OWrote (_, _, Some _)) | Some (OCrash (Some _)) -> true | _ -> false);
  registered = (fun s -> count_keys reqs (fun k -> Sub.tbl s k <> None));
}

exception Corr of string

let replay (type s) (m : s model) (n : int) (trace : sexp list) (final : sexp list) (reg : int) : bool =
  let s = ref m.init in
  let seen = Array.make n VNew in
  let nontrivial = ref false in
  let do_step what a =
    match m.step !s a with
    | Some s' -> s := s'
    | None -> raise (Corr (Printf.sprintf "the model does not allow %s" what)) in
  let advance i =
    let fuel = ref 10 in
    while m.vis !s i = VHidden && !fuel > 0 do
      decr fuel; do_step (Printf.sprintf "the next internal step of actor %d" i) (Tau (nat_of_int i))
    done in
  List.iter (fun item ->
    match item with
    | L (L [A "inapplicable"; c] :: _) | L [A "inapplicable"; c] ->
      raise (Corr ("command not applicable on the implementation: " ^ print_sexp c))
    | L (cmd :: changes) ->
      List.iter (fun ch -> match ch with
        | L [A i; st] ->
          let st = parse_status st in
          if st = VAt "y1" then nontrivial := true;
          seen.(int_of_string i) <- st
        | _ -> raise (Sexp_error "change")) changes;
      let what = print_sexp cmd in
      (match cmd with
       | L [A "start"; A i] -> let i = int_of_string i in do_step what (Tau (nat_of_int i)); advance i
       | L [A "rel"; A i] -> let i = int_of_string i in do_step what (Tau (nat_of_int i)); advance i
       | L [A "ans"; A i; A k] ->
         let i = int_of_string i in do_step what (Ans (nat_of_int i, answer_of k)); advance i
       | L [A "wr"; A i; A k] ->
         let i = int_of_string i in do_step what (Wr (nat_of_int i, wans_of k)); advance i
       | L [A "cancel"; A i] -> do_step what (Cancel (nat_of_int (int_of_string i)))
       | _ -> raise (Sexp_error ("command: " ^ what)));
      (* followers in the select: they proceed on the implementation iff a wake-up is enabled *)
      for k = 0 to n - 1 do
        if m.waiting !s k then begin
          let kn = nat_of_int k in
          match seen.(k) with
          | VBlocked ->
            if m.step !s (WakeDone kn) <> None || m.step !s (WakeCtx kn) <> None then
              raise (Corr (Printf.sprintf "after %s actor %d blocks on the implementation, the model lets it proceed" what k))
          | VRet r when r = Printf.sprintf "(err ctx %d)" k ->
            (match m.step !s (WakeCtx kn) with
             | Some s' -> s := s'
             | None -> raise (Corr (Printf.sprintf "after %s actor %d returned its context error, the model does not allow that" what k)))
          | st ->
            (match m.step !s (WakeDone kn) with
             | Some s' -> s := s'; advance k
             | None -> raise (Corr (Printf.sprintf "after %s actor %d proceeds on the implementation (%s), the model keeps it blocked" what k (show_v st))))
        end
      done;
      for k = 0 to n - 1 do
        let mv = m.vis !s k in
        if mv <> seen.(k) then
          raise (Corr (Printf.sprintf "after %s actor %d: impl=%s model=%s" what k (show_v seen.(k)) (show_v mv)))
      done
    | _ -> raise (Sexp_error "trace item")) trace;
  List.iter (fun f -> match f with
    | L [A i; _; sh; _; _; _] ->
      let i = int_of_string i in
      if sbool sh <> m.shared !s i then
        raise (Corr (Printf.sprintf "shared flag of actor %d: impl=%b model=%b" i (sbool sh) (m.shared !s i)))
    | _ -> raise (Sexp_error "final")) final;
  if m.registered !s <> reg then
    raise (Corr (Printf.sprintf "keys still registered at the end: impl=%d model=%d" reg (m.registered !s)));
  !nontrivial

let clause_name = function
  | CNoPanic -> "no_panic" | CReturns -> "each_returns" | CErrOrigin -> "err_origin"
  | CSharedKeyQuery -> "shared_key_query" | CTransparent -> "transparent"
  | CWriteErr -> "write_error_private" | CRegistry -> "registry_clean"

(* ---- the size-hint table (coq/C11/ModelHint.v), harness mode subtab:
     (c11h (shards n) (reqs (EFK fk sf len)...) (trace (CMD (i STATUS)...)...) (final (i RES hint)...) (sizes (EFK count total)...))
   CMD: (start i) = GetOrCreateItem of leader i, incl. the hint read; (ans i ok|empty) = its load returns len / no bytes;
        (pub i) = the LoadOrStore(empty entry) of i's Finish (harness-owned parking point, see harness/cmd/c11/hint.go);
        (rel i) = the (rest of the) real Finish.  EFK = effective table key (fetch kind, shard).
   Replayed on [Hint.step true]; statuses, hints and the final table contents must agree; [hint_spec_b] runs on the
   implementation's outcomes. *)
let hint_vis (s : Hint.state) (i : int) : string =
  match (Hint.act s (nat_of_int i)).Hint.h_pc with
  | Hint.PStart -> "new" | Hint.PWork -> "(at load)" | Hint.PFin0 -> "(at fin)" | Hint.PRec -> "(at finp)"
  | Hint.PDone -> "(ret (done))" | Hint.PPanic -> "(ret (panic))" | Hint.PAvg | Hint.PFin1 -> "hidden"

let handle_hint (rs : sexp list) (trace : sexp list) (final : sexp list) (sizes : sexp list) : (string * string) list =
  let reqs = List.map (function
      | L [A efk; A _; A _; A len] -> (int_of_string efk, int_of_string len)
      | _ -> raise (Sexp_error "hint req")) rs in
  let n = List.length reqs in
  let fkeys = List.map (fun (k, _) -> n_of_int k) reqs in
  let stp = Hint.step true fkeys in
  let res = ref [] in
  let nontrivial = ref false in
  (try
    let s = ref Hint.init in
    let seen = Array.make n "new" in
    let hstep what i =
      match stp !s (Hint.HStep (nat_of_int i)) with
      | Some s' -> s := s'
      | None -> raise (Corr (Printf.sprintf "the model does not allow %s" what)) in
    let pc i = (Hint.act !s (nat_of_int i)).Hint.h_pc in
    List.iter (fun item ->
      match item with
      | L (L [A "inapplicable"; c] :: _) | L [A "inapplicable"; c] ->
        raise (Corr ("command not applicable on the implementation: " ^ print_sexp c))
      | L (cmd :: changes) ->
        List.iter (fun ch -> match ch with
          | L [A i; st] -> seen.(int_of_string i) <- (match st with
              | L [A "ret"; L (A "panic" :: _)] -> "(ret (panic))"
              | _ -> print_sexp st)
          | _ -> raise (Sexp_error "change")) changes;
        let what = print_sexp cmd in
        (match cmd with
         | L [A "start"; A i] ->
           let i = int_of_string i in
           (match Hint.tbl !s (Hint.fk fkeys (nat_of_int i)) with
            | Some e when e.Hint.e_count = Z0 -> nontrivial := true | _ -> ());
           hstep what i; if pc i = Hint.PAvg then hstep what i
         | L [A "ans"; A i; A k] ->
           let i = int_of_string i in
           let len = if k = "ok" then snd (List.nth reqs i) else 0 in
           (match stp !s (Hint.HAns (nat_of_int i, z_of_int len)) with
            | Some s' -> s := s' | None -> raise (Corr ("the model does not allow " ^ what)))
         | L [A "pub"; A i] ->
           let i = int_of_string i in
           hstep what i;
           if pc i <> Hint.PFin1 then raise (Corr (what ^ ": the entry already exists in the model"));
           hstep what i
         | L [A "rel"; A i] ->
           let i = int_of_string i in
           let fuel = ref 4 in
           while pc i <> Hint.PDone && !fuel > 0 do decr fuel; hstep what i done
         | _ -> raise (Sexp_error ("command: " ^ what)));
        for k = 0 to n - 1 do
          let mv = hint_vis !s k in
          if mv <> seen.(k) then raise (Corr (Printf.sprintf "after %s actor %d: impl=%s model=%s" what k seen.(k) mv))
        done
      | _ -> raise (Sexp_error "trace item")) trace;
    List.iter (function
        | L [A i; _; A h] ->
          let i = int_of_string i in
          let mh = int_of_z (Hint.act !s (nat_of_int i)).Hint.h_hint in
          if mh <> int_of_string h then raise (Corr (Printf.sprintf "size hint of actor %d: impl=%s model=%d" i h mh))
        | _ -> raise (Sexp_error "final")) final;
    let keys = List.sort_uniq compare (List.map fst reqs) in
    List.iter (fun k ->
        let impl = List.find_map (function
            | L [A k'; A c; A t] when int_of_string k' = k -> Some (int_of_string c, int_of_string t) | _ -> None) sizes in
        let model = (match Hint.tbl !s (n_of_int k) with
            | Some e -> Some (int_of_z e.Hint.e_count, int_of_z e.Hint.e_total) | None -> None) in
        if impl <> model then
          let sh = function Some (c, t) -> Printf.sprintf "(count %d total %d)" c t | None -> "absent" in
          raise (Corr (Printf.sprintf "size entry of key %d: impl=%s model=%s" k (sh impl) (sh model)))) keys
  with Corr msg -> res := ("mismatch", "corr:C11/size-hint " ^ msg) :: !res);
  let os = List.mapi (fun i f -> match f with
      | L [A _; r; A h] ->
        { ho_res = (match r with L [A "done"] -> HRDone | A "none" -> HRNone | _ -> HRPanic);
          ho_hint = z_of_int (int_of_string h); ho_len = z_of_int (snd (List.nth reqs i)) }
      | _ -> raise (Sexp_error "final")) final in
  let szs = List.filter_map (function
      | L [A _; A c; A t] -> Some (z_of_int (int_of_string c), z_of_int (int_of_string t)) | _ -> None) sizes in
  (match hint_spec_b os szs with
   | None -> ()
   | Some (i, c) ->
     let i = int_of_nat i in
     let detail = (match List.nth_opt final i with Some f -> print_sexp f | None -> "") in
     let cn = (match c with HCNoPanic -> "no_panic" | HCReturns -> "each_returns" | HCHintMean -> "hint_is_mean"
                          | HCWindow -> "hint_window") in
     res := ("specfail", Printf.sprintf "%s size-hint actor %d %s" cn i
               (if c = HCWindow then "entries " ^ String.concat " " (List.map print_sexp sizes) else detail)) :: !res);
  if !res = [] then [("ok", if !nontrivial then "nt" else "tr")] else List.rev !res

let handle (x : sexp) : (string * string) list =
  match x with
  | L [A "c11h"; L [A "shards"; _]; L (A "reqs" :: rs); L (A "trace" :: trace); L (A "final" :: final); L (A "sizes" :: sizes)] ->
    handle_hint rs trace final sizes
  | L [A "c11s"; L [A "iters"; A it]; L [A "workers"; A w]; L [A "panics"; A p; msg]] ->
    if int_of_string p = 0 then [("ok", "nt stress")]
    else [("specfail", Printf.sprintf "no_panic size-hint stress: %s of %s iterations with %s concurrent leaders panicked, first: %s" p it w (print_sexp msg))]
  | L [A "c11"; A mode; L (A "reqs" :: rs); L (A "trace" :: trace); L (A "final" :: final); L [A "reg"; A reg]] ->
    let reg = int_of_string reg in
    let reqs = List.map (fun r -> match r with
      | L [A key; A op; dd; ok; fl; cn] ->
        { rkey = n_of_int (int_of_string key); rquery = (op = "query"); rdedup = sbool dd;
          rok = sbytes ok; rfail = sbytes fl; rcan = sbytes cn }
      | _ -> raise (Sexp_error "req")) rs in
    let n = List.length reqs in
    let tag = (match mode with "sube2e" -> "subgraph" | "inbe2e" -> "inbound-e2e" | _ -> "inbound") in
    let res = ref [] in
    let nt =
      try
        (match mode with
         | "sube2e" -> replay (sub_model reqs) n trace final reg
         | "inb" | "inbe2e" -> replay (inb_model reqs) n trace final reg
         | _ -> raise (Sexp_error ("mode " ^ mode)))
      with Corr msg -> res := ("mismatch", Printf.sprintf "corr:C11/%s %s" tag msg) :: !res; false in
    (* the spec, on the implementation's outcomes *)
    let os = List.map (fun f -> match f with
      | L [A _; r; sh; cn; A ans; A wr] ->
        let r = (match r with
          | A "none" -> RNone
          | L [A "crash"] -> RCrash
          | L [A "wrerr"; A j; d] -> RWrErr (nat_of_int (int_of_string j), sbytes d)
          | L [A "wrote"; d] -> RWrote (sbytes d)
          | L [A "err"; A "up"; A j] -> RErr (EUp (nat_of_int (int_of_string j)))
          | L [A "err"; A "ctx"; A j] -> RErr (ECtx (nat_of_int (int_of_string j)))
          | L (A "err" :: _) -> RErrOther
          | L (A "panic" :: _) -> RPanic
          | _ -> raise (Sexp_error "result")) in
        { o_res = r; o_shared = sbool sh; o_cancelled = sbool cn;
          o_ans = (if ans = "-" then None else Some (answer_of ans));
          o_wr = (if wr = "-" then None else Some (wans_of wr)) }
      | _ -> raise (Sexp_error "final")) final in
    (match spec_q_b (mode = "sube2e") reqs os (nat_of_int reg) with
     | None -> ()
     | Some (i, c) ->
       let i = int_of_nat i in
       let detail = (match List.nth_opt final i with Some f -> print_sexp f | None -> "") in
       res := ("specfail", Printf.sprintf "%s %s actor %d %s" (clause_name c) tag i detail) :: !res);
    if !res = [] then [("ok", if nt then "nt" else "tr")] else List.rev !res
  | _ -> [("error", "unrecognised case")]

let () = run_lines Sys.argv.(1) Sys.argv.(2) handle
