(* C12/C13 driver.  Input: one harness run per line
     (run (scn f i s) (choices "..") (c12 (subs ..) (lanes ..) (ticks n) (steps STEP..) (final ..)))
   STEP = ((start NAME OP) | (go NAME)) STATUS (obs TOKEN..) (ch (NAME STATUS)..)
   The trace is replayed on the extracted LTS (release = run the thread to its next yield; picks over
   Go map order are searched); every step's observables (as a multiset), the status of the released
   actor and of the bystanders, and the final registry sizes and counters must agree.  The C12 and
   C13 spec checkers (extracted from Coq) run on the IMPLEMENTATION's log.
   Result lines: ok / mismatch corr:C12/.. / specfail C12:<clause>.. | C13:<clause>.. *)

let ni = nat_of_int
let ii = int_of_nat

type cfg = { sid : int; key : int; conn : int; hb : bool; sync : bool; flt : int; wfail : int; ffail : int;
             hbfail : bool; hook : string; hookev : int; start : string }

let parse_cfg = function
  | L [A a; A b; A c; A d; A e; A f; A g; A h; A i; A j; A k; A l] ->
    { sid = int_of_string a; key = int_of_string b; conn = int_of_string c; hb = (d = "t"); sync = (e = "t");
      flt = int_of_string f; wfail = int_of_string g; ffail = int_of_string h; hbfail = (i = "t"); hook = j;
      hookev = int_of_string k; start = l }
  | x -> raise (Sexp_error ("cfg: " ^ print_sexp x))

let find_cfg cfgs s = List.find_opt (fun c -> c.sid = s) cfgs

let flt_of cfgs (s : nat) (e : nat) : fres =
  let e = ii e in
  match find_cfg cfgs (ii s) with
  | None -> FPass
  | Some c ->
    (match c.flt with
     | 0 -> FPass
     | 1 -> if e >= 100 then FSkip else if e mod 3 = 0 then FPass else FSkip
     | 2 -> if e >= 100 then FSkip else if e mod 3 <= 1 then FPass else FSkip
     | _ -> if e >= 100 then FSkip else FErr)
let wres_of cfgs (s : nat) (e : nat) : wres =
  match find_cfg cfgs (ii s) with
  | None -> WOk
  | Some c -> if ii e = c.wfail then WWriteErr else if ii e = c.ffail then WFlushErr else WOk
let ev_bad (e : nat) = ii e >= 100
let hbfail_of cfgs (s : nat) = match find_cfg cfgs (ii s) with Some c -> c.hbfail | None -> false

let point_name = function
  | PAddR -> "c12.add.R" | PUnsubR -> "c12.unsub.R" | PRmClientR -> "c12.rmclient.R" | PShutR -> "c12.shut.R"
  | PHbR -> "c12.hb.R" | PInit0 -> "c12.init0" | PInit1 -> "c12.init1" | PDtuR -> "c12.dtu.R" | PUtR -> "c12.ut.R"
  | PUpdU -> "c12.upd.U" | PUpdsubU -> "c12.updsub.U" | PCmplU -> "c12.cmpl.U" | PErrU -> "c12.err.U"
  | PDoneU -> "c12.done.U" | PCloseU -> "c12.close.U" | PX0 -> "c12.upd.x0" | PW -> "c12.upd.w"
  | PCmplY -> "c12.cmpl.y" | PErrY -> "c12.err.y" | PExtHook -> "ext.hook" | PExtStart -> "ext.start"
  | PWr -> "ext.w"

type mstatus = At of string | Fin | Blk | Panic
let show_status = function At p -> "(at " ^ p ^ ")" | Fin -> "(fin)" | Blk -> "(blk)" | Panic -> "(panic)"
let parse_status = function
  | L [A "at"; A p] -> At p | L [A "fin"] -> Fin | L [A "blk"] -> Blk | L [A "panic"] -> Panic
  | x -> raise (Sexp_error ("status: " ^ print_sexp x))

let tname_of (n : string) : tname option =
  match String.index_opt n ':' with
  | Some i ->
    let k = String.sub n 0 i and v = String.sub n (i + 1) (String.length n - i - 1) in
    (match int_of_string_opt v with
     | None -> None
     | Some x ->
       (match k with "cl" -> Some (TCl (ni x)) | "src" -> Some (TSrc (ni x)) | "st" -> Some (TSt (ni x))
                   | "ch" -> Some (TCh (ni x)) | _ -> None))
  | None -> (match n with "hb" -> Some THb | "sh" -> Some TSh | _ -> None)

let wcall_str = function
  | CWrite e -> Printf.sprintf "write %d" (ii e) | CWriteFail e -> Printf.sprintf "writefail %d" (ii e)
  | CFlush -> "flush 0" | CFlushFail -> "flushfail 0" | CComplete -> "complete 0" | CError -> "error 0"
  | CHeartbeat -> "hb 0" | CHeartbeatFail -> "hbfail 0" | CWriteError -> "werr 0"

let wcall_of kind e = match kind with
  | "write" -> CWrite (ni e) | "writefail" -> CWriteFail (ni e) | "flush" -> CFlush | "flushfail" -> CFlushFail
  | "complete" -> CComplete | "error" -> CError | "hb" -> CHeartbeat | "hbfail" -> CHeartbeatFail | _ -> CWriteError

(* visible observables of a model step: [nw] new log entries (newest first), [old] the log before *)
let visible (nw : obs list) (old : obs list) : string list =
  let started t l = List.exists (function OStart (t', _) -> t' = t | _ -> false) l in
  let cancelled t l = List.exists (function OCancel t' -> t' = t | _ -> false) l in
  List.concat_map (function
      | OW (s, c) -> [Printf.sprintf "(w %d %s)" (ii s) (wcall_str c)]
      | OWE (s, c) -> [Printf.sprintf "(we %d %s)" (ii s) (wcall_str c)]
      | OStart (t, k) ->
        Printf.sprintf "(start %d %d)" (ii t) (ii k) :: (if cancelled t old then [Printf.sprintf "(cancel %d)" (ii t)] else [])
      | OCancel t -> if started t nw || started t old then [Printf.sprintf "(cancel %d)" (ii t)] else []
      | OSubInc n -> [Printf.sprintf "(subinc %d)" (ii n)] | OSubDec n -> [Printf.sprintf "(subdec %d)" (ii n)]
      | OTrigInc n -> [Printf.sprintf "(triginc %d)" (ii n)] | OTrigDec n -> [Printf.sprintf "(trigdec %d)" (ii n)]
      | _ -> []) nw

let rec drop n l = if n <= 0 then l else match l with [] -> [] | _ :: r -> drop (n - 1) r
let rec take n l = if n <= 0 then [] else match l with [] -> [] | x :: r -> x :: take (n - 1) r

let handle (x : sexp) : (string * string) list =
  match x with
  | L [A "run"; scn; L [A "choices"; ch]; L [A "c12"; L (A "subs" :: subs); L (A "lanes" :: _); L [A "ticks"; _];
                                              L (A "steps" :: steps); L (A "final" :: final)]] ->
    let cfgs = List.map parse_cfg subs in
    let stp = step fixed (flt_of cfgs) (wres_of cfgs) ev_bad (hbfail_of cfgs) in
    let exts_for (st : state) (i : instr) : ext list =
      let cfg s = find_cfg cfgs (ii s) in
      let hookx s = match cfg s with
        | Some c -> (match c.hook with "fail" -> XFail | "emit" -> XEmit (ni c.hookev) | _ -> XOk) | None -> XOk in
      match i with
      | IHookJ (s, _) | IHookS (s, _) -> [hookx s]
      | IStart (s, _) -> [match cfg s with Some c when c.start = "fail" -> XFail | _ -> XOk]
      | ICELoop (_, l) | IHbSubs l | IErrLoop l | ICloseLoop l -> List.map (fun s -> XPick s) l
      | IHbTrigs (ks, _) -> List.map (fun k -> XPick k) ks
      | IWaitSync _ -> [XPick (ni 0); XPick (ni 1); XPick (ni 2)]
      | IWaitSync2 _ -> [XPick (ni 1); XPick (ni 2)]
      | _ -> [XNone] in
    let rec advance (st : state) (th : tname) (first : bool) (fuel : int) : (state * mstatus) list =
      if fuel = 0 then [(st, Blk)] else
      match lookup_thr th st.threads with
      | None | Some [] -> [(st, Fin)]
      | Some (i :: _) ->
        (match i with
         | IYield p when not first -> [(st, At (point_name p))]
         | _ ->
           let succ = List.filter_map (fun x -> stp st (AStep (th, x))) (exts_for st i) in
           (* closeSubs walks its slice in a fixed (map iteration) order: it may sit at a subscriber whose writeMu is
              held although another one of the slice is free *)
           let may_wait = (match i with ICloseLoop l -> List.exists (fun s -> List.mem s st.wlk) l | _ -> false) in
           if succ = [] then [(st, Blk)]
           else (if may_wait then [(st, Blk)] else []) @ List.concat_map (fun st' -> advance st' th false (fuel - 1)) succ) in
    let enabled (st : state) (th : tname) : bool =
      match lookup_thr th st.threads with
      | Some (ICloseLoop l :: _) -> List.for_all (fun s -> not (List.mem s st.wlk)) l
      | Some (i :: _) -> List.exists (fun x -> stp st (AStep (th, x)) <> None) (exts_for st i)
      | _ -> false in
    let status_eq (name : string) (m : mstatus) (i : mstatus) : bool =
      if name = "hb" then (m = i) || (m = Fin && (i = At "c12.hb.R" || i = Fin || i = Blk)) else m = i in
    (* implementation log for the spec checkers *)
    let impl_log = ref [] in      (* newest first, Coq obs with instance = sid of the starter *)
    let gone = ref [] in
    let specfails = ref [] in
    let add_spec s = if not (List.mem s !specfails) then specfails := s :: !specfails in
    (* pass 1: the implementation's log, independent of the model *)
    List.iter (function
        | L [_; status; L (A "obs" :: obs); _] ->
          List.iter (function
              | L (A ("w" | "we" as tag) :: A s :: A kind :: A e :: rest) ->
                let s = int_of_string s and e = int_of_string e in
                impl_log := (if tag = "w" then OW (ni s, wcall_of kind e) else OWE (ni s, wcall_of kind e)) :: !impl_log;
                if rest <> [] then add_spec (Printf.sprintf "C12:no_write_after_completed (%s %d %s): writer call %s after completion was signalled" tag s kind
                                               (if tag = "w" then "entered" else "still in progress / returning"))
              | L [A "gone"; A s] -> let s = int_of_string s in
                if not (List.mem s !gone) then (gone := s :: !gone; impl_log := OClosed (ni s) :: !impl_log)
              | L [A "start"; A s; A k] -> impl_log := OStart (ni (int_of_string s), ni (int_of_string k)) :: !impl_log
              | L [A "cancel"; A s] -> impl_log := OCancel (ni (int_of_string s)) :: !impl_log
              | L [A "subinc"; A n] -> impl_log := OSubInc (ni (int_of_string n)) :: !impl_log
              | L [A "subdec"; A n] -> impl_log := OSubDec (ni (int_of_string n)) :: !impl_log
              | L [A "triginc"; A n] -> impl_log := OTrigInc (ni (int_of_string n)) :: !impl_log
              | L [A "trigdec"; A n] -> impl_log := OTrigDec (ni (int_of_string n)) :: !impl_log
              | L (A "panic" :: _) as p -> add_spec ("C12:completed_once panic in actor: " ^ print_sexp p)
              | L [A "overlap"; A s] -> add_spec ("C12:writes_exclusive two writer calls of subscriber " ^ s ^ " overlap")
              | _ -> ()) obs;
          if parse_status status = Panic then add_spec "C12:completed_once actor panicked"
        | _ -> ()) steps;
    let known = ref ["hb"] in
    let istat : (string, mstatus) Hashtbl.t = Hashtbl.create 16 in     (* last status the implementation reported per actor *)
    let name_of (tn : tname) : string =
      match tn with TCl n -> "cl:" ^ string_of_int (ii n) | TSrc n -> "src:" ^ string_of_int (ii n)
                  | TSt n -> "st:" ^ string_of_int (ii n) | TCh n -> "ch:" ^ string_of_int (ii n)
                  | THb -> "hb" | TSh -> "sh" in
    let alts = ref [init] in
    let result = ref [] in
    let nontrivial = ref false in
    let prev : (string * mstatus * bool) option ref = ref None in
    let stepno = ref 0 in
    let sid_tid (st : state) (s : int) = ii (st.subs (ni s)).s_tid in
    (try
      List.iter (fun stepx ->
        incr stepno;
        match stepx with
        | L [what; status; L (A "obs" :: obs); L (A "ch" :: chs)] ->
          let istatus = parse_status status in
          let name, is_start, opx = match what with
            | L [A "start"; A n; op] -> n, true, Some op
            | L [A "go"; A n] -> n, false, None
            | _ -> raise (Sexp_error "what") in
          (match !prev with
           | Some (pn, (At _ | Blk), false) when pn <> name && pn <> "hb" -> nontrivial := true
           | _ -> ());
          prev := Some (name, istatus, is_start);
          if not (List.mem name !known) then known := name :: !known;
          let th = match tname_of name with Some t -> t | None -> raise (Failure ("corr:C12/trace unknown actor " ^ name)) in
          (* implementation observables of this step (for the comparison) *)
          let iobs_cmp = ref [] in
          List.iter (function
              | L (A ("w" | "we" as tag) :: A s :: A kind :: A e :: _) ->
                let s = int_of_string s and e = int_of_string e in
                iobs_cmp := (`W (tag, s, wcall_str (wcall_of kind e))) :: !iobs_cmp
              | L [A "start"; A s; A k] -> iobs_cmp := (`Start (int_of_string s, int_of_string k)) :: !iobs_cmp
              | L [A "cancel"; A s] -> iobs_cmp := (`Cancel (int_of_string s)) :: !iobs_cmp
              | L [A ("subinc" | "subdec" | "triginc" | "trigdec" as k); A n] -> iobs_cmp := (`S ("(" ^ k ^ " " ^ n ^ ")")) :: !iobs_cmp
              | _ -> ()) obs;
          let impl_strings (st : state) =
            List.sort compare (List.map (function
                | `W (tag, s, c) -> Printf.sprintf "(%s %d %s)" tag s c
                | `Start (s, k) -> Printf.sprintf "(start %d %d)" (sid_tid st s) k
                | `Cancel s -> Printf.sprintf "(cancel %d)" (sid_tid st s)
                | `S x -> x) !iobs_cmp) in
          let bystanders = List.filter_map (function
              | L [A n; stx] -> if not (List.mem n !known) then known := n :: !known;
                (* the ticker goroutine re-parking for its next tick is not a step of the model's heartbeat thread *)
                if n = "hb" && parse_status stx = At "c12.hb.R" then Some (n, Fin) else Some (n, parse_status stx)
              | _ -> None) chs in
          Hashtbl.replace istat name istatus;
          List.iter (fun (n, stx) -> Hashtbl.replace istat n stx) bystanders;
          let why = ref "" in
          let next = List.concat_map (fun (st : state) ->
              let loglen = List.length st.log in
              (* 1. the acting actor *)
              let st0 =
                if is_start then
                  (match opx with
                   | Some (L [A "sub"; A s]) ->
                     let s = int_of_string s in
                     (match find_cfg cfgs s with
                      | Some c -> (match th with TCl n -> stp st (AClient (n, CSub (ni s, ni c.key, ni (if c.sync then 10000 + s else c.conn), c.hb, c.sync))) | _ -> None)
                      | None -> None)
                   | Some (L [A "unsub"; A s]) -> (match th with TCl n -> stp st (AClient (n, CUnsub (ni (int_of_string s)))) | _ -> None)
                   | Some (L [A "rmclient"; A c]) -> (match th with TCl n -> stp st (AClient (n, CRmClient (ni (int_of_string c)))) | _ -> None)
                   | Some (L [A "cancelctx"; A s]) -> (match th with TCl n -> stp st (AClient (n, CCancelCtx (ni (int_of_string s)))) | _ -> None)
                   | Some (L [A "shutdown"]) -> (match th with TCl n -> stp st (AClient (n, CShutdown)) | _ -> None)
                   | Some (L (A k :: A a :: rest)) ->
                     let t = (st.subs (ni (int_of_string a))).s_tid in
                     let b = match rest with [A b] -> int_of_string b | _ -> 0 in
                     let op = match k with
                       | "update" -> Some (UUpdate (ni b)) | "complete" -> Some (UCE KComplete) | "error" -> Some (UCE KError)
                       | "done" -> Some UDone | "close" -> Some (UClose (ni b)) | _ -> None in
                     (match th, op with TSrc n, Some op -> stp st (ASrc (n, t, op)) | _ -> None)
                   | _ -> None)
                else if name = "hb" && lookup_thr THb st.threads = None then stp st (ATick [])
                else Some st in
              match st0 with
              | None -> why := "model rejects the start / tick"; []
              | Some st0 ->
                let r1 = advance st0 th (not is_start) 200 in
                let r1 = List.filter (fun (_, m) ->
                    let okk = status_eq name m istatus in
                    if not okk then why := Printf.sprintf "actor %s: model %s impl %s" name (show_status m) (show_status istatus);
                    okk) r1 in
                (* 2. bystanders: first those parked at a yield (new threads), then woken ones in any order.  An actor
                   that the implementation reports as blocked before AND after the release may have run from one
                   blocking point to the next in between (it got the lock it waited for and now waits for the next
                   one, or for its WaitGroup): such silent progress is searched for as well. *)
                let rec proc (st : state) (pending : (string * mstatus) list) (fuel : int) : state list =
                  if fuel = 0 then [] else
                  let silent = List.filter_map (fun (tn, prog) ->
                      match prog with
                      | IYield _ :: _ | [] -> None
                      | _ ->
                        let nm = name_of tn in
                        if nm <> name && enabled st tn && Hashtbl.find_opt istat nm = Some Blk && not (List.mem_assoc nm pending)
                        then Some tn else None) st.threads in
                  let via_silent () = List.concat_map (fun tn ->
                      List.concat_map (fun (st', m) -> if m = Blk && st' != st then proc st' pending (fuel - 1) else [])
                        (advance st tn false 200)) silent in
                  match pending with
                  | [] -> if silent = [] then [st] else via_silent ()
                  | _ ->
                    let direct = List.concat_map (fun (n, ist) ->
                        let rest = List.filter (fun (n', _) -> n' <> n) pending in
                        match tname_of n with
                        | None -> why := "unknown bystander " ^ n; []
                        | Some bt ->
                          (match lookup_thr bt st.threads with
                           | Some (IYield p :: _) ->
                             if ist = At (point_name p) then proc st rest fuel
                             else (why := Printf.sprintf "bystander %s: model (at %s) impl %s" n (point_name p) (show_status ist); [])
                           | Some _ ->
                             let r = advance st bt false 200 in
                             let r = List.filter (fun (st', m) ->
                                 let okk = m = ist && (m <> Blk || st' != st) in
                                 if not okk then why := Printf.sprintf "bystander %s: model %s impl %s" n (show_status m) (show_status ist);
                                 okk) r in
                             List.concat_map (fun (st', _) -> proc st' rest fuel) r
                           | None ->
                             if n = "hb" && ist = Fin then proc st rest fuel   (* the ticker re-parked; the model's tick had already ended *)
                             else (why := Printf.sprintf "bystander %s %s: no such model thread" n (show_status ist); [])))
                      (match pending with
                       | _ -> (* try each entry first; parked ones are order independent, so only try the first parked one *)
                         let parked = List.filter (fun (n, _) -> match tname_of n with
                             | Some bt -> (match lookup_thr bt st.threads with Some (IYield _ :: _) -> true | _ -> false) | None -> true) pending in
                         (match parked with p :: _ -> [p] | [] -> pending)) in
                    if direct <> [] then direct else via_silent () in
                let r2 = List.concat_map (fun (st1, _) -> proc st1 bystanders 8) r1 in
                (* 3. nothing else may be able to move, every model thread is known to the implementation *)
                let r3 = List.filter (fun (st2 : state) ->
                    List.for_all (fun (tn, prog) ->
                        match prog with
                        | IYield _ :: _ ->
                          let nm = name_of tn in
                          if List.mem nm !known then true else (why := "model thread " ^ nm ^ " unknown to the implementation"; false)
                        | _ -> if enabled st2 tn then (why := "a blocked implementation actor can move in the model"; false) else true)
                      st2.threads) r2 in
                (* 4. observables of the step as a multiset *)
                List.filter (fun (st2 : state) ->
                    let nw = take (List.length st2.log - loglen) st2.log in
                    let mo = List.sort compare (visible nw (drop (List.length st2.log - loglen) st2.log)) in
                    let io = impl_strings st2 in
                    if mo = io then true
                    else (why := Printf.sprintf "observables: model [%s] impl [%s]" (String.concat " " mo) (String.concat " " io); false)) r3
            ) !alts in
          (match next with
           | [] -> raise (Failure (Printf.sprintf "corr:C12/trace step %d %s: %s" !stepno (print_sexp what) !why))
           | _ -> alts := (match next with a :: b :: c :: d :: _ -> [a; b; c; d] | l -> l))
        | _ -> raise (Sexp_error "step")) steps;
      (* final registry sizes and counters *)
      let fin k = List.find_map (function L (A k' :: r) when k' = k -> Some (List.map (fun a -> int_of_string (atom a)) (List.filter (function A _ -> true | _ -> false) r)) | _ -> None) final in
      let sizes = match fin "sizes" with Some [a; b; c] -> (a, b, c) | _ -> (-1, -1, -1) in
      let okfinal = List.exists (fun (st : state) ->
          let ((a, b), c) = reg_sizes st in (ii a, ii b, ii c) = sizes) !alts in
      if not okfinal then
        result := ("mismatch", Printf.sprintf "corr:C12/final registry sizes impl=(%d %d %d)" (let (a, _, _) = sizes in a) (let (_, b, _) = sizes in b) (let (_, _, c) = sizes in c)) :: !result
    with Failure m when String.length m >= 5 && String.sub m 0 5 = "corr:" -> result := ("mismatch", m) :: !result);
    (* ---- spec checkers on the implementation's own log ---- *)
    let l = List.rev !impl_log in
    let sids = List.map (fun c -> ni c.sid) cfgs in
    if not (no_write_after_completed_b l) then add_spec "C12:no_write_after_completed a writer call is entered, in progress or returns after completion was signalled";
    if not (completed_once_b l) then add_spec "C12:completed_once";
    if not (writes_exclusive_b l) then add_spec "C12:writes_exclusive calls on one writer overlap (entries and returns do not alternate)";
    if not (delivery_lite_b (flt_of cfgs) ev_bad sids l) then add_spec "C12:delivery_order written events are not duplicate free / filtered";
    (* fan-outs of one trigger are serial (subscribers grouped by their trigger key; events are pairwise distinct) *)
    let keyof (s : nat) = match find_cfg cfgs (ii s) with Some c -> ni c.key | None -> ni 999 in
    let keys = List.sort_uniq compare (List.map (fun c -> c.key) cfgs) in
    if not (events_serial_b keyof (List.map ni keys) l) then
      add_spec "C12:delivery_order fan-outs of one trigger interleave: after a Write of a later event B a subscriber of the same trigger is still written event A (no single emission order explains the writes)";
    if not (one_start_b l) then add_spec "C13:one_start_per_live_trigger two Start calls for one trigger";
    (* ---- quiescence ---- *)
    let getf k = List.find_map (function L (A k' :: r) when k' = k -> Some r | _ -> None) final in
    let ints r = List.filter_map (function A a -> int_of_string_opt a | _ -> None) r in
    let sizes = match getf "sizes" with Some r -> (match ints r with [a; b; c] -> Some ((ni a, ni b), ni c) | _ -> None) | None -> None in
    let stuck = (match getf "stuck" with Some [A "f"] -> false | _ -> true) in
    let unc = match getf "uncancelled" with Some r -> (match ints r with [n] -> n | _ -> -1) | None -> -1 in
    let last_status = Hashtbl.create 16 in
    let shutdown_started = ref false in
    let actor_op = Hashtbl.create 16 in          (* actor -> (kind, arg) of the client operation it runs *)
    let actor_steps = Hashtbl.create 16 in       (* actor -> indices of the steps in which it was started / released (newest first) *)
    let reg_step = Hashtbl.create 16 in          (* sid -> step at which its registration was reported (SubscriptionCountInc) *)
    let idx = ref 0 in
    List.iter (function
        | L [what; status; L (A "obs" :: obs); L (A "ch" :: chs)] ->
          incr idx;
          let name = (match what with
              | L [A "start"; A n; op] ->
                (match op with
                 | L [A "shutdown"] -> shutdown_started := true
                 | L [A k; A a] -> Hashtbl.replace actor_op n (k, int_of_string a)
                 | _ -> ());
                n
              | L [A "go"; A n] -> n
              | _ -> "") in
          Hashtbl.replace last_status name (parse_status status);
          Hashtbl.replace actor_steps name (!idx :: (try Hashtbl.find actor_steps name with Not_found -> []));
          List.iter (function L [A n; stx] -> Hashtbl.replace last_status n (parse_status stx) | _ -> ()) chs;
          (match Hashtbl.find_opt actor_op name with
           | Some ("sub", s) -> if List.exists (function L [A "subinc"; _] -> true | _ -> false) obs && not (Hashtbl.mem reg_step s) then Hashtbl.replace reg_step s !idx
           | _ -> ())
        | _ -> ()) steps;
    (* teardown by a foreign source: a trigger context cancelled by a call of ANOTHER trigger's updater.
       The observables of one scheduler step are not all the released actor's: an actor listed in the step's status
       changes (ch) has run too, and an actor that was blocked before the step may have run from one blocking point to
       the next without any status change (it got the lock the released actor gave up).  A cancel is therefore
       attributed to the set of actors that may have performed it -- the released one, those in ch, those blocked
       before the step -- and the clause only fires when EVERY one of them is a call of some other trigger's updater
       (a client, shutdown, start goroutine, heartbeat or fan-out child among them is a legitimate cause of its own). *)
    let owner_of = Hashtbl.create 16 in
    let before : (string, mstatus) Hashtbl.t = Hashtbl.create 16 in
    let tsteps = List.concat_map (function
        | L [what; status; L (A "obs" :: obs); L (A "ch" :: chs)] ->
          let name = (match what with L [A "start"; A n; L (A k :: A a :: _)] ->
              (match k with "update" | "complete" | "error" | "done" -> Hashtbl.replace owner_of n (int_of_string a) | _ -> ()); n
                              | L [A "start"; A n; _] | L [A "go"; A n] -> n | _ -> "") in
          let changed = List.filter_map (function L [A n; _] -> Some n | _ -> None) chs in
          let blocked = Hashtbl.fold (fun n stt acc -> if stt = Blk && n <> name then n :: acc else acc) before [] in
          let cands = List.sort_uniq compare (name :: changed @ blocked) in
          let cs = List.filter_map (function L [A "cancel"; A s] -> Some (int_of_string s) | _ -> None) obs in
          let entries = List.map (fun c ->
              let owners = List.map (fun n -> Hashtbl.find_opt owner_of n) cands in
              if List.exists (fun o -> o = None) owners then (None, [ni c])            (* a non-updater actor may have done it *)
              else if List.mem (Some c) owners then (Some (ni c), [ni c])               (* its own updater may have done it *)
              else ((match owners with Some o :: _ -> Some (ni o) | _ -> None), [ni c])) cs in
          Hashtbl.replace before name (parse_status status);
          List.iter (function L [A n; stx] -> Hashtbl.replace before n (parse_status stx) | _ -> ()) chs;
          entries
        | _ -> []) steps in
    if not (teardown_own_b tsteps) then add_spec "C13:teardown_has_cause a trigger context was cancelled by a call of another trigger's updater";
    (* ---- delivery completeness, completion notice, trigger-context liveness: on the implementation's log alone ----
       (evaluated for EVERY run, also after the correspondence broke: they use the schedule and the implementation's
       observables, never the model state).  Membership of a subscriber in a trigger is not observable directly, so the
       clauses are evaluated for the keys whose history is unambiguous: exactly one trigger with that key was ever
       created in the run (one Start observation; every other registered subscriber of the key ran its start-up
       goroutine to the end without a Start call, i.e. it joined), and no subscriber of the key has a scripted failure
       (hook / Start / Write / Flush / Heartbeat failure, filter error) that removes subscribers on its own.  Then a
       subscriber s of the key is on that trigger from its registration until one of: a client operation naming it
       (unsubscribe, removeClient of its connection, cancellation of its request context, CloseSubscription), resolver
       shutdown, or the end of the trigger (Done).  For such s:
         delivery_order            an Update(e) that was called after s registered and RETURNED before any of these began
                                   wrote e to s (if e passes its filter);
         every_subscriber_completed  a Complete() / Error() of the source that returned in that period reached s's writer;
         teardown_has_cause        the trigger's context is not observed cancelled in that period -- in particular the
                                   cancellation of ANOTHER subscriber's request context never cancels it. *)
    (let fin_step : (string, int) Hashtbl.t = Hashtbl.create 16 in     (* actor -> first step at which it was reported finished *)
     let ops = ref [] in                                                (* (actor, kind, a, b, step at which it was started) *)
     let starts = ref [] and cancels = ref [] in
     let written = Hashtbl.create 16 in
     List.iteri (fun i0 stx ->
         let i = i0 + 1 in
         match stx with
         | L [what; status; L (A "obs" :: obs); L (A "ch" :: chs)] ->
           let name = (match what with
               | L [A "start"; A n; op] ->
                 (match op with
                  | L [A "shutdown"] -> ops := (n, "shutdown", 0, 0, i) :: !ops
                  | L [A k; A a] -> ops := (n, k, int_of_string a, 0, i) :: !ops
                  | L [A k; A a; A b] -> ops := (n, k, int_of_string a, int_of_string b, i) :: !ops
                  | _ -> ());
                 n
               | L [A "go"; A n] -> n
               | _ -> "") in
           let setfin n stt = if parse_status stt = Fin && not (Hashtbl.mem fin_step n) then Hashtbl.replace fin_step n i in
           setfin name status;
           List.iter (function L [A n; stt] -> setfin n stt | _ -> ()) chs;
           List.iter (function
               | L [A "start"; A s; A k] -> starts := (int_of_string s, int_of_string k) :: !starts
               | L [A "cancel"; A s] -> cancels := (int_of_string s, i) :: !cancels
               | L (A "w" :: A s :: A kind :: A e :: _) -> Hashtbl.replace written (int_of_string s, kind, int_of_string e) ()
               | _ -> ()) obs
         | _ -> ()) steps;
     let key_of s = match find_cfg cfgs s with Some c -> c.key | None -> -1 in
     let clean_key k = List.for_all (fun c -> c.key <> k ||
                                              ((c.hook = "ok" || c.hook = "emit") && c.start = "ok" && not c.hbfail && c.flt <> 3
                                               && c.wfail = -1 && c.ffail = -1)) cfgs in
     let sole_creator a =
       let k = key_of a in
       (match List.filter (fun (_, k') -> k' = k) !starts with [(s, _)] -> s = a | _ -> false) &&
       List.for_all (fun c -> c.key <> k || c.sid = a || not (Hashtbl.mem reg_step c.sid) ||
                              Hashtbl.mem fin_step ("st:" ^ string_of_int c.sid)) cfgs in
     let member s a u = key_of s = key_of a && (match Hashtbl.find_opt reg_step s with Some r -> r < u | None -> false) in
     (* some operation that may remove s, or end / shut down everything, was started at or before step u *)
     let asked s u =
       let c = find_cfg cfgs s in
       List.exists (fun (_, k, a, b, i) ->
           i <= u &&
           (match k with
            | "unsub" | "cancelctx" -> a = s
            | "rmclient" -> (match c with Some c -> a = c.conn | None -> true)
            | "close" -> b = s
            | "shutdown" -> true
            | _ -> false)) !ops in
     let ended k u except =
       List.exists (fun (n, kd, a, _, i) ->
           i <= u && n <> except && key_of a = k &&
           (match kd with "complete" | "error" | "done" | "close" -> true | _ -> false)) !ops in
     let subs_of k = List.filter (fun c -> c.key = k) cfgs in
     List.iter (fun (n, kd, a, b, u0) ->
         let k = key_of a in
         match kd, Hashtbl.find_opt fin_step n with
         | ("update" | "complete" | "error"), Some u1 when clean_key k && sole_creator a && not (ended k u1 n) ->
           List.iter (fun c ->
               let s = c.sid in
               if member s a u0 && not (asked s u1) then begin
                 if kd = "update" then begin
                   if b < 100 && flt_of cfgs (ni s) (ni b) = FPass && not (Hashtbl.mem written (s, "write", b)) then
                     add_spec (Printf.sprintf "C12:delivery_order subscriber %d never received event %d: Update(%d) of its trigger was called after it had registered and returned (step %d) before anything asked it to leave or ended the trigger, the event passes its filter, and no Write of it was made" s b b u1)
                 end else if not (Hashtbl.mem written (s, kd, 0)) then
                   add_spec (Printf.sprintf "C13:every_subscriber_completed the source's %s of the trigger returned (step %d) while subscriber %d was subscribed and nothing had asked it to leave, but its writer was never told (no %s call): the subscriber is never completed"
                               (if kd = "complete" then "Complete()" else "Error()") u1 s (if kd = "complete" then "Complete" else "Error"))
               end) (subs_of k)
         | _ -> ()) (List.rev !ops);
     List.iter (fun (a, i) ->
         let k = key_of a in
         if clean_key k && sole_creator a && not (ended k i "") then
           List.iter (fun c ->
               if member c.sid a i && not (asked c.sid i) then
                 add_spec (Printf.sprintf "C13:teardown_has_cause the context of the trigger started by subscriber %d is cancelled (step %d) while subscriber %d is still on it: nothing asked %d to leave, the source did not end the trigger, the resolver was not shut down -- another subscriber's departure tore the shared trigger down"
                             a i c.sid c.sid)) (subs_of k)) (List.rev !cancels));
    (* The quiescence clauses need the premise of the theorems: nothing can move any more, and the resolver was shut
       down or every registered subscriber was asked to leave by its client or the source of ITS trigger said Done /
       failed to start.  "Asked by the client" is read off the schedule (the removal region of an unsubscribe /
       removeClient / context cancel ran after the registration); "its trigger ended" (and removals through the
       flush / heartbeat / hook failure paths) are read off the LTS replay of the prefix of the run on which model
       and implementation agree -- membership of a subscriber in a trigger instance is not observable otherwise.
       The clauses themselves are evaluated on the implementation's observables only. *)
    let registered = Hashtbl.fold (fun s _ acc -> s :: acc) reg_step [] in
    let region_step name = match (try List.rev (Hashtbl.find actor_steps name) with Not_found -> []) with
      | _ :: second :: _ -> Some second | _ -> None in
    let asked_impl s =
      match find_cfg cfgs s with
      | None -> false
      | Some c ->
        let rs = try Hashtbl.find reg_step s with Not_found -> max_int in
        Hashtbl.fold (fun name (k, a) acc ->
            acc ||
            (match k with
             | "unsub" when a = s -> (match region_step name with Some i -> i > rs && Hashtbl.find_opt last_status name = Some Fin | None -> false)
             | "rmclient" when a = c.conn && not c.sync -> (match region_step name with Some i -> i > rs && Hashtbl.find_opt last_status name = Some Fin | None -> false)
             | "cancelctx" when a = s && c.sync -> Hashtbl.find_opt last_status name = Some Fin
             | _ -> false)) actor_op false in
    let pre_model s =
      List.exists (fun (st : state) ->
          List.mem (ni s) st.allsubs &&
          List.exists (function GLeft s' -> ii s' = s | GEnd t -> t = (st.subs (ni s)).s_tid | _ -> false) st.log) !alts in
    let shut_done = !shutdown_started && (match Hashtbl.find_opt last_status "sh" with Some Fin -> true | _ -> false) in
    let none_parked = Hashtbl.fold (fun n stt acc -> acc && (n = "hb" || n = "" || (match stt with At _ -> false | _ -> true))) last_status true in
    (* a Flush / Heartbeat on s's own writer RETURNED an error: the write path removes (and completes) s on its own -- an
       implementation observable, available also after the correspondence broke *)
    let wfail_seen s = List.exists (function OWE (s', (CFlushFail | CHeartbeatFail)) -> ii s' = s | _ -> false) l in
    let quiescent = (not stuck) && none_parked && (shut_done || List.for_all (fun s -> asked_impl s || wfail_seen s || pre_model s) registered) in
    (if quiescent then begin
        (* every subscriber completed: nobody is left blocked; a synchronous subscriber has returned *)
        Hashtbl.iter (fun n stt ->
            if n <> "hb" && n <> "" && stt = Blk then
              (match Hashtbl.find_opt actor_op n with
               | Some ("sub", s) -> add_spec (Printf.sprintf "C13:every_subscriber_completed subscriber %d is still waiting for its completion at quiescence" s)
               | _ -> add_spec (Printf.sprintf "C13:every_subscriber_completed actor %s is blocked forever at quiescence" n))) last_status;
        let sync_reg = List.filter (fun s -> match find_cfg cfgs s with Some c -> c.sync | None -> false) registered in
        if not shut_done && not (all_completed_b (List.map ni sync_reg) l) then
          add_spec "C13:every_subscriber_completed a synchronous subscriber was never completed";
        (match sizes with
         | Some sz ->
           let ((a, b), c) = sz in
           if (ii a, ii b, ii c) <> (0, 0, 0) then add_spec (Printf.sprintf "C13:registry_empty sizes=(%d %d %d) at quiescence" (ii a) (ii b) (ii c));
           if not (counters_balanced_b l) then add_spec "C13:counters_balanced Inc/Dec sums differ at quiescence";
           if not (all_started_cancelled_b l) || unc > 0 then add_spec "C13:all_trigger_ctx_cancelled a started trigger context is still live at quiescence";
           ignore (quiescent_ok_b sz l)
         | None -> ())
      end);
    let res = List.rev !result @ List.map (fun s -> ("specfail", s)) (List.rev !specfails) in
    ignore scn; ignore ch;
    if res = [] then [("ok", (if !nontrivial then "nt" else "tr") ^ (if quiescent then " q" else " nq"))] else res
  (* ---- trigger identity on the real SubscriptionSource / prepareTrigger (C13 shared_iff_same_key) ---- *)
  | L (A "identset" :: obs) ->
    let tbl = Hashtbl.create 64 in
    let intern (k : string) (v : string) : nat =
      match Hashtbl.find_opt tbl (k, v) with
      | Some n -> ni n
      | None -> let n = Hashtbl.length tbl in Hashtbl.replace tbl (k, v) n; ni n in
    let items = List.filter_map (function
        | L [A "obs"; S name; S input; A hh; A id] -> Some (name, ((intern "i" input, intern "h" hh), intern "d" id))
        | _ -> None) obs in
    if ident_ok_b (List.map snd items) then [("ok", Printf.sprintf "nt q ident specs=%d" (List.length items))]
    else begin
      let bad = ref [] in
      List.iter (fun (n1, o1) -> List.iter (fun (n2, o2) ->
          if n1 < n2 && not (ident_ok_b [o1; o2]) then
            bad := (if snd o1 = snd o2 then Printf.sprintf "%s and %s have DIFFERENT rendered (input, headers) but the SAME trigger id" n1 n2
                    else Printf.sprintf "%s and %s have the SAME rendered (input, headers) but DIFFERENT trigger ids" n1 n2) :: !bad) items) items;
      [("specfail", "C13:shared_iff_same_key trigger id is not injective / not a function of the rendered input and headers hash: "
                    ^ String.concat "; " (take 4 (List.rev !bad)))]
    end
  | L [A "identpair"; S comp; L [A "a"; S na; S ia; A ha; A ida]; L [A "b"; S nb; S ib; A hb; A idb];
       L [A "starts"; A n]; L [A "cross"; A k]] ->
    let same_render = (ia = ib && ha = hb) in
    let shared = (int_of_string n = 1) in
    let o x = ni (if x then 0 else 1) in
    let res = ref [] in
    if not (ident_ok_b [((ni 0, ni 0), ni 0); ((o (ia = ib), o (ha = hb)), o (ida = idb))]) then
      res := ("specfail", Printf.sprintf "C13:shared_iff_same_key %s / %s (differ in: %s): trigger ids %s although rendered (input, headers) %s"
                na nb comp (if ida = idb then "equal" else "differ") (if same_render then "are equal" else "differ")) :: !res;
    if shared && not same_render then
      res := ("specfail", Printf.sprintf "C13:shared_iff_same_key %s and %s differ in %s but share ONE upstream subscription (Start called once for two different inputs)" na nb comp) :: !res;
    if (not shared) && same_render then
      res := ("specfail", Printf.sprintf "C13:shared_iff_same_key %s and %s have the same rendered input and headers but %s upstream subscriptions were opened" na nb n) :: !res;
    if int_of_string k > 0 then
      res := ("specfail", Printf.sprintf "C13:shared_iff_same_key cross-talk: %s / %s (differ in %s) received %s message(s) of the other upstream" na nb comp k) :: !res;
    if !res = [] then [("ok", "nt q identpair " ^ comp)] else List.rev !res
  | L (A "identerr" :: r) -> [("error", "ident harness: " ^ String.concat " " (List.map print_sexp r))]
  | _ -> [("error", "unrecognised case")]

let () = run_lines Sys.argv.(1) Sys.argv.(2) handle
