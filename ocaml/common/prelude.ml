(* Shared glue for every extracted-model driver.  This file is textually prepended to the
   property's driver after "open Model" (the extracted module), so the constructor names of
   the extracted N / Z / positive / nat are those of that module. *)

(* ---- numbers ---- *)
let rec pos_of_int (n : int) : positive =
  if n <= 1 then XH else if n land 1 = 1 then XI (pos_of_int (n lsr 1)) else XO (pos_of_int (n lsr 1))
let rec int_of_pos (p : positive) : int =
  match p with XH -> 1 | XO q -> 2 * int_of_pos q | XI q -> 2 * int_of_pos q + 1
let n_of_int (i : int) : n = if i <= 0 then N0 else Npos (pos_of_int i)
let int_of_n (x : n) : int = match x with N0 -> 0 | Npos p -> int_of_pos p
let z_of_int (i : int) : z = if i = 0 then Z0 else if i > 0 then Zpos (pos_of_int i) else Zneg (pos_of_int (- i))
let int_of_z (x : z) : int = match x with Z0 -> 0 | Zpos p -> int_of_pos p | Zneg p -> - (int_of_pos p)
let rec nat_of_int (i : int) : nat = if i <= 0 then O else S (nat_of_int (i - 1))
let rec int_of_nat (x : nat) : int = match x with O -> 0 | S m -> 1 + int_of_nat m

(* decimal strings of arbitrary size -> positive, by repeated halving of the digit string *)
let pos_of_decimal (s : string) : positive option =
  (* returns None for zero *)
  let digits = Array.of_list (List.map (fun c -> Char.code c - 48) (List.init (String.length s) (String.get s))) in
  let is_zero d = Array.for_all (fun x -> x = 0) d in
  let halve d = (* d := d / 2, returns remainder *)
    let r = ref 0 in
    Array.iteri (fun i x -> let cur = !r * 10 + x in d.(i) <- cur / 2; r := cur mod 2) d; !r in
  if is_zero digits then None else begin
    let bits = ref [] in
    while not (is_zero digits) do bits := halve digits :: !bits done;
    (* bits: most significant first *)
    match !bits with
    | [] -> None
    | _ :: rest -> Some (List.fold_left (fun acc b -> if b = 1 then XI acc else XO acc) XH rest)
  end
let n_of_decimal s = match pos_of_decimal s with None -> N0 | Some p -> Npos p
let z_of_decimal s =
  if String.length s > 0 && s.[0] = '-' then
    (match pos_of_decimal (String.sub s 1 (String.length s - 1)) with None -> Z0 | Some p -> Zneg p)
  else (match pos_of_decimal s with None -> Z0 | Some p -> Zpos p)
(* positive -> decimal string (schoolbook doubling on a digit array) *)
let decimal_of_pos (p : positive) : string =
  let rec bits p acc = match p with XH -> 1 :: acc | XO q -> bits q (0 :: acc) | XI q -> bits q (1 :: acc) in
  let bs = bits p [] in
  let digits = ref [0] in (* little endian *)
  List.iter (fun b ->
    let carry = ref b in
    digits := List.map (fun d -> let v = d * 2 + !carry in carry := v / 10; v mod 10) !digits;
    if !carry > 0 then digits := !digits @ [!carry]) bs;
  String.concat "" (List.rev_map string_of_int !digits)
let decimal_of_n = function N0 -> "0" | Npos p -> decimal_of_pos p
let decimal_of_z = function Z0 -> "0" | Zpos p -> decimal_of_pos p | Zneg p -> "-" ^ decimal_of_pos p

(* ---- bytes ---- *)
let bytes_of_string (s : string) : n list = List.init (String.length s) (fun i -> n_of_int (Char.code s.[i]))
let string_of_bytes (l : n list) : string =
  let b = Buffer.create 16 in List.iter (fun x -> Buffer.add_char b (Char.chr ((int_of_n x) land 255))) l; Buffer.contents b

(* ---- S-expressions: atoms (bare words / numbers) and quoted byte strings ---- *)
type sexp = A of string | S of string | L of sexp list
exception Sexp_error of string

let parse_sexp (s : string) : sexp =
  let n = String.length s in
  let pos = ref 0 in
  let hexv c = match c with
    | '0'..'9' -> Char.code c - 48 | 'a'..'f' -> Char.code c - 87 | 'A'..'F' -> Char.code c - 55
    | _ -> raise (Sexp_error "hex") in
  let rec skip () = if !pos < n && (s.[!pos] = ' ' || s.[!pos] = '\t' || s.[!pos] = '\n' || s.[!pos] = '\r') then (incr pos; skip ()) in
  let rec item () =
    skip ();
    if !pos >= n then raise (Sexp_error "eof");
    match s.[!pos] with
    | '(' -> incr pos; let items = ref [] in
      let rec loop () = skip ();
        if !pos >= n then raise (Sexp_error "eof in list");
        if s.[!pos] = ')' then incr pos else (items := item () :: !items; loop ()) in
      loop (); L (List.rev !items)
    | ')' -> raise (Sexp_error "unexpected )")
    | '"' -> incr pos; let b = Buffer.create 16 in
      let rec loop () =
        if !pos >= n then raise (Sexp_error "eof in string");
        let c = s.[!pos] in
        if c = '"' then incr pos
        else if c = '\\' then begin
          if !pos + 2 >= n then raise (Sexp_error "bad escape");
          Buffer.add_char b (Char.chr (hexv s.[!pos+1] * 16 + hexv s.[!pos+2])); pos := !pos + 3; loop () end
        else (Buffer.add_char b c; incr pos; loop ()) in
      loop (); S (Buffer.contents b)
    | _ -> let st = !pos in
      while !pos < n && (match s.[!pos] with ' ' | '\t' | '\n' | '\r' | '(' | ')' | '"' -> false | _ -> true) do incr pos done;
      A (String.sub s st (!pos - st)) in
  let r = item () in skip (); r

let quote_string (s : string) : string =
  let b = Buffer.create (String.length s + 2) in
  Buffer.add_char b '"';
  String.iter (fun c -> let k = Char.code c in
    if k >= 0x20 && k < 0x7f && c <> '"' && c <> '\\' then Buffer.add_char b c
    else Buffer.add_string b (Printf.sprintf "\\%02x" k)) s;
  Buffer.add_char b '"'; Buffer.contents b
let rec print_sexp = function
  | A a -> a
  | S s -> quote_string s
  | L l -> "(" ^ String.concat " " (List.map print_sexp l) ^ ")"

let atom = function A a -> a | x -> raise (Sexp_error ("atom expected: " ^ print_sexp x))
let str = function S s -> s | x -> raise (Sexp_error ("string expected: " ^ print_sexp x))
let lst = function L l -> l | x -> raise (Sexp_error ("list expected: " ^ print_sexp x))
let sbytes x = bytes_of_string (str x)
let sbool x = match atom x with "t" -> true | "f" -> false | a -> raise (Sexp_error ("bool: " ^ a))

(* ---- driver loop: one case per input line, one verdict per output line ----
   verdict line:  <lineno> TAB <status> TAB <detail>
   status: ok | mismatch | specfail | error ; detail is free text (an S-expression). *)
let run_lines (infile : string) (outfile : string) (f : sexp -> (string * string) list) : unit =
  let ic = open_in_bin infile in
  let oc = open_out_bin outfile in
  let lineno = ref 0 in
  (try while true do
    let line = input_line ic in
    incr lineno;
    if String.length line > 0 then begin
      let results =
        try f (parse_sexp line)
        with Sexp_error m -> [("error", "sexp: " ^ m)]
           | Stack_overflow -> [("error", "stack overflow in model")]
           | Not_found -> [("error", "not_found")]
           | Failure m -> [("error", "failure: " ^ m)] in
      List.iter (fun (st, detail) -> Printf.fprintf oc "%d\t%s\t%s\n" !lineno st detail) results
    end
  done with End_of_file -> ());
  close_in ic; close_out oc
