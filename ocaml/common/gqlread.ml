(* Readers for the FEDLAB.md S-expression formats into the extracted lib/Gql.v, lib/Json.v and
   lib/Exec.v types.  Textually included after prelude.ml by drivers that need it. *)
let b = bytes_of_string
let opt_name = function L [A "none"] -> None | S s -> Some (b s) | x -> raise (Sexp_error ("optional name: " ^ print_sexp x))

let rec json_of (x : sexp) : json =
  match x with
  | L [A "n"] -> JNull
  | L [A "t"] -> JBool true
  | L [A "f"] -> JBool false
  | L [A "num"; S r] -> JNum (b r)
  | L [A "s"; S s] -> JStr (b s)
  | L (A "a" :: items) -> JArr (List.map json_of items)
  | L (A "o" :: ms) -> JObj (List.map (function L [S k; v] -> (b k, json_of v) | _ -> raise (Sexp_error "member")) ms)
  | _ -> raise (Sexp_error ("json: " ^ print_sexp x))

let rec sexp_of_json (j : json) : string =
  match j with
  | JNull -> "(n)"
  | JBool true -> "(t)"
  | JBool false -> "(f)"
  | JNum r -> "(num " ^ quote_string (string_of_bytes r) ^ ")"
  | JStr s -> "(s " ^ quote_string (string_of_bytes s) ^ ")"
  | JArr l -> "(" ^ String.concat " " ("a" :: List.map sexp_of_json l) ^ ")"
  | JObj m -> "(" ^ String.concat " " ("o" :: List.map (fun (k, v) -> "(" ^ quote_string (string_of_bytes k) ^ " " ^ sexp_of_json v ^ ")") m) ^ ")"

let rec ty_of (x : sexp) : ty =
  match x with
  | L [A "named"; S n] -> TNamed (b n)
  | L [A "list"; t] -> TList (ty_of t)
  | L [A "nn"; t] -> TNonNull (ty_of t)
  | _ -> raise (Sexp_error ("type: " ^ print_sexp x))

let rec value_of (x : sexp) : value =
  match x with
  | L [A "var"; S n] -> VVar (b n)
  | L [A "int"; S r] -> VInt (b r)
  | L [A "float"; S r] -> VFloat (b r)
  | L [A "str"; S r; blk] -> VStr (b r, sbool blk)
  | L [A "bool"; v] -> VBool (sbool v)
  | L [A "null"] -> VNull
  | L [A "enum"; S n] -> VEnum (b n)
  | L (A "list" :: items) -> VList (List.map value_of items)
  | L (A "obj" :: fs) -> VObj (List.map (function L [S k; v] -> (b k, value_of v) | _ -> raise (Sexp_error "objfield")) fs)
  | _ -> raise (Sexp_error ("value: " ^ print_sexp x))

let args_of = function
  | L (A "args" :: l) -> List.map (function L [S n; v] -> (b n, value_of v) | x -> raise (Sexp_error ("arg: " ^ print_sexp x))) l
  | x -> raise (Sexp_error ("args: " ^ print_sexp x))
let dir_of = function
  | L [A "d"; S n; a] -> { d_name = b n; d_args = args_of a }
  | x -> raise (Sexp_error ("directive: " ^ print_sexp x))
let dirs_of = function
  | L (A "dirs" :: l) -> List.map dir_of l
  | x -> raise (Sexp_error ("dirs: " ^ print_sexp x))
let rec sel_of (x : sexp) : selection =
  match x with
  | L [A "f"; alias; S n; a; d; s] -> SField (opt_name alias, b n, args_of a, dirs_of d, sels_of s)
  | L [A "i"; cond; d; s] -> SInline (opt_name cond, dirs_of d, sels_of s)
  | L [A "sp"; S n; d] -> SSpread (b n, dirs_of d)
  | _ -> raise (Sexp_error ("selection: " ^ print_sexp x))
and sels_of = function
  | L (A "sels" :: l) -> List.map sel_of l
  | x -> raise (Sexp_error ("sels: " ^ print_sexp x))
let optval = function L [A "none"] -> None | L [A "some"; v] -> Some (value_of v) | x -> raise (Sexp_error ("optval: " ^ print_sexp x))
let vardef_of = function
  | L [A "vd"; S n; t; dv; d] -> { vd_name = b n; vd_type = ty_of t; vd_default = optval dv; vd_dirs = dirs_of d }
  | x -> raise (Sexp_error ("vardef: " ^ print_sexp x))
let def_of (x : sexp) : definition =
  match x with
  | L [A "op"; A kind; name; L (A "vardefs" :: vds); d; s] ->
    let k = match kind with "query" -> OpQuery | "mutation" -> OpMutation | "subscription" -> OpSubscription
                          | _ -> raise (Sexp_error "opkind") in
    DOp { op_kind = k; op_name = opt_name name; op_vars = List.map vardef_of vds; op_dirs = dirs_of d; op_sels = sels_of s }
  | L [A "frag"; S n; S t; d; s] -> DFrag { fr_name = b n; fr_type = b t; fr_dirs = dirs_of d; fr_sels = sels_of s }
  | _ -> raise (Sexp_error ("definition: " ^ print_sexp x))
let doc_of = function
  | L (A "doc" :: defs) -> List.map def_of defs
  | x -> raise (Sexp_error ("doc: " ^ print_sexp x))

let iv_of = function
  | L [A "iv"; S n; t; dv] -> { iv_name = b n; iv_type = ty_of t; iv_default = optval dv; iv_dirs = [] }
  | x -> raise (Sexp_error ("inputvalue: " ^ print_sexp x))
let names = function L (_ :: l) -> List.map (fun x -> b (str x)) l | x -> raise (Sexp_error ("names: " ^ print_sexp x))
let type_of = function
  | L [A "type"; A kind; S n; impl; L (A "fields" :: fds); members; values; L (A "inputs" :: ivs)] ->
    let k = match kind with "scalar" -> KScalar | "object" -> KObject | "interface" -> KInterface | "union" -> KUnion
                          | "enum" -> KEnum | "input" -> KInputObject | _ -> raise (Sexp_error "kind") in
    { td_kind = k; td_name = b n; td_implements = names impl;
      td_fields = List.map (function
          | L [A "fd"; S fn; L (A "args" :: a); t] -> { fd_name = b fn; fd_args = List.map iv_of a; fd_type = ty_of t; fd_dirs = [] }
          | x -> raise (Sexp_error ("fielddef: " ^ print_sexp x))) fds;
      td_members = names members;
      td_enum_values = List.map (fun v -> { ev_name = v; ev_dirs = [] }) (names values);
      td_input_fields = List.map iv_of ivs; td_dirs = [] }
  | x -> raise (Sexp_error ("typedef: " ^ print_sexp x))
let schema_of = function
  | L [A "schema"; S q; m; s; L (A "types" :: ts); _] ->
    { s_query = b q; s_mutation = opt_name m; s_subscription = opt_name s; s_types = List.map type_of ts; s_directives = [] }
  | x -> raise (Sexp_error ("schema: " ^ print_sexp x))
