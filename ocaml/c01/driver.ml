(* C01 driver.  Reads harness lines
     (c01 (id seed index uni "knobs") (sum (subgraphs n) (types n) (fetches n) (entityfetches n) ...)
          (flags (planning b) (gwerrors b) (referrors b) (reqvalid b) (owned b) (reprs b) (goequal b) (orderonly b) (panic b))
          (gw <json>|(absent)) (ref <json>) (detail "..") (replay "path") (op ".."))
   | (c01 (id ...) (laberror "msg"))
   gw  = the data member of the response the real ExecutionEngine wrote,
   ref = the data computed by the Coq-extracted reference executor (mono mode) for the same
         operation, variables, supergraph and universe.
   Verdicts: data_equal is json_eqb (extracted from coq/lib/Json.v) on the two trees after sorting
   object members by key (a JSON value has no member order); a pure order difference is only
   counted (flag orderonly, evidence distribution.member_order_differs);
   the remaining clauses are evaluated by the Go harness (which has the federation metadata) and
   passed through.  The Go harness' own tree comparison is tied to json_eqb (corr:C01/json_eqb). *)
let bs = bytes_of_string
let rec json_of (x : sexp) : json =
  match x with
  | L [A "n"] -> JNull
  | L [A "t"] -> JBool true
  | L [A "f"] -> JBool false
  | L [A "num"; S r] -> JNum (bs r)
  | L [A "s"; S s] -> JStr (bs s)
  | L (A "a" :: items) -> JArr (List.map json_of items)
  | L (A "o" :: ms) -> JObj (List.map (function L [S k; v] -> (bs k, json_of v) | _ -> raise (Sexp_error "member")) ms)
  | _ -> raise (Sexp_error ("json: " ^ print_sexp x))
let rec jsort (j : json) : json =
  match j with
  | JObj m -> JObj (List.stable_sort (fun (a, _) (b, _) -> compare a b) (List.map (fun (k, v) -> (k, jsort v)) m))
  | JArr l -> JArr (List.map jsort l)
  | x -> x

let find tag items =
  let rec go = function
    | [] -> raise (Sexp_error ("missing " ^ tag))
    | (L (A t :: rest)) :: _ when t = tag -> rest
    | _ :: r -> go r in
  go items
let flag flags name = match find name flags with [x] -> sbool x | _ -> raise (Sexp_error ("flag " ^ name))
let num items name = match find name items with [A n] -> int_of_string n | _ -> raise (Sexp_error ("number " ^ name))
let text items name = match find name items with [S s] -> s | _ -> ""

let handle (x : sexp) : (string * string) list =
  match x with
  | L [A "c01"; _; L [A "laberror"; S m]] -> [("error", "lab: " ^ m)]
  | L (A "c01" :: items) ->
    let flags = find "flags" items and sum = find "sum" items in
    let detail = text items "detail" and replay = text items "replay" in
    let tail = Printf.sprintf " detail=%s replay=%s" (quote_string detail) replay in
    let res = ref [] in
    let add st d = res := (st, d) :: !res in
    let panicked = (try flag flags "panic" with Sexp_error _ -> false) in
    if panicked then add "specfail" ("no_panic" ^ tail)
    else if not (flag flags "planning") then add "specfail" ("planning_never_fails" ^ tail)
    else begin
      let gw = match find "gw" items with [L [A "absent"]] -> JNull | [j] -> json_of j | _ -> raise (Sexp_error "gw") in
      let rf = match find "ref" items with [j] -> json_of j | _ -> raise (Sexp_error "ref") in
      (* "the same JSON value": member order is not part of a JSON value, so both trees are
         brought to sorted member order before the extracted json_eqb compares them; a pure
         order difference is informational (detail "... order") *)
      let eq = json_eqb (jsort gw) (jsort rf) in
      if eq <> flag flags "goequal" then
        add "mismatch" (Printf.sprintf "corr:C01/json_eqb go=%b coq=%b" (flag flags "goequal") eq);
      if eq && (json_eqb gw rf) = flag flags "orderonly" then
        add "mismatch" (Printf.sprintf "corr:C01/json_eqb-ordered go_orderonly=%b" (flag flags "orderonly"));
      if not eq then add "specfail" ("data_equal" ^ tail);
      if flag flags "gwerrors" <> flag flags "referrors" then
        add "specfail" (Printf.sprintf "errors_iff gateway=%b reference=%b%s" (flag flags "gwerrors") (flag flags "referrors") tail);
      if not (flag flags "reqvalid") then add "specfail" ("request_valid" ^ tail);
      if not (flag flags "owned") then add "specfail" ("request_owned" ^ tail);
      if not (flag flags "reprs") then add "specfail" ("representation_complete" ^ tail)
    end;
    if !res = [] then
      [("ok", if num sum "fetches" >= 2 && num sum "entityfetches" >= 1 then "nt" else "tr")]
    else List.rev !res
  | _ -> [("error", "unrecognised case")]

let () = run_lines Sys.argv.(1) Sys.argv.(2) handle
