(* C08 driver.  Harness line:
     (c08 KIND (dag (f ID (DEP...) SRC)...) (res MODE TREE TREE TREE)...)
   SRC = - | (DS ENV); TREE leaves are (S id (deps) (merged ids)).
   For every mode: the three implementation runs must agree (spec clause [deterministic]);
   the model's tree must equal the implementation's (corr:C08/tree); and the spec checkers
   extracted from Coq are evaluated on the IMPLEMENTATION's tree.  Always, against the planner's
   ORIGINAL per-fetch dependencies: [respects_member_deps_b] (a merged node stands for its members)
   and [members_once_b].  Without the MultiFetch stage also, on the tree's own records:
   [respects_deps_b], [exactly_once_b], and [run_respects_b] on two concrete executions. *)
let nat i = nat_of_int i
let rec show_tree (t : tree) : string =
  match t with
  | Single f ->
    let nums l = String.concat " " (List.map (fun d -> string_of_int (int_of_nat d)) l) in
    Printf.sprintf "(S %d (%s) (%s))" (int_of_nat f.fid) (nums f.fdeps) (nums f.fmerged)
  | Sequence ts -> "(" ^ String.concat " " ("Q" :: List.map show_tree ts) ^ ")"
  | Parallel ts -> "(" ^ String.concat " " ("P" :: List.map show_tree ts) ^ ")"

exception Bad_tree of string
let nats l = List.map (fun d -> nat (int_of_string (atom d))) l
(* [src]: the merge-candidate attribute is an input attribute that no stage rewrites and the tree
   dump does not repeat; an unmerged leaf takes it from the plan entry with its id *)
let rec tree_of_sexp (src : int -> (nat * nat) option) (x : sexp) : tree =
  match x with
  | L [A "S"; A id; L deps; L merged] ->
    let i = int_of_string id in
    Single { fid = nat i; fdeps = nats deps; fmerged = nats merged;
             fsrc = (if merged = [] then src i else None) }
  | L (A "Q" :: cs) -> Sequence (List.map (tree_of_sexp src) cs)
  | L (A "P" :: cs) -> Parallel (List.map (tree_of_sexp src) cs)
  | _ -> raise (Bad_tree (print_sexp x))

let fetch_of_sexp = function
  | L [A "f"; A id; L deps; src] ->
    { fid = nat (int_of_string id); fdeps = nats deps; fmerged = [];
      fsrc = (match src with
              | L [A d; A e] -> Some (nat (int_of_string d), nat (int_of_string e))
              | _ -> None) }
  | x -> raise (Sexp_error ("fetch expected: " ^ print_sexp x))

(* fork: an in-list fetch that at least two fetches depend on; join: a fetch with at least two
   distinct in-list dependencies *)
let has_fork_and_join (l : fetch list) : bool =
  let idl = List.map (fun f -> int_of_nat f.fid) l in
  let pdeps f = List.sort_uniq compare (List.filter (fun d -> List.mem d idl) (List.map int_of_nat f.fdeps)) in
  let join = List.exists (fun f -> List.length (pdeps f) >= 2) l in
  let fork = List.exists (fun i -> List.length (List.filter (fun f -> List.mem i (pdeps f)) l) >= 2) idl in
  fork && join

(* ---- path cases: (c08 paths|pathodd (dag (f ID (DEP...) SRC (rp "seg"...) (mp "seg"...))...) (res MODE T T T)...)
   MODE f = output of the stage addMissingNestedDependencies (flat Sequence in list order) against
   the model's [add_missing] (corr:C08/stage); w s M m = the engine's option sets against
   [pipeline] (corr:C08/tree).  Spec on the IMPLEMENTATION's trees, for a plan that is acyclic
   after completion with unique ids: [members_once_b], [respects_member_deps_b] against the
   planner's DECLARED dependencies; with non-empty segments [stage_reads_b]: every fetch that the
   planner left without dependencies is sequenced strictly after every fetch that writes above
   its response path (c08_pipeline_completes_reads); and -- when the planner-side hypothesis of
   c08_pipeline_respects_dataflow holds too ([covers_b]) -- [reads_b]: the same for every fetch. *)
let pfetch_of_sexp = function
  | L [A "f"; A id; L deps; src; L (A "rp" :: rp); L (A "mp" :: mp)] ->
    { pf = { fid = nat (int_of_string id); fdeps = nats deps; fmerged = [];
             fsrc = (match src with
                     | L [A d; A e] -> Some (nat (int_of_string d), nat (int_of_string e))
                     | _ -> None) };
      prp = List.map sbytes rp; pmp = List.map sbytes mp }
  | x -> raise (Sexp_error ("path fetch expected: " ^ print_sexp x))

let handle_paths (kind : string) (fs : sexp list) (results : sexp list) : (string * string) list =
  let pl = List.map pfetch_of_sexp fs in
  let decl = declared pl in
  let l' = completed pl in
  let res = ref [] in
  let add st d = res := (st, d) :: !res in
  let wellformed = unique_ids_b decl && acyclic_b l' && plain_b decl in
  if not wellformed then add "error" "generator: path plan is not acyclic after completion with unique ids";
  let segs = wellformed && segments_ok_b pl in
  let hyps = segs && covers_b pl in
  let src i = match List.find_opt (fun f -> int_of_nat f.fid = i) decl with Some f -> f.fsrc | None -> None in
  List.iter (fun r ->
    match r with
    | L [A "res"; A mode; t1; t2; t3] ->
      let s1 = print_sexp t1 in
      if print_sexp t2 <> s1 || print_sexp t3 <> s1 then
        add "specfail" (Printf.sprintf "deterministic mode=%s run1=%s run2=%s run3=%s" mode s1 (print_sexp t2) (print_sexp t3));
      if mode = "f" then begin
        let model = show_tree (Sequence (List.map (fun f -> Single f) l')) in
        if model <> s1 then add "mismatch" (Printf.sprintf "corr:C08/stage impl=%s model=%s" s1 model)
      end else begin
        let sched, multi = match mode with
          | "w" -> false, false
          | "s" -> true, false
          | "m" -> true, true
          | "M" -> false, true
          | m -> raise (Sexp_error ("mode " ^ m)) in
        let model = match pipeline sched multi false pl with
          | Done t -> show_tree t
          | OutOfFuel -> "(out-of-fuel)" in
        if model = "(out-of-fuel)" then add "error" ("model out of fuel mode=" ^ mode)
        else if model <> s1 then add "mismatch" (Printf.sprintf "corr:C08/tree mode=%s impl=%s model=%s" mode s1 model);
        (match (try Some (tree_of_sexp src t1) with Bad_tree _ -> None) with
         | None -> add "specfail" (Printf.sprintf "total mode=%s implementation returned %s" mode s1)
         | Some t ->
           if wellformed then begin
             if not (members_once_b t decl) then add "specfail" (Printf.sprintf "members_once mode=%s tree=%s" mode s1);
             if not (respects_member_deps_b t decl) then add "specfail" (Printf.sprintf "respects_member_deps mode=%s tree=%s" mode s1);
             if segs && not (stage_reads_b t pl) then add "specfail" (Printf.sprintf "stage_reads_respected mode=%s tree=%s" mode s1)
             else if hyps && not (reads_b t pl) then add "specfail" (Printf.sprintf "reads_respected mode=%s tree=%s" mode s1)
           end)
      end
    | L [A "crash"; A mode; S msg] ->
      add "specfail" (Printf.sprintf "no_crash mode=%s the Processor killed the process on this fetch list: %s" mode msg)
    | _ -> add "error" "unrecognised result") results;
  (* non-trivial: the stage completes a fetch with a NESTED provider and the spec was evaluated *)
  let nested f = f.prp <> [] in
  let nt = segs && List.exists (fun f -> eligible f && List.exists (fun g -> nested g && g.pf.fid <> f.pf.fid && writes_above_b g f) pl) pl in
  ignore kind;
  if !res = [] then [("ok", (if nt then "nt" else "tr") ^ (if hyps then " covered" else if segs then " stage-only" else if wellformed then " odd-segments" else " malformed"))]
  else List.rev !res

let handle (x : sexp) : (string * string) list =
  match x with
  | L (A "c08" :: A (("paths" | "pathodd") as kind) :: L (A "dag" :: fs) :: results) -> handle_paths kind fs results
  | L (A "c08" :: A kind :: L (A "dag" :: fs) :: results) ->
    let l = List.map fetch_of_sexp fs in
    let res = ref [] in
    let add st d = res := (st, d) :: !res in
    let wellformed = unique_ids_b l && acyclic_b l && plain_b l in
    let src i = match List.find_opt (fun f -> int_of_nat f.fid = i) l with Some f -> f.fsrc | None -> None in
    if kind = "dag" && not wellformed then add "error" "generator: plan is not acyclic with unique ids";
    List.iter (fun r ->
      match r with
      | L [A "res"; A mode; t1; t2; t3] ->
        let s1 = print_sexp t1 in
        if print_sexp t2 <> s1 || print_sexp t3 <> s1 then
          add "specfail" (Printf.sprintf "deterministic mode=%s run1=%s run2=%s run3=%s" mode s1 (print_sexp t2) (print_sexp t3));
        let sched, multi, trig = match mode with
          | "w" -> false, false, false
          | "s" -> true, false, false
          | "m" -> true, true, false
          | "t" -> true, false, true
          | "M" -> false, true, false
          | m -> raise (Sexp_error ("mode " ^ m)) in
        let model = match organize sched multi trig l with
          | Done t -> show_tree t
          | OutOfFuel -> "(out-of-fuel)" in
        if model = "(out-of-fuel)" then add "error" ("model out of fuel mode=" ^ mode)
        else if model <> s1 then add "mismatch" (Printf.sprintf "corr:C08/tree mode=%s impl=%s model=%s" mode s1 model);
        (match (try Some (tree_of_sexp src t1) with Bad_tree _ -> None) with
         | None -> add "specfail" (Printf.sprintf "total mode=%s implementation returned %s" mode s1)
         | Some t ->
           if kind = "dag" then begin
             if not (members_once_b t l) then add "specfail" (Printf.sprintf "members_once mode=%s tree=%s" mode s1);
             if not (respects_member_deps_b t l) then add "specfail" (Printf.sprintf "respects_member_deps mode=%s tree=%s" mode s1)
           end;
           if kind = "dag" && not multi then begin
             if not (exactly_once_b t l) then add "specfail" (Printf.sprintf "exactly_once mode=%s tree=%s" mode s1);
             if not (respects_deps_b t) then add "specfail" (Printf.sprintf "respects_deps mode=%s tree=%s" mode s1)
             else if not (run_respects_b l (run_lr t) && run_respects_b l (run_rl t)) then
               add "specfail" (Printf.sprintf "respects_deps/run mode=%s tree=%s" mode s1)
           end)
      | L [A "crash"; A mode; S msg] ->
        add "specfail" (Printf.sprintf "no_crash mode=%s the Processor killed the process on this fetch list: %s" mode msg)
      | _ -> add "error" "unrecognised result") results;
    if !res = [] then [("ok", if kind = "dag" && has_fork_and_join l then "nt" else "tr")] else List.rev !res
  | _ -> [("error", "unrecognised case")]

let () = run_lines Sys.argv.(1) Sys.argv.(2) handle
