(* C15 driver.  Case lines (see harness/cmd/c15/main.go):
     (lit  <value> (vars (n json)..) (src q) (cv text) <l1> <l2> <l3>)
     (raw  (src q) <l1> <l2> [<l3>])                 model runs on the tree the Go parser produced
     (fwd  (args (p var n | p lit <value>)..) (vars ..) (src q) (cv text) <l2> <l3>)
     (dflt wraps <value> (vars ..) (src q) (cv text) <l2> <l3>)
   <l1> = (l1 ok bytes (tree <value>)) | (l1 parse-err) | ...
   <l2> = (l2 ok vars go_valid split_ok (arg var raw|absent)..) | (l2 err ..) | (l2 parse-err)
   <l3> = (l3 ok vars go_body_valid split_ok (arg var raw|absent)..) | (l3 err ..) | (l3 skip)
   Reports: correspondence of the model with the implementation's bytes (corr:C15/...), and the
   property's spec clauses evaluated on the implementation's own outputs (specfail). *)

let rec value_of_sexp (x : sexp) : value =
  match x with
  | L [A "null"] -> VNull
  | L [A "bool"; b] -> VBool (sbool b)
  | L [A "int"; s] -> VInt (sbytes s)
  | L [A "float"; s] -> VFloat (sbytes s)
  | L [A "str"; s] -> VStr (sbytes s, false)
  | L [A "block"; s] -> VStr (sbytes s, true)
  | L [A "enum"; s] -> VEnum (sbytes s)
  | L [A "var"; s] -> VVar (sbytes s)
  | L (A "list" :: items) -> VList (List.map value_of_sexp items)
  | L (A "obj" :: fields) ->
    VObj (List.map (function L [k; v] -> (sbytes k, value_of_sexp v) | _ -> raise (Sexp_error "obj field")) fields)
  | _ -> raise (Sexp_error ("value: " ^ print_sexp x))

let rec show_value (v : value) : string =
  match v with
  | VNull -> "(null)"
  | VBool b -> if b then "(bool t)" else "(bool f)"
  | VInt r -> "(int " ^ quote_string (string_of_bytes r) ^ ")"
  | VFloat r -> "(float " ^ quote_string (string_of_bytes r) ^ ")"
  | VStr (r, false) -> "(str " ^ quote_string (string_of_bytes r) ^ ")"
  | VStr (r, true) -> "(block " ^ quote_string (string_of_bytes r) ^ ")"
  | VEnum r -> "(enum " ^ quote_string (string_of_bytes r) ^ ")"
  | VVar r -> "(var " ^ quote_string (string_of_bytes r) ^ ")"
  | VList l -> "(" ^ String.concat " " ("list" :: List.map show_value l) ^ ")"
  | VObj l -> "(" ^ String.concat " " ("obj" :: List.map (fun (k, v) -> "(" ^ quote_string (string_of_bytes k) ^ " " ^ show_value v ^ ")") l) ^ ")"

(* the tree the Go parser stores: block strings keep only Literal.Start..End *)
let rec as_parsed (v : value) : value =
  match v with
  | VStr (r, true) ->
    let st = int_of_nat (block_start r) and en = int_of_nat (block_end r) in
    let l = List.filteri (fun i _ -> i >= st && i < en) r in
    VStr (l, true)
  | VList l -> VList (List.map as_parsed l)
  | VObj l -> VObj (List.map (fun (k, v) -> (k, as_parsed v)) l)
  | _ -> v

let rec has_block (v : value) : bool =
  match v with
  | VStr (_, true) -> true
  | VList l -> List.exists has_block l
  | VObj l -> List.exists (fun (_, v) -> has_block v) l
  | _ -> false

let rec depth (v : value) : int =
  match v with
  | VList l -> 1 + List.fold_left (fun a x -> max a (depth x)) 0 l
  | VObj l -> 1 + List.fold_left (fun a (_, x) -> max a (depth x)) 0 l
  | _ -> 0

let rec special (v : value) : bool =
  match v with
  | VStr (_, true) -> true
  | VStr (r, false) -> List.exists (fun b -> int_of_n b = 92) r
  | VFloat r -> List.exists (fun b -> let c = int_of_n b in c = 101 || c = 69) r
  | VList l -> List.exists special l
  | VObj l -> List.exists (fun (_, v) -> special v) l
  | _ -> false

(* causes: the negated hypotheses of the partial theorems, per string literal.  The causes of the
   repaired defects (raw-control-char, block-escaped-triple-quote, block-blank-only,
   default-null-list-wrapped, braced-unicode-escape, block-quote-next-to-whitespace) are gone on
   purpose: a regression is unexplained, hence a violation.  [rescan_exact] stays as a check of the
   theorem rescan_exact_proof on every generated block string (it may not fail when go_block_lexable). *)
let rec causes (v : value) : string list =
  match v with
  | VStr (_, false) -> []
  | VStr (r, true) ->
    (if go_block_lexable r then [] else ["block-lexer-delimits-differently"])
    @ (if utf8_ok O (block_string_value r) then [] else ["block-ill-formed-utf8"])
  | VList l -> List.concat_map causes l
  | VObj l -> List.concat_map (fun (_, v) -> causes v) l
  | _ -> []

let rec rescan_theorem_violated (v : value) : bool =
  match v with
  | VStr (r, true) -> go_block_lexable r && not (rescan_exact r)
  | VList l -> List.exists rescan_theorem_violated l
  | VObj l -> List.exists (fun (_, v) -> rescan_theorem_violated v) l
  | _ -> false

let cause_string (cs : string list) : string =
  match List.sort_uniq compare cs with
  | [] -> "cause=unexplained"
  | l -> "cause=" ^ String.concat "+" l

let show_jres = function
  | JOk _ -> "ok"
  | JInvalid -> "invalid"
  | JFuel -> "out-of-fuel"

let denote_or_null (raw : n list) : dval = match json_denote raw with JOk d -> d | _ -> DNull

(* input-object field defaults: the schema description of the harness' `ischema` line *)
let the_schema : (n list * ifield list) list ref = ref []

let rec ityp_of_sexp (x : sexp) : ityp =
  match x with
  | L [A "scalar"; _] -> IScalar
  | L [A "list"; t] -> IList (ityp_of_sexp t)
  | L [A "obj"; n] -> IObj (sbytes n)
  | _ -> raise (Sexp_error ("ityp: " ^ print_sexp x))

let schema_of_sexp (tys : sexp list) =
  List.map (function
      | L (n :: fs) ->
        (sbytes n, List.map (function
             | L [k; t; L [A "none"]] -> { if_name = sbytes k; if_type = ityp_of_sexp t; if_default = None }
             | L [k; t; L [A "some"; d]] -> { if_name = sbytes k; if_type = ityp_of_sexp t; if_default = Some (gql_denote [] (value_of_sexp d)) }
             | x -> raise (Sexp_error ("ifield: " ^ print_sexp x))) fs)
      | x -> raise (Sexp_error ("ischema: " ^ print_sexp x))) tys

let rec show_dval (d : dval) : string =
  match d with
  | DNull -> "null"
  | DBool b -> if b then "true" else "false"
  | DNum (neg, m, e) -> Printf.sprintf "%s%de%d" (if neg then "-" else "") (int_of_n m) (int_of_z e)
  | DStr s -> quote_string (string_of_bytes s)
  | DList l -> "[" ^ String.concat "," (List.map show_dval l) ^ "]"
  | DObj m -> "{" ^ String.concat "," (List.map (fun (k, v) -> string_of_bytes k ^ ":" ^ show_dval v) m) ^ "}"

(* first place where [want] is not found in [got]: path, wanted, received *)
let rec first_diff (path : string) (want : dval) (got : dval) : (string * string * string) option =
  match want, got with
  | DList x, DList y when List.length x = List.length y ->
    let rec go i x y = match x, y with
      | a :: x', b :: y' -> (match first_diff (Printf.sprintf "%s[%d]" path i) a b with Some r -> Some r | None -> go (i + 1) x' y')
      | _, _ -> None in
    go 0 x y
  | DObj x, DObj y ->
    let rec go = function
      | [] -> None
      | (k, v) :: r ->
        let p = path ^ "." ^ string_of_bytes k in
        (match dobj_get k y with
         | Some w -> (match first_diff p v w with Some d -> Some d | None -> go r)
         | None -> Some (p, show_dval v, "(absent)")) in
    (match go x with
     | Some d -> Some d
     | None -> if List.length x = List.length y then None else
         (match List.find_opt (fun (k, _) -> dobj_get k x = None) y with
          | Some (k, w) -> Some (path ^ "." ^ string_of_bytes k, "(absent)", show_dval w)
          | None -> None))
  | _, _ -> if dval_eqb want got then None else Some (path, show_dval want, show_dval got)

type arginfo = Absent of string | Present of string * string (* var name, raw *) | NotVar

let arg_infos (items : sexp list) : (string * arginfo) list =
  List.filter_map (function
      | L [S a; S vn; A "absent"] -> Some (a, Absent vn)
      | L [S a; S vn; S raw] -> Some (a, Present (vn, raw))
      | L (S a :: A "notvar" :: _) -> Some (a, NotVar)
      | _ -> None) items

let short s = if String.length s > 160 then String.sub s 0 160 ^ "..." else s

let handle (x : sexp) : (string * string) list =
  let res = ref [] in
  let add st d = res := (st, d) :: !res in
  let mismatch what d = add "mismatch" ("corr:C15/" ^ what ^ " " ^ d) in
  let specfail clause d = add "specfail" (clause ^ " " ^ d) in
  let nontrivial = ref false in
  (* evaluate "valid JSON denoting the same value" on an implementation output *)
  let check_value lvl env v valid_lit cs (impl : string) =
    let b = bytes_of_string impl in
    match json_denote b with
    | JFuel -> add "error" "json_denote out of fuel"
    | JInvalid ->
      specfail ("vars_valid_json/" ^ lvl) (cause_string (if valid_lit then cs else ["malformed-literal-accepted"]) ^ " impl=" ^ quote_string (short impl))
    | JOk d ->
      if valid_lit && not (dval_eqb d (gql_denote env v)) then
        specfail ("value_preserved/" ^ lvl) (cause_string cs ^ " impl=" ^ quote_string (short impl))
  in
  let bindings = function
    | L (A "vars" :: bs) -> List.map (function L [k; j] -> (sbytes k, sbytes j) | _ -> raise (Sexp_error "binding")) bs
    | _ -> raise (Sexp_error "vars") in
  (* level 2 / 3 common: json validity flag correspondence + spec *)
  let check_text_valid lvl (text : string) (go_valid : bool) cs_if_invalid =
    let mine = json_valid_b (bytes_of_string text) in
    if mine <> go_valid then mismatch "json_valid" (Printf.sprintf "%s coq=%b go=%b text=%s" lvl mine go_valid (quote_string (short text)));
    if not mine then specfail ("vars_valid_json/" ^ lvl) (cause_string cs_if_invalid ^ " text=" ^ quote_string (short text))
  in
  (match x with
   | L [A "lit"; vx; varsx; L [A "src"; _]; L [A "cv"; _]; l1; l2; l3] ->
     let v = value_of_sexp vx in
     let vs = bindings varsx in
     let env = List.map (fun (k, j) -> (k, denote_or_null j)) vs in
     let valid_lit = lit_valid_b v in
     let cs = if valid_lit then causes v else ["malformed-literal-accepted"] in
     let m = string_of_bytes (value_to_json vs v) in
     nontrivial := depth v >= 2 || special v;
     if rescan_theorem_violated v then mismatch "rescan-theorem" "a lexable block string whose delimiter re-scan is not exact";
     let parsed = ref true in
     (match l1 with
      | L [A "l1"; A "ok"; S b; L [A "tree"; t]] ->
        let expect = show_value (as_parsed v) in
        let got = print_sexp t in
        if expect <> got then (parsed := false; mismatch "parse" (Printf.sprintf "expected=%s got=%s" (short expect) (short got)))
        else begin
          if b <> m then mismatch "value_to_json" (Printf.sprintf "impl=%s model=%s" (quote_string (short b)) (quote_string (short m)));
          check_value "l1" env v valid_lit cs b
        end
      | L [A "l1"; A "parse-err"] ->
        parsed := false;
        if valid_lit && go_safe_b v then mismatch "parse" "implementation rejects a valid literal"
      | _ -> parsed := false; add "error" ("l1: " ^ short (print_sexp l1)));
     if !parsed then begin
       (match l2 with
        | L (A "l2" :: A "ok" :: S vars :: gv :: _ :: args) ->
          check_text_valid "l2" vars (sbool gv) cs;
          (match List.assoc_opt "a" (arg_infos args) with
           | Some (Present (vn, raw)) ->
             if raw <> m then mismatch "extract" (Printf.sprintf "impl=%s model=%s" (quote_string (short raw)) (quote_string (short m)));
             check_value "l2" env v valid_lit cs raw;
             (* the client's own variables are still there, unchanged *)
             List.iter (fun (k, j) ->
                 match json_member false (bytes_of_string vars) k with
                 | Some d -> if not (dval_eqb d (denote_or_null j)) then mismatch "extract" ("client variable changed: " ^ string_of_bytes k)
                 | None -> mismatch "extract" ("client variable lost: " ^ string_of_bytes k)) vs;
             ignore vn
           | _ -> mismatch "extract" "argument a is not an extracted variable")
        | _ -> mismatch "extract" ("level 2 failed: " ^ short (print_sexp l2)));
       (match l3 with
        | L [A "l3"; A "skip"] -> ()
        | L (A "l3" :: A "ok" :: S vars :: gv :: _ :: args) ->
          check_text_valid "l3" vars (sbool gv) cs;
          (match List.assoc_opt "a" (arg_infos args) with
           | Some (Present (_, raw)) ->
             (match json_denote_gen false (bytes_of_string raw), json_denote_gen false (bytes_of_string m) with
              | JOk a, JOk b -> if not (dval_eqb a b) then mismatch "upstream" (Printf.sprintf "impl=%s model=%s" (quote_string (short raw)) (quote_string (short m)))
              | a, b -> if show_jres a <> show_jres b then mismatch "upstream" (Printf.sprintf "impl=%s(%s) model=%s(%s)" (quote_string (short raw)) (show_jres a) (quote_string (short m)) (show_jres b)));
             check_value "l3" env v valid_lit cs raw
           | _ -> mismatch "upstream" "argument a did not reach the subgraph as a variable")
        | _ -> mismatch "upstream" ("level 3 failed: " ^ short (print_sexp l3)))
     end
   | L (A "raw" :: L [A "src"; _] :: l1 :: l2 :: rest) ->
     (match l1 with
      | L [A "l1"; A "ok"; S b; L [A "tree"; t]] ->
        let v = value_of_sexp t in
        if has_block v then ()
        else begin
          let valid_lit = lit_valid_b v in
          let cs = if valid_lit then causes v else ["malformed-literal-accepted"] in
          nontrivial := (not valid_lit) || special v || depth v >= 2;
          let m = string_of_bytes (value_to_json [] v) in
          if b <> m then mismatch "value_to_json" (Printf.sprintf "impl=%s model=%s" (quote_string (short b)) (quote_string (short m)));
          check_value "l1" [] v valid_lit cs b;
          (match l2 with
           | L (A "l2" :: A "ok" :: S vars :: gv :: _ :: args) ->
             check_text_valid "l2" vars (sbool gv) cs;
             (match List.assoc_opt "a" (arg_infos args) with
              | Some (Present (_, raw)) ->
                if raw <> m then mismatch "extract" (Printf.sprintf "impl=%s model=%s" (quote_string (short raw)) (quote_string (short m)))
              | _ -> ())
           | _ -> ());
          (match rest with
           | [L (A "l3" :: A "ok" :: S vars :: gv :: _ :: args)] ->
             check_text_valid "l3" vars (sbool gv) cs;
             (match List.assoc_opt "a" (arg_infos args) with
              | Some (Present (_, raw)) -> check_value "l3" [] v valid_lit cs raw
              | _ -> ())
           | _ -> ())
        end
      | L [A "l1"; A "parse-err"] -> ()
      | _ -> add "error" ("l1: " ^ short (print_sexp l1)))
   | L [A "fwd"; L (A "args" :: argsx); varsx; L [A "src"; _]; L [A "cv"; _]; l2; l3] ->
     let vs = bindings varsx in
     let ctx = List.map (fun (k, j) -> (k, denote_or_null j)) vs in
     let args = List.map (function
         | L [S p; A "var"; S n] -> (p, `Var n)
         | L [S p; A "lit"; vx] -> (p, `Lit (value_of_sexp vx))
         | _ -> raise (Sexp_error "fwd arg")) argsx in
     nontrivial := List.length args >= 2;
     (match l2, l3 with
      | L (A "l2" :: A "ok" :: S vars2 :: gv2 :: _ :: a2), L (A "l3" :: A "ok" :: S vars3 :: gv3 :: _ :: a3) ->
        let i2 = arg_infos a2 and i3 = arg_infos a3 in
        let all_cs = List.concat_map (fun (_, a) -> match a with `Lit v -> if lit_valid_b v then causes v else ["malformed-literal-accepted"] | _ -> []) args in
        check_text_valid "l2" vars2 (sbool gv2) all_cs;
        check_text_valid "l3" vars3 (sbool gv3) all_cs;
        (* model: template (upstream name, context name) and the context after normalisation *)
        let tmpl = ref [] and ctx_full = ref ctx and ok = ref true in
        List.iter (fun (p, a) ->
            let u = match List.assoc_opt p i3 with Some (Present (u, _)) | Some (Absent u) -> Some u | _ -> None in
            match u, a with
            | Some u, `Var n -> tmpl := (bytes_of_string u, bytes_of_string n) :: !tmpl
            | Some u, `Lit v ->
              (match List.assoc_opt p i2 with
               | Some (Present (c, _)) ->
                 tmpl := (bytes_of_string u, bytes_of_string c) :: !tmpl;
                 (match json_denote_gen false (value_to_json [] v) with
                  | JOk d -> ctx_full := (bytes_of_string c, d) :: !ctx_full
                  | _ -> ok := false)
               | _ -> ok := false; mismatch "extract" ("literal argument " ^ p ^ " not extracted"))
            | None, _ -> ok := false; mismatch "forward" ("argument " ^ p ^ " missing upstream")) args;
        if !ok then begin
          let fw = forward_d (List.rev !tmpl) !ctx_full in
          List.iter (fun (p, _) ->
              match List.assoc_opt p i3 with
              | Some (Present (u, raw)) ->
                (match List.assoc_opt (bytes_of_string u) fw, json_denote_gen false (bytes_of_string raw) with
                 | Some d, JOk d' -> if not (dval_eqb d d') then mismatch "forward" (Printf.sprintf "%s: impl=%s differs from model" p (quote_string (short raw)))
                 | None, _ -> mismatch "forward" (Printf.sprintf "%s: impl present %s, model absent" p (quote_string (short raw)))
                 | Some _, _ -> mismatch "forward" (Printf.sprintf "%s: impl text unreadable %s" p (quote_string (short raw))))
              | Some (Absent u) ->
                (match List.assoc_opt (bytes_of_string u) fw with
                 | Some _ -> mismatch "forward" (p ^ ": impl absent, model present")
                 | None -> ())
              | _ -> ()) args
        end;
        (* spec on the implementation's output *)
        List.iter (fun (p, a) ->
            let got = List.assoc_opt p i3 in
            match a with
            | `Var n ->
              (match List.assoc_opt (bytes_of_string n) vs, got with
               | None, Some (Absent _) -> ()
               | None, Some (Present (_, raw)) -> specfail "absent_stays_absent" (Printf.sprintf "cause=absent-became %s=%s" p (quote_string (short raw)))
               | Some j, Some (Present (_, raw)) ->
                 if is_dnull (denote_or_null j) then
                   (match json_denote (bytes_of_string raw) with JOk DNull -> () | _ -> specfail "null_stays_null" (Printf.sprintf "cause=null-became %s=%s" p (quote_string (short raw))))
                 else if not (json_same_value_b j (bytes_of_string raw)) then
                   specfail "value_forwarded" (Printf.sprintf "cause=json-variable-changed %s supplied=%s received=%s" p (quote_string (short (string_of_bytes j))) (quote_string (short raw)))
               | Some j, Some (Absent _) ->
                 specfail (if is_dnull (denote_or_null j) then "null_stays_null" else "value_forwarded") (Printf.sprintf "cause=supplied-value-dropped %s" p)
               | _, _ -> ())
            | `Lit v ->
              let valid_lit = lit_valid_b v in
              let cs = if valid_lit then causes v else ["malformed-literal-accepted"] in
              (match got with
               | Some (Present (_, raw)) -> check_value "l3" [] v valid_lit cs raw
               | _ -> specfail "value_preserved/l3" ("cause=literal-dropped " ^ p))) args
      | _ -> mismatch "forward" ("levels failed: " ^ short (print_sexp l2) ^ " " ^ short (print_sexp l3)))
   | L [A "dflt"; A w; dvx; varsx; L [A "src"; _]; L [A "cv"; _]; l2; l3] ->
     let wraps = int_of_string w in
     let dv = value_of_sexp dvx in
     let vs = bindings varsx in
     let v0 = bytes_of_string "v0" in
     let valid_lit = lit_valid_b dv in
     nontrivial := true;
     let supplied = List.assoc_opt v0 vs in
     let model = default_extract vs v0 (nat_of_int wraps) dv in
     let expected_text = match model, supplied with
       | Some b, _ -> Some (string_of_bytes b)
       | None, Some j -> Some (string_of_bytes j)
       | None, None -> None in
     let expected_val = match supplied with
       | Some j -> Some (denote_or_null j)
       | None -> if valid_lit then Some (default_denote (nat_of_int wraps) (gql_denote [] dv)) else None in
     let cs = if not valid_lit then ["malformed-literal-accepted"] else causes dv in
     let argname = if wraps > 0 then "la" else "a" in
     let check lvl infos is_l2 =
       match List.assoc_opt argname infos with
       | Some (Present (_, raw)) ->
         (if is_l2 then
            match expected_text with
            | Some t -> if raw <> t then mismatch "default_extract" (Printf.sprintf "impl=%s model=%s" (quote_string (short raw)) (quote_string (short t)))
            | None -> ());
         (match expected_val, json_denote (bytes_of_string raw) with
          | Some e, JOk d ->
            if not (dval_eqb d e) then
              specfail ((if supplied = None then "default_preserved/" else if is_dnull e then "null_stays_null/" else "value_forwarded/") ^ lvl)
                (cause_string cs ^ " impl=" ^ quote_string (short raw))
          | _, JInvalid -> specfail ("vars_valid_json/" ^ lvl) (cause_string cs ^ " impl=" ^ quote_string (short raw))
          | _, _ -> ())
       | Some (Absent _) -> specfail ("default_preserved/" ^ lvl) "cause=default-dropped"
       | _ -> mismatch "default_extract" (lvl ^ ": argument not a variable") in
     (match l2 with
      | L (A "l2" :: A "ok" :: S vars :: gv :: _ :: a2) -> check_text_valid "l2" vars (sbool gv) cs; check "l2" (arg_infos a2) true
      | _ -> mismatch "default_extract" ("level 2 failed: " ^ short (print_sexp l2)));
     (match l3 with
      | L (A "l3" :: A "ok" :: S vars :: gv :: _ :: a3) -> check_text_valid "l3" vars (sbool gv) cs; check "l3" (arg_infos a3) false
      | _ -> mismatch "default_extract" ("level 3 failed: " ^ short (print_sexp l3)))
   | L (A "ischema" :: tys) -> the_schema := schema_of_sexp tys
   | L [A "inp"; L [A "mode"; A mode]; L [A "arg"; S arg]; L [A "ty"; tyx]; vx; L [A "src"; S src]; L [A "cv"; S cv]; l1; l2; l3] ->
     (* a value for an input type whose fields have defaults: what was supplied stays, what was omitted is defaulted *)
     let v = value_of_sexp vx in
     let ty = ityp_of_sexp tyx in
     let d = gql_denote [] v in
     let fuel = nat_of_int 40 in
     nontrivial := depth v >= 1;
     if !the_schema = [] then add "error" "inp case before the ischema line";
     if not (lit_valid_b v) then add "error" "inp: generated value is not a valid literal";
     (match l1 with
      | L [A "l1"; A "ok"; S b; L [A "tree"; _]] -> check_value "l1" [] v true [] b
      | L [A "l1"; A "skip"] -> ()
      | _ -> mismatch "parse" ("inp level 1: " ^ short (print_sexp l1)));
     let replay = Printf.sprintf "mode=%s query=%s variables=%s" mode (quote_string src) (quote_string cv) in
     let check lvl args =
       match List.assoc_opt arg (arg_infos args) with
       | Some (Present (_, raw)) ->
         (match json_denote (bytes_of_string raw) with
          | JOk got ->
            if not (supplied_preserved_b d got) then
              (match first_diff arg d got with
               | Some (p, w, g) -> specfail ("value_preserved/" ^ lvl) (Printf.sprintf "cause=unexplained supplied-member-changed at %s supplied=%s received=%s %s" p w g replay)
               | None -> specfail ("value_preserved/" ^ lvl) ("cause=unexplained supplied-member-changed " ^ replay))
            else if not (defaults_complete_b fuel !the_schema ty d got) then
              (match first_diff arg (spec_defaults fuel !the_schema ty d) got with
               | Some (p, w, g) -> specfail ("default_preserved/" ^ lvl) (Printf.sprintf "cause=unexplained omitted-member at %s expected=%s received=%s %s" p w g replay)
               | None -> specfail ("default_preserved/" ^ lvl) ("cause=unexplained " ^ replay))
          | JInvalid -> specfail ("vars_valid_json/" ^ lvl) ("cause=unexplained impl=" ^ quote_string (short raw) ^ " " ^ replay)
          | JFuel -> add "error" "json_denote out of fuel")
       | Some (Absent _) -> specfail ("value_preserved/" ^ lvl) ("cause=supplied-value-dropped " ^ replay)
       | _ -> mismatch "extract" (lvl ^ ": argument " ^ arg ^ " is not a variable") in
     (match l2 with
      | L (A "l2" :: A "ok" :: S vars :: gv :: _ :: a2) -> check_text_valid "l2" vars (sbool gv) []; check "l2" a2
      | _ -> mismatch "extract" ("inp level 2 failed: " ^ short (print_sexp l2)));
     (match l3 with
      | L (A "l3" :: A "ok" :: S vars :: gv :: _ :: a3) -> check_text_valid "l3" vars (sbool gv) []; check "l3" a3
      | _ -> mismatch "upstream" ("inp level 3 failed: " ^ short (print_sexp l3)))
   | _ -> add "error" "unrecognised case");
  if !res = [] then [("ok", if !nontrivial then "nt" else "tr")] else List.rev !res

let () = run_lines Sys.argv.(1) Sys.argv.(2) handle
