(* C14 driver (planner / loader part on the federation lab).  Reads the lines of harness/cmd/c14:

     (c14 op (id ..) (optype query|mutation) (text "..") (vars "..") (protected "T.f"..) (domain "T.f"..)
             (base <json>|(absent))
             (plan <optype> (fetches (fetch id "ds" optype (roots (r "T" "f" rule)..))..) (tree <pnode>) (gocoords (c "ds" "T" "f")..)))
     (c14 run (id ..) (mode pre|post) (optype ..) (d "T.f,..") (hooks none|rl|rlx|tr|rltr installed calls)
              (denied (p ..)..) (gw <json>|(absent)) (gwerrs (p ..)..)
              (ref <json>|(skip)) (referrs n) (seen (c "T" "f")..) (asked ..) (objasked ..)
              (reqs (rq "ds" optype (roots (r "T" "f" protected denied)..) planroots)..)
              (gates (g id "ds" optype (roots (r "T" "f" rule)..) sent eligible unique (req optype (roots (r "T" "f" protected denied)..)))..)
              (forbidden "s"..) [(resp "bytes")] (flags (sentinel b) (goequal b) (mixed b) (merged b)) (sum ..))
     (c14 run (id ..) .. (execerror "..")) | (c14 op|run (id ..) (laberror "..")) | (c14 skip ..) | (c14 baseline (id ..) (reason "..") (text ".."))

   op line : the extracted collect_coordinates over the dumped real plan must equal the Go
             collector's AuthorizationCoordinates (corr:C14/collector); the extracted checkers
             collector_complete_b / collector_sound_b run on the Go list.
   run line: the extracted clause checkers run on the real response / request log; the extracted
             gate model (seeded from the Go coordinates by the run's decisions) must agree with
             what was sent (corr:C14/gate); the batch authorizer's recorded questions must be the
             projection of the coordinates (corr:C14/authorize_prefetch).
             hooks: the loader's other pre-fetch hooks of the run.  An allowing rate limiter and tracing must be
             transparent: every clause is evaluated as without them.  Under a REJECTING limiter (rlx, installed) no
             fetch that carries a FetchInfo is sent (model: validate_pre_fetch), so only the clauses that do not
             depend on fetched data are evaluated: denied_absent, sentinel_absent, collector_complete, fetch_gate
             (nothing that must not be sent is sent), and the gate correspondence. *)
let bs = bytes_of_string
let rec json_of (x : sexp) : json =
  match x with
  | L [A "n"] -> JNull
  | L [A "t"] -> JBool true
  | L [A "f"] -> JBool false
  | L [A "num"; S r] -> JNum (bs r)
  | L [A "s"; S s] -> JStr (bs s)
  | L (A "a" :: items) -> JArr (List.map json_of items)
  | L (A "o" :: ms) -> JObj (List.map (function L [S k; v] -> (bs k, json_of v) | _ -> raise (Sexp_error "member")) ms)
  | _ -> raise (Sexp_error ("json: " ^ print_sexp x))
let rec jsort (j : json) : json =
  match j with
  | JObj m -> JObj (List.stable_sort (fun (a, _) (b, _) -> compare a b) (List.map (fun (k, v) -> (k, jsort v)) m))
  | JArr l -> JArr (List.map jsort l)
  | x -> x

let find_opt tag items =
  let rec go = function
    | [] -> None
    | (L (A t :: rest)) :: _ when t = tag -> Some rest
    | _ :: r -> go r in
  go items
let find tag items = match find_opt tag items with Some r -> r | None -> raise (Sexp_error ("missing " ^ tag))
let num items name = match find name items with [A n] -> int_of_string n | _ -> raise (Sexp_error ("number " ^ name))

let optype_of = function
  | "query" -> n_of_int 1 | "mutation" -> n_of_int 2 | "subscription" -> n_of_int 3 | _ -> n_of_int 0

let path_of (x : sexp) : pelem list =
  match x with
  | L (A "p" :: els) -> List.map (function S k -> PName (bs k) | A i -> PIdx (n_of_int (int_of_string i)) | _ -> raise (Sexp_error "path")) els
  | _ -> raise (Sexp_error "path")

let rec pnode_of (x : sexp) : pnode =
  match x with
  | L [A "leaf"] -> PLeaf
  | L [A "arr"; it] -> PArr (pnode_of it)
  | L (A "obj" :: fs) -> PObj (List.map pfield_of fs)
  | _ -> raise (Sexp_error ("pnode: " ^ print_sexp x))
and pfield_of (x : sexp) : pfield =
  match x with
  | L [A "fld"; S name; info; v] ->
    let i = match info with
      | L [A "noinfo"] -> None
      | L [A "info"; S parent; S fname; rule; L (A "src" :: srcs)] ->
        Some { fi_parent = bs parent; fi_name = bs fname; fi_rule = sbool rule; fi_sources = List.map sbytes srcs }
      | _ -> raise (Sexp_error "info") in
    PFld (bs name, i, pnode_of v)
  | _ -> raise (Sexp_error "fld")

let root_of = function
  | L (A "r" :: S t :: S f :: rule :: _) -> { rf_type = bs t; rf_field = bs f; rf_rule = sbool rule }
  | _ -> raise (Sexp_error "root")
let fetch_of = function
  | L [A "fetch"; A _; S ds; A op; L (A "roots" :: rs)] -> { ft_ds = bs ds; ft_op = optype_of op; ft_roots = List.map root_of rs }
  | x -> raise (Sexp_error ("fetch: " ^ print_sexp x))
let coord_of = function
  | L [A "c"; S ds; S t; S f] -> { co_ds = bs ds; co_type = bs t; co_field = bs f }
  | _ -> raise (Sexp_error "coord")
let tf_of = function
  | L [A "c"; S t; S f] -> (bs t, bs f)
  | _ -> raise (Sexp_error "tf")
let show_coord c = Printf.sprintf "%s:%s.%s" (string_of_bytes c.co_ds) (string_of_bytes c.co_type) (string_of_bytes c.co_field)

(* state of the current operation *)
let cur_id = ref ""
let cur_base : json option ref = ref None
let cur_plan : plan option ref = ref None
let cur_coords : coordinate list ref = ref []

let contains (hay : string) (needle : string) : bool =
  let n = String.length hay and m = String.length needle in
  if m = 0 then true else begin
    let found = ref false and i = ref 0 in
    while not !found && !i + m <= n do
      if String.unsafe_get hay !i = String.unsafe_get needle 0 then begin
        let j = ref 1 in
        while !j < m && String.unsafe_get hay (!i + !j) = String.unsafe_get needle !j do incr j done;
        if !j = m then found := true
      end;
      incr i
    done; !found end

let handle (x : sexp) : (string * string) list =
  match x with
  | L (A "c14" :: A "skip" :: _) -> [("ok", "tr skipped")]
  (* a hand-written federation whose un-authorized gateway run must equal the monolith (Fixture.StrictBaseline) *)
  | L (A "c14" :: A "baseline" :: (L (A "id" :: _) as id) :: items) ->
    let reason = (match find_opt "reason" items with Some [S r] -> r | _ -> "") and text = (match find_opt "text" items with Some [S t] -> t | _ -> "") in
    [("specfail", Printf.sprintf "baseline_agrees the gateway's answer without any authorizer differs from the monolithic execution on a hand-written federation: %s :: %s id=%s" text reason (print_sexp id))]
  | L (A "c14" :: A _ :: L (A "id" :: _) :: L [A "laberror"; S m] :: _) -> [("error", "lab: " ^ m)]
  | L (A "c14" :: A "op" :: (L (A "id" :: _) as id) :: items) ->
    let res = ref [] in
    let add st d = res := (st, d) :: !res in
    let tail = " id=" ^ print_sexp id in
    cur_id := print_sexp id;
    cur_base := (match find "base" items with [L [A "absent"]] -> None | [j] -> Some (json_of j) | _ -> None);
    (match find "plan" items with
     | [A op; L (A "fetches" :: fs); L [A "tree"; t]; L (A "gocoords" :: cs)] ->
       let p = { pl_op = optype_of op; pl_fetches = List.map fetch_of fs; pl_root = pnode_of t } in
       let go = List.map coord_of cs in
       cur_plan := Some p; cur_coords := go;
       let model = collect_coordinates p in
       if model <> go then
         add "mismatch" (Printf.sprintf "corr:C14/collector model=[%s] go=[%s]%s"
                           (String.concat " " (List.map show_coord model)) (String.concat " " (List.map show_coord go)) tail);
       if not (collector_complete_b p go) then
         add "specfail" (Printf.sprintf "collector_complete/plan a field of the response tree (or a root field of a fetch) with an authorization rule is missing from AuthorizationCoordinates=[%s]%s"
                           (String.concat " " (List.map show_coord go)) tail);
       if not (collector_sound_b p go) then add "specfail" ("collector_sound" ^ tail);
       if !res = [] then [("ok", if go <> [] then "nt" else "tr")] else List.rev !res
     | _ -> [("error", "plan item")])
  | L (A "c14" :: A "run" :: (L (A "id" :: _) as id) :: items) ->
    let res = ref [] in
    let add st d = res := (st, d) :: !res in
    let mode = (match find "mode" items with [A m] -> m | _ -> "?") in
    let dstr = (match find "d" items with [S s] -> s | _ -> "") in
    let (hooks, lim_installed, lim_calls) = (match find_opt "hooks" items with
        | Some [A h; inst; A calls] -> (h, sbool inst, int_of_string calls)
        | _ -> ("none", false, 0)) in
    let htag = if hooks = "none" then "" else " hooks=" ^ hooks in
    let tail = Printf.sprintf " mode=%s d=%s%s id=%s" mode (quote_string dstr) htag (print_sexp id) in
    (* the limiter of the run as the model sees it: None = not on the request context *)
    let limiter = if lim_installed then Some (fun (_ : fetchinfo) -> if hooks = "rlx" || hooks = "rlxtr" then RlReject else RlPass) else None in
    let rejecting = lim_installed && (hooks = "rlx" || hooks = "rlxtr") in
    if print_sexp id <> !cur_id then [("error", "run line without its op line" ^ tail)] else
    (match find_opt "execerror" items with
     | Some [S m] -> [("specfail", "execution_error the engine failed under the authorizer though it succeeds without: " ^ m ^ tail)]
     | _ ->
    let dset = if dstr = "" then [] else String.split_on_char ',' dstr in
    let d (t : n list) (f : n list) : bool = List.mem (string_of_bytes t ^ "." ^ string_of_bytes f) dset in
    let optype = (match find "optype" items with [A o] -> optype_of o | _ -> n_of_int 0) in
    let denied = List.map path_of (find "denied" items) in
    let gw = (match find "gw" items with [L [A "absent"]] -> JNull | [j] -> json_of j | _ -> raise (Sexp_error "gw")) in
    let errs = List.map path_of (find "gwerrs" items) in
    let flags = find "flags" items and sum = find "sum" items in
    let flag name = (match find name flags with [b] -> sbool b | _ -> raise (Sexp_error name)) in
    let show_paths ps = String.concat " " (List.map (fun p -> String.concat "." (List.map (function PName k -> string_of_bytes k | PIdx i -> string_of_int (int_of_n i)) p)) ps) in
    (* planned fetches that the gate holds back under these decisions although other fetches depend on them *)
    let hidden = (match find_opt "starving" items with Some (_ :: _ as l) -> "/input-fetch-held-back[" ^ String.concat "," (List.map atom l) ^ "]" | _ -> "") in
    (* 1 denied_absent *)
    if not (denied_absent_b gw denied) then begin
      let bad = List.filter (fun p -> not (denied_absent_b gw [p])) denied in
      add "specfail" (Printf.sprintf "denied_absent%s non-null value at denied position(s) %s%s" (if flag "merged" then "/merged" else "") (show_paths bad) tail) end;
    (* 2 denied_reported *)
    if not rejecting && not (denied_reported_b gw errs denied) then begin
      let bad = List.filter (fun p -> not (denied_reported_b gw errs [p])) denied in
      add "specfail" (Printf.sprintf "denied_reported%s no error with the path of denied position(s) %s%s" (if flag "merged" then "/merged" else "") (show_paths bad) tail) end;
    (* 3 propagates_like_null *)
    (match find "ref" items with
     | [L [A "skip"]] -> ()
     | [_] when rejecting -> ()
     | [j] ->
       let rf = json_of j in
       let eq = json_eqb (jsort gw) (jsort rf) in
       if eq <> flag "goequal" then add "mismatch" (Printf.sprintf "corr:C14/json_eqb go=%b coq=%b%s" (flag "goequal") eq tail);
       if not eq then add "specfail" ("propagates_like_null" ^ hidden ^ " the response differs from the reference execution in which the denied positions fail" ^ tail)
       else if num items "referrs" > 0 && num sum "errors" = 0 then
         add "specfail" ("propagates_like_null/errors the reference reports errors, the gateway none" ^ tail)
     | _ -> raise (Sexp_error "ref"));
    (* 4 allowed_untouched *)
    let base_opt = (match find_opt "maskedbase" items with
        | Some [L [A "absent"]] -> None
        | Some [j] -> Some (json_of j)
        | _ -> !cur_base) in
    (match base_opt with
     | Some _ when rejecting -> ()
     | Some base -> if not (untouched_b base gw [] denied) then add "specfail" ("allowed_untouched" ^ hidden ^ " a position outside the denied ones differs from the run without denials" ^ tail)
     | None -> ());
    (* 4b requires_input_intact: an allowed field whose @requires input is denied still resolves *)
    (match find_opt "starved" items with
     | Some (_ :: _ as l) when not rejecting ->
       add "specfail" (Printf.sprintf "requires_input_intact allowed field(s) %s changed because the fetch of their denied @requires input was skipped%s"
                         (String.concat " " (List.map str l)) tail)
     | _ -> ());
    (* 5 sentinel_absent *)
    let forbidden = List.map str (find "forbidden" items) in
    let native = (match find_opt "resp" items with
        | Some [S resp] -> not (List.exists (fun s -> contains resp s) forbidden)
        | _ -> true) in
    if native <> flag "sentinel" then add "mismatch" (Printf.sprintf "corr:C14/sentinel go=%b ocaml=%b%s" (flag "sentinel") native tail);
    if not (flag "sentinel") then begin
      let leaked = (match find_opt "resp" items with Some [S resp] -> List.filter (fun s -> contains resp s) forbidden | _ -> []) in
      add "specfail" (Printf.sprintf "sentinel_absent%s data of a denied field in the response bytes: %s%s" (if flag "merged" then "/merged" else "") (String.concat " " leaked) tail) end;
    (* 6 collector_complete on the run + the batch questions *)
    if mode = "pre" then begin
      let seen = List.map tf_of (find "seen" items) and asked = List.map tf_of (find "asked" items) in
      if not (asked_complete_b seen asked) then begin
        let miss = List.filter (fun c -> not (asked_complete_b [c] asked)) seen in
        add "specfail" (Printf.sprintf "collector_complete%s the batch authorizer was not asked about protected coordinate(s) of the response tree: %s%s"
                          (if flag "merged" then "/merged" else "")
                          (String.concat " " (List.map (fun (t, f) -> string_of_bytes t ^ "." ^ string_of_bytes f) miss)) tail) end;
      if not (same_tf_set (batch_questions !cur_coords) asked) then
        add "mismatch" ("corr:C14/authorize_prefetch the recorded AuthorizeFields questions are not the projection of AuthorizationCoordinates" ^ tail)
    end;
    (* 7 fetch_gate on the request log *)
    List.iter (function
        | L [A "rq"; S ds; A op; L (A "roots" :: rs); A planroots] ->
          let roots = List.map (function L [A "r"; S _; S _; p; dn] -> (sbool p, sbool dn) | _ -> raise (Sexp_error "rq root")) rs in
          let names = String.concat " " (List.map (function L [A "r"; S t; S f; _; dn] -> t ^ "." ^ f ^ (if sbool dn then "!" else "") | _ -> "") rs) in
          if mode = "pre" || op <> "query" then
            if not (gate_spec_b (optype_of op) roots true) then
              add "specfail" (Printf.sprintf "fetch_gate%s%s%s a %s request was sent to %s although %s of its root fields [%s] denied (FetchInfo.RootFields of the planned fetch: %s)%s"
                                (if mode = "pre" then "" else "/legacy") (if planroots = "0" then "/no-rootfields" else "")
                                (if find_opt "deferred" items <> None then "/deferred" else "")
                                op ds (if op = "query" then "all" else "one") names planroots tail)
        | _ -> raise (Sexp_error "rq")) (find "reqs" items);
    (* 8 the gate on the planned fetches: the model (rule chosen by the FETCH's operation type, the request's
       only as fallback) against what was sent, and the other direction of the fetch_gate clause: a fetch that
       the rule does not hold back, that was sent without denials and whose inputs are all there, IS sent *)
    if mode = "pre" then begin
      let cache = seed d !cur_coords in
      let planop = (match !cur_plan with Some p -> p.pl_op | None -> optype) in
      List.iter (function
          | L [A "g"; A fid; S ds; A fop; L (A "roots" :: rs); sent; elig; uniq; L [A "req"; A reqop; L (A "roots" :: rrs)]] ->
            let ft = { ft_ds = bs ds; ft_op = optype_of fop; ft_roots = List.map root_of rs } in
            let gate = is_fetch_authorized true planop ft cache in
            let verdict = validate_pre_fetch true planop (Some ft) cache lim_installed limiter in
            let sent = sbool sent and elig = sbool elig in
            if (sent && sbool uniq && not verdict) || (elig && verdict && not sent) then
              add "mismatch" (Printf.sprintf "corr:C14/gate fetch %s to %s: model verdict=%b (gate=%b), sent=%b eligible=%b%s" fid ds verdict gate sent elig tail);
            if elig && not sent && not rejecting && reqop <> "unknown" then begin
              let flags = List.map (function L [A "r"; S _; S _; p; dn] -> (sbool p, sbool dn) | _ -> raise (Sexp_error "req root")) rrs in
              let names = String.concat " " (List.map (function L [A "r"; S t; S f; _; dn] -> t ^ "." ^ f ^ (if sbool dn then "!" else "") | _ -> "") rrs) in
              if not (must_not_send (optype_of reqop) flags) then
                add "specfail" (Printf.sprintf "fetch_gate/suppressed the %s request of fetch %s to %s was NOT sent although %s of its root fields [%s] denied (it is sent without denials and everything it depends on was sent)%s"
                                  reqop fid ds (if reqop = "query" then "not all" else "none") names tail)
            end
          | _ -> raise (Sexp_error "gate")) (find "gates" items)
    end;
    (* 9 a limiter that was never consulted although it is installed and something was sent, or consulted under
       "none", would mean the hooks of the run are not what the line says *)
    if hooks = "none" && (lim_installed || lim_calls > 0) then add "error" ("hooks: limiter active in a run without hooks" ^ tail);
    if !res = [] then [("ok", if num sum "effective" >= 1 then "nt" else "tr")] else List.rev !res)
  | _ -> [("error", "unrecognised case")]

let () = run_lines Sys.argv.(1) Sys.argv.(2) handle
